(* C06 -- callbacks are honoured exactly, merged when simultaneous, never invented.
   Scheduler bookkeeping at message level (Model/Master.v, the same wakeups logic is used by
   the nested scheduler, whose `when <= time` rule is modelled in Model/Sim.v).
   Property theorems only. *)
From TV Require Import Base Model.Wiring Model.Ticker Model.Master Proofs.MasterP Model.PyLib Gen.SourceFuns Proofs.GenWakeupsP Proofs.GenNestedEpilogueP.
Open Scope Z_scope.

(* get_first_wakeups: the time chosen is the earliest pending one, and the components chosen are
   exactly those pending for that time *)
Theorem C06_first_wakeups : forall w when roots,
  first_wakeups w = Some (when, roots) ->
  (forall c x, In (c, x) w -> when <= x) /\ (exists c, In (c, when) w) /\
  (forall c, In c roots <-> In (c, when) w).
Proof. exact first_wakeups_spec. Qed.

(* the tick the timer starts: its time is the earliest pending callback time (so no tick with a
   later time starts while a component is pending: honoured at exactly t); all components pending
   for that time are its roots (merged); exactly their entries are consumed (served once); and it
   is not early in real time *)
Theorem C06_honoured_merged_once : forall conns comps initial num den,
  0 < num -> 0 < den ->
  forall m now r m' o when roots,
    MInv initial num den m now -> now <= r -> env_ok m r ITimer ->
    step conns comps initial num den m r ITimer = (m', o) -> In (OTickStart when roots) o ->
    (forall c x, In (c, x) (mw m) -> when <= x) /\
    (forall c, In c roots <-> In (c, when) (mw m)) /\
    (forall c x, In (c, x) (mw m') <-> In (c, x) (mw m) /\ ~ In c roots).
Proof.
  intros conns comps initial num den Hn Hd m now r m' o when roots HI Hr He Hs Hin.
  apply (timer_tick_spec conns comps initial num den Hn m now r m' o when roots HI Hr He Hs Hin).
Qed.

(* never invented: a tick is started either by IStart (the initial time) or by the timer for a
   time that is a pending wakeup -- and a wakeup only ever is a call_at of an answer or the stamp
   of an interrupt ([on_answer], [interrupt_wake]) *)
Theorem C06_not_invented : forall conns comps initial num den,
  0 < num -> 0 < den ->
  forall m now r i m' o when roots,
    MInv initial num den m now -> step conns comps initial num den m r i = (m', o) ->
    In (OTickStart when roots) o ->
    (i = IStart /\ when = initial) \/ (i = ITimer /\ exists c, In (c, when) (mw m)).
Proof.
  intros conns comps initial num den Hn Hd m now r i m' o when roots HI Hs Hin.
  destruct HI as [Ireal Iwake Itick Isleep Iinit].
  assert (Hplan : forall mm rr m2 o2, plan num den mm rr = (m2, o2) -> ~ In (OTickStart when roots) o2).
  { intros mm rr m2 o2 H. unfold plan in H. destruct (first_wakeups (mw mm)) as [[? ?]|]; inversion H; subst; simpl; intuition discriminate. }
  assert (Hans : forall c t ch ca, on_answer conns comps num den m r c t ch ca = (m', o) -> False).
  { intros c t ch ca H. unfold on_answer in H. destruct (mp m); try (inversion H; subst; destruct Hin as [X|[]]; discriminate).
    destruct (propagate conns comps st c t ch) as [|st' acts fin]; [inversion H; subst; destruct Hin as [X|[]]; discriminate|].
    destruct fin.
    - destruct (m_err m).
      + inversion H; subst. apply in_app_iff in Hin. destruct Hin as [X|[X|[]]]; [apply in_map_iff in X; destruct X as [a [Y _]]|]; discriminate.
      + destruct (plan num den _ r) as [m2 po] eqn:Epl. inversion H; subst.
        apply in_app_iff in Hin. destruct Hin as [X|[X|X]]; [apply in_map_iff in X; destruct X as [a [Y _]]; discriminate | discriminate |].
        eapply Hplan; eassumption.
    - inversion H; subst. apply in_map_iff in Hin. destruct Hin as [a [Y _]]. discriminate. }
  destruct i as [|c t ch ca|c t|c|c|]; simpl in Hs.
  - left. split; [reflexivity|]. destruct (mp m); try (inversion Hs; subst; destruct Hin as [X|[]]; discriminate).
    destruct (begin_tick_spec conns comps _ initial comps (mw m) m' o Hs) as [[_ ->]|[st1 [acts [_ [_ [_ [_ [_ [Ho _]]]]]]]]].
    + destruct Hin as [X|[]]. discriminate.
    + rewrite Ho in Hin. destruct Hin as [X|X]; [inversion X; reflexivity | apply in_map_iff in X; destruct X as [a [Y _]]; discriminate].
  - exfalso. eapply Hans. exact Hs.
  - exfalso. eapply Hans. exact Hs.
  - exfalso. destruct (mp m); try (inversion Hs; subst; destruct Hin as [X|[]]; discriminate); try (inversion Hs; subst; destruct Hin).
    + eapply Hplan; eassumption.
    + eapply Hplan; eassumption.
  - exfalso. destruct (mp m); inversion Hs; subst; try (destruct Hin as [X|[]]; discriminate);
      apply in_map_iff in Hin; destruct Hin as [a [Y _]]; discriminate.
  - right. split; [reflexivity|]. destruct (mp m) as [|st when0| |when1 roots1 d|] eqn:Ep; try (inversion Hs; subst; destruct Hin).
    destruct (Isleep when1 roots1 d eq_refl) as [Hfw _].
    destruct (begin_tick_spec conns comps m when1 roots1 _ m' o Hs) as [[_ ->]|[st1 [acts [_ [_ [_ [_ [_ [Ho _]]]]]]]]].
    + destruct Hin as [X|[]]. discriminate.
    + rewrite Ho in Hin. destruct Hin as [X|X]; [|apply in_map_iff in X; destruct X as [a [Y _]]; discriminate].
      injection X as E1 E2. subst. destruct (first_wakeups_spec _ _ _ Hfw) as [_ [Hex _]]. exact Hex.
Qed.

(* a pending entry is only changed by the component's own later answer (re-plan) or interrupt:
   stated for answers of OTHER components *)
Theorem C06_pending_kept : forall (w : list (comp * Z)) c c' x,
  c' <> c -> lookup c' (upd c x w) = lookup c' w.
Proof. intros w c c' x H. apply lookup_upd_other. exact H. Qed.

Example C06_nonvacuous :
  first_wakeups [(3%positive, 700); (4%positive, 300); (5%positive, 300)] = Some (300, [4%positive; 5%positive]).
Proof. vm_compute. reflexivity. Qed.

(* the tie to the source: [first_wakeups] and the wakeup table update of the master machine ARE
   BaseScheduler.get_first_wakeups / add_wakeup -- the left-hand sides are regenerated from /repo by the function
   translator (harness/gen_funs.py) on every run *)
Theorem C06_first_wakeups_is_source : forall w : list (comp * Z),
  gen_get_first_wakeups w = match first_wakeups w with None => ([], None) | Some (m, r) => (r, Some m) end.
Proof. exact first_wakeups_master_is_source. Qed.

Theorem C06_add_wakeup_is_source : forall (w : list (comp * Z)) c t, gen_add_wakeup w c t = upd c t w.
Proof. exact add_wakeup_is_source. Qed.

(* ... and the callback a nested scheduler hands to the enclosing one after its tick IS the earliest wakeup left
   ([Sim.min_wake], as in [on_tick_level] of Model/Sim.v): the end of NestedScheduler.on_tick, regenerated from /repo *)
Theorem C06_nested_callback_is_source : forall (wk : list (comp * Z)) (ints : list comp) (done : bool) (comps : list comp)
        (inch outch : list (positive * Z)) (time : Z) (chg : list (positive * Z)),
  gen_nested_epilogue wk ints done comps inch outch time chg = (outch, TV.Model.Sim.min_wake wk).
Proof. exact nested_epilogue_is_source. Qed.
