"""C05 -- the initial tick updates every device at every depth exactly once.
(a) whole simulations of generated nestings compared with Model/Sim.v, oracle: every device exactly once at the
    initial time, before any later update (61, 62);
(b) an inner (or top-level) device raises an interrupt at event-loop step k, for every k until the initial tick has
    updated its last device (adapters that interrupt as soon as they start or right after their first update, while
    the initial tick is on its way through the nesting): still every device is updated in the initial tick (63) and
    nothing the initial tick delivered is lost (81)."""
import slevel
import sprops
from common import P, T, run_shards

PID = "C05"
EXT, EXP = 1, 2


def early_part(ck, tier, rng):
    configs = [
        ("nested", {1: dict(order=[(3, "dev"), (4, 2), (7, "dev")], conns=[(3, 1, 4, 1), (4, 1, 7, 1)]),
                    2: dict(order=[(5, "dev"), (6, "dev")], conns=[(EXT, 1, 5, 1), (5, 1, 6, 1), (6, 1, EXP, 1)])},
         {3: (5, 400_000_000, 1), 5: (5, 300_000_000, 0), 6: (5, 600_000_000, 1), 7: (5, 300_000_000, 0)}),
        ("unfed", {1: dict(order=[(3, 2), (8, "dev")], conns=[(3, 1, 8, 1)]),
                   2: dict(order=[(4, "dev"), (5, 3), (9, "dev")], conns=[(4, 1, 5, 1), (5, 1, EXP, 1)]),
                   3: dict(order=[(6, "dev"), (7, "dev")], conns=[(EXT, 1, 6, 1), (7, 1, EXP, 1)])},
         {4: (9, 500_000_000, 1), 6: (9, 300_000_000, 0), 7: (9, 400_000_000, 1), 8: (9, 300_000_000, 0), 9: (9, 300_000_000, 2)}),
    ]
    if tier == "thorough":
        for _ in range(10):
            cfg = slevel.gen_config(rng, depth=rng.choice([1, 2]), p_sys=0.6)
            configs.append(("random", cfg, slevel.gen_devs(rng, cfg, (0, 1, 2))))
    t_end = 700_000_003
    cases, terms = [], []
    for name, cfg, devs in configs:
        ndev = len(slevel.devices_of(cfg))
        for d in slevel.devices_of(cfg):
            for k in range(1, 140):
                r = slevel.run_internal(cfg, devs, (1, 1), 0, [], t_end, inject=(k, d))
                inj = r["inj"]
                if not inj:
                    continue            # the component did not exist yet at that step
                if inj["pos"] > ndev or any(t != 0 for (_, t, _) in r["trace"][:inj["pos"]]):
                    break               # the initial tick has updated everybody: later interrupts are C07's subject
                # before the device's own first update, or after it while the initial tick is still on its way
                during = any(c == d for (c, _, _) in r["trace"][:inj["pos"]])
                cases.append(dict(name=name, cfg=cfg, devs=devs, device=d, step=k, run=r, during=during))
                terms.append(T(slevel.render_sim_case(cfg, devs, (1, 1), 0, [], t_end, r), P(d)))
    # the interrupt is published before the master scheduler has even subscribed (components started first, an adapter
    # interrupting at once, the scheduler coming up a few loop steps later): it is replayed during the scheduler's set-up
    flat = ("flat", {1: dict(order=[(3, "dev"), (4, "dev"), (5, "dev")], conns=[(3, 1, 5, 1), (4, 1, 5, 2)])},
            {3: (3, 400_000_000, 0), 4: (3, 300_000_000, 1), 5: (3, 700_000_000, 0)})
    nlate = 0
    for name, cfg, devs in [flat] + configs[:2]:
        for d in [c for (c, k) in cfg[1]["order"] if k == "dev"]:
            for sd in (3, 6):
                for init in (0, 5_000_000_000):
                    r = slevel.run_internal(cfg, devs, (1, 1), init, [], t_end, delays={"sched": sd}, early=(1, d))
                    if not r.get("early_before_scheduler"):
                        continue
                    nlate += 1
                    cases.append(dict(name=name + "-late-scheduler", cfg=cfg, devs=devs, device=d, step=1, run=r, sched_delay=sd, initial=init))
                    terms.append(T(slevel.render_sim_case(cfg, devs, (1, 1), init, [], t_end, r, pre=[d]), P(d)))
    # a system simulation that comes up after the master has begun its initial tick (its Input is replayed to it while it
    # subscribes): the initial tick still reaches every device inside it
    nlatesys = 0
    for name, cfg, devs in configs[:2]:
        for sysc in [c for (c, k) in cfg[1]["order"] if k != "dev"]:
            for dl in (2, 4, 7):
                r = slevel.run_internal(cfg, devs, (1, 1), 0, [], t_end, delays={sysc: dl})
                nlatesys += 1
                d0 = slevel.devices_of(cfg)[0]
                cases.append(dict(name=name + "-late-system", cfg=cfg, devs=devs, device=d0, step=0, run=r, late_system=[sysc, dl]))
                terms.append(T(slevel.render_sim_case(cfg, devs, (1, 1), 0, [], t_end, r), P(d0)))
    ck.coverage.update(interrupts_before_the_scheduler_subscribed=nlate, late_system_simulations=nlatesys)
    bad = run_shards(PID + "_early", sprops.HEADER, "early_case", "check_initial_early_latest", terms, shard_size=40)
    for i, c in enumerate(cases):
        ck.count(f"early:{c['name']}:{c['device']}:{c['step']}", bool(slevel.path_of(c["cfg"], c["device"])[1]))
        if c["run"]["error"] or c["run"]["errors"] or c["run"].get("unfinished"):
            bad.setdefault(i, []).append(63)
    ck.coverage.update(early_interrupt_runs=len(cases), early_interrupt_disagreements=len(bad),
                       interrupts_during_the_initial_tick_after_the_first_update=sum(1 for c in cases if c.get("during")))
    for i in sorted(bad):
        c = cases[i]
        ck.report("device-not-updated-in-initial-tick-after-an-early-interrupt" if 63 in bad[i] or c["run"]["errors"] else "initial-outputs-lost-after-an-interrupt-during-the-initial-tick",
                  f"device c{c['device']} interrupts at loop step {c['step']}, while the initial tick is on its way ({c['name']}): " +
                  ("some device is not updated in the initial tick" if 63 in bad[i] or c["run"]["errors"] else
                   "some update is not handed the latest value its source reported (what the initial tick delivered is lost)"),
                  dict(kind="early", cfg={str(k): v for k, v in c["cfg"].items()}, devs={str(k): v for k, v in c["devs"].items()},
                       device=c["device"], step=c["step"], late_system=c.get("late_system"), updates=[(cc, t) for (cc, t, _) in c["run"]["trace"]][:40],
                       errors=c["run"]["errors"][:2], sched_delay=c.get("sched_delay"), initial=c.get("initial", 0)))
        break


def main(tier, seed):
    return sprops.main_S(PID, tier, seed, {61, 62}, "Props.C05",
                         ["Model/Sim.v", "Oracle/SimCheck.v", "Oracle/SimOracle.v", "Proofs/SimP.v", "Model/PyLib.v", "Gen/SourceFuns.v", "Proofs/GenNestedPrologueP.v", "Props/C05.v"],
                         "initial tick", "initial", extra=early_part)


def replay(rp):
    if rp.get("kind") != "early":
        return sprops.replay_S(rp)
    cfg = {int(k): dict(order=[(c, (kk if kk == "dev" else int(kk))) for c, kk in v["order"]], conns=[tuple(x) for x in v["conns"]]) for k, v in rp["cfg"].items()}
    devs = {int(k): tuple(v) for k, v in rp["devs"].items()}
    if rp.get("late_system"):
        r = slevel.run_internal(cfg, devs, (1, 1), 0, [], 700_000_003, delays={rp["late_system"][0]: rp["late_system"][1]})
        term = slevel.render_sim_case(cfg, devs, (1, 1), 0, [], 700_000_003, r)
    elif rp.get("sched_delay"):
        r = slevel.run_internal(cfg, devs, (1, 1), rp.get("initial", 0), [], 700_000_003, delays={"sched": rp["sched_delay"]}, early=(1, rp["device"]))
        term = slevel.render_sim_case(cfg, devs, (1, 1), rp.get("initial", 0), [], 700_000_003, r, pre=[rp["device"]])
    else:
        r = slevel.run_internal(cfg, devs, (1, 1), 0, [], 700_000_003, inject=(rp["step"], rp["device"]))
        term = slevel.render_sim_case(cfg, devs, (1, 1), 0, [], 700_000_003, r)
    bad = run_shards("replay", sprops.HEADER, "early_case", "check_initial_early_latest", [T(term, P(rp["device"]))])
    print("updates (device, time):", [(c, t) for (c, t, _) in r["trace"]][:40], "errors:", r["errors"][:2])
    print("codes:", bad.get(0, []))
    return 1 if bad or r["errors"] else 0
