From TV Require Import Base Model.Wiring Model.Component Model.Sim Model.WakeFlag.
Open Scope Z_scope.

Lemma min_wake_cons_some e l : exists m, min_wake (e :: l) = Some m.
Proof.
  unfold min_wake. cbn [fold_left].
  assert (H : forall l (x : Z), exists m, fold_left (fun m (e : comp * Z) => match m with None => Some (snd e) | Some y => Some (Z.min y (snd e)) end) l (Some x) = Some m).
  { induction l0 as [|a r IH]; intros x; cbn [fold_left]; [exists x; reflexivity | apply IH]. }
  apply H.
Qed.

Lemma first_wakeups_nonempty wk : wk <> [] -> first_wakeups wk <> None.
Proof.
  destruct wk as [|e l]; [congruence|]. intros _. unfold first_wakeups.
  destruct (min_wake_cons_some e l) as [m ->]. discriminate.
Qed.

(* the invariant: the master never waits idle with a stale flag, and has not failed *)
Definition WInv (s : wstate) : Prop :=
  w_pc s <> WFailed /\ (w_pc s = WIdle -> w_flag s = true -> w_wk s <> []).

Lemma after_get_ok wk : wk <> [] -> WInv (after_get wk).
Proof.
  intros H. unfold after_get. destruct (first_wakeups wk) as [[when comps]|] eqn:E.
  - split; cbn; [discriminate | intros Hc; discriminate].
  - exfalso. apply (first_wakeups_nonempty wk H E).
Qed.

Lemma head_ok wk flag : WInv (head true wk flag).
Proof.
  unfold head. destruct wk as [|e l].
  - cbn. split; cbn; [discriminate | intros _ Hf; discriminate].
  - apply after_get_ok. discriminate.
Qed.

Lemma upd_nonempty {A} k (v : A) l : upd k v l <> [].
Proof. destruct l as [|[k' v'] r]; cbn; [discriminate | destruct (Pos.eqb k k'); discriminate]. Qed.

Lemma wstep_inv s e s' : WInv s -> wstep true s e = Some s' -> WInv s'.
Proof.
  intros [Hnf Hidle] H. unfold wstep in H. destruct e as [c w| |nd|].
  - destruct (w_pc s) eqn:Epc; try (inversion H; subst; clear H; split; cbn; [congruence | intros _ _; apply upd_nonempty]).
    contradiction.
  - destruct (w_pc s) eqn:Epc; try discriminate; [|contradiction].
    destruct (w_flag s) eqn:Ef; [|discriminate]. inversion H; subst. apply after_get_ok. apply Hidle; reflexivity.
  - destruct (w_pc s) eqn:Epc; try discriminate; [|contradiction].
    destruct nd.
    + destruct (w_flag s); [|discriminate]. inversion H; subst. apply head_ok.
    + inversion H; subst. split; cbn; [discriminate | intros Hc; discriminate].
  - destruct (w_pc s) eqn:Epc; try discriminate; [|contradiction].
    inversion H; subst. apply head_ok.
Qed.

Lemma wrun_inv h : forall s, WInv s -> WInv (wrun true s h).
Proof.
  induction h as [|e r IH]; intros s Hs; [exact Hs|]. cbn [wrun]. apply IH.
  destruct (wstep true s e) as [s'|] eqn:E; [eapply wstep_inv; eassumption | exact Hs].
Qed.

Theorem never_fails wk h : w_pc (wrun true (winit true wk) h) <> WFailed.
Proof. apply wrun_inv. apply head_ok. Qed.

(* without the clearing, the interrupt that coincides with the end of the sleep kills the master *)
Theorem fails_without_clear :
  w_pc (wrun false (winit false [(3%positive, 300)])
                   [EAdd 3%positive 300; EResume false; ETickDone]) = WFailed.
Proof. vm_compute. reflexivity. Qed.
