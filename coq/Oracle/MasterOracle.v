(* C07 / C04 / C12 read off the observed behaviour of the real MasterScheduler at message level
   (events with their real times and the outputs observed after each). *)
From TV Require Import Base Model.Wiring Model.Ticker Model.Master.
Open Scope Z_scope.

Definition failed (outs : list mout) : bool := existsb (fun o => match o with OFail => true | _ => false end) outs.
Definition is_root_start (c : comp) (o : mout) : bool :=
  match o with OTickStart _ roots => memb c roots | _ => false end.
Definition is_update_of (c : comp) (o : mout) : bool :=
  match o with OAct (Upd c' _ _) => Pos.eqb c' c | _ => false end.
Definition positive_sleep (r : Z) (o : mout) : bool :=
  match o with OArm d => Z.ltb r d | _ => false end.
(* After an interrupt of c raised at real time r: until c is served -- dispatched as a root or
   later in the running tick, or its own Output arrives after its Interrupt on the same topic
   (per-topic FIFO: that update began after the interrupt) -- the scheduler never sleeps beyond
   r + (real time spent processing ticks): the full duration of the tick in progress at r plus
   the durations of the ticks run since.  With negligible processing cost that is "at once";
   with only the tick in progress costing time it is the bound the property states.
   [cur] = start of the tick currently running, [bound] = latest admissible wake-up so far
   (2 ns of slack per tick for the whole-ns rounding of the float arithmetic). *)
Fixpoint scan_outs (re : Z) (cur : option Z) (bound : Z) (outs : list mout) : bool * option Z * Z :=
  match outs with
  | [] => (true, cur, bound)
  | o :: rest =>
      match o with
      | OTickStart _ _ => scan_outs re (Some re) bound rest
      | OTickEnd _ =>
          let bound' := match cur with Some s => bound + (re - s) + 2 | None => bound end in
          scan_outs re None bound' rest
      | OArm d => if Z.ltb bound d then (false, cur, bound) else scan_outs re cur bound rest
      | _ => scan_outs re cur bound rest
      end
  end.

Fixpoint owed_ok (c : comp) (cur : option Z) (bound : Z) (evs : list (Z * min)) (obs : list (list mout)) : bool :=
  match evs, obs with
  | (re, i) :: evs', outs :: obs' =>
      if existsb (fun o => is_root_start c o || is_update_of c o) outs
         || (match i with IOutput c' _ _ _ => Pos.eqb c' c && negb (failed outs) | _ => false end) then true
      else
        let '(ok, cur', bound') := scan_outs re cur bound outs in
        ok && owed_ok c cur' bound' evs' obs'
  | _, _ => true
  end.

(* real time at which the tick in progress (if any) started, after these outputs *)
Definition track_tick (cur : option Z) (re : Z) (outs : list mout) : option Z :=
  fold_left (fun c o => match o with OTickStart _ _ => Some re | OTickEnd _ => None | _ => c end) outs cur.

(* 75: slept too long although an interrupt was owed; 76: the interrupt handler itself failed *)
Fixpoint interrupts_ok (seen_start : bool) (cur : option Z) (evs : list (Z * min)) (obs : list (list mout)) : list Z :=
  match evs, obs with
  | (r, i) :: evs', outs :: obs' =>
      (match i with
       | IInterrupt c =>
           if seen_start then
             (if failed outs then [76]
              else
                let '(ok0, cur0, bound0) := scan_outs r cur (r + 2) outs in
                if ok0 && owed_ok c cur0 bound0 evs' obs' then [] else [75])
           else []
       | _ => []
       end) ++
      interrupts_ok (seen_start || match i with IStart => true | _ => false end) (track_tick cur r outs) evs' obs'
  | _, _ => []
  end.

(* C04 at message level: ticks never overlap, every dispatch carries the time of the running
   tick, tick times never decrease (47, 48, 46) *)
Fixpoint serial_ok (cur : option Z) (last : option Z) (outs : list mout) : list Z * option Z * option Z :=
  match outs with
  | [] => ([], cur, last)
  | o :: r =>
      match o with
      | OTickStart t _ =>
          let e1 := match cur with Some _ => [47] | None => [] end in
          let e2 := match last with Some l => if Z.ltb t l then [46] else [] | None => [] end in
          let '(e, c', l') := serial_ok (Some t) (Some t) r in (e1 ++ e2 ++ e, c', l')
      | OTickEnd t =>
          let e1 := match cur with Some t' => if Z.eqb t t' then [] else [47] | None => [47] end in
          let '(e, c', l') := serial_ok None last r in (e1 ++ e, c', l')
      | OAct a =>
          let e1 := match cur with Some t' => if Z.eqb (act_time a) t' then [] else [48] | None => [48] end in
          let '(e, c', l') := serial_ok cur last r in (e1 ++ e, c', l')
      | _ => serial_ok cur last r
      end
  end.

Fixpoint serial_all (cur last : option Z) (obs : list (list mout)) : list Z :=
  match obs with
  | [] => []
  | outs :: r => let '(e, c', l') := serial_ok cur last outs in e ++ serial_all c' l' r
  end.

Definition oracle_master (c : master_case) : list Z :=
  interrupts_ok false None (mc_events c) (mc_observed c) ++ serial_all None None (mc_observed c).

Definition check_master_all (c : master_case) : list Z := check_master c ++ oracle_master c.
