(* Inlining one system simulation into the level that contains it: the "mechanical flattening" of
   C09, one system at a time.  The system component c (inner level lvc) of the top level is
   replaced by the components of its inner level; wires through its external / exposed ports
   become direct wires.  Definitions only. *)
From TV Require Import Base Model.Wiring Model.Ticker Model.Component Model.Sim.

Definition conn_src (k : conn) : comp * port := let '(u, p, _, _) := k in (u, p).
Definition conn_dst (k : conn) : comp * port := let '(_, _, c, q) := k in (c, q).

Section Inline.
Variable cfg : config.
Variable c : comp.            (* the system component *)
Variable lvc : positive.      (* its inner level *)

Definition top_level : level := level_of cfg top.
Definition in_level : level := level_of cfg lvc.

(* wires of the top level that do not touch c *)
Definition conns_A : list conn :=
  filter (fun k : conn => negb (Pos.eqb (out_comp k) c) && negb (Pos.eqb (in_comp k) c)) (l_conns top_level).
(* x.p -> c.q -> [external q -> d.q'] *)
Definition conns_B : list conn :=
  flat_map (fun k : conn => let '(x, p, ic, q) := k in
              if Pos.eqb ic c then
                flat_map (fun k2 : conn => let '(u2, p2, d, q') := k2 in
                            if Pos.eqb u2 ext_id && Pos.eqb p2 q && negb (Pos.eqb d exp_id) then [(x, p, d, q')] else [])
                         (l_conns in_level)
              else [])
           (l_conns top_level).
(* [d.p -> expose o] -> c.o -> y.q *)
Definition conns_C : list conn :=
  flat_map (fun k2 : conn => let '(d, p, e, o) := k2 in
              if Pos.eqb e exp_id && negb (Pos.eqb d ext_id) then
                flat_map (fun k : conn => let '(oc, op, y, q) := k in
                            if Pos.eqb oc c && Pos.eqb op o then [(d, p, y, q)] else [])
                         (l_conns top_level)
              else [])
           (l_conns in_level).
(* wires between inner components *)
Definition conns_D : list conn :=
  filter (fun k : conn => negb (Pos.eqb (out_comp k) ext_id) && negb (Pos.eqb (in_comp k) exp_id)) (l_conns in_level).

(* pass-through ports: x.p -> c.q -> [external q -> expose o] -> c.o -> y.q' *)
Definition conns_E : list conn :=
  flat_map (fun k : conn => let '(x, p, ic, q) := k in
              if Pos.eqb ic c then
                flat_map (fun k2 : conn => let '(u2, q2, e, o) := k2 in
                            if Pos.eqb u2 ext_id && Pos.eqb q2 q && Pos.eqb e exp_id then
                              flat_map (fun k3 : conn => let '(oc, op, y, q') := k3 in
                                          if Pos.eqb oc c && Pos.eqb op o then [(x, p, y, q')] else [])
                                       (l_conns top_level)
                            else [])
                         (l_conns in_level)
              else [])
           (l_conns top_level).

Definition inline_order : list (comp * ckind) :=
  flat_map (fun ck : comp * ckind => if Pos.eqb (fst ck) c then l_order in_level else [ck]) (l_order top_level).

Definition inline : config :=
  upd top {| l_order := inline_order; l_conns := conns_A ++ conns_B ++ conns_C ++ conns_D ++ conns_E |} cfg.
End Inline.

(* ---------- the configurations the inlining theorem speaks about, as a decision procedure:
   a top level made of devices and exactly one system simulation whose inner level holds devices
   only; distinct identifiers; every input port fed by at most one wire; wires only between
   components of their level; no wire from the system to itself and none straight from an
   external port to an exposed port.  Returns the system, its level and the three device lists. *)
Definition is_dev (ck : comp * ckind) : bool := match snd ck with KDev => true | KSys _ => false end.

Fixpoint split_sys (l : list (comp * ckind)) : option (list comp * comp * positive * list comp) :=
  match l with
  | [] => None
  | (x, KDev) :: r => match split_sys r with
                      | Some (pre, c, lv, post) => Some (x :: pre, c, lv, post)
                      | None => None
                      end
  | (x, KSys lv) :: r => if forallb is_dev r then Some ([], x, lv, map fst r) else None
  end.

Definition single_sourceb (cs : list conn) : bool :=
  forallb (fun k : conn => forallb (fun k' : conn =>
     let '(oc, op, ic, ip) := k in let '(oc', op', ic', ip') := k' in
     if Pos.eqb ic ic' && Pos.eqb ip ip' then Pos.eqb oc oc' && Pos.eqb op op' else true) cs) cs.

Definition shape_of (cfg : config) : option (comp * positive * list comp * list comp * list comp) :=
  match split_sys (l_order (level_of cfg top)) with
  | None => None
  | Some (pre, c, lvc, post) =>
      let inner := l_order (level_of cfg lvc) in
      let inn := map fst inner in
      if forallb is_dev inner
         && nodupb (c :: ext_id :: exp_id :: pre ++ inn ++ post)
         && negb (Pos.eqb lvc top)
         && single_sourceb (l_conns (level_of cfg top)) && single_sourceb (l_conns (level_of cfg lvc))
         && forallb (fun k : conn => let '(u, _, y, _) := k in
                       memb u (c :: pre ++ post) && memb y (c :: pre ++ post) && negb (Pos.eqb u c && Pos.eqb y c))
                    (l_conns (level_of cfg top))
         && forallb (fun k : conn => let '(u, _, e, _) := k in
                       memb u (ext_id :: inn) && memb e (exp_id :: inn) && negb (Pos.eqb u ext_id && Pos.eqb e exp_id))
                    (l_conns (level_of cfg lvc))
      then Some (c, lvc, pre, inn, post) else None
  end.

(* ---------- a flat level in topological order, as a decision procedure (sound for [flat_wf],
   Proofs/InlineLatestP.v) *)
Fixpoint prefix_before (c : comp) (names : list comp) : list comp :=
  match names with
  | [] => []
  | x :: r => if Pos.eqb x c then [] else x :: prefix_before c r
  end.

Definition flat_wfb (l : level) : bool :=
  let names := map fst (l_order l) in
  forallb is_dev (l_order l) && nodupb names && single_sourceb (l_conns l)
  && forallb (fun k : conn => let '(u, _, c, _) := k in memb u names && memb c names && memb u (prefix_before c names)) (l_conns l)
  && forallb (fun c : comp => negb (Pos.eqb c ext_id) && negb (Pos.eqb c exp_id)) names.
