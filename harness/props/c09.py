import json

import slevel
import sprops

PID = "C09"


def main(tier, seed):
    return sprops.main_pairs(PID, tier, seed, {71, 61, 62, 81}, "Props.C09",
                             ["Model/Sim.v", "Model/SimTime.v", "Model/Inline.v", "Oracle/SimCheck.v", "Oracle/SimOracle.v", "Proofs/SimP.v",
                              "Proofs/FlattenP.v", "Proofs/EqvP.v", "Proofs/WakeWfP.v", "Proofs/InlineP.v", "Proofs/InlineLoopP.v",
                              "Proofs/InlineScopeP.v", "Proofs/NonInterfLoopP.v", "Proofs/SimTimeP.v", "Model/NSim.v", "Proofs/InlineLatestP.v",
                              "Proofs/Confluence2P.v", "Proofs/ScheduleP.v", "Proofs/SimTraceP.v", "Proofs/ParDevP.v", "Proofs/EqvCongP.v", "Proofs/AgreeP.v", "Proofs/FrameP.v", "Proofs/FuelP.v", "Proofs/InlineAllP.v", "Oracle/ScopeCheck.v", "Model/Interrupts.v", "Proofs/InterruptsP.v", "Oracle/XScriptOracle.v",
                              "Proofs/Confluence3P.v", "Model/NNSim.v", "Proofs/NScheduleP.v", "Proofs/NDetP.v", "Proofs/NDetScopeP.v", "Proofs/NDetXP.v", "Proofs/SimNTP.v", "Props/C09.v"],
                             "transparency of system simulations", "flatten", extra_part=burst_part)


def replay(rp):
    if rp.get("kind") == "burst":
        return replay_burst(rp)
    return sprops.replay_pair(rp)


BURST_HEADER = ("From TV Require Import Base Model.Wiring Model.Ticker Model.Component Model.Sim Model.Interrupts "
                "Oracle.SimCheck Oracle.SimOracle Oracle.XScriptOracle.")
BURST_REASONS = {57: "nested-run-differs-from-interrupt-script-model", 58: "flat-run-differs-from-interrupt-script-model",
                 73: "harness-flattening-differs-from-coq-flatten", 71: "nested-and-flattened-configuration-observe-differently",
                 76: "interrupts-of-one-system-share-the-earliest-stamp", 99: "simulation-stalled-or-raised"}
WITNESS = dict(cfg={1: dict(order=[(3, "dev"), (4, 2)], conns=[]), 2: dict(order=[(5, "dev"), (6, "dev")], conns=[])},
               devs={3: (1, 0, 0), 5: (2, 0, 0), 6: (3, 0, 0)}, initial=0)


def run_bursts(cfg, devs, initial, bursts):
    """bursts: [(real ns, [(device, ns of processor time that pass before it raises), ...])]: the devices of a burst
    raise their interrupts one after the other without the event loop (hence the master) running in between.
    returns (run, [[(device, stamp)]]): the stamp is the wakeup time the master recorded for that interrupt"""
    import asyncio
    stamps = []

    def on_start(loop, sched):
        log = []
        orig = sched.add_wakeup

        def add_wakeup(component, when):
            log.append(int(when))
            return orig(component, when)
        sched.add_wakeup = add_wakeup

        async def go():
            for (t, members) in bursts:
                await asyncio.sleep(t / 1e9 - loop.vt)
                cur = []
                for (d, gap) in members:
                    loop.vt += gap / 1e9
                    n = len(log)
                    await slevel.REG[d].raise_interrupt()
                    cur.append((d, log[n] if len(log) > n else None))
                stamps.append(cur)
        loop.create_task(go())
    t_end = max(t for t, _ in bursts) + 400_000_003
    r = slevel.run_internal(cfg, devs, (1, 1), initial, [], t_end, on_start=on_start)
    return r, stamps


def render_burst(c, rn, stamps, rf):
    from common import L, P, T, Zr
    cfg = c["cfg"]
    items = []
    for cur in stamps:
        for (d, w) in cur:
            lvc, path = slevel.path_of(cfg, d)
            items.append("XStim %s %s %s %s" % (P(d), P(lvc), L(T(P(l), P(x)) for l, x in path), Zr(w)))
        items += ["XTick"] * (len(cur) + 1)

    def obs(per):
        return L(T(P(d), L(T(Zr(t), slevel.r_values(i)) for t, i in per.get(d, []))) for d in sorted(slevel.devices_of(cfg)))
    return ("{| xc_cfg := %s; xc_flat := %s; xc_devs := %s; xc_initial := %s; xc_script := %s; xc_obsN := %s; xc_obsF := %s |}" % (
        slevel.r_config(cfg), slevel.r_config(sprops.flatten(cfg)), slevel.r_devs(c["devs"]), Zr(c["initial"]), L(items), obs(rn["per"]), obs(rf["per"])))


def eval_burst(c):
    rn, sn = run_bursts(c["cfg"], c["devs"], c["initial"], c["bursts"])
    rf, sf = run_bursts(sprops.flatten(c["cfg"]), c["devs"], c["initial"], c["bursts"])
    # the stamps are read off the FLAT run, where every device has a wakeup entry of its own (in the nested run the master
    # only sees the outermost system simulation and keeps the earlier of two stamps)
    ok = all(w is not None for cur in sf for _, w in cur) and len(sf) == len(c["bursts"]) and not rn["error"] and not rf["error"] and not rn["errors"] and not rf["errors"]
    return rn, rf, sn, sf, ok


def burst_part(ck, tier, rng):
    """C09 with interrupts raised back to back (the master cannot run in between) and processor time passing between
    them: nested and flat run of the real schedulers against the interrupt-script model (Model/Interrupts.v)"""
    from common import run_shards
    cases = [dict(WITNESS, bursts=[(1_000_000_000, [(5, 0), (6, 1_000_000)])], name="witness of C09_inner_interrupts_refuted"),
             dict(WITNESS, bursts=[(1_000_000_000, [(5, 0), (6, 0)])], name="the same with equal stamps"),
             dict(WITNESS, bursts=[(1_000_000_000, [(3, 0), (6, 1_000_000)])], name="a top-level device and an inner device")]
    for _ in range({"quick": 40, "thorough": 600}[tier]):
        cfg = slevel.gen_config(rng, depth=rng.choice([1, 2, 2, 3]), p_sys=0.5)
        if slevel.depth_of(cfg) < 2:
            continue
        devs = {d: (rng.randrange(1000), 0, 0) for d in slevel.devices_of(cfg)}     # devices that never ask to be called back
        ds = slevel.devices_of(cfg)
        bursts, t = [], 0
        for _ in range(rng.randint(1, 3)):
            t += rng.choice([200_000_000, 500_000_000])
            members = [(rng.choice(ds), rng.choice([0, 0, 1_000, 250_000, 2_000_000])) for _ in range(rng.randint(2, 3))]
            bursts.append((t, members))
        cases.append(dict(cfg=cfg, devs=devs, initial=rng.choice([0, 0, 3_000_000_000]), bursts=bursts, name="generated"))
    runs, terms = [], []
    for c in cases:
        rn, rf, sn, sf, ok = eval_burst(c)
        runs.append((rn, rf, sf, ok))
        terms.append(render_burst(c, rn, sf if ok else [], rf))
    bad = run_shards(PID + "_bursts", BURST_HEADER, "xcase", "check_xcase", terms, shard_size=8)
    for i, (rn, rf, sn, ok) in enumerate(runs):
        if not ok:
            bad.setdefault(i, []).append(99)
    ck.evaluations += 2 * len(cases)
    known = sum(1 for i in bad if bad[i] == [76])
    ck.coverage.update(interrupt_burst_pairs=len(cases), interrupt_burst_pairs_sharing_a_stamp=known,
                       interrupt_burst_disagreements=len([i for i in bad if bad[i] != [76]]))
    for c in cases:
        ck.count("burst:" + json.dumps([{str(k): v for k, v in c["cfg"].items()}, c["bursts"], c["initial"]], sort_keys=True, default=str),
                 sum(len(m) for _, m in c["bursts"]) >= 2)
    done = set()
    for i in sorted(bad):
        for code in bad[i]:
            if code in done:
                continue
            done.add(code)
            c, (rn, rf, sn, ok) = cases[i], runs[i]
            d = dict(kind="burst", cfg={str(k): v for k, v in c["cfg"].items()}, devs={str(k): v for k, v in c["devs"].items()},
                     initial=c["initial"], bursts=c["bursts"], stamps=sn, codes=bad[i],
                     observed_nested={str(k): v for k, v in rn["per"].items()}, observed_flat={str(k): v for k, v in rf["per"].items()},
                     errors=[rn["error"], rf["error"]] + rn["errors"] + rf["errors"])
            if code in (71, 76, 99):
                ck.report(BURST_REASONS[code], f"interrupts raised back to back ({c['name']}): {BURST_REASONS[code]}", d)
            elif not any(x in (71, 99) for x in bad[i]):
                d["broken"] = "correspondence Model/Interrupts.v vs the schedulers (interrupt scripts); C09_inner_interrupts_refuted and the script theorems of Props.C09"
                ck.report("correspondence-broken", "interrupt-script model and implementation disagree on interrupts raised back to back", d, no_input=True)


def replay_burst(rp):
    from common import run_shards
    cfg = {int(k): dict(order=[(c, (kk if kk == "dev" else int(kk))) for c, kk in v["order"]], conns=[tuple(x) for x in v["conns"]]) for k, v in rp["cfg"].items()}
    c = dict(cfg=cfg, devs={int(k): tuple(v) for k, v in rp["devs"].items()}, initial=rp["initial"],
             bursts=[(t, [tuple(m) for m in ms]) for t, ms in rp["bursts"]])
    rn, rf, sn, sf, ok = eval_burst(c)
    bad = run_shards("replay", BURST_HEADER, "xcase", "check_xcase", [render_burst(c, rn, sf if ok else [], rf)])
    print("bursts:", c["bursts"], "stamps:", sf)
    print("nested:", rn["per"])
    print("flat:  ", rf["per"])
    codes = bad.get(0, []) + ([] if ok else [99])
    print("codes:", codes, [BURST_REASONS.get(x) for x in codes])
    return 1 if codes else 0
