"""C17 -- configuration files build exactly the simulation they describe.
Generated families of config classes (several with identical field signatures, equal class names
in different modules, subclasses of subclasses) are written as real modules; YAML files listing
entries in random order, nested to depth 3, are loaded through read_configs / build_simulation.
(a) a fresh tagged-union base per case: every Define / Validate history over <= 3 classes in 2
    modules (import order = which tag is seen first) compared with Model/Config.v's registry;
(b) ComponentConfig itself: class chosen per entry at every depth, field values, the wiring handed
    to the scheduler, the selected components, dump/load round trip."""
import dataclasses
import importlib
import itertools
import json
import os
import random
import shutil
import sys
import uuid

from common import Check, P, Zr, L, T, O, B, run_shards, WORK

PID = "C17"
HEADER = "From TV Require Import Base Model.Wiring Model.Config."
REASONS = {141: "entry-built-as-another-class-or-rejection-differs", 142: "scheduler-wiring-is-not-the-declared-inputs",
           143: "selected-components-differ", 144: "field-values-differ", 145: "dump-load-round-trip-differs",
           146: "edited-file-loaded-again-gives-the-old-configuration"}
MODROOT = WORK / "c17_mods"


def fresh_pkg():
    MODROOT.mkdir(parents=True, exist_ok=True)
    if str(MODROOT) not in sys.path:
        sys.path.insert(0, str(MODROOT))
    name = "m" + uuid.uuid4().hex[:10]
    d = MODROOT / name
    d.mkdir()
    (d / "__init__.py").write_text("")
    importlib.invalidate_caches()
    return name, d


# ---------------------------------------------------------------- (a) registry histories on a fresh base
def registry_case(rng, plan):
    """plan: list of modules, each a list of class short names; events: list of ('v', mod idx, cls idx | 'missing')"""
    from pydantic.v1 import parse_obj_as

    pkg, d = fresh_pkg()
    (d / "base.py").write_text(
        "import pydantic.v1.dataclasses\nfrom tickit.utils.configuration.tagged_union import as_tagged_union\n\n"
        "@as_tagged_union\n@pydantic.v1.dataclasses.dataclass\nclass Base:\n    name: str\n")
    mods, events = plan
    ids = {}
    for mi, classes in enumerate(mods):
        src = f"import pydantic.v1.dataclasses\nfrom {pkg}.base import Base\n\n"
        for cname, parent in classes:
            par = "Base" if parent is None else parent
            src += f"@pydantic.v1.dataclasses.dataclass\nclass {cname}({par}):\n    x: int = 0\n\n"
            ids[f"{pkg}.mod{mi}.{cname}"] = len(ids) + 1
        (d / f"mod{mi}.py").write_text(src)
    importlib.invalidate_caches()
    base = importlib.import_module(f"{pkg}.base").Base
    imported = set()
    cevs, results = [], []
    for ev in events:
        mi, ci = ev
        if ci == "import":
            # the module is imported the ordinary way (not through a tag): its classes register themselves
            if mi not in imported:
                imported.add(mi)
                importlib.import_module(f"{pkg}.mod{mi}")
                for cname, _ in mods[mi]:
                    cevs.append(("D", ids[f"{pkg}.mod{mi}.{cname}"]))
            continue
        if ci == "missing":
            tag = f"{pkg}.mod{mi}.Nope"
            known, tagid = False, 99
        elif ci == "nomodule":
            tag = f"{pkg}.modX.C"
            known, tagid = False, 98
        else:
            tag = f"{pkg}.mod{mi}.{mods[mi][ci][0]}"
            known, tagid = True, ids[tag]
        if known or ci == "missing":
            if mi not in imported:
                imported.add(mi)
                for cname, _ in mods[mi]:
                    cevs.append(("D", ids[f"{pkg}.mod{mi}.{cname}"]))
        cevs.append(("V", tagid, known))
        try:
            obj = parse_obj_as(base, {"type": tag, "name": "n", "x": 5})
            full = f"{type(obj).__module__}.{type(obj).__qualname__}"
            ok_fields = obj.name == "n" and obj.x == 5
            results.append(("C", ids.get(full, 97), ok_fields))
        except Exception:
            results.append(("R",))
    return dict(initial=[], events=cevs, results=results)


def gen_registry_plans(tier, rng):
    plans = []
    shapes = [
        [[("A", None)]],
        [[("A", None), ("B", None)]],
        [[("A", None)], [("A", None)]],                      # same class name in two modules
        [[("A", None), ("B", "A")], [("C", None)]],          # subclass of a subclass
        [[("A", None), ("B", None)], [("B", None), ("C", None)]],
    ]
    n = 3 if tier == "quick" else 4
    for mods in shapes:
        targets = ([(mi, ci) for mi, cl in enumerate(mods) for ci in range(len(cl))] + [(0, "missing"), (0, "nomodule")] +
                   [(mi, "import") for mi in range(len(mods))])
        for seq in itertools.product(targets, repeat=n):
            plans.append((mods, list(seq)))
    rng.shuffle(plans)
    return plans[:{"quick": 260, "thorough": 4000}[tier]]


# ---------------------------------------------------------------- (b) full loading path
def make_library(rng):
    """two modules of ComponentConfig subclasses with overlapping class names and identical signatures"""
    pkg, d = fresh_pkg()
    classes = {}
    for mi in range(2):
        src = ("import pydantic.v1.dataclasses\nfrom tickit.core.components.component import Component, ComponentConfig\n"
               "from tickit.core.components.device_component import DeviceComponent\nfrom tickit.devices.sink import SinkDevice\n\n")
        for cname in (["Dev", "Amp", "Box"] if mi == 0 else ["Dev", "Amp", "Pump"]):
            extra = rng.choice(["", "", "    gain: int = 1\n", "    gain: int = 1\n    label: str = 'x'\n"])
            src += (f"@pydantic.v1.dataclasses.dataclass\nclass {cname}(ComponentConfig):\n{extra}"
                    f"    def __call__(self) -> Component:\n        return DeviceComponent(name=self.name, device=SinkDevice())\n\n")
            classes[f"{pkg}.lib{mi}.{cname}"] = [f.strip().split(":")[0] for f in extra.splitlines() if f.strip()]
        (d / f"lib{mi}.py").write_text(src)
    importlib.invalidate_caches()
    return pkg, d, classes


def gen_entries(rng, classes, depth, names, prefix=""):
    """returns (yaml-able list, expected flat description)"""
    entries = []
    n = rng.randint(1, 4)
    local = []
    for i in range(n):
        nm = f"{prefix}c{len(names)}"
        names.append(nm)
        inputs = {}
        for p in range(rng.randint(0, 2)):
            if local:
                inputs[f"in{p}"] = dict(component=rng.choice(local), port=rng.choice(["out", "aux"]))
        if depth > 0 and rng.random() < 0.35:
            inner = gen_entries(rng, classes, depth - 1, names, prefix)
            inner_names = [e["name"] for e in inner]
            e = dict(type="tickit.core.components.system_component.SystemSimulation", name=nm, inputs=inputs,
                     components=inner, expose={"o": dict(component=rng.choice(inner_names), port="out")})
        else:
            tag = rng.choice(sorted(classes) + ["tickit.devices.sink.Sink", "tickit.devices.iobox.IoBox"])
            e = dict(type=tag, name=nm, inputs=inputs)
            for f in classes.get(tag, []):
                e[f] = rng.randint(2, 9) if f == "gain" else f"lab{rng.randint(0, 9)}"
        entries.append(e)
        local.append(nm)
    return entries


def walk(entries, objs, out):
    for e, o in zip(entries, objs):
        full = f"{type(o).__module__}.{type(o).__qualname__}"
        fields_ok = o.name == e["name"] and all(getattr(o, k) == v for k, v in e.items() if k in ("gain", "label"))
        fields_ok = fields_ok and {k: (v.component, v.port) for k, v in o.inputs.items()} == {k: (v["component"], v["port"]) for k, v in e["inputs"].items()}
        out.append((e["type"], full, fields_ok))
        if "components" in e:
            fields_ok2 = {k: (v.component, v.port) for k, v in o.expose.items()} == {k: (v["component"], v["port"]) for k, v in e["expose"].items()}
            out.append((e["type"], full, fields_ok2))
            walk(e["components"], o.components, out)


def loading_case(rng, tier):
    import yaml
    from tickit.core.components.component import ComponentConfig
    from tickit.core.management.event_router import InverseWiring
    from tickit.core.simulation import build_simulation
    from tickit.utils.configuration.loading import read_configs

    # the shipped config classes are registered from the start
    import tickit.core.components.system_component, tickit.devices.iobox, tickit.devices.sink, tickit.devices.source  # noqa
    pkg, d, classes = make_library(rng)
    # half of the cases run with debug logging switched on (records are made and thrown away): what is loaded and built
    # must not depend on the logging level
    import logging
    lg = logging.getLogger("tickit")
    if not any(isinstance(h, logging.NullHandler) for h in lg.handlers):
        lg.addHandler(logging.NullHandler())
    lg.propagate = False
    debug = rng.random() < 0.5
    lg.setLevel(logging.DEBUG if debug else logging.WARNING)
    names = []
    entries = gen_entries(rng, classes, rng.choice([0, 1, 2, 3]), names)
    bad_tag = rng.random() < 0.15
    if bad_tag:
        entries.append(dict(type=rng.choice([f"{pkg}.lib0.Nope", f"{pkg}.libZ.Dev", "nonexistent_pkg_xyz.Dev"]), name="bad", inputs={}))
    path = d / "sim.yaml"
    path.write_text(yaml.safe_dump(entries, sort_keys=False))
    tagids = {}

    def tid(t):
        return tagids.setdefault(t, len(tagids) + 1)

    rc = ComponentConfig._ref_classes
    initial = sorted(tid(f"{c.__module__}.{c.__qualname__}") for c in (rc.values() if isinstance(rc, dict) else rc)
                     if isinstance(c, type))
    res = dict(kind="load", yaml=str(path), entries=entries, fields_bad=False, roundtrip_bad=False)
    events, results = [], []
    imported_before = {m for m in sys.modules}
    try:
        configs = read_configs(str(path))
        seen = []
        walk(entries, configs, seen)
        loaded_ok = True
    except Exception as ex:
        configs, seen, loaded_ok = None, [], False
        res["load_error"] = type(ex).__name__
    # predicted events: an entry's tag imports its module (defining all its classes) then validates
    imported = set()

    def predict(es):
        for e in es:
            mod = e["type"].rsplit(".", 1)[0]
            known = e["type"] in classes or e["type"].startswith("tickit.")
            if mod.startswith(pkg) and mod not in imported and mod.split(".")[-1] in ("lib0", "lib1"):
                imported.add(mod)
                for c in sorted(classes):
                    pass
                for c in [k for k in classes if k.rsplit(".", 1)[0] == mod]:
                    events.append(("D", tid(c)))
            events.append(("V", tid(e["type"]), known))
            if "components" in e:
                events.append(("V", tid(e["type"]), known))    # the expose check entry of walk()
                predict(e["components"])
    predict(entries)
    if loaded_ok:
        results = [("C", tid(full), ok) for (_, full, ok) in seen]
        res["fields_bad"] = any(not ok for (_, _, ok) in seen)
    else:
        # loading is all-or-nothing: every entry counts as rejected; the model must reject at least one
        results = None
    res.update(initial=initial, events=events, results=results, loaded_ok=loaded_ok, bad_tag=bad_tag)
    # wiring + selection on the top-level entries
    nameid = {n: i + 1 for i, n in enumerate(names + ["bad"])}
    portid = {}

    def pid_(p):
        return portid.setdefault(p, len(portid) + 1)

    top = [(nameid[e["name"]], [(pid_(k), (nameid[v["component"]], pid_(v["port"]))) for k, v in e["inputs"].items()]) for e in entries]
    res["top"] = top
    if loaded_ok:
        req = None if rng.random() < 0.3 else rng.sample([e["name"] for e in entries], rng.randint(0, len(entries)))
        if req is not None and rng.random() < 0.15:
            req.append("ghost")
        try:
            sim = build_simulation(str(path), components_to_run=None if req is None else set(req))
            w = sim._scheduler._wiring
            conns = sorted((nameid[s.component], pid_(s.port), nameid[ic], pid_(ip)) for ic, ins in w.items() for ip, s in ins.items())
            res.update(sched_conns=conns, sched_keys=sorted(nameid[k] for k in w.keys()), selected=sorted(nameid[k] for k in sim._components))
        except ValueError:
            iw = InverseWiring.from_component_configs(configs)
            conns = sorted((nameid[s.component], pid_(s.port), nameid[ic], pid_(ip)) for ic, ins in iw.items() for ip, s in ins.items())
            res.update(sched_conns=conns, sched_keys=sorted(nameid[k] for k in iw.keys()), selected=None)
        res["requested"] = None if req is None else [nameid.get(n, 999) for n in req]
        # dump / load round trip
        try:
            dumped = [dataclasses.asdict(c) for c in configs]
            p2 = d / "sim2.yaml"
            p2.write_text(yaml.safe_dump(json.loads(json.dumps(dumped, default=lambda o: o.__dict__)), sort_keys=False))
            again = read_configs(str(p2))
            res["roundtrip_bad"] = again != configs
        except Exception as ex:
            res["roundtrip_bad"] = True
            res["roundtrip_error"] = repr(ex)[:200]
        # the file is edited in place (entries in reverse order, one renamed, one more Sink) and loaded again from the
        # same path: the configuration and the simulation built from it are those the file describes NOW
        try:
            edited = [dict(e) for e in reversed(entries)]
            edited[0] = dict(edited[0], name=edited[0]["name"] + "_renamed")
            edited.append(dict(type="tickit.devices.sink.Sink", name="late_sink", inputs={}))
            path.write_text(yaml.safe_dump(edited, sort_keys=False))
            again2 = read_configs(str(path))
            names2 = [c.name for c in again2]
            sim2 = build_simulation(str(path))
            res["reload_bad"] = (names2 != [e["name"] for e in edited]
                                 or sorted(sim2._components) != sorted(e["name"] for e in edited)
                                 or type(again2[-1]).__name__ != "Sink")
        except Exception as ex:
            res["reload_bad"] = True
            res["reload_error"] = repr(ex)[:200]
    return res


def r_events(evs):
    return L(f"Define {P(e[1])}" if e[0] == "D" else f"Validate {P(e[1])} {B(e[2])}" for e in evs)


def r_results(rs):
    return L(f"Chosen {P(r[1])}" if r[0] == "C" else "Rejected" for r in rs)


def render(c):
    top = c.get("top", [])
    entries = L(T(P(n), L(T(P(p), T(P(sc), P(sp))) for p, (sc, sp) in ins)) for n, ins in top)
    if c.get("sched_conns") is None:
        # nothing built: compare the model's wiring with itself (only the registry part is judged)
        conns = sorted((sc, sp, n, p) for n, ins in top for p, (sc, sp) in ins)
        keys = sorted({n for n, _ in top})
        requested, selected = None, sorted({n for n, _ in top})
    else:
        conns, keys, requested, selected = c["sched_conns"], c["sched_keys"], c.get("requested"), c.get("selected")
    return ("{| cc_initial := %s; cc_events := %s; cc_results := %s; cc_entries := %s; cc_sched_conns := %s; cc_sched_keys := %s; "
            "cc_requested := %s; cc_selected := %s |}") % (
        L(P(i) for i in c["initial"]), r_events(c["events"]), r_results(c["results"]), entries,
        L(T(P(a), P(b), P(x), P(y)) for a, b, x, y in conns), L(P(k) for k in keys),
        O(requested, lambda l: L(P(x) for x in l)), O(selected, lambda l: L(P(x) for x in l)))


def main(tier, seed):
    ck = Check(PID, tier, seed, "Props.C17", ["Model/Config.v", "Proofs/ConfigP.v", "Props/C17.v"])
    ck.build_and_audit()
    rng = random.Random(seed)
    if MODROOT.exists():
        shutil.rmtree(MODROOT)
    cases = []
    for plan in gen_registry_plans(tier, rng):
        c = registry_case(rng, plan)
        c["kind"] = "registry"
        c["plan"] = plan
        cases.append(c)
    for _ in range({"quick": 120, "thorough": 1500}[tier]):
        cases.append(loading_case(rng, tier))
    terms, idx = [], []
    py_bad = {}
    for i, c in enumerate(cases):
        if c["kind"] == "load" and c["results"] is None:
            # the file was rejected as a whole: fine iff it contained an unknown tag
            if not c["bad_tag"]:
                py_bad.setdefault(i, []).append(141)
            continue
        if c["kind"] == "load" and c["bad_tag"] and c["loaded_ok"]:
            py_bad.setdefault(i, []).append(141)
        if c.get("fields_bad"):
            py_bad.setdefault(i, []).append(144)
        if c.get("roundtrip_bad"):
            py_bad.setdefault(i, []).append(145)
        if c.get("reload_bad"):
            py_bad.setdefault(i, []).append(146)
        if c["kind"] == "registry":
            c2 = dict(c, results=[r for r in c["results"]])
            if any(r[0] == "C" and not r[2] for r in c["results"]):
                py_bad.setdefault(i, []).append(144)
        terms.append(render(c))
        idx.append(i)
    bad_coq = run_shards(PID, HEADER, "cfg_case", "check_cfg", terms, shard_size=100)
    bad = dict(py_bad)
    for k, codes in bad_coq.items():
        bad.setdefault(idx[k], []).extend(codes)
    for c in cases:
        key = json.dumps(c.get("plan") or c.get("entries"), default=str)
        ck.count(key, len(c["events"]) >= 4)
    ck.rule = ("(a) a fresh tagged-union base per case with up to 3 classes in 2 modules (same class name in both modules, subclass of "
               "a subclass): every history of %d validations (each tag known / missing class / missing module; the first use of a "
               "module imports it) compared with the registry model; (b) generated class libraries (identical signatures, equal "
               "class names in two modules) + the shipped Sink/IoBox/SystemSimulation, random YAML files nested to depth 3 in random "
               "entry order loaded by read_configs and build_simulation with random selections: class per entry, fields, scheduler "
               "wiring, selected components, dump/load round trip, the same path edited and loaded again; non-trivial = at least 4 registry events"
               % (3 if tier == "quick" else 4))
    ck.coverage.update(registry_histories=sum(1 for c in cases if c["kind"] == "registry"),
                       yaml_files=sum(1 for c in cases if c["kind"] == "load"),
                       files_with_unknown_tag=sum(1 for c in cases if c.get("bad_tag")),
                       max_depth_entries=max(len(c["events"]) for c in cases), disagreements=len(bad))
    c = cases[-1]
    ck.sample(dict(yaml_entries=c.get("entries"), results=c.get("results"), selected=c.get("selected")))
    done = set()
    for i in sorted(bad):
        for code in bad[i]:
            if code in done:
                continue
            done.add(code)
            c = cases[i]
            ck.report(REASONS[code], f"configuration loading: {REASONS[code]}",
                      dict(kind=c["kind"], plan=c.get("plan"), entries=c.get("entries"), events=c["events"], results=c["results"],
                           requested=c.get("requested"), selected=c.get("selected"), sched_conns=c.get("sched_conns"),
                           load_error=c.get("load_error"), roundtrip_error=c.get("roundtrip_error"), reload_error=c.get("reload_error"), codes=bad[i]))
    shutil.rmtree(MODROOT, ignore_errors=True)
    return ck.finish()


def replay(rp):
    print(json.dumps({k: rp.get(k) for k in ("kind", "plan", "entries", "events", "results", "selected", "codes")}, indent=1, default=str)[:3000])
    print("re-run the check to regenerate the modules: bin/check C17")
    return 1
