(* The hand-written model function IS the translation of the tickit function it models: the definitions of
   Gen/SourceFuns.v -- regenerated from the sources of /repo on every run by harness/gen_funs.py -- are proved equal
   to the model functions the property theorems are about.  A change of a translated source function changes (or
   removes) the generated definition and breaks its equation here, whatever the sampled correspondence finds.
   This file: BaseScheduler.get_first_wakeups, add_wakeup. *)
From TV Require Import Base Model.PyLib Model.Wiring Model.Component Model.Sim Model.IoBox Gen.SourceFuns.
From TV Require Model.Master.
Open Scope Z_scope.

(* ---------- BaseScheduler.get_first_wakeups / add_wakeup (Model/Sim.v [first_wakeups], [upd]) *)
Lemma min_wake_fold (r : list (comp * Z)) : forall x,
  fold_left (fun m (e : comp * Z) => match m with None => Some (snd e) | Some y => Some (Z.min y (snd e)) end) r (Some x)
  = Some (fold_left Z.min (map snd r) x).
Proof. induction r as [|e r IH]; intros x; cbn [fold_left map]; [reflexivity | apply IH]. Qed.

Theorem first_wakeups_is_source (w : list (comp * Z)) :
  gen_get_first_wakeups w = match first_wakeups w with None => ([], None) | Some (m, r) => (r, Some m) end.
Proof.
  unfold gen_get_first_wakeups, first_wakeups, min_wake. destruct w as [|e r]; [reflexivity|].
  cbn [py_not fold_left]. rewrite min_wake_fold. unfold py_min, py_values. cbn [map].
  set (m := fold_left Z.min (map snd r) (snd e)). unfold py_comp. f_equal.
  rewrite (filter_ext (fun '(_, when) => Z.eqb when m) (fun e0 : comp * Z => Z.eqb (snd e0) m)) by (intros [a b]; reflexivity).
  apply map_ext. intros [a b]. reflexivity.
Qed.

Theorem add_wakeup_is_source (w : list (comp * Z)) c t : gen_add_wakeup w c t = upd c t w.
Proof. reflexivity. Qed.


(* the master-scheduler machine of Model/Master.v (C04, C06, C07, C12) uses the same function *)
Theorem first_wakeups_master_is_source (w : list (comp * Z)) :
  gen_get_first_wakeups w = match TV.Model.Master.first_wakeups w with None => ([], None) | Some (m, r) => (r, Some m) end.
Proof. exact (first_wakeups_is_source w). Qed.
