(* The extent bookkeeping of a tick (Ticker.to_update / [ta_touched]) never decides anything by
   itself: a component is updated exactly when it is a root or has received a change in this tick.
   [step'] is the tick step without the extent; the model's tick equals the fold of [step']. *)
From TV Require Import Base Model.Wiring Model.Ticker Model.Component Model.Sim
  Proofs.WiringP Proofs.SimP Proofs.NonInterfP.
Open Scope Z_scope.

Record core := { co_s : sstate; co_in : list (comp * values); co_out : values; co_obs : list obs }.
Definition core_of (a : tacc) : core := {| co_s := ta_s a; co_in := ta_in a; co_out := ta_out a; co_obs := ta_obs a |}.

Section E.
Variable devf : devfun.
Variable inner : positive -> Z -> values -> sstate -> sstate * values * option Z * list obs.
Variable lv : positive.
Variable conns : list conn.
Variable time : Z.
Variable roots : list comp.
Variable ext : values.

Definition step' (a : core) (ck : comp * ckind) : core :=
  let c := fst ck in
  let inp := get_d c (co_in a) in
  if nonempty inp || memb c roots then
    if Pos.eqb c ext_id then
      {| co_s := co_s a; co_in := accumulate (co_in a) (route conns c ext); co_out := co_out a; co_obs := co_obs a |}
    else if Pos.eqb c exp_id then
      {| co_s := co_s a; co_in := co_in a; co_out := inp; co_obs := co_obs a |}
    else
      let '(s1, ch, call_at, ob) :=
        match snd ck with
        | KDev => let '(s1, ch, ca, o) := dev_update devf (co_s a) c time inp in (s1, ch, ca, [o])
        | KSys lv' => inner lv' time inp (co_s a)
        end in
      let s2 := match call_at with Some w => set_wake s1 lv (upd c w (wake_of s1 lv)) | None => s1 end in
      {| co_s := s2; co_in := accumulate (co_in a) (route conns c ch); co_out := co_out a; co_obs := co_obs a ++ ob |}
  else a.

(* whatever is pending for a component was routed from a component of this tick's extent *)
Definition pend_inv (a : tacc) : Prop :=
  forall c, nonempty (get_d c (ta_in a)) = true ->
    existsb (fun k : conn => Pos.eqb (in_comp k) c && memb (out_comp k) (ta_touched a)) conns = true.

Lemma existsb_touched_mono (t : list comp) x c :
  existsb (fun k : conn => Pos.eqb (in_comp k) c && memb (out_comp k) t) conns = true ->
  existsb (fun k : conn => Pos.eqb (in_comp k) c && memb (out_comp k) (t ++ [x])) conns = true.
Proof.
  intros H. apply existsb_exists in H. destruct H as [k [Hk Hb]]. apply existsb_exists. exists k. split; [exact Hk|].
  apply andb_true_iff in Hb. destruct Hb as [H1 H2]. rewrite H1, memb_app, H2. reflexivity.
Qed.

Lemma get_d_accumulate_cases (r : list (comp * values)) m c :
  nonempty (get_d c (accumulate m r)) = true -> nonempty (get_d c m) = true \/ In c (keys r).
Proof.
  intros H. destruct (In_dec Pos.eq_dec c (keys r)) as [Hi|Hn]; [right; exact Hi|]. left.
  rewrite accumulate_other in H by exact Hn. exact H.
Qed.

Lemma pend_after_route a c (ch : values) :
  pend_inv a ->
  forall c', nonempty (get_d c' (accumulate (ta_in a) (route conns c ch))) = true ->
    existsb (fun k : conn => Pos.eqb (in_comp k) c' && memb (out_comp k) (ta_touched a ++ [c])) conns = true.
Proof.
  intros HP c' H. apply get_d_accumulate_cases in H. destruct H as [H|H].
  - apply existsb_touched_mono. apply HP. exact H.
  - apply route_keys in H. destruct H as [k [Hk [E1 E2]]]. apply existsb_exists. exists k. split; [exact Hk|].
    rewrite E2, Pos.eqb_refl, E1, memb_app. cbn [andb memb existsb]. rewrite Pos.eqb_refl. rewrite orb_true_r. reflexivity.
Qed.

Lemma tick_step_core a ck : pend_inv a ->
  core_of (tick_step devf inner lv conns time roots ext a ck) = step' (core_of a) ck /\
  pend_inv (tick_step devf inner lv conns time roots ext a ck).
Proof.
  intros HP. unfold tick_step, step'. cbn [core_of co_in co_s co_out co_obs].
  destruct (nonempty (get_d (fst ck) (ta_in a)) || memb (fst ck) roots) eqn:Eu.
  - assert (Hext : in_extent conns roots (ta_touched a) (fst ck) = true).
    { unfold in_extent. apply orb_true_iff in Eu. destruct Eu as [Hn|Hr]; [|rewrite Hr; reflexivity].
      rewrite (HP _ Hn). apply orb_true_r. }
    rewrite Hext.
    destruct (Pos.eqb (fst ck) ext_id).
    + split; [reflexivity|]. intros c' H. cbn [ta_in ta_touched] in *. eapply pend_after_route; eassumption.
    + destruct (Pos.eqb (fst ck) exp_id).
      * split; [reflexivity|]. intros c' H. cbn [ta_in ta_touched] in *. apply existsb_touched_mono. apply HP. exact H.
      * destruct (match snd ck with
                  | KDev => let '(s1, ch, ca, o) := dev_update devf (ta_s a) (fst ck) time (get_d (fst ck) (ta_in a)) in (s1, ch, ca, [o])
                  | KSys lv' => inner lv' time (get_d (fst ck) (ta_in a)) (ta_s a)
                  end) as [[[s1 ch] ca] ob].
        split; [reflexivity|]. intros c' H. cbn [ta_in ta_touched] in *. eapply pend_after_route; eassumption.
  - destruct (in_extent conns roots (ta_touched a) (fst ck)); [|split; [reflexivity | exact HP]].
    split; [reflexivity|]. intros c' H. cbn [ta_in ta_touched] in *. apply existsb_touched_mono. apply HP. exact H.
Qed.

Lemma fold_core : forall l a, pend_inv a ->
  core_of (fold_left (tick_step devf inner lv conns time roots ext) l a) = fold_left step' l (core_of a).
Proof.
  induction l as [|ck r IH]; intros a HP; [reflexivity|]. cbn [fold_left].
  destruct (tick_step_core a ck HP) as [E HP']. rewrite <- E. apply IH. exact HP'.
Qed.
End E.

(* the model's tick without the extent *)
Theorem tick_with_core cfg devf inner lv time roots ext s :
  let a := fold_left (step' devf inner lv (l_conns (level_of cfg lv)) time roots ext) (all_of (level_of cfg lv))
                     {| co_s := s; co_in := []; co_out := []; co_obs := [] |} in
  tick_with cfg devf inner lv time roots ext s = (co_s a, co_out a, co_obs a).
Proof.
  cbv zeta. unfold tick_with.
  set (a0 := {| ta_s := s; ta_in := []; ta_touched := []; ta_out := []; ta_obs := [] |}).
  assert (HP : pend_inv (l_conns (level_of cfg lv)) a0) by (intros c H; cbn in H; discriminate).
  pose proof (fold_core devf inner lv (l_conns (level_of cfg lv)) time roots ext (all_of (level_of cfg lv)) a0 HP) as H.
  change {| co_s := s; co_in := []; co_out := []; co_obs := [] |} with (core_of a0). rewrite <- H. reflexivity.
Qed.
