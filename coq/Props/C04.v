(* C04 -- ticks are serialised, carry one time each, and time never runs backwards.
   Message-level model of the master scheduler (Model/Master.v): [MRun m now outs] says that the
   master, fed ANY sequence of start / Output / Skip / Interrupt / ComponentException / timer events
   at non-decreasing real times -- in which the sleep timer does not fire before its deadline and no
   component asks to be called back before the time of the tick it answers ([env_ok]) -- has
   produced the outputs [outs].  Handlers are atomic between suspensions (asyncio).  The nested
   scheduler's inner tick runs inside SystemComponent.on_tick, i.e. between the system's Input and
   its Output: that containment is checked on whole nested simulations by the correspondence run
   (oracle code 49).  Property theorems only. *)
From TV Require Import Base Model.Wiring Model.Ticker Model.Master Proofs.MasterP.
Open Scope Z_scope.

(* no tick starts before the previous one has ended; every tick ends with its own time; every
   Input / Skip is produced inside a tick and carries that tick's time -- for every event history *)
Theorem C04_serial_one_time : forall conns comps initial num den,
  0 < num -> 0 < den ->
  forall m now outs, MRun conns comps initial num den m now outs ->
  exists c, bracket None outs = Some c /\ (mp m = PStopped \/ c = cur_of m).
Proof. intros conns comps initial num den Hn Hd. apply run_bracket; assumption. Qed.

(* a tick ends only when every participant has answered: the ticker's todo list is empty *)
Theorem C04_tick_ends_when_all_answered : forall conns comps st c t ch st' acts,
  propagate conns comps st c t ch = POk st' acts true -> todo st' = [].
Proof.
  intros conns comps st c t ch st' acts H.
  destruct (TickerP.propagate_ok conns comps st c t ch st' acts true H) as [_ [_ [_ Hf]]].
  destruct (todo st'); [reflexivity | discriminate].
Qed.

(* provided no component asks to be called back in the past, successive tick times never
   decrease -- including ticks caused by interrupts raised while a tick is running *)
Theorem C04_monotone : forall conns comps initial num den,
  0 < num -> 0 < den ->
  forall m now outs, MRun conns comps initial num den m now outs -> nondecr (tick_times outs).
Proof. intros conns comps initial num den Hn Hd. apply run_monotone; assumption. Qed.

Example C04_nonvacuous :
  let '(m1, o1) := step [] [3%positive] 0 1 1 (m_init 0) 5 IStart in
  let '(m2, o2) := step [] [3%positive] 0 1 1 m1 6 (IInterrupt 3%positive) in
  let '(m3, o3) := step [] [3%positive] 0 1 1 m2 9 (IOutput 3%positive 0 [] None) in
  let '(m4, o4) := step [] [3%positive] 0 1 1 m3 10 ITimer in
  o1 = [OTickStart 0 [3%positive]; OAct (Upd 3%positive 0 [])] /\ o2 = [] /\
  o3 = [OTickEnd 0; OArm 10] /\ o4 = [OTickStart 1 [3%positive]; OAct (Upd 3%positive 1 [])].
Proof. vm_compute. repeat split; reflexivity. Qed.
