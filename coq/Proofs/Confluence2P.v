(* Confluence of one tick, between two runs that need not share the list of roots (only the set)
   nor the components' answer function (only its values on equivalent inputs).  This is what a
   multi-tick argument needs: after different answer orders the next tick's roots come in a
   different order and the components' states are equal only as dictionaries. *)
From TV Require Import Base Model.Wiring Model.Ticker Model.Component Model.Sim Proofs.WiringP Proofs.TickerP Proofs.LatestP.

(* the changes handed to a component never mention a port twice *)
Definition nd_action (a : action) : Prop := match a with Upd _ _ x => NoDup (keys x) | Skp _ _ => True end.

Section DispatchNoDup.
Variable conns : list conn.
Variable comps : list comp.
Variable t : Z.
Variable roots : list comp.

Lemma mk_action_nd st c : in_ok (tin st) -> nd_action (mk_action st c).
Proof.
  intros H. unfold mk_action. destruct (get_d c (tin st)) as [|e r] eqn:E.
  - destruct (memb c (troots st)); simpl; [constructor | exact I].
  - unfold nd_action. rewrite <- E. apply H.
Qed.

Lemma run_tin_ok ext st tr : Run conns comps t roots ext st tr -> in_ok (tin st).
Proof.
  induction 1 as [st0 st1 acts Hst Hext Hs | st tr c ch st' acts fin HR IH Hc Hp].
  - destruct (start_tick_spec conns t roots st0 Hst) as [_ [_ [Hin _]]].
    destruct (schedule_fields conns comps st0 st1 acts Hs) as [_ [_ [Hti _]]]. rewrite Hti, Hin. intros c. cbn. constructor.
  - destruct (propagate_ok conns comps st c t ch st' acts fin Hp) as [_ [_ [Hs _]]].
    destruct (schedule_fields conns comps _ st' acts Hs) as [_ [_ [Hti _]]]. rewrite Hti. simpl.
    apply in_ok_accumulate. exact IH.
Qed.

Lemma run_dispatch_nd ext st tr : Run conns comps t roots ext st tr -> forall a, In (EDispatch a) tr -> nd_action a.
Proof.
  induction 1 as [st0 st1 acts Hst Hext Hs | st tr c ch st' acts fin HR IH Hc Hp]; intros a Ha.
  - apply in_map_iff in Ha. destruct Ha as [a' [E Ha]]. inversion E; subst a'.
    apply (schedule_acts conns comps st0 st1 acts a Hs) in Ha. destruct Ha as [c [_ [_ ->]]]. apply mk_action_nd.
    destruct (start_tick_spec conns t roots st0 Hst) as [_ [_ [Hin _]]]. rewrite Hin. intros c0. cbn. constructor.
  - apply in_app_iff in Ha. destruct Ha as [Ha|[Ha|Ha]]; [apply IH; exact Ha | discriminate |].
    apply in_map_iff in Ha. destruct Ha as [a' [E Ha]]. inversion E; subst a'.
    destruct (propagate_ok conns comps st c t ch st' acts fin Hp) as [_ [_ [Hs _]]].
    apply (schedule_acts conns comps _ st' acts a Hs) in Ha. destruct Ha as [c2 [_ [_ ->]]]. apply mk_action_nd. simpl.
    apply in_ok_accumulate. apply (run_tin_ok ext st tr HR).
Qed.
End DispatchNoDup.

Section C2.
Variable conns : list conn.
Variable comps : list comp.
Variable t : Z.
Hypothesis Hss : single_source conns.
Variable rank : comp -> nat.
Hypothesis Hrank : forall k, In k conns -> (rank (out_comp k) < rank (in_comp k))%nat.

(* inputs wired into c that run a has seen before dispatching c have been seen by run b too *)
Lemma inputs_transfer (deva devb : comp -> changes -> changes) (exta extb : list comp) n c :
  (forall x, In x exta -> In x extb) ->
  forall tra trb la ra lb rb ab,
    tra = la ++ ra -> trb = lb ++ EDispatch ab :: rb -> act_comp ab = c ->
    answers_by deva tra -> answers_by devb trb ->
    (forall x, answered tra x -> In x exta) ->
    gate_from conns extb [] trb ->
    (forall u au bu, (rank u < n)%nat -> In (EDispatch au) tra -> In (EDispatch bu) trb ->
                     act_comp au = u -> act_comp bu = u -> resp deva au = resp devb bu) ->
    (rank c < S n)%nat ->
    forall q v, spec_inputs conns la c q v -> spec_inputs conns lb c q v.
Proof.
  intros Hsub tra trb la ra lb rb ab Ea Eb Hcb Ba Bb Hext Gb Hresp Hn q v [u [p [ch [Hin [Hk Hl]]]]].
  assert (Hpred : In u (preds conns c)) by (apply preds_In; exists (u, p, c, q); auto).
  assert (Hina : In (EAnswer u ch) tra) by (rewrite Ea; apply in_app_iff; left; exact Hin).
  assert (Hue : In u extb) by (apply Hsub; apply Hext; exists ch; exact Hina).
  rewrite <- Hcb in Hpred.
  destruct (gate_split conns extb trb Gb lb ab rb Eb u Hpred Hue) as [ch' Hin'].
  assert (Hinb : In (EAnswer u ch') trb) by (rewrite Eb; apply in_app_iff; left; exact Hin').
  destruct (Ba u ch Hina) as [au [Hau [Hcu ->]]]. destruct (Bb u ch' Hinb) as [bu [Hbu [Hcu' ->]]].
  assert (Hru : (rank u < n)%nat).
  { specialize (Hrank (u, p, c, q) Hk). simpl in Hrank. lia. }
  rewrite (Hresp u au bu Hru Hau Hbu Hcu Hcu') in Hl.
  exists u, p, (resp devb bu). auto.
Qed.

(* what the confluence argument needs to know about a trace of a tick *)
Record WT (roots ext : list comp) (dev : comp -> changes -> changes) (tr : list ev) : Prop := {
  wt_gate : gate_from conns ext [] tr;
  wt_disp : disp_ok conns t roots [] tr;
  wt_ans_ext : forall x, answered tr x -> In x ext;
  wt_nd : forall a, In (EDispatch a) tr -> nd_action a;
  wt_by : answers_by dev tr
}.

Lemma run_WT roots ext st tr dev :
  (forall c x, NoDup (keys (dev c x))) ->
  Run conns comps t roots ext st tr -> answers_by dev tr -> WT roots ext dev tr.
Proof.
  intros Hwf R B. constructor.
  - exact (run_gate conns comps t roots ext st tr R).
  - exact (run_disp_ok conns comps t roots Hss ext st tr R (answers_by_wf dev Hwf tr B)).
  - exact (i_ans_ext _ _ _ _ _ _ (run_inv conns comps t roots ext st tr R)).
  - exact (run_dispatch_nd conns comps t roots ext st tr R).
  - exact B.
Qed.

Variables roots1 roots2 : list comp.
Hypothesis Hroots : forall c, In c roots1 <-> In c roots2.
Variables dev1 dev2 : comp -> changes -> changes.
Hypothesis dev_ext : forall c x y, NoDup (keys x) -> NoDup (keys y) -> ch_equiv x y -> dev1 c x = dev2 c y.
Hypothesis dev_wf1 : forall c x, NoDup (keys (dev1 c x)).
Hypothesis dev_wf2 : forall c x, NoDup (keys (dev2 c x)).

Lemma resp_equiv2 a b : nd_action a -> nd_action b -> action_equiv a b -> resp dev1 a = resp dev2 b.
Proof.
  destruct a as [c1 t1 x|c1 t1], b as [c2 t2 y|c2 t2]; simpl; try contradiction.
  - intros Hx Hy [-> [_ H]]. apply dev_ext; assumption.
  - reflexivity.
Qed.

Lemma same_extent ext1 st1 tr1 ext2 st2 tr2 :
  Run conns comps t roots1 ext1 st1 tr1 -> Run conns comps t roots2 ext2 st2 tr2 ->
  forall x, In x ext1 <-> In x ext2.
Proof.
  intros R1 R2 x.
  destruct (run_ext conns comps t roots1 ext1 st1 tr1 R1) as [s1 [S1 E1]].
  destruct (run_ext conns comps t roots2 ext2 st2 tr2 R2) as [s2 [S2 E2]]. subst ext1 ext2.
  destruct (start_tick_spec conns t roots1 s1 S1) as [_ [_ [_ [_ [_ H1]]]]].
  destruct (start_tick_spec conns t roots2 s2 S2) as [_ [_ [_ [_ [_ H2]]]]].
  rewrite H1, H2. split; intros [r [Hr Hreach]]; exists r; (split; [apply Hroots; exact Hr | exact Hreach]).
Qed.

Lemma confluent_WT ext1 tr1 ext2 tr2 :
  WT roots1 ext1 dev1 tr1 -> WT roots2 ext2 dev2 tr2 -> (forall x, In x ext1 <-> In x ext2) ->
  forall n c, (rank c < n)%nat ->
  forall a1 a2, In (EDispatch a1) tr1 -> In (EDispatch a2) tr2 ->
  act_comp a1 = c -> act_comp a2 = c -> action_equiv a1 a2.
Proof.
  intros [G1 D1 I1 N1 B1] [G2 D2 I2 N2 B2] Hx.
  induction n as [|n IHn]; intros c Hn a1 a2 Hi1 Hi2 Hc1 Hc2; [lia|].
  destruct (in_split _ _ Hi1) as [l1 [r1 E1]]. destruct (in_split _ _ Hi2) as [l2 [r2 E2]].
  assert (A1 := disp_ok_split conns t roots1 tr1 D1 l1 a1 r1 E1).
  assert (A2 := disp_ok_split conns t roots2 tr2 D2 l2 a2 r2 E2).
  assert (H12 : forall q v, spec_inputs conns l1 c q v -> spec_inputs conns l2 c q v).
  { apply (inputs_transfer dev1 dev2 ext1 ext2 n c (fun x => proj1 (Hx x)) tr1 tr2 l1 (EDispatch a1 :: r1) l2 r2 a2 E1 E2 Hc2 B1 B2 I1 G2); [|exact Hn].
    intros u au bu Hu Hau Hbu Hcu Hcu'. apply resp_equiv2; [apply (N1 au Hau) | apply (N2 bu Hbu) | eapply IHn; eassumption]. }
  assert (H21 : forall q v, spec_inputs conns l2 c q v -> spec_inputs conns l1 c q v).
  { apply (inputs_transfer dev2 dev1 ext2 ext1 n c (fun x => proj2 (Hx x)) tr2 tr1 l2 (EDispatch a2 :: r2) l1 r1 a1 E2 E1 Hc1 B2 B1 I2 G1); [|exact Hn].
    intros u au bu Hu Hau Hbu Hcu Hcu'. symmetry. apply resp_equiv2; [apply (N1 bu Hbu) | apply (N2 au Hau) | eapply IHn; eassumption]. }
  destruct A1 as [T1 A1]. destruct A2 as [T2 A2].
  destruct a1 as [c1 t1 x|c1 t1], a2 as [c2 t2 y|c2 t2]; simpl in *; subst.
  - destruct A1 as [A1 _]. destruct A2 as [A2 _]. split; [reflexivity|]. split; [reflexivity|].
    apply equiv_from_iff. intros q v. rewrite A1, A2. split; [apply H12 | apply H21].
  - destruct A1 as [A1 [Hr|Hne]]; destruct A2 as [Hnr A2]; [exfalso; apply Hnr; apply Hroots; exact Hr|].
    destruct x as [|[q0 v0] x']; [congruence|].
    apply (A2 q0 v0). apply H12. apply A1. simpl. rewrite Pos.eqb_refl. reflexivity.
  - destruct A2 as [A2 [Hr|Hne]]; destruct A1 as [Hnr A1]; [exfalso; apply Hnr; apply Hroots; exact Hr|].
    destruct y as [|[q0 v0] y']; [congruence|].
    apply (A1 q0 v0). apply H21. apply A2. simpl. rewrite Pos.eqb_refl. reflexivity.
  - split; reflexivity.
Qed.

Lemma confluent2_aux ext1 st1 tr1 ext2 st2 tr2 :
  Run conns comps t roots1 ext1 st1 tr1 -> Run conns comps t roots2 ext2 st2 tr2 ->
  answers_by dev1 tr1 -> answers_by dev2 tr2 ->
  forall n c, (rank c < n)%nat ->
  forall a1 a2, In (EDispatch a1) tr1 -> In (EDispatch a2) tr2 ->
  act_comp a1 = c -> act_comp a2 = c -> action_equiv a1 a2.
Proof.
  intros R1 R2 B1 B2.
  apply (confluent_WT ext1 tr1 ext2 tr2 (run_WT roots1 ext1 st1 tr1 dev1 dev_wf1 R1 B1) (run_WT roots2 ext2 st2 tr2 dev2 dev_wf2 R2 B2)
           (same_extent ext1 st1 tr1 ext2 st2 tr2 R1 R2)).
Qed.

Theorem confluent2 ext1 st1 tr1 ext2 st2 tr2 :
  Run conns comps t roots1 ext1 st1 tr1 -> Run conns comps t roots2 ext2 st2 tr2 ->
  answers_by dev1 tr1 -> answers_by dev2 tr2 ->
  forall a1 a2, In (EDispatch a1) tr1 -> In (EDispatch a2) tr2 ->
  act_comp a1 = act_comp a2 -> action_equiv a1 a2.
Proof.
  intros R1 R2 B1 B2 a1 a2 H1 H2 Hc.
  eapply (confluent2_aux ext1 st1 tr1 ext2 st2 tr2 R1 R2 B1 B2 (S (rank (act_comp a1))) (act_comp a1));
    [lia | eassumption | eassumption | reflexivity | symmetry; exact Hc].
Qed.

(* complete runs dispatch the same components *)
Theorem same_participants2 ext1 st1 tr1 ext2 st2 tr2 :
  Run conns comps t roots1 ext1 st1 tr1 -> Run conns comps t roots2 ext2 st2 tr2 ->
  todo st1 = [] -> todo st2 = [] ->
  forall c, dispatched tr1 c <-> dispatched tr2 c.
Proof.
  intros R1 R2 E1 E2 c.
  assert (Hx := same_extent ext1 st1 tr1 ext2 st2 tr2 R1 R2).
  assert (I1 := run_inv conns comps t roots1 _ st1 tr1 R1). assert (I2 := run_inv conns comps t roots2 _ st2 tr2 R2).
  split; intros H.
  - apply (run_finished conns comps t roots2 _ st2 tr2 R2 E2). apply Hx. apply (i_disp_ext _ _ _ _ _ _ I1). exact H.
  - apply (run_finished conns comps t roots1 _ st1 tr1 R1 E1). apply Hx. apply (i_disp_ext _ _ _ _ _ _ I2). exact H.
Qed.
End C2.
