(* The wakeup table of every scheduler level holds at most one entry per component, and only for
   components of that level -- an invariant of every tick, whatever the configuration. *)
From TV Require Import Base Model.Wiring Model.Ticker Model.Component Model.Sim
  Proofs.WiringP Proofs.SimP Proofs.NonInterfP Proofs.FrameP Proofs.ExtentP Proofs.LatestP.
Open Scope Z_scope.

Section WW.
Variable cfg : config.
Variable devf : devfun.

Definition wake_wf (s : sstate) : Prop :=
  forall lv, NoDup (keys (wake_of s lv)) /\
             forall k, In k (keys (wake_of s lv)) -> In k (map fst (l_order (level_of cfg lv))).

Lemma wake_wf_same s s' : s_wake s' = s_wake s -> wake_wf s -> wake_wf s'.
Proof. intros E H lv. unfold wake_of. rewrite E. apply H. Qed.

Lemma wake_wf_set s lv w :
  wake_wf s -> NoDup (keys w) -> (forall k, In k (keys w) -> In k (map fst (l_order (level_of cfg lv)))) ->
  wake_wf (set_wake s lv w).
Proof.
  intros H Hn Hk l. destruct (Pos.eq_dec l lv) as [E|Hne].
  - subst l. rewrite wake_of_set_wake. split; assumption.
  - rewrite wake_of_set_wake_other by exact Hne. apply H.
Qed.

Lemma keys_filter_sub {A} (f : positive * A -> bool) l k : In k (keys (filter f l)) -> In k (keys l).
Proof.
  unfold keys. intros H. apply in_map_iff in H. destruct H as [e [E Hi]]. apply filter_In in Hi.
  apply in_map_iff. exists e. split; [exact E | apply Hi].
Qed.

Lemma wake_wf_filter s lv f : wake_wf s -> wake_wf (set_wake s lv (filter f (wake_of s lv))).
Proof.
  intros H. apply wake_wf_set; [exact H | apply NoDup_keys_filter; apply H|].
  intros k Hk. apply (proj2 (H lv)). apply keys_filter_sub in Hk. exact Hk.
Qed.

Definition inner_wf (inner : positive -> Z -> values -> sstate -> sstate * values * option Z * list obs) : Prop :=
  forall lv t chg s, wake_wf s -> wake_wf (fst (fst (fst (inner lv t chg s)))).

Lemma dev_update_wake s c t chg : s_wake (fst (fst (fst (dev_update devf s c t chg)))) = s_wake s.
Proof. unfold dev_update. destruct (devf c _ t _) as [outs ca]. reflexivity. Qed.

Lemma step'_wf inner lv conns time roots ext a ck :
  inner_wf inner ->
  (fst ck = ext_id \/ fst ck = exp_id \/ In (fst ck) (map fst (l_order (level_of cfg lv)))) ->
  wake_wf (co_s a) -> wake_wf (co_s (step' devf inner lv conns time roots ext a ck)).
Proof.
  intros Hin Hck H. unfold step'. destruct (nonempty _ || _); [|exact H].
  destruct (Pos.eqb_spec (fst ck) ext_id) as [E|Hne]; [exact H|].
  destruct (Pos.eqb_spec (fst ck) exp_id) as [E|Hnx]; [exact H|].
  assert (Hc : In (fst ck) (map fst (l_order (level_of cfg lv)))) by (destruct Hck as [E|[E|Hc]]; [contradiction | contradiction | exact Hc]).
  assert (H1 : forall s1 (ca : option Z), wake_wf s1 ->
                 wake_wf (match ca with Some w => set_wake s1 lv (upd (fst ck) w (wake_of s1 lv)) | None => s1 end)).
  { intros s1 [w|] Hs1; [|exact Hs1]. apply wake_wf_set; [exact Hs1 | apply NoDup_keys_upd; apply Hs1|].
    intros k Hk. apply in_keys_upd in Hk. destruct Hk as [E|Hk]; [subst k; exact Hc | apply (proj2 (Hs1 lv)); exact Hk]. }
  destruct (snd ck) as [|lv'].
  - pose proof (dev_update_wake (co_s a) (fst ck) time (get_d (fst ck) (co_in a))) as Ew.
    destruct (dev_update devf (co_s a) (fst ck) time (get_d (fst ck) (co_in a))) as [[[s1 ch] ca] o]. cbn [fst] in Ew.
    cbn [co_s]. apply H1. apply (wake_wf_same (co_s a)); assumption.
  - pose proof (Hin lv' time (get_d (fst ck) (co_in a)) (co_s a) H) as Hs1.
    destruct (inner lv' time (get_d (fst ck) (co_in a)) (co_s a)) as [[[s1 ch] ca] ob]. cbn [fst] in Hs1.
    cbn [co_s]. apply H1. exact Hs1.
Qed.

Lemma tick_with_wf inner lv time roots ext s :
  inner_wf inner -> wake_wf s -> wake_wf (fst (fst (tick_with cfg devf inner lv time roots ext s))).
Proof.
  intros Hin H. rewrite tick_with_core. cbn [fst].
  assert (G : forall l a, (forall ck, In ck l -> fst ck = ext_id \/ fst ck = exp_id \/ In (fst ck) (map fst (l_order (level_of cfg lv)))) ->
              wake_wf (co_s a) ->
              wake_wf (co_s (fold_left (step' devf inner lv (l_conns (level_of cfg lv)) time roots ext) l a))).
  { induction l as [|ck r IH]; intros a Hl Ha; [exact Ha|]. cbn [fold_left]. apply IH; [intros x Hx; apply Hl; right; exact Hx|].
    apply step'_wf; [exact Hin | apply Hl; left; reflexivity | exact Ha]. }
  apply G; [|exact H]. intros ck Hck. unfold all_of in Hck. destruct Hck as [E|Hck]; [left; subst ck; reflexivity|].
  apply in_app_iff in Hck. destruct Hck as [Hck|[E|[]]]; [|right; left; subst ck; reflexivity].
  right. right. apply in_map. exact Hck.
Qed.

Theorem on_tick_level_wf : forall f, inner_wf (on_tick_level cfg devf f).
Proof.
  induction f as [|f IH]; intros lv t chg s H; [exact H|]. cbn [on_tick_level].
  set (roots := int_of s lv ++ _).
  set (s1 := log_tick _ lv t roots).
  assert (H1 : wake_wf s1).
  { unfold s1. apply (wake_wf_same (set_wake s lv (filter (fun e : comp * Z => negb (Z.leb (snd e) t)) (wake_of s lv)))); [reflexivity|].
    apply wake_wf_filter. exact H. }
  pose proof (tick_with_wf (on_tick_level cfg devf f) lv t roots chg s1 IH H1) as H2.
  destruct (tick_with cfg devf (on_tick_level cfg devf f) lv t roots chg s1) as [[s2 out] ob]. exact H2.
Qed.

Theorem tick_level_wf fuel lv time roots ext s :
  wake_wf s -> wake_wf (fst (fst (tick_level cfg devf fuel lv time roots ext s))).
Proof. intros H. unfold tick_level. apply tick_with_wf; [apply on_tick_level_wf | exact H]. Qed.

Lemma wake_wf_init : wake_wf s_init.
Proof. intros lv. cbn. split; [constructor | intros k []]. Qed.
End WW.
