(* Below the granularity of a system simulation's tick: the messages of ALL the schedulers of a nesting, interleaved.
   In Proofs/MsgLevelP.v the tick of a system simulation is one event of the enclosing level.  Here it is not: a system
   simulation that is handed its Input starts the tick of its own scheduler ([L_sys]: the prologue of
   NestedScheduler.on_tick), and from then on every message of that scheduler -- and of the schedulers below it, to any
   depth -- is a step of its own ([L_kid]), taken at any moment between the messages of the enclosing level and those of
   the sibling system simulations; when its tick has ended the system simulation answers ([L_done]) and that answer
   travels to the enclosing scheduler like any other ([L_out]).  A configuration [hcfg] is the tree of the ticks in
   progress; [HS f] is one step of the tree, [HNT f] a complete tick run that way.
   Result: every such run ends like Model/Sim.v ([hxrun_is_sim]) -- states equal as dictionaries, every device observing
   the same (time, inputs) sequence -- hence like every other schedule; the message-level runs of Proofs/MsgLevelP.v are
   among them ([MNT_HNT]).
   Proof: seen from one system simulation, the steps of everything outside its subtree are steps of an environment that
   leaves its footprint alone ([ES]: a step of the subtree or of the environment; [ITR]: a complete tick of the subtree
   among such steps).  A run of a level then has what the comparison of two ticks of a level needs (the record [LT] of
   Proofs/NDetP.v, with [ITR] as the way the system simulations of the level run): by induction over the run every
   system simulation in progress has, from a state that agrees with the current one on its footprint, a run of its own
   ([EI]). *)
From TV Require Import Base Model.Wiring Model.Ticker Model.Component Model.Sim Model.SimTime Model.NSim Model.Interrupts Model.NNSim Model.HSim
  Proofs.WiringP Proofs.TickerP Proofs.SimP Proofs.NonInterfP Proofs.LatestP Proofs.FrameP Proofs.EqvP Proofs.ParDevP
  Proofs.ExtentP Proofs.Confluence2P Proofs.Confluence3P Proofs.ScheduleP Proofs.InlineLoopP Proofs.NScheduleP Proofs.NDetP Proofs.NDetXP
  Proofs.SimNTP Proofs.MsgLevelP.
Open Scope Z_scope.

(* the ticks in progress ([hcfg], Model/HSim.v): the ticker of a level, the trace of its tick, the computed answers on
   their way to it, and for every system simulation of the level whose tick is running the changes it was handed and the
   tick of its level *)

(* a step: from a tree and a state to a tree and a state, with the device updates it makes *)
Definition hstep := hcfg -> sstate -> hcfg -> sstate -> list obs -> Prop.

Inductive Star (R : hstep) : hstep :=
| St_refl k s : Star R k s k s []
| St_step k s k1 s1 o1 k2 s2 o : Star R k s k1 s1 o1 -> R k1 s1 k2 s2 o -> Star R k s k2 s2 (o1 ++ o).

Lemma Star_mono (R R' : hstep) : (forall k s k' s' o, R k s k' s' o -> R' k s k' s' o) ->
  forall k s k' s' o, Star R k s k' s' o -> Star R' k s k' s' o.
Proof. intros H k s k' s' o HS. induction HS as [k s | k s k1 s1 o1 k2 s2 o HS IH HR]; [constructor | eapply St_step; [exact IH | apply H; exact HR]]. Qed.

Lemma Star_trans (R : hstep) k s k1 s1 o1 k2 s2 o2 : Star R k s k1 s1 o1 -> Star R k1 s1 k2 s2 o2 -> Star R k s k2 s2 (o1 ++ o2).
Proof.
  intros H1 H2. induction H2 as [k1 s1 | k1 s1 k2 s2 o2 k3 s3 o H2 IH HR].
  - rewrite app_nil_r. exact H1.
  - rewrite app_assoc. eapply St_step; [apply IH; exact H1 | exact HR].
Qed.

Lemma Star_one (R : hstep) k s k' s' o : R k s k' s' o -> Star R k s k' s' o.
Proof. intros H. rewrite <- (app_nil_l o). eapply St_step; [constructor | exact H]. Qed.

Section MT.
Variable cfg : config.
Variable devf : devfun.
Hypothesis Hdev_nd : forall c n t i, NoDup (keys (fst (devf c n t i))).
Hypothesis Hdev_ext : forall c n t i i', NoDup (keys i) -> NoDup (keys i') -> eqv i i' -> devf c n t i = devf c n t i'.

Definition triv : ntick_rel := fun _ _ _ s s' out ca ob => s' = s /\ out = [] /\ ca = None /\ ob = [].

(* ---------- one step of the tick of a level, the ticks of its system simulations in progress included *)
Section LStep.
Variable KS : positive -> Z -> values -> hstep.     (* a step of the tick of a system simulation of the level *)
Variable KF : Prop.                                 (* the nesting below is not cut off *)
Variable I0 : ntick_rel.                            (* ... what a system simulation does when it is *)
Variable lv : positive.
Variable time : Z.
Variable chg : values.
Notation conns := (l_conns (level_of cfg lv)).
Notation comps := (lcomps (level_of cfg lv)).

Inductive LStep : hstep :=
| L_in st tr pd kids s a ans ca s1 o :          (* a device (or pseudo component) is handed its Input and computes *)
    In (EDispatch a) tr -> ~ In (act_comp a) (ans_comps tr) -> ~ In (act_comp a) (keys pd) -> ~ In (act_comp a) (keys kids) ->
    comp_step0 cfg devf I0 lv time chg a s s1 ans ca o ->
    LStep (HC st tr pd kids) s (HC st tr (pd ++ [(act_comp a, (ans, ca))]) kids) s1 o
| L_sys st tr pd kids s x t0 chgx lv' st0 st1 acts :     (* a system simulation is handed its Input: its scheduler starts a tick *)
    KF -> In (EDispatch (Upd x t0 chgx)) tr -> ~ In x (ans_comps tr) -> ~ In x (keys pd) -> ~ In x (keys kids) ->
    Pos.eqb x ext_id = false -> Pos.eqb x exp_id = false -> lookup x (l_order (level_of cfg lv)) = Some (KSys lv') ->
    start_tick (l_conns (level_of cfg lv')) time (nroots cfg s lv' time) = Some st0 ->
    schedule (l_conns (level_of cfg lv')) (lcomps (level_of cfg lv')) st0 = Some (st1, acts) ->
    LStep (HC st tr pd kids) s (HC st tr pd (kids ++ [(x, (chgx, HC st1 (map EDispatch acts) [] []))])) (nprologue cfg s lv' time) []
| L_kid st tr pd k1 k2 s x chgx lv' kx kx' s1 o :        (* a message of the tick of a system simulation, at any depth *)
    lookup x (l_order (level_of cfg lv)) = Some (KSys lv') ->
    KS lv' time chgx kx s kx' s1 o ->
    LStep (HC st tr pd (k1 ++ (x, (chgx, kx)) :: k2)) s (HC st tr pd (k1 ++ (x, (chgx, kx')) :: k2)) s1 o
| L_done st tr pd k1 k2 s x chgx lv' stx trx :           (* the tick of a system simulation has ended: it answers *)
    lookup x (l_order (level_of cfg lv)) = Some (KSys lv') -> todo stx = [] ->
    LStep (HC st tr pd (k1 ++ (x, (chgx, HC stx trx [] [])) :: k2)) s
          (HC st tr (pd ++ [(x, (exposed trx, min_wake (wake_of s lv')))]) (k1 ++ k2)) s []
| L_out st tr pd1 pd2 kids s c ans ca st' acts fin :     (* an answer reaches the scheduler of the level *)
    In (c, true) (todo st) -> propagate conns comps st c time ans = POk st' acts fin ->
    LStep (HC st tr (pd1 ++ (c, (ans, ca)) :: pd2) kids) s
          (HC st' (tr ++ EAnswer c ans :: map EDispatch acts) (pd1 ++ pd2) kids) (wake_upd s lv c ca) [].
End LStep.

Definition I0 (f : nat) : ntick_rel := fun lv t c s s' out ca ob => f = O /\ triv lv t c s s' out ca ob.

Fixpoint HS (f : nat) : positive -> Z -> values -> hstep :=
  match f with
  | O => fun _ _ _ _ _ _ _ _ => False
  | S f' => LStep (HS f') (f' <> O) (I0 f')
  end.

(* a step of the subtree of level lv, or a step of its environment: anything that leaves the subtree's footprint alone *)
Definition ES (f : nat) (lv : positive) (time : Z) (chg : values) : hstep :=
  fun k s k' s' o => HS f lv time chg k s k' s' o \/
                     (k' = k /\ o = [] /\ same_on (devices_below cfg f lv) (levels_below cfg f lv) s s').

(* a complete tick of level lv, every message of every scheduler of the subtree a step of its own *)
Definition TR (R : nat -> positive -> Z -> values -> hstep) (f : nat) : ntick_rel :=
  fun lv time chg s s' out ca ob =>
  match f with
  | O => triv lv time chg s s' out ca ob
  | S _ => exists st0 st1 acts st tr,
      start_tick (l_conns (level_of cfg lv)) time (nroots cfg s lv time) = Some st0 /\
      schedule (l_conns (level_of cfg lv)) (lcomps (level_of cfg lv)) st0 = Some (st1, acts) /\
      Star (R f lv time chg) (HC st1 (map EDispatch acts) [] []) (nprologue cfg s lv time) (HC st tr [] []) s' ob /\
      todo st = [] /\ out = exposed tr /\ ca = min_wake (wake_of s' lv)
  end.
Definition HNT := TR HS.        (* ... on its own *)
Definition ITR := TR ES.        (* ... among steps of an environment *)

Lemma HNT_ITR f lv time chg s s' out ca ob : HNT f lv time chg s s' out ca ob -> ITR f lv time chg s s' out ca ob.
Proof.
  unfold HNT, ITR, TR. destruct f as [|f]; [exact (fun h => h)|].
  intros [st0 [st1 [acts [st [tr [H1 [H2 [H3 H4]]]]]]]]. exists st0, st1, acts, st, tr. split; [exact H1|]. split; [exact H2|]. split; [|exact H4].
  apply (Star_mono (HS (S f) lv time chg)); [|exact H3]. intros k u k' u' o H. left. exact H.
Qed.

(* ---------- a step touches the subtree only *)
Lemma I0_framed f : inner_framed cfg f (I0 f).
Proof. intros lv time chg s s' out ca ob [_ [-> [_ [_ ->]]]]. apply framed_refl. Qed.

Lemma in_levels_below_self f lv : f <> O -> In lv (levels_below cfg f lv).
Proof. destruct f as [|f]; [congruence|]. intros _. left. reflexivity. Qed.

Theorem HS_framed : forall f lv time chg k s k' s' o,
  HS f lv time chg k s k' s' o -> framed (devices_below cfg f lv) (levels_below cfg f lv) s s' o.
Proof.
  induction f as [|f IH]; intros lv time chg k s k' s' o H; [destruct H|]. cbn [HS] in H.
  destruct H as [st tr pd kids s a ans ca s1 o Ha Hna Hnp Hnk Hs
                | st tr pd kids s x t0 chgx lv' st0 st1 acts HF Ha Hna Hnp Hnk Hx1 Hx2 Hk Hst Hsc
                | st tr pd k1 k2 s x chgx lv' kx kx' s1 o Hk HK
                | st tr pd k1 k2 s x chgx lv' stx trx Hk Ht
                | st tr pd1 pd2 kids s c ans ca st' acts fin Hc Hp].
  - eapply framed_mono; [| |apply (comp_step0_framed cfg devf f (I0 f) lv time chg a s s1 ans ca o (I0_framed f) Hs)]; [apply fpD_sub | apply fpL_sub].
  - apply prologue_framed. apply lookup_In in Hk. eapply levels_below_sub; [exact Hk | apply in_levels_below_self; exact HF].
  - apply lookup_In in Hk. eapply framed_mono; [| |apply (IH lv' time chgx kx s kx' s1 o HK)].
    + intros d Hd. eapply devices_below_sub; eassumption.
    + intros l Hl. eapply levels_below_sub; eassumption.
  - apply framed_refl.
  - apply framed_wake_upd; [left; reflexivity | apply framed_refl].
Qed.

(* ---------- small facts about keyed lists *)
Lemma in_keys_pair {A} (l : list (positive * A)) x : In x (keys l) <-> exists v, In (x, v) l.
Proof.
  unfold keys. rewrite in_map_iff. split.
  - intros [[k v] [E H]]. cbn in E. subst k. exists v. exact H.
  - intros [v H]. exists (x, v). split; [reflexivity | exact H].
Qed.

Lemma keys_iff {A} (l l' : list (positive * A)) x : (forall v, In (x, v) l' <-> In (x, v) l) -> (In x (keys l') <-> In x (keys l)).
Proof. intros H. rewrite !in_keys_pair. split; intros [v Hv]; exists v; apply H; exact Hv. Qed.

Lemma in_mid_other {A} (k1 k2 : list (positive * A)) x v v' y w : y <> x ->
  (In (y, w) (k1 ++ (x, v') :: k2) <-> In (y, w) (k1 ++ (x, v) :: k2)).
Proof. intros Hne. rewrite !in_app_iff. cbn [In]. split; intros [H|[H|H]]; auto; inversion H; subst; contradiction. Qed.

Lemma in_mid_rem_other {A} (k1 k2 : list (positive * A)) x v y w : y <> x ->
  (In (y, w) (k1 ++ k2) <-> In (y, w) (k1 ++ (x, v) :: k2)).
Proof.
  intros Hne. rewrite !in_app_iff. cbn [In]. split; [intros [H|H]; auto|].
  intros [H|[H|H]]; auto. inversion H; subst; contradiction.
Qed.

Lemma in_snoc_other {A} (l : list (positive * A)) x v y w : y <> x -> (In (y, w) (l ++ [(x, v)]) <-> In (y, w) l).
Proof.
  intros Hne. rewrite in_app_iff. cbn [In]. split; [|auto]. intros [H|[H|[]]]; [exact H|]. inversion H; subst; contradiction.
Qed.

Lemma in_mid_same {A} (k1 k2 : list (positive * A)) x v w : NoDup (keys (k1 ++ (x, v) :: k2)) -> In (x, w) (k1 ++ (x, v) :: k2) -> w = v.
Proof.
  intros Hnd Hi. rewrite keys_app in Hnd. cbn [keys map fst] in Hnd. apply NoDup_remove_2 in Hnd.
  apply in_app_iff in Hi. destruct Hi as [Hi|[Hi|Hi]].
  - exfalso. apply Hnd. apply in_app_iff. left. apply in_keys_pair. exists w. exact Hi.
  - inversion Hi. reflexivity.
  - exfalso. apply Hnd. apply in_app_iff. right. apply in_keys_pair. exists w. exact Hi.
Qed.

Lemma keys_mid {A} (k1 k2 : list (positive * A)) x v v' : keys (k1 ++ (x, v') :: k2) = keys (k1 ++ (x, v) :: k2).
Proof. rewrite !keys_app. reflexivity. Qed.

Lemma I0_ITR f lv' t x u u' out c ob : I0 f lv' t x u u' out c ob -> ITR f lv' t x u u' out c ob.
Proof. intros [-> H]. exact H. Qed.

(* ---------- one level among the steps of an environment: what a run leaves on the footprint of every component *)
Section Level.
Variable f : nat.
Variable lv : positive.
Variable time : Z.
Variable chg : values.
Hypothesis Hok : subtree_ok cfg (S f) lv.
Variables roots ext : list comp.
Variable s0 : sstate.
Notation conns := (l_conns (level_of cfg lv)).
Notation comps := (lcomps (level_of cfg lv)).
Notation FD := (fpD cfg f lv).
Notation FL := (fpL cfg f lv).

(* not handed its Input yet *)
Definition UnW (x : comp) (s : sstate) (ob : list obs) : Prop :=
  same_on (FD x) (FL x) s0 s /\ lookup x (wake_of s lv) = lookup x (wake_of s0 lv) /\ (forall d, In d (FD x) -> dev_obs d ob = []).
(* a system simulation whose tick is in progress: a run of its own from a state that agreed with ours on its footprint *)
Definition RunW (x : comp) (chgx : values) (kx : hcfg) (tr : list ev) (s : sstate) (ob : list obs) : Prop :=
  exists lv' t0 sx obx st0 st1 acts,
    lookup x (l_order (level_of cfg lv)) = Some (KSys lv') /\ Pos.eqb x ext_id = false /\ Pos.eqb x exp_id = false /\ f <> O /\
    In (EDispatch (Upd x t0 chgx)) tr /\ same_on (FD x) (FL x) s0 sx /\
    start_tick (l_conns (level_of cfg lv')) time (nroots cfg sx lv' time) = Some st0 /\
    schedule (l_conns (level_of cfg lv')) (lcomps (level_of cfg lv')) st0 = Some (st1, acts) /\
    Star (ES f lv' time chgx) (HC st1 (map EDispatch acts) [] []) (nprologue cfg sx lv' time) kx s obx /\
    lookup x (wake_of s lv) = lookup x (wake_of s0 lv) /\ (forall d, In d (FD x) -> dev_obs d ob = dev_obs d obx).
(* has computed, the answer is on its way *)
Definition PdW (x : comp) (ans : changes) (ca : option Z) (tr : list ev) (s : sstate) (ob : list obs) : Prop :=
  exists a sx sx1 o,
    In (EDispatch a) tr /\ act_comp a = x /\ same_on (FD x) (FL x) s0 sx /\
    comp_step0 cfg devf (ITR f) lv time chg a sx sx1 ans ca o /\ same_on (FD x) (FL x) sx1 s /\
    lookup x (wake_of s lv) = lookup x (wake_of s0 lv) /\ (forall d, In d (FD x) -> dev_obs d ob = dev_obs d o).
(* the answer has reached the scheduler *)
Definition AnW (x : comp) (ch : changes) (tr : list ev) (s : sstate) (ob : list obs) : Prop :=
  exists a sx sx1 ca o,
    In (EDispatch a) tr /\ act_comp a = x /\ same_on (FD x) (FL x) s0 sx /\
    comp_step0 cfg devf (ITR f) lv time chg a sx sx1 ch ca o /\ same_on (FD x) (FL x) sx1 s /\
    lookup x (wake_of s lv) = match ca with Some w => Some w | None => lookup x (wake_of s0 lv) end /\
    (forall d, In d (FD x) -> dev_obs d ob = dev_obs d o).

Lemma UnW_frame x s ob s2 o : UnW x s ob -> same_on (FD x) (FL x) s s2 ->
  lookup x (wake_of s2 lv) = lookup x (wake_of s lv) -> (forall d, In d (FD x) -> dev_obs d o = []) -> UnW x s2 (ob ++ o).
Proof.
  intros [A [B C]] Hs Hw Ho. split; [eapply same_on_trans; eassumption|]. split; [rewrite Hw; exact B|].
  intros d Hd. rewrite dev_obs_app, (C d Hd), (Ho d Hd). reflexivity.
Qed.

Lemma RunW_frame x chgx kx tr s ob tr' s2 o : RunW x chgx kx tr s ob -> (forall e, In e tr -> In e tr') ->
  same_on (FD x) (FL x) s s2 -> lookup x (wake_of s2 lv) = lookup x (wake_of s lv) -> (forall d, In d (FD x) -> dev_obs d o = []) ->
  RunW x chgx kx tr' s2 (ob ++ o).
Proof.
  intros [lv' [t0 [sx [obx [st0 [st1 [acts [Hk [X1 [X2 [HF [Hd [Hsx [Hst [Hsc [HSt [Hw Hob]]]]]]]]]]]]]]]]] Hin Hs Hw2 Ho.
  exists lv', t0, sx, obx, st0, st1, acts. split; [exact Hk|]. split; [exact X1|]. split; [exact X2|]. split; [exact HF|].
  split; [apply Hin; exact Hd|]. split; [exact Hsx|]. split; [exact Hst|]. split; [exact Hsc|]. split; [|split].
  - rewrite <- (app_nil_r obx). eapply St_step; [exact HSt|]. right. split; [reflexivity|]. split; [reflexivity|].
    unfold fpD, fpL in Hs. rewrite Hk in Hs. exact Hs.
  - rewrite Hw2. exact Hw.
  - intros d Hdd. rewrite dev_obs_app, (Hob d Hdd), (Ho d Hdd), app_nil_r. reflexivity.
Qed.

Lemma PdW_frame x ans ca tr s ob tr' s2 o : PdW x ans ca tr s ob -> (forall e, In e tr -> In e tr') ->
  same_on (FD x) (FL x) s s2 -> lookup x (wake_of s2 lv) = lookup x (wake_of s lv) -> (forall d, In d (FD x) -> dev_obs d o = []) ->
  PdW x ans ca tr' s2 (ob ++ o).
Proof.
  intros [a [sx [sx1 [o0 [P1 [P2 [P3 [P4 [P5 [P6 P7]]]]]]]]]] Hin Hs Hw2 Ho.
  exists a, sx, sx1, o0. split; [apply Hin; exact P1|]. split; [exact P2|]. split; [exact P3|]. split; [exact P4|].
  split; [eapply same_on_trans; eassumption|]. split; [rewrite Hw2; exact P6|].
  intros d Hd. rewrite dev_obs_app, (P7 d Hd), (Ho d Hd), app_nil_r. reflexivity.
Qed.

Lemma AnW_frame x ch tr s ob tr' s2 o : AnW x ch tr s ob -> (forall e, In e tr -> In e tr') ->
  same_on (FD x) (FL x) s s2 -> lookup x (wake_of s2 lv) = lookup x (wake_of s lv) -> (forall d, In d (FD x) -> dev_obs d o = []) ->
  AnW x ch tr' s2 (ob ++ o).
Proof.
  intros [a [sx [sx1 [ca [o0 [P1 [P2 [P3 [P4 [P5 [P6 P7]]]]]]]]]]] Hin Hs Hw2 Ho.
  exists a, sx, sx1, ca, o0. split; [apply Hin; exact P1|]. split; [exact P2|]. split; [exact P3|]. split; [exact P4|].
  split; [eapply same_on_trans; eassumption|]. split; [rewrite Hw2; exact P6|].
  intros d Hd. rewrite dev_obs_app, (P7 d Hd), (Ho d Hd), app_nil_r. reflexivity.
Qed.

Record EIr (tr : list ev) (pd : pend) (kids : list (comp * (values * hcfg))) (s : sstate) (ob : list obs) : Prop := {
  ei_un : forall x, ~ In x (ans_comps tr) -> ~ In x (keys pd) -> ~ In x (keys kids) -> UnW x s ob;
  ei_run : forall x chgx kx, In (x, (chgx, kx)) kids -> ~ In x (ans_comps tr) /\ ~ In x (keys pd) /\ RunW x chgx kx tr s ob;
  ei_pd : forall x ans ca, In (x, (ans, ca)) pd -> ~ In x (ans_comps tr) /\ ~ In x (keys kids) /\ PdW x ans ca tr s ob;
  ei_an : forall x ch, In (EAnswer x ch) tr -> ~ In x (keys pd) /\ ~ In x (keys kids) /\ AnW x ch tr s ob;
  ei_int : int_of s lv = int_of s0 lv;
  ei_tk : memb lv (s_ticked s) = memb lv (s_ticked s0);
  ei_nd : NoDup (keys (wake_of s0 lv)) -> NoDup (keys (wake_of s lv));
  ei_pnd : NoDup (keys pd);
  ei_knd : NoDup (keys kids)
}.

(* a step in which only component c acts: everything about the others carries over *)
Lemma EIr_step c tr pd kids s ob tr' pd' kids' s2 o :
  EIr tr pd kids s ob ->
  (forall e, In e tr -> In e tr') ->
  (forall x ch, x <> c -> In (EAnswer x ch) tr' -> In (EAnswer x ch) tr) ->
  (forall x v, x <> c -> (In (x, v) pd' <-> In (x, v) pd)) ->
  (forall x v, x <> c -> (In (x, v) kids' <-> In (x, v) kids)) ->
  (forall x, x <> c -> same_on (FD x) (FL x) s s2 /\ (forall d, In d (FD x) -> dev_obs d o = [])) ->
  (forall x, x <> c -> lookup x (wake_of s2 lv) = lookup x (wake_of s lv)) ->
  int_of s2 lv = int_of s lv -> memb lv (s_ticked s2) = memb lv (s_ticked s) ->
  (NoDup (keys (wake_of s lv)) -> NoDup (keys (wake_of s2 lv))) ->
  NoDup (keys pd') -> NoDup (keys kids') ->
  (~ In c (ans_comps tr') -> ~ In c (keys pd') -> ~ In c (keys kids') -> UnW c s2 (ob ++ o)) ->
  (forall chgx kx, In (c, (chgx, kx)) kids' -> ~ In c (ans_comps tr') /\ ~ In c (keys pd') /\ RunW c chgx kx tr' s2 (ob ++ o)) ->
  (forall ans ca, In (c, (ans, ca)) pd' -> ~ In c (ans_comps tr') /\ ~ In c (keys kids') /\ PdW c ans ca tr' s2 (ob ++ o)) ->
  (forall ch, In (EAnswer c ch) tr' -> ~ In c (keys pd') /\ ~ In c (keys kids') /\ AnW c ch tr' s2 (ob ++ o)) ->
  EIr tr' pd' kids' s2 (ob ++ o).
Proof.
  intros IH Hin Hans Hpd Hkids Hoth Hwk Hint Htk Hnd Hpnd Hknd Cun Crun Cpd Can.
  assert (Ha : forall x, x <> c -> (In x (ans_comps tr') <-> In x (ans_comps tr))).
  { intros x Hx. rewrite <- !answered_In. split; intros [ch Hc]; exists ch; [apply (Hans x ch Hx Hc) | apply Hin; exact Hc]. }
  assert (Hp : forall x, x <> c -> (In x (keys pd') <-> In x (keys pd))) by (intros x Hx; apply keys_iff; intros v; apply Hpd; exact Hx).
  assert (Hk : forall x, x <> c -> (In x (keys kids') <-> In x (keys kids))) by (intros x Hx; apply keys_iff; intros v; apply Hkids; exact Hx).
  constructor.
  - intros x H1 H2 H3. destruct (Pos.eq_dec x c) as [->|Hx]; [apply Cun; assumption|].
    destruct (Hoth x Hx) as [Hs Ho].
    apply (UnW_frame x s ob s2 o); [|exact Hs | apply Hwk; exact Hx | exact Ho].
    apply (ei_un _ _ _ _ _ IH x); [rewrite <- (Ha x Hx) | rewrite <- (Hp x Hx) | rewrite <- (Hk x Hx)]; assumption.
  - intros x chgx kx Hi. destruct (Pos.eq_dec x c) as [->|Hx]; [apply Crun; exact Hi|].
    destruct (Hoth x Hx) as [Hs Ho]. apply (Hkids x _ Hx) in Hi.
    destruct (ei_run _ _ _ _ _ IH x chgx kx Hi) as [R1 [R2 R3]].
    split; [rewrite (Ha x Hx); exact R1|]. split; [rewrite (Hp x Hx); exact R2|].
    apply (RunW_frame x chgx kx tr s ob tr' s2 o R3 Hin Hs (Hwk x Hx) Ho).
  - intros x ans ca Hi. destruct (Pos.eq_dec x c) as [->|Hx]; [apply Cpd; exact Hi|].
    destruct (Hoth x Hx) as [Hs Ho]. apply (Hpd x _ Hx) in Hi.
    destruct (ei_pd _ _ _ _ _ IH x ans ca Hi) as [R1 [R2 R3]].
    split; [rewrite (Ha x Hx); exact R1|]. split; [rewrite (Hk x Hx); exact R2|].
    apply (PdW_frame x ans ca tr s ob tr' s2 o R3 Hin Hs (Hwk x Hx) Ho).
  - intros x ch Hi. destruct (Pos.eq_dec x c) as [->|Hx]; [apply Can; exact Hi|].
    destruct (Hoth x Hx) as [Hs Ho]. apply (Hans x ch Hx) in Hi.
    destruct (ei_an _ _ _ _ _ IH x ch Hi) as [R1 [R2 R3]].
    split; [rewrite (Hp x Hx); exact R1|]. split; [rewrite (Hk x Hx); exact R2|].
    apply (AnW_frame x ch tr s ob tr' s2 o R3 Hin Hs (Hwk x Hx) Ho).
  - rewrite Hint. exact (ei_int _ _ _ _ _ IH).
  - rewrite Htk. exact (ei_tk _ _ _ _ _ IH).
  - intros H. apply Hnd. exact (ei_nd _ _ _ _ _ IH H).
  - exact Hpnd.
  - exact Hknd.
Qed.

Lemma same_on_mono D L D' L' u v : (forall d, In d D' -> In d D) -> (forall l, In l L' -> In l L) -> same_on D L u v -> same_on D' L' u v.
Proof. intros HD HL [A B]. split; [intros d Hd; apply A; apply HD; exact Hd | intros l Hl; apply B; apply HL; exact Hl]. Qed.

Definition EI (k : hcfg) (s : sstate) (ob : list obs) : Prop :=
  match k with HC st tr pd kids => Run conns comps time roots ext st tr /\ EIr tr pd kids s ob end.

Lemma EIr_env tr pd kids s ob s2 :
  EIr tr pd kids s ob -> same_on (devices_below cfg (S f) lv) (levels_below cfg (S f) lv) s s2 -> EIr tr pd kids s2 (ob ++ []).
Proof.
  intros IH Hs.
  assert (Hx : forall x, same_on (FD x) (FL x) s s2) by (intros x; eapply same_on_mono; [apply fpD_sub | apply fpL_sub | exact Hs]).
  destruct Hs as [_ HL]. destruct (HL lv (or_introl eq_refl)) as [Hw [Hi Ht]].
  assert (Hwx : forall x, lookup x (wake_of s2 lv) = lookup x (wake_of s lv)) by (intros x; rewrite Hw; reflexivity).
  constructor.
  - intros x H1 H2 H3. apply (UnW_frame x s ob s2 []); [apply (ei_un _ _ _ _ _ IH x H1 H2 H3) | apply Hx | apply Hwx | reflexivity].
  - intros x chgx kx Hin. destruct (ei_run _ _ _ _ _ IH x chgx kx Hin) as [R1 [R2 R3]]. split; [exact R1|]. split; [exact R2|].
    apply (RunW_frame x chgx kx tr s ob tr s2 [] R3 (fun e h => h) (Hx x) (Hwx x)). reflexivity.
  - intros x ans ca Hin. destruct (ei_pd _ _ _ _ _ IH x ans ca Hin) as [R1 [R2 R3]]. split; [exact R1|]. split; [exact R2|].
    apply (PdW_frame x ans ca tr s ob tr s2 [] R3 (fun e h => h) (Hx x) (Hwx x)). reflexivity.
  - intros x ch Hin. destruct (ei_an _ _ _ _ _ IH x ch Hin) as [R1 [R2 R3]]. split; [exact R1|]. split; [exact R2|].
    apply (AnW_frame x ch tr s ob tr s2 [] R3 (fun e h => h) (Hx x) (Hwx x)). reflexivity.
  - rewrite Hi. exact (ei_int _ _ _ _ _ IH).
  - rewrite Ht. exact (ei_tk _ _ _ _ _ IH).
  - intros H. rewrite Hw. exact (ei_nd _ _ _ _ _ IH H).
  - exact (ei_pnd _ _ _ _ _ IH).
  - exact (ei_knd _ _ _ _ _ IH).
Qed.

Lemma EI_step k s ob k' s' o : EI k s ob -> HS (S f) lv time chg k s k' s' o -> EI k' s' (ob ++ o).
Proof.
  destruct (fp_facts cfg f lv Hok) as [Hnlv Hdisj].
  intros HE H. cbn [HS] in H.
  destruct H as [st tr pd kids s a ans ca s1 o Ha Hna Hnp Hnk Hs
                | st tr pd kids s x t0 chgx lv' st0 st1 acts HF Ha Hna Hnp Hnk Hx1 Hx2 Hk Hst Hsc
                | st tr pd k1 k2 s x chgx lv' kx kx' s1 o Hk HK
                | st tr pd k1 k2 s x chgx lv' stx trx Hk Ht
                | st tr pd1 pd2 kids s c ans ca st' acts fin Hc Hp]; destruct HE as [HR IH]; cbn [EI].
  - (* a device is handed its input and computes *)
    split; [exact HR|]. set (c := act_comp a) in *.
    pose proof (comp_step0_framed cfg devf f (I0 f) lv time chg a s s1 ans ca o (I0_framed f) Hs) as [FrD [FrL FrO]]. fold c in FrD, FrL, FrO.
    assert (Hw1 : wake_of s1 lv = wake_of s lv) by (apply (FrL lv); intros Hi; apply (Hnlv _ _ Hi); reflexivity).
    assert (Hi1 : int_of s1 lv = int_of s lv) by (apply (FrL lv); intros Hi; apply (Hnlv _ _ Hi); reflexivity).
    assert (Ht1 : memb lv (s_ticked s1) = memb lv (s_ticked s)) by (apply (FrL lv); intros Hi; apply (Hnlv _ _ Hi); reflexivity).
    apply (EIr_step c tr pd kids s ob tr (pd ++ [(c, (ans, ca))]) kids s1 o IH).
    + exact (fun e h => h).
    + exact (fun x ch _ h => h).
    + intros x v Hx. apply in_snoc_other. exact Hx.
    + intros x v _. reflexivity.
    + intros x Hx. destruct (Hdisj x c Hx) as [Dd Dl]. split.
      * split; [intros d Hd; apply FrD; apply Dd; exact Hd | intros l Hl; apply FrL; apply Dl; exact Hl].
      * intros d Hd. apply (dev_obs_outside d o (FD c) FrO). apply Dd. exact Hd.
    + intros x _. rewrite Hw1. reflexivity.
    + exact Hi1.
    + exact Ht1.
    + rewrite Hw1. exact (fun h => h).
    + rewrite keys_app. cbn [keys map fst]. apply NoDup_app_disj; [exact (ei_pnd _ _ _ _ _ IH) | constructor; [intros [] | constructor] |].
      intros x Hx [E|[]]. subst x. exact (Hnp Hx).
    + exact (ei_knd _ _ _ _ _ IH).
    + intros _ Hc _. exfalso. apply Hc. rewrite keys_app. apply in_app_iff. right. left. reflexivity.
    + intros chgx kx Hi. exfalso. apply Hnk. apply in_keys_pair. exists (chgx, kx). exact Hi.
    + intros ans0 ca0 Hi. apply in_app_iff in Hi. destruct Hi as [Hi|[Hi|[]]].
      { exfalso. apply Hnp. apply in_keys_pair. exists (ans0, ca0). exact Hi. }
      inversion Hi; subst ans0 ca0. split; [exact Hna|]. split; [exact Hnk|].
      destruct (ei_un _ _ _ _ _ IH c Hna Hnp Hnk) as [U1 [U2 U3]].
      exists a, s, s1, o. split; [exact Ha|]. split; [reflexivity|]. split; [exact U1|].
      split; [apply (comp_step0_mono cfg devf (I0 f) (ITR f) lv time chg a s s1 ans ca o (I0_ITR f) Hs)|].
      split; [apply same_on_refl|]. split; [rewrite Hw1; exact U2|].
      intros d Hd. rewrite dev_obs_app, (U3 d Hd). reflexivity.
    + intros ch Hi. exfalso. apply Hna. apply answered_In. exists ch. exact Hi.
  - (* a system simulation is handed its input: the tick of its scheduler starts *)
    split; [exact HR|].
    assert (HlvFL : In lv' (FL x)) by (unfold fpL; rewrite Hk; apply in_levels_below_self; exact HF).
    assert (Hne : lv' <> lv) by (apply (Hnlv x lv' HlvFL)).
    pose proof (prologue_framed cfg s lv' time [] [lv'] (or_introl eq_refl)) as [PD [PL _]].
    assert (Hlvn : ~ In lv [lv']) by (intros [E|[]]; apply Hne; exact E).
    destruct (PL lv Hlvn) as [Hw1 [Hi1 Ht1]].
    apply (EIr_step x tr pd kids s ob tr pd (kids ++ [(x, (chgx, HC st1 (map EDispatch acts) [] []))]) (nprologue cfg s lv' time) [] IH).
    + exact (fun e h => h).
    + exact (fun y ch _ h => h).
    + intros y v _. reflexivity.
    + intros y v Hy. apply in_snoc_other. exact Hy.
    + intros y Hy. split; [|intros d _; reflexivity]. split; [intros d _; apply PD; intros []|].
      intros l Hl. apply PL. intros [E|[]]. subst l. apply (proj2 (Hdisj y x Hy) lv' Hl). exact HlvFL.
    + intros y _. rewrite Hw1. reflexivity.
    + exact Hi1.
    + exact Ht1.
    + rewrite Hw1. exact (fun h => h).
    + exact (ei_pnd _ _ _ _ _ IH).
    + rewrite keys_app. cbn [keys map fst]. apply NoDup_app_disj; [exact (ei_knd _ _ _ _ _ IH) | constructor; [intros [] | constructor] |].
      intros y Hy [E|[]]. subst y. exact (Hnk Hy).
    + intros _ _ Hc. exfalso. apply Hc. rewrite keys_app. apply in_app_iff. right. left. reflexivity.
    + intros c0 k0 Hi. apply in_app_iff in Hi. destruct Hi as [Hi|[Hi|[]]].
      { exfalso. apply Hnk. apply in_keys_pair. exists (c0, k0). exact Hi. }
      inversion Hi; subst c0 k0. split; [exact Hna|]. split; [exact Hnp|].
      destruct (ei_un _ _ _ _ _ IH x Hna Hnp Hnk) as [U1 [U2 U3]].
      exists lv', t0, s, [], st0, st1, acts. split; [exact Hk|]. split; [exact Hx1|]. split; [exact Hx2|]. split; [exact HF|].
      split; [exact Ha|]. split; [exact U1|]. split; [exact Hst|]. split; [exact Hsc|]. split; [constructor|].
      split; [rewrite Hw1; exact U2|]. intros d Hd. rewrite app_nil_r. rewrite (U3 d Hd). reflexivity.
    + intros ans0 ca0 Hi. exfalso. apply Hnp. apply in_keys_pair. exists (ans0, ca0). exact Hi.
    + intros ch Hi. exfalso. apply Hna. apply answered_In. exists ch. exact Hi.
  - (* a message inside the tick of a system simulation *)
    split; [exact HR|].
    assert (Hfr : framed (FD x) (FL x) s s1 o) by (unfold fpD, fpL; rewrite Hk; apply (HS_framed f lv' time chgx kx s kx' s1 o HK)).
    destruct Hfr as [FrD [FrL FrO]].
    assert (Hw1 : wake_of s1 lv = wake_of s lv) by (apply (FrL lv); intros Hi; apply (Hnlv _ _ Hi); reflexivity).
    assert (Hi1 : int_of s1 lv = int_of s lv) by (apply (FrL lv); intros Hi; apply (Hnlv _ _ Hi); reflexivity).
    assert (Ht1 : memb lv (s_ticked s1) = memb lv (s_ticked s)) by (apply (FrL lv); intros Hi; apply (Hnlv _ _ Hi); reflexivity).
    assert (Hix : In (x, (chgx, kx)) (k1 ++ (x, (chgx, kx)) :: k2)) by (apply in_app_iff; right; left; reflexivity).
    destruct (ei_run _ _ _ _ _ IH x chgx kx Hix) as [R1 [R2 R3]].
    pose proof (ei_knd _ _ _ _ _ IH) as Hknd.
    assert (Hknd' : NoDup (keys (k1 ++ (x, (chgx, kx')) :: k2))) by (rewrite (keys_mid k1 k2 x (chgx, kx) (chgx, kx')); exact Hknd).
    assert (Hxk' : In x (keys (k1 ++ (x, (chgx, kx')) :: k2))) by (apply in_keys_pair; exists (chgx, kx'); apply in_app_iff; right; left; reflexivity).
    apply (EIr_step x tr pd (k1 ++ (x, (chgx, kx)) :: k2) s ob tr pd (k1 ++ (x, (chgx, kx')) :: k2) s1 o IH).
    + exact (fun e h => h).
    + exact (fun y ch _ h => h).
    + intros y v _. reflexivity.
    + intros y v Hy. apply in_mid_other. exact Hy.
    + intros y Hy. destruct (Hdisj y x Hy) as [Dd Dl]. split.
      * split; [intros d Hd; apply FrD; apply Dd; exact Hd | intros l Hl; apply FrL; apply Dl; exact Hl].
      * intros d Hd. apply (dev_obs_outside d o (FD x) FrO). apply Dd. exact Hd.
    + intros y _. rewrite Hw1. reflexivity.
    + exact Hi1.
    + exact Ht1.
    + rewrite Hw1. exact (fun h => h).
    + exact (ei_pnd _ _ _ _ _ IH).
    + exact Hknd'.
    + intros _ _ Hc. exfalso. exact (Hc Hxk').
    + intros c0 k0 Hi. pose proof (in_mid_same k1 k2 x (chgx, kx') (c0, k0) Hknd' Hi) as E. inversion E; subst c0 k0.
      split; [exact R1|]. split; [exact R2|].
      destruct R3 as [lv0 [t0 [sx [obx [st0 [st1 [acts [Hk0 [X1 [X2 [HF [Hd [Hsx [Hst [Hsc [HSt [Hw Hob]]]]]]]]]]]]]]]]].
      rewrite Hk in Hk0. inversion Hk0; subst lv0.
      exists lv', t0, sx, (obx ++ o), st0, st1, acts. split; [exact Hk|]. split; [exact X1|]. split; [exact X2|]. split; [exact HF|].
      split; [exact Hd|]. split; [exact Hsx|]. split; [exact Hst|]. split; [exact Hsc|].
      split; [eapply St_step; [exact HSt | left; exact HK]|]. split; [rewrite Hw1; exact Hw|].
      intros d Hdd. rewrite !dev_obs_app, (Hob d Hdd). reflexivity.
    + intros ans0 ca0 Hi. exfalso. apply R2. apply in_keys_pair. exists (ans0, ca0). exact Hi.
    + intros ch Hi. exfalso. apply R1. apply answered_In. exists ch. exact Hi.
  - (* the tick of a system simulation has ended: it answers *)
    split; [exact HR|].
    assert (Hix : In (x, (chgx, HC stx trx [] [])) (k1 ++ (x, (chgx, HC stx trx [] [])) :: k2)) by (apply in_app_iff; right; left; reflexivity).
    destruct (ei_run _ _ _ _ _ IH x chgx _ Hix) as [R1 [R2 R3]].
    pose proof (ei_knd _ _ _ _ _ IH) as Hknd. rewrite keys_app in Hknd. cbn [keys map fst] in Hknd.
    assert (Hxn : ~ In x (keys (k1 ++ k2))) by (rewrite keys_app; apply NoDup_remove_2 in Hknd; exact Hknd).
    apply (EIr_step x tr pd (k1 ++ (x, (chgx, HC stx trx [] [])) :: k2) s ob tr (pd ++ [(x, (exposed trx, min_wake (wake_of s lv')))]) (k1 ++ k2) s [] IH).
    + exact (fun e h => h).
    + exact (fun y ch _ h => h).
    + intros y v Hy. apply in_snoc_other. exact Hy.
    + intros y v Hy. apply in_mid_rem_other. exact Hy.
    + intros y _. split; [apply same_on_refl | intros d _; reflexivity].
    + intros y _. reflexivity.
    + reflexivity.
    + reflexivity.
    + exact (fun h => h).
    + rewrite keys_app. cbn [keys map fst]. apply NoDup_app_disj; [exact (ei_pnd _ _ _ _ _ IH) | constructor; [intros [] | constructor] |].
      intros y Hy [E|[]]. subst y. exact (R2 Hy).
    + rewrite keys_app. apply NoDup_remove_1 in Hknd. exact Hknd.
    + intros _ Hc _. exfalso. apply Hc. rewrite keys_app. apply in_app_iff. right. left. reflexivity.
    + intros c0 k0 Hi. exfalso. apply Hxn. apply in_keys_pair. exists (c0, k0). exact Hi.
    + intros ans0 ca0 Hi. apply in_app_iff in Hi. destruct Hi as [Hi|[Hi|[]]].
      { exfalso. apply R2. apply in_keys_pair. exists (ans0, ca0). exact Hi. }
      inversion Hi; subst ans0 ca0. split; [exact R1|]. split; [exact Hxn|].
      destruct R3 as [lv0 [t0 [sx [obx [st0 [st1 [acts [Hk0 [X1 [X2 [HF [Hd [Hsx [Hst [Hsc [HSt [Hw Hob]]]]]]]]]]]]]]]]].
      rewrite Hk in Hk0. inversion Hk0; subst lv0.
      exists (Upd x t0 chgx), sx, s, obx. split; [exact Hd|]. split; [reflexivity|]. split; [exact Hsx|]. split.
      { unfold comp_step0. rewrite X1, X2, Hk. destruct f as [|f']; [congruence|]. unfold ITR, TR.
        exists st0, st1, acts, stx, trx. split; [exact Hst|]. split; [exact Hsc|]. split; [exact HSt|]. split; [exact Ht|]. split; reflexivity. }
      split; [apply same_on_refl|]. split; [exact Hw|]. intros d Hdd. rewrite app_nil_r. apply Hob. exact Hdd.
    + intros ch Hi. exfalso. apply R1. apply answered_In. exists ch. exact Hi.
  - (* an answer reaches the scheduler *)
    split; [eapply Run_step; eassumption|].
    assert (Hpin : In (c, (ans, ca)) (pd1 ++ (c, (ans, ca)) :: pd2)) by (apply in_app_iff; right; left; reflexivity).
    destruct (ei_pd _ _ _ _ _ IH c ans ca Hpin) as [Hcna [Hcnk PW]].
    pose proof (ei_pnd _ _ _ _ _ IH) as Hpnd. rewrite keys_app in Hpnd. cbn [keys map fst] in Hpnd.
    assert (Hcn12 : ~ In c (keys (pd1 ++ pd2))) by (rewrite keys_app; apply NoDup_remove_2 in Hpnd; exact Hpnd).
    assert (Hsame : forall x, same_on (FD x) (FL x) s (wake_upd s lv c ca)).
    { intros x. apply wake_upd_same_on. intros Hi. apply (Hnlv x lv Hi). reflexivity. }
    assert (Hint_new : int_of (wake_upd s lv c ca) lv = int_of s lv) by (unfold wake_upd; destruct ca; reflexivity).
    assert (Htk_new : s_ticked (wake_upd s lv c ca) = s_ticked s) by (unfold wake_upd; destruct ca; reflexivity).
    assert (Hnoans : forall y ch, ~ In (EAnswer y ch) (map EDispatch acts)).
    { intros y ch Hi. apply in_map_iff in Hi. destruct Hi as [a0 [E _]]. discriminate. }
    assert (Hcans : In c (ans_comps (tr ++ EAnswer c ans :: map EDispatch acts))).
    { apply answered_In. exists ans. apply in_app_iff. right. left. reflexivity. }
    apply (EIr_step c tr (pd1 ++ (c, (ans, ca)) :: pd2) kids s ob (tr ++ EAnswer c ans :: map EDispatch acts) (pd1 ++ pd2) kids (wake_upd s lv c ca) [] IH).
    + intros e He. apply in_app_iff. left. exact He.
    + intros y ch Hy Hi. apply in_app_iff in Hi. destruct Hi as [Hi|[Hi|Hi]]; [exact Hi | inversion Hi; subst; contradiction | exfalso; exact (Hnoans y ch Hi)].
    + intros y v Hy. apply in_mid_rem_other. exact Hy.
    + intros y v _. reflexivity.
    + intros y _. split; [apply Hsame | intros d _; reflexivity].
    + intros y Hy. rewrite wake_upd_lookup. destruct (Pos.eqb_spec y c); [contradiction | reflexivity].
    + exact Hint_new.
    + rewrite Htk_new. reflexivity.
    + intros Hn. unfold wake_upd. destruct ca as [w|]; [|exact Hn]. rewrite wake_of_set_wake. apply NoDup_keys_upd. exact Hn.
    + rewrite keys_app. apply NoDup_remove_1 in Hpnd. exact Hpnd.
    + exact (ei_knd _ _ _ _ _ IH).
    + intros Hc0 _ _. exfalso. exact (Hc0 Hcans).
    + intros c0 k0 Hi. exfalso. apply Hcnk. apply in_keys_pair. exists (c0, k0). exact Hi.
    + intros ans0 ca0 Hi. exfalso. apply Hcn12. apply in_keys_pair. exists (ans0, ca0). exact Hi.
    + intros ch Hi. apply in_app_iff in Hi. destruct Hi as [Hi|[Hi|Hi]].
      * exfalso. apply Hcna. apply answered_In. exists ch. exact Hi.
      * inversion Hi; subst ch. split; [exact Hcn12|]. split; [exact Hcnk|].
        destruct PW as [a [sx [sx1 [o0 [P1 [P2 [P3 [P4 [P5 [P6 P7]]]]]]]]]].
        exists a, sx, sx1, ca, o0. split; [apply in_app_iff; left; exact P1|]. split; [exact P2|]. split; [exact P3|]. split; [exact P4|].
        split; [eapply same_on_trans; [exact P5 | apply Hsame]|]. split.
        -- rewrite wake_upd_lookup, Pos.eqb_refl, P6. reflexivity.
        -- intros d Hd. rewrite app_nil_r. apply P7. exact Hd.
      * exfalso. exact (Hnoans c ch Hi).
Qed.

Theorem estar_EI st0 st1 acts : start_tick conns time roots = Some st0 -> ext = pending st0 -> schedule conns comps st0 = Some (st1, acts) ->
  forall k s ob, Star (ES (S f) lv time chg) (HC st1 (map EDispatch acts) [] []) s0 k s ob -> EI k s ob.
Proof.
  intros H1 H2 H3 k s ob HS. remember (HC st1 (map EDispatch acts) [] []) as k0 eqn:Ek0. remember s0 as u0 eqn:Eu0.
  induction HS as [k s | k s k1 s1 o1 k2 s2 o HS IH HR]; subst.
  - cbn [EI]. split; [eapply Run_start; eassumption|]. constructor.
    + intros x _ _ _. split; [apply same_on_refl|]. split; [reflexivity | intros d _; reflexivity].
    + intros x chgx kx [].
    + intros x ans ca [].
    + intros x ch Hi. exfalso. apply in_map_iff in Hi. destruct Hi as [a0 [E _]]. discriminate.
    + reflexivity.
    + reflexivity.
    + exact (fun h => h).
    + constructor.
    + constructor.
  - specialize (IH eq_refl eq_refl). destruct HR as [HR|[-> [-> Hs]]].
    + apply (EI_step k1 s1 o1 k2 s2 o IH HR).
    + destruct k1 as [st tr pd kids]. destruct IH as [HRun IH]. split; [exact HRun | apply (EIr_env tr pd kids s1 o1 s2 IH Hs)].
Qed.

(* a complete run of the level: every answer delivered, no system simulation still ticking *)
Theorem estar_LT st0 st1 acts st tr s ob :
  start_tick conns time roots = Some st0 -> ext = pending st0 -> schedule conns comps st0 = Some (st1, acts) ->
  Star (ES (S f) lv time chg) (HC st1 (map EDispatch acts) [] []) s0 (HC st tr [] []) s ob -> todo st = [] ->
  inner_nd (ITR f) -> NoDup (keys chg) ->
  (forall e, In e ob -> In (obs_comp e) (devices_below cfg (S f) lv)) ->
  LT cfg devf f lv time (ITR f) chg roots ext s0 tr s ob.
Proof.
  intros H1 H2 H3 HS Ht HInd Hchg Hobs.
  destruct (estar_EI st0 st1 acts H1 H2 H3 _ _ _ HS) as [Rn IH].
  assert (SIr : SI cfg devf f lv time chg s0 (ITR f) tr s ob).
  { constructor.
    - intros x Hx. apply (ei_un _ _ _ _ _ IH x Hx); intros [].
    - intros x ch Hi. destruct (ei_an _ _ _ _ _ IH x ch Hi) as [_ [_ A]]. exact A.
    - exact (ei_int _ _ _ _ _ IH).
    - exact (ei_tk _ _ _ _ _ IH).
    - exact (ei_nd _ _ _ _ _ IH). }
  assert (Hlv : level_ok cfg lv) by (destruct Hok as [_ [_ H]]; apply H; left; reflexivity).
  destruct Hlv as [_ [_ [Hss _]]].
  assert (Wf : wf_answers tr).
  { intros c ch Hi. destruct (si_an _ _ _ _ _ _ _ _ _ _ _ SIr c ch Hi) as [a [sx [sx1 [ca [o [_ [_ [_ [A4 _]]]]]]]]].
    apply (step_nd cfg devf Hdev_nd (ITR f) lv time chg a sx sx1 ch ca o HInd Hchg A4). }
  pose proof (run_inv _ _ _ _ _ _ _ Rn) as HI.
  constructor.
  - exact (run_gate _ _ _ _ _ _ _ Rn).
  - exact (run_disp_ok _ _ _ _ Hss _ _ _ Rn Wf).
  - exact (run_dispatch_nd _ _ _ _ _ _ _ Rn).
  - destruct (run_ext _ _ _ _ _ _ _ Rn) as [st0' [S0 E0]]. subst ext. rewrite E0.
    destruct (start_tick_spec _ _ _ st0' S0) as [_ [_ [_ [_ [_ H]]]]]. exact H.
  - exact (run_finished _ _ _ _ _ _ _ Rn Ht).
  - exact (i_ans_ext _ _ _ _ _ _ HI).
  - exact (i_disp_ext _ _ _ _ _ _ HI).
  - exact SIr.
  - exact Hobs.
Qed.
End Level.

Lemma estar_obs f lv time chg k s k' s' ob : Star (ES f lv time chg) k s k' s' ob ->
  forall e, In e ob -> In (obs_comp e) (devices_below cfg f lv).
Proof.
  induction 1 as [k s | k s k1 s1 o1 k2 s2 o HSt IH HR]; [intros e []|].
  intros e He. apply in_app_iff in He. destruct He as [He|He]; [apply IH; exact He|].
  destruct HR as [HR|[_ [-> _]]]; [|destruct He]. destruct (HS_framed f lv time chg _ _ _ _ _ HR) as [_ [_ F]]. apply F. exact He.
Qed.

Lemma estar_Run f lv time chg roots st0 st1 acts s0 : start_tick (l_conns (level_of cfg lv)) time roots = Some st0 ->
  schedule (l_conns (level_of cfg lv)) (lcomps (level_of cfg lv)) st0 = Some (st1, acts) ->
  forall k s ob, Star (ES (S f) lv time chg) (HC st1 (map EDispatch acts) [] []) s0 k s ob ->
  match k with HC st tr _ _ => Run (l_conns (level_of cfg lv)) (lcomps (level_of cfg lv)) time roots (pending st0) st tr end.
Proof.
  intros H1 H3 k s ob HSt. remember (HC st1 (map EDispatch acts) [] []) as k0 eqn:Ek0. remember s0 as u0 eqn:Eu0.
  induction HSt as [k s | k s k1 s1 o1 k2 s2 o HSt IH HR]; subst.
  - eapply Run_start; [exact H1 | reflexivity | exact H3].
  - specialize (IH eq_refl eq_refl). destruct HR as [HR|[-> _]]; [|exact IH]. cbn [HS] in HR.
    destruct HR as [st tr pd kids s a ans ca s1' o Ha Hna Hnp Hnk Hs
                  | st tr pd kids s x t0 chgx lv' st0' st1' acts' HF Ha Hna Hnp Hnk Hx1 Hx2 Hk Hst Hsc
                  | st tr pd k1' k2' s x chgx lv' kx kx' s1' o Hk HK
                  | st tr pd k1' k2' s x chgx lv' stx trx Hk Ht
                  | st tr pd1 pd2 kids s c ans ca st' acts' fin Hc Hp]; try exact IH.
    eapply Run_step; eassumption.
Qed.

Lemma ITR_inner_nd f : inner_nd (ITR f).
Proof.
  intros lv time chg s s' out ca ob H. destruct f as [|f]; unfold ITR, TR in H.
  - destruct H as [_ [-> _]]. constructor.
  - destruct H as [st0 [st1 [acts [st [tr [H1 [H2 [H3 [_ [-> _]]]]]]]]]].
    apply (exposed_nd _ _ _ _ _ _ _ (estar_Run f lv time chg _ st0 st1 acts _ H1 H2 _ _ _ H3)).
Qed.

(* ---------- every interleaving of the messages of all the schedulers of a nested tick ends like Model/Sim.v *)
Theorem ITR_sim : forall f, rdet cfg (ITR f) (G cfg devf f) f.
Proof.
  induction f as [|f IH]; intros lv Hok time chgA chgB sA sB sA' sB' outA outB caA caB obA obB HnA HnB Hchg Hs HA HB.
  - unfold ITR, TR, triv in HA. destruct HA as [-> [-> [-> ->]]]. unfold G, GI in HB. cbn [on_tick_level] in HB. inversion HB; subst.
    split; [intros q; reflexivity|]. split; [constructor|]. split; [constructor|]. split; [reflexivity|]. split; [exact Hs | intros d; constructor].
  - pose proof (ITR_inner_nd (S f) _ _ _ _ _ _ _ _ HA) as NoA. pose proof (G_nd cfg devf (S f) _ _ _ _ _ _ _ _ HB) as NoB.
    unfold ITR, TR in HA. destruct HA as [st0 [st1 [acts [stA [trA [HstA [HscA [HRA [HtA [-> ->]]]]]]]]]].
    set (extA := pending st0).
    unfold G, GI in HB. cbn [on_tick_level] in HB. rewrite tick_with_core in HB.
    change (int_of sB lv ++ map fst (filter (fun e : comp * Z => Z.leb (snd e) time) (wake_of sB lv)) ++ [ext_id] ++
            (if negb (memb lv (s_ticked sB)) then map fst (l_order (level_of cfg lv)) ++ [exp_id] else []))
      with (nroots cfg sB lv time) in HB.
    change (log_tick (mark_ticked (set_int (set_wake sB lv (filter (fun e : comp * Z => negb (Z.leb (snd e) time)) (wake_of sB lv))) lv []) lv) lv time (nroots cfg sB lv time))
      with (nprologue cfg sB lv time) in HB.
    destruct Hs as [HD HL]. destruct (HL lv (or_introl eq_refl)) as [W [Ei Et]].
    pose proof (nroots_iff cfg sA sB lv time W Ei Et) as Hroots.
    pose proof (estar_LT f lv time chgA Hok (nroots cfg sA lv time) extA (nprologue cfg sA lv time) st0 st1 acts stA trA sA' obA
                  HstA eq_refl HscA HRA HtA (ITR_inner_nd f) HnA (estar_obs _ _ _ _ _ _ _ _ _ HRA)) as LA.
    pose proof (estar_Run f lv time chgA _ st0 st1 acts _ HstA HscA _ _ _ HRA) as RnA. cbv beta iota in RnA.
    assert (HextB : forall c, In c extA <-> exists r, In r (nroots cfg sB lv time) /\ reach (l_conns (level_of cfg lv)) r c).
    { intros c. rewrite (lt_ext _ _ _ _ _ _ _ _ _ _ _ _ _ LA c). split; intros [r [Hr Hre]]; exists r; (split; [apply Hroots; exact Hr | exact Hre]). }
    assert (Hsub : forall c, In c extA -> In c (lcomps (level_of cfg lv))).
    { apply (run_ext_comps _ _ _ _ _ _ _ RnA). }
    destruct (sim_LT cfg devf Hdev_nd f lv time chgB Hok HnB (on_tick_level cfg devf f) (G_framed cfg devf f) (G_nd cfg devf f)
                (nroots cfg sB lv time) extA HextB (nprologue cfg sB lv time) Hsub) as [LB Eout].
    unfold a_fin, a0 in LB, Eout.
    match type of HB with context [fold_left ?F ?l ?a] => set (afin := fold_left F l a) in HB, LB, Eout end.
    clearbody afin. cbv beta iota in HB. injection HB as E1 E2 E3 E4. subst sB' outB caB obB.
    destruct (level_rel cfg devf Hdev_ext f lv time Hok (ITR f) (G cfg devf f) chgA chgB _ _ extA extA _ _ trA sA' obA _ _ _
                IH (ITR_inner_nd f) (G_nd cfg devf f) HnA HnB Hchg Hroots (prologue_NSR cfg _ _ sA sB lv time (conj HD HL)) LA LB) as [Ho [Hs' Hob]].
    split; [rewrite Eout; exact Ho|]. split; [exact NoA|]. split; [exact NoB|]. split.
    + apply min_wake_weq. destruct Hs' as [_ HL']. apply (HL' lv (or_introl eq_refl)).
    + split; [exact Hs' | exact Hob].
Qed.

Theorem HNT_sim f : rdet cfg (HNT f) (G cfg devf f) f.
Proof.
  intros lv Hok time chgA chgB sA sB sA' sB' outA outB caA caB obA obB HnA HnB Hchg Hs HA HB.
  apply (ITR_sim f lv Hok time chgA chgB sA sB sA' sB' outA outB caA caB obA obB HnA HnB Hchg Hs (HNT_ITR f _ _ _ _ _ _ _ _ HA) HB).
Qed.

(* ---------- the message-level runs of Proofs/MsgLevelP.v are among the interleaved ones (so there are such runs) *)
Lemma lift_star f lv time chg st tr pd k1 k2 x chgx lv' :
  lookup x (l_order (level_of cfg lv)) = Some (KSys lv') ->
  forall kx u kx' u' o, Star (HS f lv' time chgx) kx u kx' u' o ->
  Star (HS (S f) lv time chg) (HC st tr pd (k1 ++ (x, (chgx, kx)) :: k2)) u (HC st tr pd (k1 ++ (x, (chgx, kx')) :: k2)) u' o.
Proof.
  intros Hk kx u kx' u' o H. induction H as [kx u | kx u ky v o1 kz w o H IH HR]; [constructor|].
  eapply St_step; [exact IH|]. cbn [HS]. eapply L_kid; eassumption.
Qed.

Lemma comp_step0_cases f lv time chg a s s1 ans ca o :
  comp_step0 cfg devf (MNT cfg devf f) lv time chg a s s1 ans ca o ->
  comp_step0 cfg devf (I0 f) lv time chg a s s1 ans ca o \/
  exists x t0 chgx lv', a = Upd x t0 chgx /\ Pos.eqb x ext_id = false /\ Pos.eqb x exp_id = false /\
     lookup x (l_order (level_of cfg lv)) = Some (KSys lv') /\ f <> O /\ MNT cfg devf f lv' time chgx s s1 ans ca o.
Proof.
  unfold comp_step0. destruct a as [x t0 chgx|x t0]; [|intros H; left; exact H].
  destruct (Pos.eqb x ext_id) eqn:E1; [intros H; left; exact H|].
  destruct (Pos.eqb x exp_id) eqn:E2; [intros H; left; exact H|].
  destruct (lookup x (l_order (level_of cfg lv))) as [[|lv']|] eqn:Ek; [intros H; left; exact H | | intros H; left; exact H].
  intros H. destruct f as [|f].
  - left. split; [reflexivity | exact H].
  - right. exists x, t0, chgx, lv'. split; [reflexivity|]. split; [exact E1|]. split; [exact E2|]. split; [exact Ek|]. split; [discriminate | exact H].
Qed.

Lemma mrun_hstar f lv time chg roots ext s0 st tr pd s ob :
  (forall lv' t x u u' out c o, MNT cfg devf f lv' t x u u' out c o -> HNT f lv' t x u u' out c o) ->
  MRun cfg devf (MNT cfg devf f) lv time chg roots ext s0 st tr pd s ob ->
  exists st0 st1 acts, start_tick (l_conns (level_of cfg lv)) time roots = Some st0 /\ ext = pending st0 /\
    schedule (l_conns (level_of cfg lv)) (lcomps (level_of cfg lv)) st0 = Some (st1, acts) /\
    Star (HS (S f) lv time chg) (HC st1 (map EDispatch acts) [] []) s0 (HC st tr pd []) s ob.
Proof.
  intros IHf. induction 1 as [st0 st1 acts H1 H2 H3 | st tr pd s ob a ans ca s1 o HR IH Ha Hna Hnp Hs
                             | st tr pd1 pd2 s ob c ans ca st' acts fin HR IH Hc Hp].
  - exists st0, st1, acts. split; [exact H1|]. split; [exact H2|]. split; [exact H3 | constructor].
  - destruct IH as [st0 [st1 [acts [H1 [H2 [H3 HSt]]]]]]. exists st0, st1, acts. split; [exact H1|]. split; [exact H2|]. split; [exact H3|].
    destruct (comp_step0_cases f lv time chg a s s1 ans ca o Hs) as [Hs0|[x [t0 [chgx [lv' [-> [X1 [X2 [Hk [HF HM]]]]]]]]]].
    + eapply St_step; [exact HSt|]. cbn [HS]. apply L_in; [exact Ha | exact Hna | exact Hnp | intros [] | exact Hs0].
    + cbn [act_comp] in *. apply IHf in HM. destruct f as [|f']; [congruence|]. unfold HNT, TR in HM.
      destruct HM as [st0' [st1' [acts' [stx [trx [Hst [Hsc [HK [Ht [-> ->]]]]]]]]]].
      assert (S2 : Star (HS (S (S f')) lv time chg) (HC st1 (map EDispatch acts) [] []) s0
                        (HC st tr pd ([] ++ (x, (chgx, HC st1' (map EDispatch acts') [] [])) :: [])) (nprologue cfg s lv' time) (ob ++ [])).
      { eapply St_step; [exact HSt|]. cbn [HS].
        apply (L_sys (HS (S f')) (S f' <> O) (I0 (S f')) lv time chg st tr pd [] s x t0 chgx lv' st0' st1' acts');
          [discriminate | exact Ha | exact Hna | exact Hnp | intros [] | exact X1 | exact X2 | exact Hk | exact Hst | exact Hsc]. }
      pose proof (Star_trans _ _ _ _ _ _ _ _ _ S2 (lift_star (S f') lv time chg st tr pd [] [] x chgx lv' Hk _ _ _ _ _ HK)) as S3.
      replace (ob ++ o) with (((ob ++ []) ++ o) ++ []) by (rewrite !app_nil_r; reflexivity).
      eapply St_step; [exact S3|]. cbn [HS].
      apply (L_done (HS (S f')) (S f' <> O) (I0 (S f')) lv time chg st tr pd [] [] s1 x chgx lv' stx trx Hk Ht).
  - destruct IH as [st0 [st1 [acts0 [H1 [H2 [H3 HSt]]]]]]. exists st0, st1, acts0. split; [exact H1|]. split; [exact H2|]. split; [exact H3|].
    rewrite <- (app_nil_r ob). eapply St_step; [exact HSt|]. cbn [HS]. eapply L_out; eassumption.
Qed.

Theorem MNT_HNT : forall f lv t x u u' out c ob, MNT cfg devf f lv t x u u' out c ob -> HNT f lv t x u u' out c ob.
Proof.
  induction f as [|f IH]; intros lv t x u u' out c ob H; [exact H|].
  cbn [MNT] in H. destruct H as [ext [st [tr [HR [Ht [Eo Ec]]]]]].
  destruct (mrun_hstar f lv t x _ ext _ st tr [] u' ob IH HR) as [st0 [st1 [acts [H1 [_ [H3 HSt]]]]]].
  unfold HNT, TR. exists st0, st1, acts, st, tr. split; [exact H1|]. split; [exact H3|]. split; [exact HSt|]. split; [exact Ht|]. split; assumption.
Qed.

(* ---------- whole runs: scripts of master ticks and interrupts of devices at any depth, all the messages of all the
   schedulers interleaved *)
Notation NSRt f := (NSR (devices_below cfg (S f) top) (levels_below cfg (S f) top)).

Definition hmtick (f : nat) (s : sstate) (time : Z) (roots : list comp) (s' : sstate) (ob : list obs) : Prop :=
  exists st0 st1 acts st tr,
    start_tick (l_conns (level_of cfg top)) time roots = Some st0 /\
    schedule (l_conns (level_of cfg top)) (lcomps (level_of cfg top)) st0 = Some (st1, acts) /\
    Star (HS (S f) top time []) (HC st1 (map EDispatch acts) [] []) (log_tick s top time roots) (HC st tr [] []) s' ob /\ todo st = [].

Inductive HXRun (f : nat) : list xitem -> sstate -> list obs -> sstate -> list obs -> Prop :=
| HX_nil s ob : HXRun f [] s ob s ob
| HX_stim c lvc path w r s ob s' ob' : HXRun f r (stim_at s c lvc path w) ob s' ob' -> HXRun f (XStim c lvc path w :: r) s ob s' ob'
| HX_idle r s ob s' ob' :
    first_wakeups (wake_of s top) = None -> HXRun f r s ob s' ob' -> HXRun f (XTick :: r) s ob s' ob'
| HX_tick r s ob when roots s2 o s' ob' :
    first_wakeups (wake_of s top) = Some (when, roots) ->
    hmtick f (set_wake s top (filter (fun e : comp * Z => negb (memb (fst e) roots)) (wake_of s top))) when roots s2 o ->
    HXRun f r s2 (ob ++ o) s' ob' -> HXRun f (XTick :: r) s ob s' ob'.

Definition hxrun (f : nat) (initial : Z) (script : list xitem) (s' : sstate) (ob' : list obs) : Prop :=
  exists s1 o1, hmtick f (set_wake s_init top []) initial (map fst (l_order (level_of cfg top))) s1 o1 /\ HXRun f script s1 o1 s' ob'.

Lemma hmtick_sim f sA sS t rA rS sA' oA :
  subtree_ok cfg (S f) top -> NSRt f sA sS -> (forall c, In c rA <-> In c rS) ->
  hmtick f sA t rA sA' oA ->
  let '(sS', _, oS) := tick_level cfg devf f top t rS [] (log_tick sS top t rS) in
  NSRt f sA' sS' /\ forall d, obs_rel (dev_obs d oA) (dev_obs d oS).
Proof.
  intros Hok Hs Hr [st0 [st1 [acts [stA [trA [Hst [Hsc [HRA HtA]]]]]]]].
  assert (Hs0 : NSRt f (log_tick sA top t rA) (log_tick sS top t rS)) by (destruct Hs as [HD HL]; split; [exact HD | exact HL]).
  assert (HRE : Star (ES (S f) top t []) (HC st1 (map EDispatch acts) [] []) (log_tick sA top t rA) (HC stA trA [] []) sA' oA).
  { apply (Star_mono (HS (S f) top t [])); [|exact HRA]. intros k u k' u' o H. left. exact H. }
  set (extA := pending st0).
  pose proof (estar_LT f top t [] Hok rA extA (log_tick sA top t rA) st0 st1 acts stA trA sA' oA Hst eq_refl Hsc HRE HtA
                (ITR_inner_nd f) (NoDup_nil _) (estar_obs _ _ _ _ _ _ _ _ _ HRE)) as LA.
  pose proof (estar_Run f top t [] _ st0 st1 acts _ Hst Hsc _ _ _ HRE) as RnA. cbv beta iota in RnA.
  assert (HextB : forall c, In c extA <-> exists r, In r rS /\ reach (l_conns (level_of cfg top)) r c).
  { intros c. rewrite (lt_ext _ _ _ _ _ _ _ _ _ _ _ _ _ LA c). split; intros [r [Hr0 Hre]]; exists r; (split; [apply Hr; exact Hr0 | exact Hre]). }
  assert (Hsub : forall c, In c extA -> In c (lcomps (level_of cfg top))).
  { apply (run_ext_comps _ _ _ _ _ _ _ RnA). }
  destruct (sim_LT cfg devf Hdev_nd f top t [] Hok (NoDup_nil _) (on_tick_level cfg devf f) (G_framed cfg devf f) (G_nd cfg devf f)
              rS extA HextB (log_tick sS top t rS) Hsub) as [LB _].
  unfold tick_level. rewrite tick_with_core. unfold a_fin, a0 in LB.
  match goal with |- context [fold_left ?F ?l ?a] => set (afin := fold_left F l a) in * end.
  clearbody afin.
  destruct (level_rel cfg devf Hdev_ext f top t Hok (ITR f) (G cfg devf f) [] [] rA rS extA extA _ _ trA sA' oA _ _ _
              (ITR_sim f) (ITR_inner_nd f) (G_nd cfg devf f) (NoDup_nil _) (NoDup_nil _) (fun q => eq_refl) Hr Hs0 LA LB) as [_ [H1 H2]].
  split; assumption.
Qed.

Theorem hxrun_script_is_sim f : subtree_ok cfg (S f) top -> forall script sA obA sA' obA',
  HXRun f script sA obA sA' obA' -> forall sS obS,
  NSRt f sA sS -> (forall d, obs_rel (dev_obs d obA) (dev_obs d obS)) ->
  NSRt f sA' (fst (xsim_script cfg devf f script sS obS)) /\
  forall d, obs_rel (dev_obs d obA') (dev_obs d (snd (xsim_script cfg devf f script sS obS))).
Proof.
  intros Hok.
  assert (Wtop : forall sA sB, NSRt f sA sB -> weq (wake_of sA top) (wake_of sB top)).
  { intros sA sB [_ HL]. apply (HL top (or_introl eq_refl)). }
  induction 1 as [sA obA | c lvc path w r sA obA sA' obA' HA IH | r sA obA sA' obA' EA HA IH
                  | r sA obA when rootsA s2A oA sA' obA' EA TA HA IH]; intros sS obS HS0 HO; cbn [xsim_script].
  - split; assumption.
  - apply IH; [|exact HO]. apply NDetXP.stim_at_NSR; [left; reflexivity | exact HS0].
  - pose proof (weq_first _ _ (Wtop _ _ HS0)) as F. rewrite EA in F.
    destruct (first_wakeups (wake_of sS top)) as [[when0 roots0]|]; [destruct F|]. apply IH; assumption.
  - pose proof (weq_first _ _ (Wtop _ _ HS0)) as F. rewrite EA in F.
    destruct (first_wakeups (wake_of sS top)) as [[when0 roots0]|]; [|destruct F]. destruct F as [Ew Hr]. subst when0.
    pose proof (hmtick_sim f _ _ when rootsA roots0 s2A oA Hok
                  (NSR_set_wake _ _ sA sS top _ _ HS0 (weq_filter _ _ rootsA roots0 (Wtop _ _ HS0) Hr)) Hr TA) as T.
    destruct (tick_level cfg devf f top when roots0 [] _) as [[s2S outS] oS]. destruct T as [HS2 HO2].
    apply IH; [exact HS2|]. intros d. rewrite !dev_obs_app. apply InlineLoopP.obs_rel_app; [apply HO | apply HO2].
Qed.

Theorem hxrun_is_sim f initial script sA obA : subtree_ok cfg (S f) top ->
  hxrun f initial script sA obA ->
  NSRt f sA (fst (xsim_from_start cfg devf f initial script)) /\
  forall d, obs_rel (dev_obs d obA) (dev_obs d (snd (xsim_from_start cfg devf f initial script))).
Proof.
  intros Hok [s1A [o1A [TA RA]]]. unfold xsim_from_start.
  pose proof (hmtick_sim f _ _ initial _ (map fst (l_order (level_of cfg top))) s1A o1A Hok (NSR_init _ _) (fun c => iff_refl _) TA) as T.
  destruct (tick_level cfg devf f top initial _ [] _) as [[s1S outS] o1S]. destruct T as [HS0 HO].
  apply (hxrun_script_is_sim f Hok script s1A o1A sA obA RA s1S o1S HS0 HO).
Qed.

(* the message-level runs of Proofs/MsgLevelP.v -- hence the answer-order runs and the executable scheduler of
   Model/NNSim.v -- are among them *)
Theorem mxrun_hxrun f initial script s ob : mxrun cfg devf f initial script s ob -> hxrun f initial script s ob.
Proof.
  assert (Ht : forall u t r u' o, mmtick cfg devf f u t r u' o -> hmtick f u t r u' o).
  { intros u t r u' o [ext [st [tr [HR Hd]]]].
    destruct (mrun_hstar f top t [] r ext _ st tr [] u' o (MNT_HNT f) HR) as [st0 [st1 [acts [H1 [_ [H3 HSt]]]]]].
    exists st0, st1, acts, st, tr. split; [exact H1|]. split; [exact H3|]. split; [exact HSt | exact Hd]. }
  intros [s1 [o1 [T R]]]. exists s1, o1. split; [apply Ht; exact T|].
  clear T. induction R as [u o | c lvc path w r u o u' o' H IH | r u o u' o' E H IH | r u o when roots u2 o2 u' o' E T H IH].
  - constructor.
  - apply HX_stim. exact IH.
  - apply HX_idle; assumption.
  - eapply HX_tick; [exact E | apply Ht; exact T | exact IH].
Qed.
End MT.
