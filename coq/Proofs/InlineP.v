(* C09: inlining a system simulation of devices into a top level of devices does not change what
   any device observes.  Tick-level simulation between the nested model and the inlined one. *)
From TV Require Import Base Model.Wiring Model.Ticker Model.Component Model.Sim Model.SimTime Model.Inline
  Proofs.WiringP Proofs.TickerP Proofs.ComponentP Proofs.SimP Proofs.FlattenP Proofs.NonInterfP
  Proofs.LatestP Proofs.ExtentP Proofs.FrameP Proofs.AgreeP Proofs.EqvP Proofs.ParDevP Proofs.EqvCongP Proofs.FuelP.
Open Scope Z_scope.

Section Wires.
Variable cfg : config.
Variable c : comp.
Variable lvc : positive.
Let C1 := l_conns (level_of cfg top).
Let Cc := l_conns (level_of cfg lvc).
Definition Cf : list conn := conns_A cfg c ++ conns_B cfg c lvc ++ conns_C cfg c lvc ++ conns_D cfg lvc ++ conns_E cfg c lvc.

Lemma in_conns_A u p y q : In (u, p, y, q) (conns_A cfg c) <-> In (u, p, y, q) C1 /\ u <> c /\ y <> c.
Proof.
  unfold conns_A. rewrite filter_In. cbn [out_comp in_comp]. fold C1. rewrite andb_true_iff, !negb_true_iff, !Pos.eqb_neq. tauto.
Qed.

Lemma in_conns_B x p d q' : In (x, p, d, q') (conns_B cfg c lvc) <-> exists q, In (x, p, c, q) C1 /\ In (ext_id, q, d, q') Cc /\ d <> exp_id.
Proof.
  unfold conns_B. rewrite in_flat_map. fold C1. fold Cc. split.
  - intros [[[[x0 p0] ic] q] [Hi H]]. destruct (Pos.eqb_spec ic c) as [E|]; [|destruct H]. subst ic.
    apply in_flat_map in H. destruct H as [[[[u2 p2] d2] q2] [Hi2 H2]].
    destruct (Pos.eqb_spec u2 ext_id) as [E1|]; [|destruct H2]. destruct (Pos.eqb_spec p2 q) as [E2|]; [|destruct H2].
    destruct (Pos.eqb_spec d2 exp_id) as [E3|N3]; [destruct H2|]. cbn [andb negb] in H2.
    destruct H2 as [E|[]]. inversion E; subst. exists q. split; [assumption | split; assumption].
  - intros [q [H1 [H2 H3]]]. exists (x, p, c, q). split; [exact H1|]. rewrite Pos.eqb_refl. apply in_flat_map.
    exists (ext_id, q, d, q'). split; [exact H2|]. rewrite !Pos.eqb_refl. destruct (Pos.eqb_spec d exp_id) as [E|_]; [contradiction|]. left. reflexivity.
Qed.

Lemma in_conns_C d p y q : In (d, p, y, q) (conns_C cfg c lvc) <-> exists o, In (d, p, exp_id, o) Cc /\ In (c, o, y, q) C1 /\ d <> ext_id.
Proof.
  unfold conns_C. rewrite in_flat_map. fold C1. fold Cc. split.
  - intros [[[[d0 p0] e] o] [Hi H]]. destruct (Pos.eqb_spec e exp_id) as [E|]; [|destruct H]. subst e.
    destruct (Pos.eqb_spec d0 ext_id) as [E0|N0]; [destruct H|]. cbn [andb negb] in H.
    apply in_flat_map in H. destruct H as [[[[oc op] y2] q2] [Hi2 H2]].
    destruct (Pos.eqb_spec oc c) as [E1|]; [|destruct H2]. destruct (Pos.eqb_spec op o) as [E2|]; [|destruct H2].
    destruct H2 as [E|[]]. inversion E; subst. exists o. split; [assumption | split; assumption].
  - intros [o [H1 [H2 H3]]]. exists (d, p, exp_id, o). split; [exact H1|]. rewrite Pos.eqb_refl.
    destruct (Pos.eqb_spec d ext_id) as [E|_]; [contradiction|]. cbn [andb negb]. apply in_flat_map.
    exists (c, o, y, q). split; [exact H2|]. rewrite !Pos.eqb_refl. left. reflexivity.
Qed.

Lemma in_conns_D d p e q : In (d, p, e, q) (conns_D cfg lvc) <-> In (d, p, e, q) Cc /\ d <> ext_id /\ e <> exp_id.
Proof.
  unfold conns_D. rewrite filter_In. cbn [out_comp in_comp]. fold Cc. rewrite andb_true_iff, !negb_true_iff, !Pos.eqb_neq. tauto.
Qed.

Lemma in_conns_E x p y q' : In (x, p, y, q') (conns_E cfg c lvc) <->
  exists q o, In (x, p, c, q) C1 /\ In (ext_id, q, exp_id, o) Cc /\ In (c, o, y, q') C1.
Proof.
  unfold conns_E. rewrite in_flat_map. fold C1. fold Cc. split.
  - intros [[[[x0 p0] ic] q] [Hi H]]. destruct (Pos.eqb_spec ic c) as [E|]; [|destruct H]. subst ic.
    apply in_flat_map in H. destruct H as [[[[u2 q2] e] o] [Hi2 H2]].
    destruct (Pos.eqb_spec u2 ext_id) as [E1|]; [|destruct H2]. destruct (Pos.eqb_spec q2 q) as [E2|]; [|destruct H2].
    destruct (Pos.eqb_spec e exp_id) as [E3|]; [|destruct H2]. cbn [andb] in H2.
    apply in_flat_map in H2. destruct H2 as [[[[oc op] y2] q2'] [Hi3 H3]].
    destruct (Pos.eqb_spec oc c) as [E4|]; [|destruct H3]. destruct (Pos.eqb_spec op o) as [E5|]; [|destruct H3].
    destruct H3 as [E|[]]. inversion E; subst. exists q, o. split; [assumption | split; assumption].
  - intros [q [o [H1 [H2 H3]]]]. exists (x, p, c, q). split; [exact H1|]. rewrite Pos.eqb_refl. apply in_flat_map.
    exists (ext_id, q, exp_id, o). split; [exact H2|]. rewrite !Pos.eqb_refl. cbn [andb]. apply in_flat_map.
    exists (c, o, y, q'). split; [exact H3|]. rewrite !Pos.eqb_refl. left. reflexivity.
Qed.

Lemma in_Cf k : In k Cf <-> In k (conns_A cfg c) \/ In k (conns_B cfg c lvc) \/ In k (conns_C cfg c lvc) \/ In k (conns_D cfg lvc) \/ In k (conns_E cfg c lvc).
Proof. unfold Cf. rewrite !in_app_iff. tauto. Qed.
End Wires.


(* the kind of a top-level component, read off the configuration *)
Definition kd_of (cfg : config) (x : comp) : ckind :=
  match lookup x (l_order (level_of cfg top)) with Some k => k | None => KDev end.
Definition dk (cfg : config) (x : comp) : comp * ckind := (x, kd_of cfg x).

(* the kind of a component of the level lvc, read off the configuration *)
Definition kd_in (cfg : config) (lvc : positive) (x : comp) : ckind :=
  match lookup x (l_order (level_of cfg lvc)) with Some k => k | None => KDev end.
Definition dki (cfg : config) (lvc : positive) (x : comp) : comp * ckind := (x, kd_in cfg lvc x).

(* the configurations covered: a top level of devices and system simulations (of any depth) around
   one system simulation c, whose own level holds devices and system simulations (of any depth);
   all the other system simulations live in their own subtrees *)
Record shape (cfg : config) (c : comp) (lvc : positive) (pre inn post : list comp) : Prop := {
  sh_top : l_order (level_of cfg top) = map (dk cfg) pre ++ (c, KSys lvc) :: map (dk cfg) post;
  sh_in : l_order (level_of cfg lvc) = map (dki cfg lvc) inn;
  sh_nodup : NoDup (c :: ext_id :: exp_id :: pre ++ inn ++ post);
  sh_lv : lvc <> top;
  sh_ss1 : single_source (l_conns (level_of cfg top));
  sh_ssc : single_source (l_conns (level_of cfg lvc));
  sh_c1 : forall u p y q, In (u, p, y, q) (l_conns (level_of cfg top)) ->
            In u (c :: pre ++ post) /\ In y (c :: pre ++ post) /\ ~ (u = c /\ y = c);
  sh_cc : forall u p e q, In (u, p, e, q) (l_conns (level_of cfg lvc)) ->
            In u (ext_id :: inn) /\ In e (exp_id :: inn);
  (* pass-through ports (a wire straight from an external to an exposed port): what feeds them comes before the
     system in the order of the top level, what they feed comes after it *)
  sh_pt_src : forall x p q o, In (x, p, c, q) (l_conns (level_of cfg top)) ->
            In (ext_id, q, exp_id, o) (l_conns (level_of cfg lvc)) -> In x pre;
  sh_pt_dst : forall q o y q', In (ext_id, q, exp_id, o) (l_conns (level_of cfg lvc)) ->
            In (c, o, y, q') (l_conns (level_of cfg top)) -> In y post
}.

(* the other system simulations: y is a sibling of c at the top level (its subtree is run with fuel
   S f on both sides) or a system simulation inside c (run with fuel f by the nested scheduler of c) *)
Definition issys (cfg : config) (f : nat) (lvc : positive) (pre inn post : list comp) (y : comp) (ly : positive) (g : nat) : Prop :=
  (In y (pre ++ post) /\ kd_of cfg y = KSys ly /\ g = S f) \/ (In y inn /\ kd_in cfg lvc y = KSys ly /\ g = f).

(* they live in subtrees of their own, apart from the top level, from the level of c and from all the
   components named in the shape; the subtrees of the inner ones are not cut off by the fuel *)
Definition sib_ok (cfg : config) (f : nat) (c : comp) (lvc : positive) (pre inn post : list comp) : Prop :=
  forall y ly g, issys cfg f lvc pre inn post y ly g ->
    ~ In top (levels_below cfg g ly) /\ ~ In lvc (levels_below cfg g ly) /\
    (forall z, In z (devices_below cfg g ly) -> ~ In z (pre ++ inn ++ post) /\ z <> c) /\
    (forall l, In l (levels_below cfg g ly) -> single_source (l_conns (level_of cfg l))) /\
    (g = f -> deep_enough cfg f ly).

Lemma sib_ok_devices cfg f c lvc pre inn post :
  (forall y, In y (pre ++ post) -> kd_of cfg y = KDev) -> (forall y, In y inn -> kd_in cfg lvc y = KDev) ->
  sib_ok cfg f c lvc pre inn post.
Proof. intros H H2 y ly g [[Hy [Hk _]]|[Hy [Hk _]]]; [rewrite (H y Hy) in Hk | rewrite (H2 y Hy) in Hk]; discriminate. Qed.

Section Shape.
Variable cfg : config.
Variable c : comp.
Variable lvc : positive.
Variables pre inn post : list comp.
Hypothesis Hsh : shape cfg c lvc pre inn post.
Let C1 := l_conns (level_of cfg top).
Let Cc := l_conns (level_of cfg lvc).

Lemma nd_facts :
  ~ In c (pre ++ inn ++ post) /\ ~ In ext_id (pre ++ inn ++ post) /\ ~ In exp_id (pre ++ inn ++ post) /\
  c <> ext_id /\ c <> exp_id /\ NoDup (pre ++ inn ++ post).
Proof.
  pose proof (sh_nodup _ _ _ _ _ _ Hsh) as H. inversion H as [|? ? H1 H2]; subst. inversion H2 as [|? ? H3 H4]; subst.
  inversion H4 as [|? ? H5 H6]; subst.
  repeat split; try assumption.
  - intros Hi. apply H1. right. right. exact Hi.
  - intros Hi. apply H3. right. exact Hi.
  - intros E. apply H1. left. symmetry. exact E.
  - intros E. apply H1. right. left. symmetry. exact E.
Qed.

Lemma inner_not_outsider d : In d inn -> ~ In d (pre ++ post) /\ d <> c /\ d <> ext_id /\ d <> exp_id.
Proof.
  intros Hd. destruct nd_facts as [Hc [He [Hx [_ [_ Hnd]]]]].
  assert (Hall : In d (pre ++ inn ++ post)) by (apply in_app_iff; right; apply in_app_iff; left; exact Hd).
  split; [|split; [|split]]; try (intros E; subst d; contradiction).
  intros Hi. apply in_app_iff in Hi. destruct Hi as [Hi|Hi].
  - apply NoDup_app_disjoint with (x := d) in Hnd; [|exact Hi]. apply Hnd. apply in_app_iff. left. exact Hd.
  - apply NoDup_app_r in Hnd. apply NoDup_app_disjoint with (x := d) in Hnd; [|exact Hd]. apply Hnd. exact Hi.
Qed.

Lemma outsider_facts y : In y (pre ++ post) -> ~ In y inn /\ y <> c /\ y <> ext_id /\ y <> exp_id.
Proof.
  intros Hy. destruct nd_facts as [Hc [He [Hx [_ [_ Hnd]]]]].
  assert (Hall : In y (pre ++ inn ++ post)).
  { apply in_app_iff in Hy. destruct Hy as [H|H]; apply in_app_iff; [left; exact H | right; apply in_app_iff; right; exact H]. }
  split; [|split; [|split]]; try (intros E; subst y; contradiction).
  intros Hi. destruct (inner_not_outsider y Hi) as [H _]. contradiction.
Qed.

Lemma c1_ends u p y q : In (u, p, y, q) C1 -> (u = c \/ In u (pre ++ post)) /\ (y = c \/ In y (pre ++ post)) /\ ~ (u = c /\ y = c).
Proof. intros H. destruct (sh_c1 _ _ _ _ _ _ Hsh u p y q H) as [[A|A] [[B|B] D]]; repeat split; auto. Qed.

Lemma cc_ends u p e q : In (u, p, e, q) Cc -> (u = ext_id \/ In u inn) /\ (e = exp_id \/ In e inn).
Proof. intros H. destruct (sh_cc _ _ _ _ _ _ Hsh u p e q H) as [[A|A] [B|B]]; split; auto. Qed.

(* the kinds of wires of the inlined level *)
Lemma wire_AA u p y q : In u (pre ++ post) -> In y (pre ++ post) ->
  (In (u, p, y, q) (Cf cfg c lvc) <->
   In (u, p, y, q) C1 \/ exists q0 o, In (u, p, c, q0) C1 /\ In (ext_id, q0, exp_id, o) Cc /\ In (c, o, y, q) C1).
Proof.
  intros Hu Hy. destruct (outsider_facts u Hu) as [Hui [Huc [Hue Hux]]]. destruct (outsider_facts y Hy) as [Hyi [Hyc [Hye Hyx]]].
  rewrite in_Cf, in_conns_A, in_conns_B, in_conns_C, in_conns_D, in_conns_E. fold C1. fold Cc. split.
  - intros [[H _]|[[q0 [_ [H _]]]|[[o [H _]]|[[H _]|H]]]]; [left; exact H | | | | right; exact H].
    + destruct (cc_ends _ _ _ _ H) as [_ [E|Hi]]; contradiction.
    + destruct (cc_ends _ _ _ _ H) as [[E|Hi] _]; contradiction.
    + destruct (cc_ends _ _ _ _ H) as [[E|Hi] _]; contradiction.
  - intros [H|H]; [left; split; [exact H | split; assumption] | right; right; right; right; exact H].
Qed.

Lemma wire_AA_plain u p y q : In u (pre ++ post) -> In y (pre ++ post) -> (forall o, ~ In (c, o, y, q) C1) ->
  (In (u, p, y, q) (Cf cfg c lvc) <-> In (u, p, y, q) C1).
Proof.
  intros Hu Hy Hno. rewrite (wire_AA u p y q Hu Hy). split; [|intros H; left; exact H].
  intros [H|[q0 [o [_ [_ H]]]]]; [exact H | exfalso; apply (Hno o H)].
Qed.

Lemma wire_AE u p y q o : In u (pre ++ post) -> In y (pre ++ post) -> In (c, o, y, q) C1 ->
  (In (u, p, y, q) (Cf cfg c lvc) <-> exists q0, In (u, p, c, q0) C1 /\ In (ext_id, q0, exp_id, o) Cc).
Proof.
  intros Hu Hy Hk. pose proof (sh_ss1 _ _ _ _ _ _ Hsh) as S1. fold C1 in S1.
  destruct (outsider_facts u Hu) as [_ [Huc _]].
  rewrite (wire_AA u p y q Hu Hy). split.
  - intros [H|[q0 [o' [H1 [H2 H3]]]]].
    + destruct (S1 u p c o y q H Hk) as [E _]. contradiction.
    + destruct (S1 c o' c o y q H3 Hk) as [_ E]. subst o'. exists q0. split; assumption.
  - intros [q0 [H1 H2]]. right. exists q0, o. split; [exact H1 | split; [exact H2 | exact Hk]].
Qed.

Lemma wire_AB x p d q' : In x (pre ++ post) -> In d inn ->
  (In (x, p, d, q') (Cf cfg c lvc) <-> exists q, In (x, p, c, q) C1 /\ In (ext_id, q, d, q') Cc).
Proof.
  intros Hx Hd. destruct (outsider_facts x Hx) as [Hxi [Hxc [Hxe Hxx]]]. destruct (inner_not_outsider d Hd) as [Hdo [Hdc [Hde Hdx]]].
  rewrite in_Cf, in_conns_A, in_conns_B, in_conns_C, in_conns_D, in_conns_E. fold C1. fold Cc. split.
  - intros [[H _]|[[q [H1 [H2 _]]]|[[o [H _]]|[[H _]|[q0 [o [_ [_ H]]]]]]]].
    + destruct (c1_ends _ _ _ _ H) as [_ [[E|Hi] _]]; contradiction.
    + exists q. split; assumption.
    + destruct (cc_ends _ _ _ _ H) as [[E|Hi] _]; contradiction.
    + destruct (cc_ends _ _ _ _ H) as [[E|Hi] _]; contradiction.
    + destruct (c1_ends _ _ _ _ H) as [_ [[E|Hi] _]]; contradiction.
  - intros [q [H1 H2]]. right. left. exists q. split; [exact H1 | split; [exact H2 | exact Hdx]].
Qed.

Lemma wire_BA d p y q : In d inn -> In y (pre ++ post) ->
  (In (d, p, y, q) (Cf cfg c lvc) <-> exists o, In (d, p, exp_id, o) Cc /\ In (c, o, y, q) C1).
Proof.
  intros Hd Hy. destruct (outsider_facts y Hy) as [Hyi [Hyc [Hye Hyx]]]. destruct (inner_not_outsider d Hd) as [Hdo [Hdc [Hde Hdx]]].
  rewrite in_Cf, in_conns_A, in_conns_B, in_conns_C, in_conns_D, in_conns_E. fold C1. fold Cc. split.
  - intros [[H _]|[[q0 [H _]]|[[o [H1 [H2 _]]]|[[H _]|[q0 [o [H _]]]]]]].
    + destruct (c1_ends _ _ _ _ H) as [[E|Hi] _]; contradiction.
    + destruct (c1_ends _ _ _ _ H) as [[E|Hi] _]; contradiction.
    + exists o. split; assumption.
    + destruct (cc_ends _ _ _ _ H) as [_ [E|Hi]]; contradiction.
    + destruct (c1_ends _ _ _ _ H) as [[E|Hi] _]; contradiction.
  - intros [o [H1 H2]]. right. right. left. exists o. split; [exact H1 | split; [exact H2 | exact Hde]].
Qed.

Lemma wire_BB d p e q : In d inn -> In e inn ->
  (In (d, p, e, q) (Cf cfg c lvc) <-> In (d, p, e, q) Cc).
Proof.
  intros Hd He. destruct (inner_not_outsider d Hd) as [Hdo [Hdc [Hde Hdx]]]. destruct (inner_not_outsider e He) as [Heo [Hec [Hee Hex]]].
  rewrite in_Cf, in_conns_A, in_conns_B, in_conns_C, in_conns_D, in_conns_E. fold C1. fold Cc. split.
  - intros [[H _]|[[q0 [H _]]|[[o [_ [H _]]]|[[H _]|[q0 [o [H _]]]]]]]; [| | | exact H |].
    + destruct (c1_ends _ _ _ _ H) as [[E|Hi] _]; contradiction.
    + destruct (c1_ends _ _ _ _ H) as [[E|Hi] _]; contradiction.
    + destruct (c1_ends _ _ _ _ H) as [_ [[E|Hi] _]]; contradiction.
    + destruct (c1_ends _ _ _ _ H) as [[E|Hi] _]; contradiction.
  - intros H. right. right. right. left. split; [exact H | split; assumption].
Qed.

(* every wire of the inlined level joins two of its components *)
Lemma Cf_ends u p y q : In (u, p, y, q) (Cf cfg c lvc) -> In u (pre ++ inn ++ post) /\ In y (pre ++ inn ++ post).
Proof.
  assert (Hout : forall z, In z (pre ++ post) -> In z (pre ++ inn ++ post)).
  { intros z Hz. apply in_app_iff in Hz. destruct Hz as [H|H]; apply in_app_iff; [left; exact H | right; apply in_app_iff; right; exact H]. }
  assert (Hinn : forall z, In z inn -> In z (pre ++ inn ++ post)) by (intros z Hz; apply in_app_iff; right; apply in_app_iff; left; exact Hz).
  rewrite in_Cf, in_conns_A, in_conns_B, in_conns_C, in_conns_D, in_conns_E. fold C1. fold Cc.
  intros [[H [Hu Hy]]|[[q0 [H1 [H2 Hd]]]|[[o [H1 [H2 Hd]]]|[[H [Hu Hy]]|[q0 [o [H1 [H2 H3]]]]]]]].
  - destruct (c1_ends _ _ _ _ H) as [[E|A] [[E2|B] _]]; try contradiction. split; apply Hout; assumption.
  - destruct (c1_ends _ _ _ _ H1) as [[E|A] [_ D]]; [exfalso; apply D; split; [exact E | reflexivity]|].
    destruct (cc_ends _ _ _ _ H2) as [_ [E|B]]; [contradiction|]. split; [apply Hout | apply Hinn]; assumption.
  - destruct (cc_ends _ _ _ _ H1) as [[E|A] _]; [contradiction|].
    destruct (c1_ends _ _ _ _ H2) as [_ [[E|B] D2]]; [exfalso; apply D2; split; [reflexivity | exact E]|]. split; [apply Hinn | apply Hout]; assumption.
  - destruct (cc_ends _ _ _ _ H) as [[E|A] [E2|B]]; try contradiction. split; apply Hinn; assumption.
  - destruct (c1_ends _ _ _ _ H1) as [[E|A] [_ D]]; [exfalso; apply D; split; [exact E | reflexivity]|].
    destruct (c1_ends _ _ _ _ H3) as [_ [[E|B] D2]]; [exfalso; apply D2; split; [reflexivity | exact E]|]. split; apply Hout; assumption.
Qed.

Lemma split_all z : In z (pre ++ inn ++ post) -> In z inn \/ In z (pre ++ post).
Proof.
  intros H. apply in_app_iff in H. destruct H as [H|H]; [right; apply in_app_iff; left; exact H|].
  apply in_app_iff in H. destruct H as [H|H]; [left; exact H | right; apply in_app_iff; right; exact H].
Qed.

Lemma Cf_single_source : single_source (Cf cfg c lvc).
Proof.
  pose proof (sh_ss1 _ _ _ _ _ _ Hsh) as S1. pose proof (sh_ssc _ _ _ _ _ _ Hsh) as Sc. fold C1 in S1. fold Cc in Sc.
  intros u p u' p' y q H H'.
  destruct (Cf_ends _ _ _ _ H) as [Hu Hy]. destruct (Cf_ends _ _ _ _ H') as [Hu' _].
  apply split_all in Hu. apply split_all in Hu'. apply split_all in Hy.
  destruct Hy as [Hy|Hy].
  - (* the sink is an inner component *)
    destruct Hu as [Hu|Hu]; destruct Hu' as [Hu'|Hu'].
    + apply (wire_BB u p y q Hu Hy) in H. apply (wire_BB u' p' y q Hu' Hy) in H'. apply (Sc u p u' p' y q H H').
    + apply (wire_BB u p y q Hu Hy) in H. apply (wire_AB u' p' y q Hu' Hy) in H'. destruct H' as [q0 [_ H']].
      destruct (Sc u p ext_id q0 y q H H') as [E _]. subst u. destruct (inner_not_outsider _ Hu) as [_ [_ [X _]]]. contradiction.
    + apply (wire_AB u p y q Hu Hy) in H. apply (wire_BB u' p' y q Hu' Hy) in H'. destruct H as [q0 [_ H]].
      destruct (Sc ext_id q0 u' p' y q H H') as [E _]. subst u'. destruct (inner_not_outsider _ Hu') as [_ [_ [X _]]]. contradiction.
    + apply (wire_AB u p y q Hu Hy) in H. apply (wire_AB u' p' y q Hu' Hy) in H'. destruct H as [q0 [H1 H2]]. destruct H' as [q0' [H1' H2']].
      destruct (Sc ext_id q0 ext_id q0' y q H2 H2') as [_ E]. subst q0'. apply (S1 u p u' p' c q0 H1 H1').
  - (* the sink is a top-level component *)
    destruct Hu as [Hu|Hu]; destruct Hu' as [Hu'|Hu'].
    + apply (wire_BA u p y q Hu Hy) in H. apply (wire_BA u' p' y q Hu' Hy) in H'. destruct H as [o [H1 H2]]. destruct H' as [o' [H1' H2']].
      destruct (S1 c o c o' y q H2 H2') as [_ E]. subst o'. apply (Sc u p u' p' exp_id o H1 H1').
    + apply (wire_BA u p y q Hu Hy) in H. apply (wire_AA u' p' y q Hu' Hy) in H'. destruct H as [o [H1 H2]].
      destruct H' as [H'|[q0 [o' [_ [H2' H3']]]]].
      * destruct (S1 c o u' p' y q H2 H') as [E _]. subst u'. destruct (outsider_facts _ Hu') as [_ [X _]]. exfalso. apply X. reflexivity.
      * destruct (S1 c o c o' y q H2 H3') as [_ E]. subst o'. destruct (Sc u p ext_id q0 exp_id o H1 H2') as [E _]. subst u.
        destruct (inner_not_outsider _ Hu) as [_ [_ [X _]]]. contradiction.
    + apply (wire_AA u p y q Hu Hy) in H. apply (wire_BA u' p' y q Hu' Hy) in H'. destruct H' as [o [H1 H2]].
      destruct H as [H|[q0 [o' [_ [H2' H3']]]]].
      * destruct (S1 u p c o y q H H2) as [E _]. subst u. destruct (outsider_facts _ Hu) as [_ [X _]]. exfalso. apply X. reflexivity.
      * destruct (S1 c o' c o y q H3' H2) as [_ E]. subst o'. destruct (Sc ext_id q0 u' p' exp_id o H2' H1) as [E _]. subst u'.
        destruct (inner_not_outsider _ Hu') as [_ [_ [X _]]]. contradiction.
    + apply (wire_AA u p y q Hu Hy) in H. apply (wire_AA u' p' y q Hu' Hy) in H'.
      destruct H as [H|[q0 [o [H1 [H2 H3]]]]]; destruct H' as [H'|[q0' [o' [H1' [H2' H3']]]]].
      * apply (S1 u p u' p' y q H H').
      * destruct (S1 u p c o' y q H H3') as [E _]. subst u. destruct (outsider_facts _ Hu) as [_ [X _]]. exfalso. apply X. reflexivity.
      * destruct (S1 c o u' p' y q H3 H') as [E _]. subst u'. destruct (outsider_facts _ Hu') as [_ [X _]]. exfalso. apply X. reflexivity.
      * destruct (S1 c o c o' y q H3 H3') as [_ E]. subst o'. destruct (Sc ext_id q0 ext_id q0' exp_id o H2 H2') as [_ E]. subst q0'.
        apply (S1 u p u' p' c q0 H1 H1').
Qed.
End Shape.

Section Tick.
Variable cfg : config.
Variable c : comp.
Variable lvc : positive.
Variables pre inn post : list comp.
Hypothesis Hsh : shape cfg c lvc pre inn post.
Variable devf : devfun.
Hypothesis Hdev_nd : forall c n t i, NoDup (keys (fst (devf c n t i))).
Hypothesis Hdev_ext : forall c n t i i', NoDup (keys i) -> NoDup (keys i') -> eqv i i' -> devf c n t i = devf c n t i'.
Variable time : Z.
Variable f : nat.            (* the inner functions run with fuel S f *)
Hypothesis Hsib : sib_ok cfg f c lvc pre inn post.
Let C1 := l_conns (level_of cfg top).
Let Cc := l_conns (level_of cfg lvc).
Let CF := Cf cfg c lvc.
Let cfgF := inline cfg c lvc.

Definition allc : list comp := pre ++ inn ++ post.
Definition outs_ : list comp := pre ++ post.

(* the relation between the nested run (N) and the inlined run (F) outside the system's own tick *)
Record Rout (aN aF : core) : Prop := {
  ro_dev : forall z, In z allc -> drel (co_s aN) (co_s aF) z;
  ro_pend : forall y, In y outs_ -> forall q, (forall o, ~ In (c, o, y, q) C1) -> pd aF y q = pd aN y q;
  ro_okN : in_ok (co_in aN);
  ro_okF : in_ok (co_in aF);
  ro_obs : obs_rel (co_obs aN) (co_obs aF);
  ro_wo : forall y, In y outs_ -> lookup y (wake_of (co_s aN) top) = lookup y (wake_of (co_s aF) top)
}.

(* nothing is pending on a port fed by the system before the system has been ticked *)
Definition Rnc (aN : core) : Prop := forall o y q, In (c, o, y, q) C1 -> pd aN y q = None.

(* before the system has been ticked: what is pending for an inner device in F is what is pending
   on the system's input ports in N, seen through the "external" wires *)
Definition Rpre (aN aF : core) : Prop :=
  forall d, In d inn -> forall q' v, pd aF d q' = Some v <-> exists q, In (ext_id, q, d, q') Cc /\ pd aN c q = Some v.

(* the other system simulations (siblings of c and those inside c): their subtrees are in related states *)
Definition SUB (sN sF : sstate) : Prop :=
  forall y ly g, issys cfg f lvc pre inn post y ly g ->
    SR (devices_below cfg g ly) (levels_below cfg g ly) sN sF.

(* the state of the nested schedulers that steps of top-level devices do not touch *)
Definition frameN (aN aN' : core) : Prop :=
  wake_of (co_s aN') lvc = wake_of (co_s aN) lvc /\ lookup c (wake_of (co_s aN') top) = lookup c (wake_of (co_s aN) top) /\
  int_of (co_s aN') lvc = int_of (co_s aN) lvc /\ memb lvc (s_ticked (co_s aN')) = memb lvc (s_ticked (co_s aN)).
Definition frameF (aF aF' : core) : Prop :=
  forall d, In d inn -> lookup d (wake_of (co_s aF') top) = lookup d (wake_of (co_s aF) top).

Lemma eqv_of_pd aN aF y : (forall q, pd aF y q = pd aN y q) -> eqv (get_d y (co_in aN)) (get_d y (co_in aF)).
Proof. intros H q. rewrite <- !pd_get_d. symmetry. apply H. Qed.

Lemma in_outs_all y : In y outs_ -> In y allc.
Proof.
  unfold outs_, allc. intros H. apply in_app_iff in H. destruct H as [H|H]; apply in_app_iff; [left; exact H | right; apply in_app_iff; right; exact H].
Qed.
Lemma in_inn_all d : In d inn -> In d allc.
Proof. unfold allc. intros H. apply in_app_iff. right. apply in_app_iff. left. exact H. Qed.

(* what a component of the top level leaves pending, on both sides, when it reports [ch] *)
(* ... and what is pending in F on a port fed by the system is what is pending on the system's input port that a
   pass-through wire (external -> expose) leads to that output *)
Definition Rpt (aN aF : core) : Prop :=
  forall o y q', In y outs_ -> In (c, o, y, q') C1 ->
    forall v, pd aF y q' = Some v <-> exists q, In (ext_id, q, exp_id, o) Cc /\ pd aN c q = Some v.

(* after the system has been ticked: the ports it feeds hold the same on both sides *)
Definition Rfed (aN aF : core) : Prop := forall o y q, In y outs_ -> In (c, o, y, q) C1 -> pd aF y q = pd aN y q.

Lemma option_ext {A} (a b : option A) : (forall v, a = Some v <-> b = Some v) -> a = b.
Proof.
  intros H. destruct a as [x|], b as [y|]; [| | |reflexivity].
  - symmetry. apply (proj1 (H x) eq_refl).
  - symmetry. apply (proj1 (H x) eq_refl).
  - apply (proj2 (H y) eq_refl).
Qed.

(* a port of F that is fed, in the nested configuration, through an input port of the system ([link]): the
   correspondence of what is pending survives a report of a top-level component *)
Lemma through_step aN aF aN' aF' x ch yF qF (link : port -> Prop) :
  NoDup (keys ch) ->
  (forall q q', link q -> link q' -> q = q') ->
  (forall p, In (x, p, yF, qF) CF <-> exists q, In (x, p, c, q) C1 /\ link q) ->
  (forall y q, pd aN' y q = match lookup2r (route C1 x ch) y q with Some v => Some v | None => pd aN y q end) ->
  (forall y q, pd aF' y q = match lookup2r (route CF x ch) y q with Some v => Some v | None => pd aF y q end) ->
  (forall v, pd aF yF qF = Some v <-> exists q, link q /\ pd aN c q = Some v) ->
  (forall v, pd aF' yF qF = Some v <-> exists q, link q /\ pd aN' c q = Some v).
Proof.
  intros Hch Hfun Hw PN PF HP v.
  pose proof (sh_ss1 _ _ _ _ _ _ Hsh) as S1. fold C1 in S1.
  pose proof (Cf_single_source cfg c lvc pre inn post Hsh) as SF. fold CF in SF.
  rewrite PF. specialize (HP v).
  destruct (lookup2r (route CF x ch) yF qF) as [v2|] eqn:ER.
  - apply (route_exact CF x ch yF qF v2 SF Hch) in ER. destruct ER as [p [Hl Hk]].
    apply Hw in Hk. destruct Hk as [q0 [Hk1 Hk2]].
    assert (Hrc : lookup2r (route C1 x ch) c q0 = Some v2) by (apply (route_exact C1 x ch c q0 v2 S1 Hch); exists p; split; assumption).
    split.
    + intros E. inversion E; subst v2. exists q0. split; [exact Hk2|]. rewrite PN, Hrc. reflexivity.
    + intros [q [Hq Hv]]. rewrite (Hfun q q0 Hq Hk2) in Hv. rewrite PN, Hrc in Hv. exact Hv.
  - split.
    + intros Hv. apply HP in Hv. destruct Hv as [q [Hq Hv]]. exists q. split; [exact Hq|]. rewrite PN.
      destruct (lookup2r (route C1 x ch) c q) as [v3|] eqn:Ec; [|exact Hv]. exfalso.
      apply (route_exact C1 x ch c q v3 S1 Hch) in Ec. destruct Ec as [p [Hl Hk]].
      assert (Hkf : In (x, p, yF, qF) CF) by (apply Hw; exists q; split; assumption).
      assert (ER' : lookup2r (route CF x ch) yF qF = Some v3) by (apply (route_exact CF x ch yF qF v3 SF Hch); exists p; split; assumption).
      congruence.
    + intros [q [Hq Hv]]. apply HP. exists q. split; [exact Hq|]. rewrite PN in Hv.
      destruct (lookup2r (route C1 x ch) c q) as [v3|] eqn:Ec; [|exact Hv]. exfalso.
      apply (route_exact C1 x ch c q v3 S1 Hch) in Ec. destruct Ec as [p [Hl Hk]].
      assert (Hkf : In (x, p, yF, qF) CF) by (apply Hw; exists q; split; assumption).
      assert (ER' : lookup2r (route CF x ch) yF qF = Some v3) by (apply (route_exact CF x ch yF qF v3 SF Hch); exists p; split; assumption).
      congruence.
Qed.

Lemma pre_post_disjoint x : In x pre -> In x post -> False.
Proof.
  intros H1 H2. destruct (nd_facts cfg c lvc pre inn post Hsh) as [_ [_ [_ [_ [_ Hnd]]]]].
  apply (NoDup_app_disjoint pre (inn ++ post) x Hnd H1). apply in_app_iff. right. exact H2.
Qed.

Lemma pend_after_step aN aF aN' aF' x ch :
  In x outs_ -> NoDup (keys ch) ->
  (forall y, In y outs_ -> forall q, (forall o, ~ In (c, o, y, q) C1) -> pd aF y q = pd aN y q) ->
  (forall y q, pd aN' y q = match lookup2r (route C1 x ch) y q with Some v => Some v | None => pd aN y q end) ->
  (forall y q, pd aF' y q = match lookup2r (route CF x ch) y q with Some v => Some v | None => pd aF y q end) ->
  (forall y, In y outs_ -> forall q, (forall o, ~ In (c, o, y, q) C1) -> pd aF' y q = pd aN' y q) /\
  (Rpre aN aF -> Rpre aN' aF') /\ (Rpt aN aF -> Rpt aN' aF') /\ (Rnc aN -> Rnc aN') /\
  (In x post -> Rfed aN aF -> Rfed aN' aF').
Proof.
  intros Hx Hch Hpend PN PF.
  destruct (outsider_facts cfg c lvc pre inn post Hsh x Hx) as [Hxi [Hxc [Hxe Hxx]]].
  pose proof (sh_ss1 _ _ _ _ _ _ Hsh) as S1. fold C1 in S1.
  pose proof (sh_ssc _ _ _ _ _ _ Hsh) as Sc. fold Cc in Sc.
  pose proof (Cf_single_source cfg c lvc pre inn post Hsh) as SF. fold CF in SF.
  split; [|split; [|split; [|split]]].
  - intros y Hy q Hno. rewrite PN, PF, (Hpend y Hy q Hno).
    rewrite (route_lookup_ext C1 CF x ch y q y q S1 SF Hch); [reflexivity|].
    intros p. apply (wire_AA_plain cfg c lvc pre inn post Hsh x p y q Hx Hy Hno).
  - intros HP d Hd q' v.
    apply (through_step aN aF aN' aF' x ch d q' (fun q => In (ext_id, q, d, q') Cc) Hch); try assumption.
    + intros q q0 H1 H2. destruct (Sc ext_id q ext_id q0 d q' H1 H2) as [_ E]. exact E.
    + intros p. apply (wire_AB cfg c lvc pre inn post Hsh x p d q' Hx Hd).
    + intros v0. apply (HP d Hd q' v0).
  - intros HP o y q' Hy Hk v.
    apply (through_step aN aF aN' aF' x ch y q' (fun q => In (ext_id, q, exp_id, o) Cc) Hch); try assumption.
    + intros q q0 H1 H2. destruct (Sc ext_id q ext_id q0 exp_id o H1 H2) as [_ E]. exact E.
    + intros p. apply (wire_AE cfg c lvc pre inn post Hsh x p y q' o Hx Hy Hk).
    + intros v0. apply (HP o y q' Hy Hk v0).
  - intros HN o y q Hk. rewrite PN, (HN o y q Hk).
    rewrite (route_lookup_none C1 x ch y q S1 Hch); [reflexivity|].
    intros p Hk2. destruct (S1 x p c o y q Hk2 Hk) as [E _]. apply Hxc. exact E.
  - intros Hpost HF o y q Hy Hk. rewrite PN, PF, (HF o y q Hy Hk).
    rewrite (route_lookup_none C1 x ch y q S1 Hch), (route_lookup_none CF x ch y q SF Hch); [reflexivity | |].
    + intros p Hk2. apply (wire_AE cfg c lvc pre inn post Hsh x p y q o Hx Hy Hk) in Hk2. destruct Hk2 as [q0 [H1 H2]].
      apply (pre_post_disjoint x); [apply (sh_pt_src _ _ _ _ _ _ Hsh x p q0 o H1 H2) | exact Hpost].
    + intros p Hk2. destruct (S1 x p c o y q Hk2 Hk) as [E _]. apply Hxc. exact E.
Qed.

(* what a step of a top-level component keeps of the relations about pending values *)
Definition keepP (aN aF aN' aF' : core) (x : comp) : Prop :=
  (Rpre aN aF -> Rpre aN' aF') /\ (Rpt aN aF -> Rpt aN' aF') /\ (Rnc aN -> Rnc aN') /\ (In x post -> Rfed aN aF -> Rfed aN' aF').

Lemma keepP_refl aN aF x : keepP aN aF aN aF x.
Proof. unfold keepP. split; [auto|]. split; [auto|]. split; auto. Qed.

(* a top-level device is processed on both sides *)
Lemma out_step innN innF rootsN rootsF aN aF x :
  In x outs_ -> memb x rootsN = memb x rootsF -> Rout aN aF -> (forall q, pd aF x q = pd aN x q) ->
  let aN' := step' devf innN top C1 time rootsN [] aN (x, KDev) in
  let aF' := step' devf innF top CF time rootsF [] aF (x, KDev) in
  Rout aN' aF' /\ keepP aN aF aN' aF' x /\
  wake_of (co_s aN') lvc = wake_of (co_s aN) lvc /\
  (forall d, In d inn -> lookup d (wake_of (co_s aF') top) = lookup d (wake_of (co_s aF) top)) /\
  (lookup c (wake_of (co_s aN') top) = lookup c (wake_of (co_s aN) top)) /\
  s_int (co_s aN') = s_int (co_s aN) /\ s_ticked (co_s aN') = s_ticked (co_s aN) /\
  (SUB (co_s aN) (co_s aF) -> SUB (co_s aN') (co_s aF')).
Proof.
  intros Hx Hr HR Hfull. cbv zeta.
  destruct (outsider_facts cfg c lvc pre inn post Hsh x Hx) as [Hxi [Hxc [Hxe Hxx]]].
  destruct (par_dev devf Hdev_nd Hdev_ext time innN innF top top C1 CF rootsN rootsF [] [] aN aF x Hxe Hxx
              (ro_dev _ _ HR x (in_outs_all x Hx)) (eqv_of_pd aN aF x Hfull) (ro_okN _ _ HR x) (ro_okF _ _ HR x) Hr)
    as [[EN EF]|[ch [ca [iN [iF [Hch [Hieq [HeN [HeF Hdx]]]]]]]]].
  - rewrite EN, EF. split; [exact HR|]. split; [apply keepP_refl|]. split; [reflexivity|]. split; [auto|]. split; [reflexivity|]. split; [reflexivity|]. split; [reflexivity | auto].
  - assert (PN := pd_after time top C1 aN _ x ch ca iN HeN). assert (PF := pd_after time top CF aF _ x ch ca iF HeF).
    destruct (pend_after_step aN aF _ _ x ch Hx Hch (ro_pend _ _ HR) PN PF) as [Hpend [Hpre [Hpt [Hnc Hfed]]]].
    split; [|split; [|split; [|split; [|split; [|split; [|split]]]]]].
    + constructor.
      * intros z Hz. destruct (Pos.eq_dec z x) as [E|Hne]; [subst z; exact Hdx|].
        unfold drel. rewrite (de_other _ _ _ _ _ _ _ _ _ HeN z Hne), (de_other _ _ _ _ _ _ _ _ _ HeF z Hne),
          (de_cnt_other _ _ _ _ _ _ _ _ _ HeN z Hne), (de_cnt_other _ _ _ _ _ _ _ _ _ HeF z Hne). apply (ro_dev _ _ HR z Hz).
      * exact Hpend.
      * rewrite (de_in _ _ _ _ _ _ _ _ _ HeN). apply in_ok_accumulate. exact (ro_okN _ _ HR).
      * rewrite (de_in _ _ _ _ _ _ _ _ _ HeF). apply in_ok_accumulate. exact (ro_okF _ _ HR).
      * rewrite (de_obs _ _ _ _ _ _ _ _ _ HeN), (de_obs _ _ _ _ _ _ _ _ _ HeF). apply obs_rel_app; [exact (ro_obs _ _ HR)|].
        constructor; [|constructor]. split; [reflexivity | exact Hieq].
      * intros y Hy. rewrite (de_wake _ _ _ _ _ _ _ _ _ HeN), (de_wake _ _ _ _ _ _ _ _ _ HeF).
        destruct ca as [w|]; [rewrite !lookup_upd; rewrite (ro_wo _ _ HR y Hy); reflexivity | apply (ro_wo _ _ HR y Hy)].
    + unfold keepP. split; [exact Hpre|]. split; [exact Hpt|]. split; [exact Hnc | exact Hfed].
    + apply (de_wake_other _ _ _ _ _ _ _ _ _ HeN lvc (sh_lv _ _ _ _ _ _ Hsh)).
    + intros d Hd. rewrite (de_wake _ _ _ _ _ _ _ _ _ HeF). destruct ca as [w|]; [|reflexivity].
      apply lookup_upd_other. intros E. subst d. contradiction.
    + rewrite (de_wake _ _ _ _ _ _ _ _ _ HeN). destruct ca as [w|]; [|reflexivity]. apply lookup_upd_other. intros E. apply Hxc. symmetry. exact E.
    + apply (de_int _ _ _ _ _ _ _ _ _ HeN).
    + apply (de_ticked _ _ _ _ _ _ _ _ _ HeN).
    + intros HS y ly g Hy. destruct (HS y ly g Hy) as [A B].
      destruct (Hsib y ly g Hy) as [Htop [_ [HD _]]].
      split.
      * intros z Hz. assert (Hne : z <> x) by (intros E; subst z; apply (proj1 (HD x Hz)); apply in_outs_all; exact Hx).
        unfold drel. rewrite (de_other _ _ _ _ _ _ _ _ _ HeN z Hne), (de_other _ _ _ _ _ _ _ _ _ HeF z Hne),
          (de_cnt_other _ _ _ _ _ _ _ _ _ HeN z Hne), (de_cnt_other _ _ _ _ _ _ _ _ _ HeF z Hne). apply (A z Hz).
      * intros l Hl. assert (Hne : l <> top) by (intros E; subst l; contradiction).
        unfold int_of. rewrite (de_wake_other _ _ _ _ _ _ _ _ _ HeN l Hne), (de_wake_other _ _ _ _ _ _ _ _ _ HeF l Hne),
          (de_int _ _ _ _ _ _ _ _ _ HeN), (de_int _ _ _ _ _ _ _ _ _ HeF), (de_ticked _ _ _ _ _ _ _ _ _ HeN), (de_ticked _ _ _ _ _ _ _ _ _ HeF).
        apply (B l Hl).
Qed.

(* ---------- a sibling system simulation is processed on both sides *)
Lemma same_below_inline : forall g ly, ~ In top (levels_below cfg g ly) -> same_below cfg cfgF g ly.
Proof.
  induction g as [|g IH]; intros ly Hn; [exact I|]. cbn [same_below]. split.
  - unfold cfgF, inline, level_of. rewrite lookup_upd_other; [reflexivity|]. intros E. apply Hn. cbn [levels_below]. left. exact E.
  - intros x lv' Hi. apply IH. intros H. apply Hn. eapply levels_below_sub; eassumption.
Qed.

Lemma drel_frame sN sF sN2 sF2 z : drel sN sF z ->
  lookup z (s_dc sN2) = lookup z (s_dc sN) -> lookup z (s_n sN2) = lookup z (s_n sN) ->
  lookup z (s_dc sF2) = lookup z (s_dc sF) -> lookup z (s_n sF2) = lookup z (s_n sF) -> drel sN2 sF2 z.
Proof. intros H A B C D. unfold drel in *. rewrite (dcs_of_lookup sN sN2 z A), (dcs_of_lookup sF sF2 z C), B, D. exact H. Qed.

Lemma SR_set_wake_other D L s s' lv w w' : ~ In lv L -> SR D L s s' -> SR D L (set_wake s lv w) (set_wake s' lv w').
Proof.
  intros Hlv [A B]. split; [exact A|]. intros l Hl. destruct (B l Hl) as [X [Y Z]].
  assert (Hne : l <> lv) by (intros E; subst l; contradiction).
  rewrite !wake_of_set_wake_other by exact Hne. repeat split; assumption.
Qed.

Lemma out_step_sys rootsN rootsF aN aF x ly :
  In x outs_ -> kd_of cfg x = KSys ly -> memb x rootsN = memb x rootsF -> Rout aN aF -> SUB (co_s aN) (co_s aF) ->
  (forall q, pd aF x q = pd aN x q) ->
  let aN' := step' devf (on_tick_level cfg devf (S f)) top C1 time rootsN [] aN (x, KSys ly) in
  let aF' := step' devf (on_tick_level cfgF devf (S f)) top CF time rootsF [] aF (x, KSys ly) in
  Rout aN' aF' /\ keepP aN aF aN' aF' x /\ frameN aN aN' /\ frameF aF aF' /\
  SUB (co_s aN') (co_s aF').
Proof.
  intros Hx Hk Hr HR HS Hfull. cbv zeta.
  destruct (outsider_facts cfg c lvc pre inn post Hsh x Hx) as [Hxi [Hxc [Hxe Hxx]]].
  pose proof (sh_ss1 _ _ _ _ _ _ Hsh) as S1. fold C1 in S1.
  pose proof (Cf_single_source cfg c lvc pre inn post Hsh) as SF. fold CF in SF.
  assert (Hxs : issys cfg f lvc pre inn post x ly (S f)) by (left; split; [exact Hx | split; [exact Hk | reflexivity]]).
  destruct (Hsib x ly (S f) Hxs) as [Htop [Hlvc [HD [Hssl _]]]].
  set (D := devices_below cfg (S f) ly) in *. set (L := levels_below cfg (S f) ly) in *.
  assert (Hinp : eqv (get_d x (co_in aN)) (get_d x (co_in aF))) by (apply eqv_of_pd; exact Hfull).
  unfold step'. cbn [fst snd]. rewrite <- (nonempty_eqv _ _ Hinp), <- Hr.
  destruct (nonempty (get_d x (co_in aN)) || memb x rootsN).
  2: { split; [exact HR|]. split; [apply keepP_refl|]. split; [repeat split; reflexivity|]. split; [intros d _; reflexivity | exact HS]. }
  destruct (Pos.eqb_spec x ext_id) as [E|_]; [contradiction|]. destruct (Pos.eqb_spec x exp_id) as [E|_]; [contradiction|].
  pose proof (same_below_inline (S f) ly Htop) as Hsb.
  pose proof (on_tick_level_eqv2 cfg devf Hdev_nd Hdev_ext cfgF (S f) ly Hsb Hssl time
                (get_d x (co_in aN)) (get_d x (co_in aF)) (co_s aN) (co_s aF) (HS x ly (S f) Hxs) Hinp (ro_okN _ _ HR x) (ro_okF _ _ HR x)) as Hcg.
  pose proof (on_tick_level_framed cfg devf (S f) ly time (get_d x (co_in aN)) (co_s aN)) as FrN.
  pose proof (on_tick_level_framed cfgF devf (S f) ly time (get_d x (co_in aF)) (co_s aF)) as FrF.
  destruct (below_eq cfg cfgF (S f) ly Hsb) as [EL ED]. rewrite EL, ED in FrF. fold D L in FrN, FrF.
  destruct (on_tick_level cfg devf (S f) ly time (get_d x (co_in aN)) (co_s aN)) as [[[s1 ch] ca] ob].
  destruct (on_tick_level cfgF devf (S f) ly time (get_d x (co_in aF)) (co_s aF)) as [[[s1' ch'] ca'] ob'].
  destruct Hcg as [Ech [Nch [Nch' [Eca [Eob Hs1]]]]]. subst ca'.
  destruct FrN as [FN1 [FN2 FN3]]. destruct FrF as [FF1 [FF2 FF3]].
  set (s2 := match ca with Some w => set_wake s1 top (upd x w (wake_of s1 top)) | None => s1 end).
  set (s2' := match ca with Some w => set_wake s1' top (upd x w (wake_of s1' top)) | None => s1' end).
  assert (EtN : wake_of s1 top = wake_of (co_s aN) top) by (apply (FN2 top Htop)).
  assert (EtF : wake_of s1' top = wake_of (co_s aF) top) by (apply (FF2 top Htop)).
  assert (Hw2 : forall l, l <> top -> wake_of s2 l = wake_of s1 l) by (intros l Hl; unfold s2; destruct ca; [apply wake_of_set_wake_other; exact Hl | reflexivity]).
  assert (Hw2' : forall l, l <> top -> wake_of s2' l = wake_of s1' l) by (intros l Hl; unfold s2'; destruct ca; [apply wake_of_set_wake_other; exact Hl | reflexivity]).
  assert (Hwt : forall z, lookup z (wake_of s2 top) = if Pos.eqb z x then match ca with Some w => Some w | None => lookup z (wake_of (co_s aN) top) end else lookup z (wake_of (co_s aN) top)).
  { intros z. unfold s2. destruct ca as [w|]; [rewrite wake_of_set_wake, lookup_upd, EtN; reflexivity | rewrite EtN; destruct (Pos.eqb z x); reflexivity]. }
  assert (Hwt' : forall z, lookup z (wake_of s2' top) = if Pos.eqb z x then match ca with Some w => Some w | None => lookup z (wake_of (co_s aF) top) end else lookup z (wake_of (co_s aF) top)).
  { intros z. unfold s2'. destruct ca as [w|]; [rewrite wake_of_set_wake, lookup_upd, EtF; reflexivity | rewrite EtF; destruct (Pos.eqb z x); reflexivity]. }
  assert (Hdc2 : forall z, lookup z (s_dc s2) = lookup z (s_dc s1) /\ lookup z (s_n s2) = lookup z (s_n s1)) by (intros z; unfold s2; destruct ca; split; reflexivity).
  assert (Hdc2' : forall z, lookup z (s_dc s2') = lookup z (s_dc s1') /\ lookup z (s_n s2') = lookup z (s_n s1')) by (intros z; unfold s2'; destruct ca; split; reflexivity).
  assert (Hint2 : s_int s2 = s_int s1 /\ s_ticked s2 = s_ticked s1) by (unfold s2; destruct ca; split; reflexivity).
  assert (Hint2' : s_int s2' = s_int s1' /\ s_ticked s2' = s_ticked s1') by (unfold s2'; destruct ca; split; reflexivity).
  set (aN' := {| co_s := s2; co_in := accumulate (co_in aN) (route C1 x ch); co_out := co_out aN; co_obs := co_obs aN ++ ob |}).
  set (aF' := {| co_s := s2'; co_in := accumulate (co_in aF) (route CF x ch'); co_out := co_out aF; co_obs := co_obs aF ++ ob' |}).
  assert (PN : forall y q, pd aN' y q = match lookup2r (route C1 x ch) y q with Some v => Some v | None => pd aN y q end)
    by (intros y q; unfold pd, aN'; cbn [co_in]; apply accumulate_lookup; apply route_WFd).
  assert (PF : forall y q, pd aF' y q = match lookup2r (route CF x ch) y q with Some v => Some v | None => pd aF y q end).
  { intros y q. unfold pd, aF'. cbn [co_in]. rewrite accumulate_lookup by apply route_WFd.
    rewrite (route_eqv CF x ch' ch y q SF Nch' Nch (eqv_sym _ _ Ech)). reflexivity. }
  destruct (pend_after_step aN aF aN' aF' x ch Hx Nch (ro_pend _ _ HR) PN PF) as [Hpend [Hpre [Hpt [Hnc Hfed]]]].
  assert (Houtside : forall z, In z allc -> ~ In z D) by (intros z Hz Hd; apply (proj1 (HD z Hd)); exact Hz).
  split; [|split; [unfold keepP; split; [exact Hpre|]; split; [exact Hpt|]; split; [exact Hnc | exact Hfed] | split; [|split]]].
  - constructor; cbn [aN' aF' co_s co_in co_obs].
    + intros z Hz. destruct (FN1 z (Houtside z Hz)) as [X1 X2]. destruct (FF1 z (Houtside z Hz)) as [Y1 Y2].
      apply (drel_frame (co_s aN) (co_s aF) s2 s2' z (ro_dev _ _ HR z Hz)).
      * rewrite (proj1 (Hdc2 z)). exact X1.
      * rewrite (proj2 (Hdc2 z)). exact X2.
      * rewrite (proj1 (Hdc2' z)). exact Y1.
      * rewrite (proj2 (Hdc2' z)). exact Y2.
    + exact Hpend.
    + apply in_ok_accumulate. exact (ro_okN _ _ HR).
    + apply in_ok_accumulate. exact (ro_okF _ _ HR).
    + apply obs_rel_app; [exact (ro_obs _ _ HR) | exact Eob].
    + intros y Hy. rewrite Hwt, Hwt', (ro_wo _ _ HR y Hy). reflexivity.
  - (* frameN *)
    unfold frameN. cbn [aN' co_s]. split; [|split; [|split]].
    + rewrite (Hw2 lvc (sh_lv _ _ _ _ _ _ Hsh)). apply (FN2 lvc Hlvc).
    + rewrite Hwt. destruct (Pos.eqb_spec c x) as [E|_]; [exfalso; apply Hxc; symmetry; exact E | reflexivity].
    + unfold int_of. rewrite (proj1 Hint2). apply (FN2 lvc Hlvc).
    + rewrite (proj2 Hint2). apply (FN2 lvc Hlvc).
  - (* frameF *)
    unfold frameF. intros d Hd. cbn [aF' co_s]. rewrite Hwt'. destruct (Pos.eqb_spec d x) as [E|_]; [subst d; contradiction | reflexivity].
  - (* the siblings *)
    cbn [aN' aF' co_s]. intros y2 ly2 g2 Hy2.
    destruct (Hsib y2 ly2 g2 Hy2) as [Htop2 _].
    assert (H1 : SR (devices_below cfg g2 ly2) (levels_below cfg g2 ly2) s1 s1').
    { apply (SR_combine _ _ D L (co_s aN) (co_s aF) s1 s1' ob ob' (HS y2 ly2 g2 Hy2) Hs1 (conj FN1 (conj FN2 FN3)) (conj FF1 (conj FF2 FF3))). }
    unfold s2, s2'. destruct ca as [w|]; [apply SR_set_wake_other; assumption | exact H1].
Qed.

(* ---------- inside the system's tick: the inner fold (C) against the inlined run (F); aNb is the
   nested top-level run as it stood when the system's turn came *)
Record R2 (aNb aC aF : core) : Prop := {
  r2_dev : forall z, In z allc -> drel (co_s aC) (co_s aF) z;
  r2_pi : forall d, In d inn -> forall q, pd aF d q = pd aC d q;
  r2_pa : forall y, In y outs_ -> forall q, (forall o, ~ In (c, o, y, q) C1) -> pd aF y q = pd aNb y q;
  r2_pb : forall y, In y outs_ -> forall q o, In (c, o, y, q) C1 -> pd aF y q = pd aC exp_id o;
  r2_okC : in_ok (co_in aC);
  r2_okF : in_ok (co_in aF);
  r2_obs : obs_rel (co_obs aNb ++ co_obs aC) (co_obs aF);
  r2_wi : forall d, In d inn -> lookup d (wake_of (co_s aC) lvc) = lookup d (wake_of (co_s aF) top);
  r2_wo : forall y, In y outs_ -> lookup y (wake_of (co_s aC) top) = lookup y (wake_of (co_s aF) top)
}.

(* what is pending where after a component of the inner level reported [ch] on both sides *)
Lemma pend_after_in aNb aC aF aC' aF' d ch :
  In d inn -> NoDup (keys ch) ->
  (forall e, In e inn -> forall q, pd aF e q = pd aC e q) ->
  (forall y, In y outs_ -> forall q, (forall o, ~ In (c, o, y, q) C1) -> pd aF y q = pd aNb y q) ->
  (forall y, In y outs_ -> forall q o, In (c, o, y, q) C1 -> pd aF y q = pd aC exp_id o) ->
  (forall y q, pd aC' y q = match lookup2r (route Cc d ch) y q with Some v => Some v | None => pd aC y q end) ->
  (forall y q, pd aF' y q = match lookup2r (route CF d ch) y q with Some v => Some v | None => pd aF y q end) ->
  (forall e, In e inn -> forall q, pd aF' e q = pd aC' e q) /\
  (forall y, In y outs_ -> forall q, (forall o, ~ In (c, o, y, q) C1) -> pd aF' y q = pd aNb y q) /\
  (forall y, In y outs_ -> forall q o, In (c, o, y, q) C1 -> pd aF' y q = pd aC' exp_id o).
Proof.
  intros Hd Hch Hpi Hpa Hpb PC PF.
  pose proof (sh_ss1 _ _ _ _ _ _ Hsh) as S1. fold C1 in S1.
  pose proof (sh_ssc _ _ _ _ _ _ Hsh) as Sc. fold Cc in Sc.
  pose proof (Cf_single_source cfg c lvc pre inn post Hsh) as SF. fold CF in SF.
  split; [|split].
  - intros e He q. rewrite PC, PF, (Hpi e He q).
    rewrite (route_lookup_ext Cc CF d ch e q e q Sc SF Hch); [reflexivity|].
    intros p. apply (wire_BB cfg c lvc pre inn post Hsh d p e q Hd He).
  - intros y Hy q Hno. rewrite PF, (Hpa y Hy q Hno).
    rewrite (route_lookup_none CF d ch y q SF Hch); [reflexivity|].
    intros p Hk. apply (wire_BA cfg c lvc pre inn post Hsh d p y q Hd Hy) in Hk. destruct Hk as [o [_ Hk]]. apply (Hno o Hk).
  - intros y Hy q o Hk. rewrite PF, PC, (Hpb y Hy q o Hk).
    rewrite (route_lookup_ext Cc CF d ch exp_id o y q Sc SF Hch); [reflexivity|].
    intros p. split.
    + intros H. apply (wire_BA cfg c lvc pre inn post Hsh d p y q Hd Hy) in H. destruct H as [o' [H1 H2]].
      destruct (S1 c o' c o y q H2 Hk) as [_ E]. subst o'. exact H1.
    + intros H1. apply (wire_BA cfg c lvc pre inn post Hsh d p y q Hd Hy). exists o. split; assumption.
Qed.

Lemma SR_set_wake_2 D L s s' lv lv' w w' : ~ In lv L -> ~ In lv' L -> SR D L s s' -> SR D L (set_wake s lv w) (set_wake s' lv' w').
Proof.
  intros Hlv Hlv' [A B]. split; [exact A|]. intros l Hl. destruct (B l Hl) as [X [Y Z]].
  assert (Hne : l <> lv) by (intros E; subst l; contradiction).
  assert (Hne' : l <> lv') by (intros E; subst l; contradiction).
  rewrite !wake_of_set_wake_other by assumption. repeat split; assumption.
Qed.

(* what a step inside the system's tick keeps, besides R2 *)
Definition keepC (aC aC' : core) : Prop :=
  wake_of (co_s aC') top = wake_of (co_s aC) top /\
  int_of (co_s aC') lvc = int_of (co_s aC) lvc /\ memb lvc (s_ticked (co_s aC')) = memb lvc (s_ticked (co_s aC)) /\
  (forall k, lookup k (wake_of (co_s aC) lvc) <> None -> lookup k (wake_of (co_s aC') lvc) <> None) /\
  co_out aC' = co_out aC.

Lemma keepC_refl a : keepC a a.
Proof. repeat split; auto. Qed.
Lemma keepC_trans a1 a2 a3 : keepC a1 a2 -> keepC a2 a3 -> keepC a1 a3.
Proof. intros [A1 [A2 [A3 [A4 A5]]]] [B1 [B2 [B3 [B4 B5]]]]. repeat split; try congruence. intros k Hk. apply B4. apply A4. exact Hk. Qed.

(* an inner device is processed on both sides *)
Lemma in_step innC innF rootsC rootsF chg aNb aC aF d :
  In d inn -> memb d rootsC = memb d rootsF -> R2 aNb aC aF ->
  let aC' := step' devf innC lvc Cc time rootsC chg aC (d, KDev) in
  let aF' := step' devf innF top CF time rootsF [] aF (d, KDev) in
  R2 aNb aC' aF' /\ keepC aC aC' /\ (SUB (co_s aC) (co_s aF) -> SUB (co_s aC') (co_s aF')).
Proof.
  intros Hd Hr HR. cbv zeta.
  destruct (inner_not_outsider cfg c lvc pre inn post Hsh d Hd) as [Hdo [Hdc [Hde Hdx]]].
  assert (Hlv : top <> lvc) by (intros E; apply (sh_lv _ _ _ _ _ _ Hsh); symmetry; exact E).
  destruct (par_dev devf Hdev_nd Hdev_ext time innC innF lvc top Cc CF rootsC rootsF chg [] aC aF d Hde Hdx
              (r2_dev _ _ _ HR d (in_inn_all d Hd)) (eqv_of_pd aC aF d (r2_pi _ _ _ HR d Hd)) (r2_okC _ _ _ HR d) (r2_okF _ _ _ HR d) Hr)
    as [[EN EF]|[ch [ca [iN [iF [Hch [Hieq [HeN [HeF Hdx2]]]]]]]]].
  - rewrite EN, EF. split; [exact HR|]. split; [apply keepC_refl | auto].
  - assert (PC := pd_after time lvc Cc aC _ d ch ca iN HeN). assert (PF := pd_after time top CF aF _ d ch ca iF HeF).
    destruct (pend_after_in aNb aC aF _ _ d ch Hd Hch (r2_pi _ _ _ HR) (r2_pa _ _ _ HR) (r2_pb _ _ _ HR) PC PF) as [Hpi [Hpa Hpb]].
    split; [|split].
    + constructor.
      * intros z Hz. destruct (Pos.eq_dec z d) as [E|Hne]; [subst z; exact Hdx2|].
        unfold drel. rewrite (de_other _ _ _ _ _ _ _ _ _ HeN z Hne), (de_other _ _ _ _ _ _ _ _ _ HeF z Hne),
          (de_cnt_other _ _ _ _ _ _ _ _ _ HeN z Hne), (de_cnt_other _ _ _ _ _ _ _ _ _ HeF z Hne). apply (r2_dev _ _ _ HR z Hz).
      * exact Hpi.
      * exact Hpa.
      * exact Hpb.
      * rewrite (de_in _ _ _ _ _ _ _ _ _ HeN). apply in_ok_accumulate. exact (r2_okC _ _ _ HR).
      * rewrite (de_in _ _ _ _ _ _ _ _ _ HeF). apply in_ok_accumulate. exact (r2_okF _ _ _ HR).
      * rewrite (de_obs _ _ _ _ _ _ _ _ _ HeN), (de_obs _ _ _ _ _ _ _ _ _ HeF), app_assoc. apply obs_rel_app; [exact (r2_obs _ _ _ HR)|].
        constructor; [|constructor]. split; [reflexivity | exact Hieq].
      * intros e He. rewrite (de_wake _ _ _ _ _ _ _ _ _ HeN), (de_wake _ _ _ _ _ _ _ _ _ HeF).
        destruct ca as [w|]; [rewrite !lookup_upd; rewrite (r2_wi _ _ _ HR e He); reflexivity | apply (r2_wi _ _ _ HR e He)].
      * intros y Hy. rewrite (de_wake_other _ _ _ _ _ _ _ _ _ HeN top Hlv), (de_wake _ _ _ _ _ _ _ _ _ HeF).
        destruct ca as [w|]; [|apply (r2_wo _ _ _ HR y Hy)].
        rewrite lookup_upd_other; [apply (r2_wo _ _ _ HR y Hy)|]. intros E. subst y. contradiction.
    + unfold keepC. split; [apply (de_wake_other _ _ _ _ _ _ _ _ _ HeN top Hlv)|].
      split; [unfold int_of; rewrite (de_int _ _ _ _ _ _ _ _ _ HeN); reflexivity|].
      split; [rewrite (de_ticked _ _ _ _ _ _ _ _ _ HeN); reflexivity|].
      split; [|apply (de_out _ _ _ _ _ _ _ _ _ HeN)].
      intros k Hk. rewrite (de_wake _ _ _ _ _ _ _ _ _ HeN). destruct ca as [w|]; [|exact Hk].
      rewrite lookup_upd. destruct (Pos.eqb k d); [discriminate | exact Hk].
    + intros HS y ly g Hy. destruct (HS y ly g Hy) as [A B].
      destruct (Hsib y ly g Hy) as [Htop [Hlvc [HD _]]].
      split.
      * intros z Hz. assert (Hne : z <> d) by (intros E; subst z; apply (proj1 (HD d Hz)); apply in_inn_all; exact Hd).
        unfold drel. rewrite (de_other _ _ _ _ _ _ _ _ _ HeN z Hne), (de_other _ _ _ _ _ _ _ _ _ HeF z Hne),
          (de_cnt_other _ _ _ _ _ _ _ _ _ HeN z Hne), (de_cnt_other _ _ _ _ _ _ _ _ _ HeF z Hne). apply (A z Hz).
      * intros l Hl. assert (Hne : l <> top) by (intros E; subst l; contradiction).
        assert (Hne2 : l <> lvc) by (intros E; subst l; contradiction).
        unfold int_of. rewrite (de_wake_other _ _ _ _ _ _ _ _ _ HeN l Hne2), (de_wake_other _ _ _ _ _ _ _ _ _ HeF l Hne),
          (de_int _ _ _ _ _ _ _ _ _ HeN), (de_int _ _ _ _ _ _ _ _ _ HeF), (de_ticked _ _ _ _ _ _ _ _ _ HeN), (de_ticked _ _ _ _ _ _ _ _ _ HeF).
        apply (B l Hl).
Qed.

(* a system simulation inside c is processed on both sides: by the nested scheduler of c with fuel f,
   by the master of the inlined configuration with fuel S f *)
Lemma in_step_sys rootsC rootsF chg aNb aC aF y ly :
  In y inn -> kd_in cfg lvc y = KSys ly -> memb y rootsC = memb y rootsF -> R2 aNb aC aF -> SUB (co_s aC) (co_s aF) ->
  let aC' := step' devf (on_tick_level cfg devf f) lvc Cc time rootsC chg aC (y, KSys ly) in
  let aF' := step' devf (on_tick_level cfgF devf (S f)) top CF time rootsF [] aF (y, KSys ly) in
  R2 aNb aC' aF' /\ keepC aC aC' /\ SUB (co_s aC') (co_s aF').
Proof.
  intros Hy Hk Hr HR HS. cbv zeta.
  destruct (inner_not_outsider cfg c lvc pre inn post Hsh y Hy) as [Hyo [Hyc [Hye Hyx]]].
  pose proof (Cf_single_source cfg c lvc pre inn post Hsh) as SF. fold CF in SF.
  assert (Hlv : top <> lvc) by (intros E; apply (sh_lv _ _ _ _ _ _ Hsh); symmetry; exact E).
  assert (Hys : issys cfg f lvc pre inn post y ly f) by (right; split; [exact Hy | split; [exact Hk | reflexivity]]).
  destruct (Hsib y ly f Hys) as [Htop [Hlvc [HD [Hssl Hdeep]]]]. specialize (Hdeep eq_refl).
  set (D := devices_below cfg f ly) in *. set (L := levels_below cfg f ly) in *.
  assert (Hinp : eqv (get_d y (co_in aC)) (get_d y (co_in aF))) by (apply eqv_of_pd; apply (r2_pi _ _ _ HR y Hy)).
  unfold step'. cbn [fst snd]. rewrite <- (nonempty_eqv _ _ Hinp), <- Hr.
  destruct (nonempty (get_d y (co_in aC)) || memb y rootsC).
  2: { split; [exact HR|]. split; [apply keepC_refl | exact HS]. }
  destruct (Pos.eqb_spec y ext_id) as [E|_]; [contradiction|]. destruct (Pos.eqb_spec y exp_id) as [E|_]; [contradiction|].
  pose proof (same_below_inline f ly Htop) as Hsb.
  rewrite (on_tick_level_fuel cfgF devf f ly (deep_enough_same cfg cfgF f ly Hsb Hdeep)).
  pose proof (on_tick_level_eqv2 cfg devf Hdev_nd Hdev_ext cfgF f ly Hsb Hssl time
                (get_d y (co_in aC)) (get_d y (co_in aF)) (co_s aC) (co_s aF) (HS y ly f Hys) Hinp (r2_okC _ _ _ HR y) (r2_okF _ _ _ HR y)) as Hcg.
  pose proof (on_tick_level_framed cfg devf f ly time (get_d y (co_in aC)) (co_s aC)) as FrN.
  pose proof (on_tick_level_framed cfgF devf f ly time (get_d y (co_in aF)) (co_s aF)) as FrF.
  destruct (below_eq cfg cfgF f ly Hsb) as [EL ED]. rewrite EL, ED in FrF. fold D L in FrN, FrF.
  destruct (on_tick_level cfg devf f ly time (get_d y (co_in aC)) (co_s aC)) as [[[s1 ch] ca] ob].
  destruct (on_tick_level cfgF devf f ly time (get_d y (co_in aF)) (co_s aF)) as [[[s1' ch'] ca'] ob'].
  destruct Hcg as [Ech [Nch [Nch' [Eca [Eob Hs1]]]]]. subst ca'.
  destruct FrN as [FN1 [FN2 FN3]]. destruct FrF as [FF1 [FF2 FF3]].
  set (s2 := match ca with Some w => set_wake s1 lvc (upd y w (wake_of s1 lvc)) | None => s1 end).
  set (s2' := match ca with Some w => set_wake s1' top (upd y w (wake_of s1' top)) | None => s1' end).
  assert (EcN : wake_of s1 lvc = wake_of (co_s aC) lvc) by (apply (FN2 lvc Hlvc)).
  assert (EtN : wake_of s1 top = wake_of (co_s aC) top) by (apply (FN2 top Htop)).
  assert (EtF : wake_of s1' top = wake_of (co_s aF) top) by (apply (FF2 top Htop)).
  assert (Hw2t : wake_of s2 top = wake_of (co_s aC) top).
  { unfold s2. destruct ca as [w|]; [rewrite wake_of_set_wake_other by exact Hlv|]; exact EtN. }
  assert (Hwc : forall z, lookup z (wake_of s2 lvc) = if Pos.eqb z y then match ca with Some w => Some w | None => lookup z (wake_of (co_s aC) lvc) end else lookup z (wake_of (co_s aC) lvc)).
  { intros z. unfold s2. destruct ca as [w|]; [rewrite wake_of_set_wake, lookup_upd, EcN; reflexivity | rewrite EcN; destruct (Pos.eqb z y); reflexivity]. }
  assert (Hwt' : forall z, lookup z (wake_of s2' top) = if Pos.eqb z y then match ca with Some w => Some w | None => lookup z (wake_of (co_s aF) top) end else lookup z (wake_of (co_s aF) top)).
  { intros z. unfold s2'. destruct ca as [w|]; [rewrite wake_of_set_wake, lookup_upd, EtF; reflexivity | rewrite EtF; destruct (Pos.eqb z y); reflexivity]. }
  assert (Hdc2 : forall z, lookup z (s_dc s2) = lookup z (s_dc s1) /\ lookup z (s_n s2) = lookup z (s_n s1)) by (intros z; unfold s2; destruct ca; split; reflexivity).
  assert (Hdc2' : forall z, lookup z (s_dc s2') = lookup z (s_dc s1') /\ lookup z (s_n s2') = lookup z (s_n s1')) by (intros z; unfold s2'; destruct ca; split; reflexivity).
  assert (Hint2 : s_int s2 = s_int s1 /\ s_ticked s2 = s_ticked s1) by (unfold s2; destruct ca; split; reflexivity).
  set (aC' := {| co_s := s2; co_in := accumulate (co_in aC) (route Cc y ch); co_out := co_out aC; co_obs := co_obs aC ++ ob |}).
  set (aF' := {| co_s := s2'; co_in := accumulate (co_in aF) (route CF y ch'); co_out := co_out aF; co_obs := co_obs aF ++ ob' |}).
  assert (PC : forall z q, pd aC' z q = match lookup2r (route Cc y ch) z q with Some v => Some v | None => pd aC z q end)
    by (intros z q; unfold pd, aC'; cbn [co_in]; apply accumulate_lookup; apply route_WFd).
  assert (PF : forall z q, pd aF' z q = match lookup2r (route CF y ch) z q with Some v => Some v | None => pd aF z q end).
  { intros z q. unfold pd, aF'. cbn [co_in]. rewrite accumulate_lookup by apply route_WFd.
    rewrite (route_eqv CF y ch' ch z q SF Nch' Nch (eqv_sym _ _ Ech)). reflexivity. }
  destruct (pend_after_in aNb aC aF aC' aF' y ch Hy Nch (r2_pi _ _ _ HR) (r2_pa _ _ _ HR) (r2_pb _ _ _ HR) PC PF) as [Hpi [Hpa Hpb]].
  assert (Houtside : forall z, In z allc -> ~ In z D) by (intros z Hz Hd; apply (proj1 (HD z Hd)); exact Hz).
  split; [|split].
  - constructor; cbn [aC' aF' co_s co_in co_obs].
    + intros z Hz. destruct (FN1 z (Houtside z Hz)) as [X1 X2]. destruct (FF1 z (Houtside z Hz)) as [Y1 Y2].
      apply (drel_frame (co_s aC) (co_s aF) s2 s2' z (r2_dev _ _ _ HR z Hz)).
      * rewrite (proj1 (Hdc2 z)). exact X1.
      * rewrite (proj2 (Hdc2 z)). exact X2.
      * rewrite (proj1 (Hdc2' z)). exact Y1.
      * rewrite (proj2 (Hdc2' z)). exact Y2.
    + exact Hpi.
    + exact Hpa.
    + exact Hpb.
    + apply in_ok_accumulate. exact (r2_okC _ _ _ HR).
    + apply in_ok_accumulate. exact (r2_okF _ _ _ HR).
    + rewrite app_assoc. apply obs_rel_app; [exact (r2_obs _ _ _ HR) | exact Eob].
    + intros e He. rewrite Hwc, Hwt', (r2_wi _ _ _ HR e He). reflexivity.
    + intros z Hz. rewrite Hw2t, Hwt'. destruct (Pos.eqb_spec z y) as [E|_]; [subst z; contradiction | apply (r2_wo _ _ _ HR z Hz)].
  - unfold keepC. cbn [aC' co_s co_out]. split; [exact Hw2t|].
    split; [unfold int_of; rewrite (proj1 Hint2); apply (FN2 lvc Hlvc)|].
    split; [rewrite (proj2 Hint2); apply (FN2 lvc Hlvc)|].
    split; [|reflexivity].
    intros k Hk2. rewrite Hwc. destruct (Pos.eqb k y); [destruct ca; [discriminate | exact Hk2] | exact Hk2].
  - cbn [aC' aF' co_s]. intros y2 ly2 g2 Hy2.
    destruct (Hsib y2 ly2 g2 Hy2) as [Htop2 [Hlvc2 _]].
    assert (H1 : SR (devices_below cfg g2 ly2) (levels_below cfg g2 ly2) s1 s1').
    { apply (SR_combine _ _ D L (co_s aC) (co_s aF) s1 s1' ob ob' (HS y2 ly2 g2 Hy2) Hs1 (conj FN1 (conj FN2 FN3)) (conj FF1 (conj FF2 FF3))). }
    unfold s2, s2'. destruct ca as [w|]; [apply SR_set_wake_2; assumption | exact H1].
Qed.

Lemma frameN_trans a1 a2 a3 : frameN a1 a2 -> frameN a2 a3 -> frameN a1 a3.
Proof. intros [A1 [A2 [A3 A4]]] [B1 [B2 [B3 B4]]]. repeat split; congruence. Qed.

(* the pending values of a component before / after the system in the order of the top level *)
Lemma full_pre aN aF x : In x pre -> Rout aN aF -> Rpt aN aF -> Rnc aN -> forall q, pd aF x q = pd aN x q.
Proof.
  intros Hx HR HPt HNc q. assert (Ho : In x outs_) by (apply in_app_iff; left; exact Hx).
  destruct (wire_from_dec C1 c x q) as [Hno|[o Hk]]; [apply (ro_pend _ _ HR x Ho q Hno)|].
  rewrite (HNc o x q Hk). destruct (pd aF x q) as [v|] eqn:E; [|reflexivity]. exfalso.
  apply (HPt o x q Ho Hk v) in E. destruct E as [q0 [Hq _]].
  apply (pre_post_disjoint x Hx). apply (sh_pt_dst _ _ _ _ _ _ Hsh q0 o x q Hq Hk).
Qed.

Lemma full_post aN aF x : In x post -> Rout aN aF -> Rfed aN aF -> forall q, pd aF x q = pd aN x q.
Proof.
  intros Hx HR HF q. assert (Ho : In x outs_) by (apply in_app_iff; right; exact Hx).
  destruct (wire_from_dec C1 c x q) as [Hno|[o Hk]]; [apply (ro_pend _ _ HR x Ho q Hno) | apply (HF o x q Ho Hk)].
Qed.

Lemma out_fold_pre rootsN rootsF : forall l aN aF,
  (forall x, In x l -> In x pre) -> (forall x, In x l -> memb x rootsN = memb x rootsF) ->
  Rout aN aF -> Rpre aN aF -> Rpt aN aF -> Rnc aN -> SUB (co_s aN) (co_s aF) ->
  let aN' := fold_left (step' devf (on_tick_level cfg devf (S f)) top C1 time rootsN []) (map (dk cfg) l) aN in
  let aF' := fold_left (step' devf (on_tick_level cfgF devf (S f)) top CF time rootsF []) (map (dk cfg) l) aF in
  Rout aN' aF' /\ Rpre aN' aF' /\ Rpt aN' aF' /\ Rnc aN' /\ frameN aN aN' /\ frameF aF aF' /\ SUB (co_s aN') (co_s aF').
Proof.
  induction l as [|x r IH]; intros aN aF Hl Hr HR HP HPt HNc HS; cbv zeta; cbn [map fold_left].
  - repeat (split; [assumption|]). split; [repeat split; reflexivity|]. split; [intros d _; reflexivity | exact HS].
  - assert (Hxo : In x outs_) by (apply in_app_iff; left; apply Hl; left; reflexivity).
    pose proof (full_pre aN aF x (Hl x (or_introl eq_refl)) HR HPt HNc) as Hfull.
    change (dk cfg x) with (x, kd_of cfg x). destruct (kd_of cfg x) as [|ly] eqn:Ek.
    + destruct (out_step (on_tick_level cfg devf (S f)) (on_tick_level cfgF devf (S f)) rootsN rootsF aN aF x Hxo (Hr x (or_introl eq_refl)) HR Hfull)
        as [HR1 [[K1 [K2 [K3 _]]] [F1 [F2 [F3 [F4 [F5 F6]]]]]]].
      destruct (IH _ _ (fun y Hy => Hl y (or_intror Hy)) (fun y Hy => Hr y (or_intror Hy)) HR1 (K1 HP) (K2 HPt) (K3 HNc) (F6 HS)) as [HR2 [HP2 [HPt2 [HN2 [G [G5 G6]]]]]].
      repeat (split; [assumption|]). split; [|split; [|exact G6]].
      * eapply frameN_trans; [|exact G]. unfold frameN, int_of. rewrite F1, F3, F4, F5. repeat split; reflexivity.
      * intros d Hd. rewrite (G5 d Hd). apply F2. exact Hd.
    + destruct (out_step_sys rootsN rootsF aN aF x ly Hxo Ek (Hr x (or_introl eq_refl)) HR HS Hfull)
        as [HR1 [[K1 [K2 [K3 _]]] [F1 [F2 F6]]]].
      destruct (IH _ _ (fun y Hy => Hl y (or_intror Hy)) (fun y Hy => Hr y (or_intror Hy)) HR1 (K1 HP) (K2 HPt) (K3 HNc) F6) as [HR2 [HP2 [HPt2 [HN2 [G [G5 G6]]]]]].
      repeat (split; [assumption|]). split; [|split; [|exact G6]].
      * eapply frameN_trans; eassumption.
      * intros d Hd. rewrite (G5 d Hd). apply F2. exact Hd.
Qed.

Lemma out_fold_post rootsN rootsF : forall l aN aF,
  (forall x, In x l -> In x post) -> (forall x, In x l -> memb x rootsN = memb x rootsF) ->
  Rout aN aF -> Rfed aN aF -> SUB (co_s aN) (co_s aF) ->
  let aN' := fold_left (step' devf (on_tick_level cfg devf (S f)) top C1 time rootsN []) (map (dk cfg) l) aN in
  let aF' := fold_left (step' devf (on_tick_level cfgF devf (S f)) top CF time rootsF []) (map (dk cfg) l) aF in
  Rout aN' aF' /\ frameN aN aN' /\ frameF aF aF' /\ SUB (co_s aN') (co_s aF').
Proof.
  induction l as [|x r IH]; intros aN aF Hl Hr HR HF HS; cbv zeta; cbn [map fold_left].
  - split; [exact HR|]. split; [repeat split; reflexivity|]. split; [intros d _; reflexivity | exact HS].
  - assert (Hxp : In x post) by (apply Hl; left; reflexivity).
    assert (Hxo : In x outs_) by (apply in_app_iff; right; exact Hxp).
    pose proof (full_post aN aF x Hxp HR HF) as Hfull.
    change (dk cfg x) with (x, kd_of cfg x). destruct (kd_of cfg x) as [|ly] eqn:Ek.
    + destruct (out_step (on_tick_level cfg devf (S f)) (on_tick_level cfgF devf (S f)) rootsN rootsF aN aF x Hxo (Hr x (or_introl eq_refl)) HR Hfull)
        as [HR1 [[_ [_ [_ K4]]] [F1 [F2 [F3 [F4 [F5 F6]]]]]]].
      destruct (IH _ _ (fun y Hy => Hl y (or_intror Hy)) (fun y Hy => Hr y (or_intror Hy)) HR1 (K4 Hxp HF) (F6 HS)) as [HR2 [G [G5 G6]]].
      split; [exact HR2|]. split; [|split; [|exact G6]].
      * eapply frameN_trans; [|exact G]. unfold frameN, int_of. rewrite F1, F3, F4, F5. repeat split; reflexivity.
      * intros d Hd. rewrite (G5 d Hd). apply F2. exact Hd.
    + destruct (out_step_sys rootsN rootsF aN aF x ly Hxo Ek (Hr x (or_introl eq_refl)) HR HS Hfull)
        as [HR1 [[_ [_ [_ K4]]] [F1 [F2 F6]]]].
      destruct (IH _ _ (fun y Hy => Hl y (or_intror Hy)) (fun y Hy => Hr y (or_intror Hy)) HR1 (K4 Hxp HF) F6) as [HR2 [G [G5 G6]]].
      split; [exact HR2|]. split; [|split; [|exact G6]].
      * eapply frameN_trans; eassumption.
      * intros d Hd. rewrite (G5 d Hd). apply F2. exact Hd.
Qed.

Lemma in_fold rootsC rootsF chg aNb : forall l aC aF,
  (forall d, In d l -> In d inn) -> (forall d, In d l -> memb d rootsC = memb d rootsF) -> R2 aNb aC aF -> SUB (co_s aC) (co_s aF) ->
  let aC' := fold_left (step' devf (on_tick_level cfg devf f) lvc Cc time rootsC chg) (map (dki cfg lvc) l) aC in
  let aF' := fold_left (step' devf (on_tick_level cfgF devf (S f)) top CF time rootsF []) (map (dki cfg lvc) l) aF in
  R2 aNb aC' aF' /\ keepC aC aC' /\ SUB (co_s aC') (co_s aF').
Proof.
  induction l as [|d r IH]; intros aC aF Hl Hr HR HS; cbv zeta; cbn [map fold_left].
  - split; [exact HR|]. split; [apply keepC_refl | exact HS].
  - change (dki cfg lvc d) with (d, kd_in cfg lvc d). destruct (kd_in cfg lvc d) as [|ly] eqn:Ek.
    + destruct (in_step (on_tick_level cfg devf f) (on_tick_level cfgF devf (S f)) rootsC rootsF chg aNb aC aF d (Hl d (or_introl eq_refl)) (Hr d (or_introl eq_refl)) HR) as [HR1 [K1 S1]].
      destruct (IH _ _ (fun y Hy => Hl y (or_intror Hy)) (fun y Hy => Hr y (or_intror Hy)) HR1 (S1 HS)) as [HR2 [K2 S2]].
      split; [exact HR2|]. split; [eapply keepC_trans; eassumption | exact S2].
    + destruct (in_step_sys rootsC rootsF chg aNb aC aF d ly (Hl d (or_introl eq_refl)) Ek (Hr d (or_introl eq_refl)) HR HS) as [HR1 [K1 S1]].
      destruct (IH _ _ (fun y Hy => Hl y (or_intror Hy)) (fun y Hy => Hr y (or_intror Hy)) HR1 S1) as [HR2 [K2 S2]].
      split; [exact HR2|]. split; [eapply keepC_trans; eassumption | exact S2].
Qed.

(* when the system is not ticked, the inlined components are not touched either *)
Lemma in_fold_idle innF rootsF : forall l aF,
  (forall d, In d l -> get_d d (co_in aF) = [] /\ memb d rootsF = false) ->
  fold_left (step' devf innF top CF time rootsF []) (map (dki cfg lvc) l) aF = aF.
Proof.
  induction l as [|d r IH]; intros aF H; [reflexivity|]. cbn [map fold_left].
  destruct (H d (or_introl eq_refl)) as [E1 E2].
  assert (E : step' devf innF top CF time rootsF [] aF (dki cfg lvc d) = aF).
  { unfold step', dki. cbn [fst snd]. rewrite E1, E2. reflexivity. }
  rewrite E. apply IH. intros y Hy. apply H. right. exact Hy.
Qed.

(* ---------- the system's own step *)
Definition due_of (s : sstate) : list comp := map fst (filter (fun e : comp * Z => Z.leb (snd e) time) (wake_of s lvc)).
Definition rootsC_of (s : sstate) : list comp :=
  int_of s lvc ++ due_of s ++ [ext_id] ++ (if negb (memb lvc (s_ticked s)) then inn ++ [exp_id] else []).
Definition notdue (e : comp * Z) : bool := negb (Z.leb (snd e) time).

(* ---------- what the system's own step and the inlined devices leave untouched *)
Definition frm (D : list comp) (Ls : list positive) (s s2 : sstate) : Prop :=
  (forall z, ~ In z D -> dcs s2 z = dcs s z /\ lookup z (s_n s2) = lookup z (s_n s)) /\
  (forall l, ~ In l Ls -> wake_of s2 l = wake_of s l /\ int_of s2 l = int_of s l /\ memb l (s_ticked s2) = memb l (s_ticked s)).

Lemma frm_refl D Ls s : frm D Ls s s.
Proof. split; intros; repeat split; reflexivity. Qed.

Lemma frm_trans D Ls s1 s2 s3 : frm D Ls s1 s2 -> frm D Ls s2 s3 -> frm D Ls s1 s3.
Proof.
  intros [A1 B1] [A2 B2]. split.
  - intros z Hz. destruct (A1 z Hz) as [X1 Y1]. destruct (A2 z Hz) as [X2 Y2]. split; congruence.
  - intros l Hl. destruct (B1 l Hl) as [X1 [Y1 Z1]]. destruct (B2 l Hl) as [X2 [Y2 Z2]]. repeat split; congruence.
Qed.

Lemma SR_frm D L s s' D1 L1 D2 L2 s2 s2' :
  SR D L s s' -> frm D1 L1 s s2 -> frm D2 L2 s' s2' ->
  (forall z, In z D -> ~ In z D1 /\ ~ In z D2) -> (forall l, In l L -> ~ In l L1 /\ ~ In l L2) -> SR D L s2 s2'.
Proof.
  intros [A B] [F1 G1] [F2 G2] HD HL. split.
  - intros z Hz. destruct (HD z Hz) as [N1 N2]. destruct (F1 z N1) as [X1 Y1]. destruct (F2 z N2) as [X2 Y2].
    specialize (A z Hz). unfold drel in *. rewrite X1, X2, Y1, Y2. exact A.
  - intros l Hl. destruct (HL l Hl) as [N1 N2]. destruct (G1 l N1) as [X1 [Y1 Z1]]. destruct (G2 l N2) as [X2 [Y2 Z2]].
    destruct (B l Hl) as [P [Q R]]. repeat split; congruence.
Qed.

Lemma set_wake_frm s lv w : frm [] [lv] s (set_wake s lv w).
Proof.
  split; [intros z _; split; reflexivity|]. intros l Hl. assert (Hne : l <> lv) by (intros E; apply Hl; left; symmetry; exact E).
  rewrite wake_of_set_wake_other by exact Hne. repeat split; reflexivity.
Qed.

Lemma map_fst_dki l : map fst (map (dki cfg lvc) l) = l.
Proof. unfold dki. rewrite map_map. cbn [fst]. apply map_id. Qed.

Lemma prologue_frm s w roots : frm [] [lvc] s (log_tick (mark_ticked (set_int (set_wake s lvc w) lvc []) lvc) lvc time roots).
Proof.
  split; [intros z _; split; reflexivity|]. intros l Hl. assert (Hne : l <> lvc) by (intros E; apply Hl; left; symmetry; exact E).
  split; [|split].
  - change (wake_of (log_tick (mark_ticked (set_int (set_wake s lvc w) lvc []) lvc) lvc time roots) l) with (wake_of (set_wake s lvc w) l).
    apply wake_of_set_wake_other. exact Hne.
  - unfold int_of, log_tick, mark_ticked, set_int, set_wake. cbn [s_int]. apply get_d_upd_other. exact Hne.
  - unfold log_tick, mark_ticked, set_int, set_wake. cbn [s_ticked].
    destruct (memb lvc (s_ticked s)); [reflexivity|]. cbn [memb existsb].
    destruct (Pos.eqb_spec l lvc); [contradiction | reflexivity].
Qed.

Lemma SR_frm_l D L s s' D1 L1 s2 :
  SR D L s s' -> frm D1 L1 s s2 -> (forall z, In z D -> ~ In z D1) -> (forall l, In l L -> ~ In l L1) -> SR D L s2 s'.
Proof.
  intros H F HD HL. apply (SR_frm D L s s' D1 L1 [] [] s2 s' H F (frm_refl _ _ _)).
  - intros z Hz. split; [apply HD; exact Hz | intros []].
  - intros l Hl. split; [apply HL; exact Hl | intros []].
Qed.

Lemma sys_step rootsN rootsF aNb aF :
  Rout aNb aF -> Rpre aNb aF -> Rpt aNb aF -> Rnc aNb -> SUB (co_s aNb) (co_s aF) ->
  let chg := get_d c (co_in aNb) in
  let ticked := nonempty chg || memb c rootsN in
  (ticked = true -> forall d, In d inn -> memb d (rootsC_of (co_s aNb)) = memb d rootsF) ->
  (ticked = false -> forall d, In d inn -> memb d rootsF = false) ->
  (forall d, In d inn ->
     lookup d (if ticked then filter notdue (wake_of (co_s aNb) lvc) else wake_of (co_s aNb) lvc) = lookup d (wake_of (co_s aF) top)) ->
  let aN' := step' devf (on_tick_level cfg devf (S f)) top C1 time rootsN [] aNb (c, KSys lvc) in
  let aF' := fold_left (step' devf (on_tick_level cfgF devf (S f)) top CF time rootsF []) (map (dki cfg lvc) inn) aF in
  Rout aN' aF' /\ Rfed aN' aF' /\ SUB (co_s aN') (co_s aF') /\
  (forall d, In d inn -> lookup d (wake_of (co_s aN') lvc) = lookup d (wake_of (co_s aF') top)) /\
  lookup c (wake_of (co_s aN') top) =
    (if ticked then match min_wake (wake_of (co_s aN') lvc) with Some w => Some w | None => lookup c (wake_of (co_s aNb) top) end
     else lookup c (wake_of (co_s aNb) top)) /\
  (ticked = true -> memb lvc (s_ticked (co_s aN')) = true) /\ (ticked = false -> co_s aN' = co_s aNb) /\
  int_of (co_s aN') lvc = (if ticked then [] else int_of (co_s aNb) lvc) /\
  (ticked = true -> forall k, lookup k (filter notdue (wake_of (co_s aNb) lvc)) <> None -> lookup k (wake_of (co_s aN') lvc) <> None).
Proof.
  intros HR HP HPt HNc HS chg ticked Hrt Hri Hwi. cbv zeta.
  destruct nd_facts with (1 := Hsh) as [Hc_all [He_all [Hx_all [Hce [Hcx Hnd]]]]].
  pose proof (sh_ss1 _ _ _ _ _ _ Hsh) as S1. fold C1 in S1.
  pose proof (sh_ssc _ _ _ _ _ _ Hsh) as Sc. fold Cc in Sc.
  assert (Hlv : top <> lvc) by (intros E; apply (sh_lv _ _ _ _ _ _ Hsh); symmetry; exact E).
  set (aFx := fold_left (step' devf (on_tick_level cfgF devf (S f)) top CF time rootsF []) (map (dki cfg lvc) inn) aF).
  unfold step'. cbn [fst snd]. fold chg. fold ticked. unfold aFx. clear aFx.
  destruct ticked eqn:Et.
  2: { (* not ticked *)
    rewrite in_fold_idle.
    - split; [exact HR|]. split; [|split; [exact HS|]; split; [exact Hwi|]; split; [reflexivity|]; split; [discriminate|]; split; [reflexivity|]; split; [reflexivity | discriminate]].
      (* nothing is pending on the system's inputs, so nothing has passed through it *)
      intros o y q Hy Hk. rewrite (HNc o y q Hk). destruct (pd aF y q) as [v|] eqn:E; [|reflexivity]. exfalso.
      apply (HPt o y q Hy Hk v) in E. destruct E as [q0 [_ E]]. rewrite pd_get_d in E. fold chg in E.
      unfold ticked in Et. apply orb_false_iff in Et. destruct Et as [Et _]. destruct chg; [discriminate | discriminate].
    - intros d Hd. split; [|apply (Hri eq_refl d Hd)].
      assert (Hnone : forall q', pd aF d q' = None).
      { intros q'. destruct (pd aF d q') as [v|] eqn:E; [|reflexivity]. exfalso.
        apply (HP d Hd q' v) in E. destruct E as [q [_ E]]. rewrite pd_get_d in E. fold chg in E.
        unfold ticked in Et. apply orb_false_iff in Et. destruct Et as [Et _]. destruct chg; [discriminate | discriminate]. }
      destruct (get_d d (co_in aF)) as [|[k v] r] eqn:Eg; [reflexivity|]. exfalso.
      specialize (Hnone k). rewrite pd_get_d, Eg in Hnone. cbn in Hnone. rewrite Pos.eqb_refl in Hnone. discriminate. }
  (* ticked *)
  destruct (Pos.eqb_spec c ext_id) as [E|_]; [contradiction|]. destruct (Pos.eqb_spec c exp_id) as [E|_]; [contradiction|].
  set (innF := on_tick_level cfgF devf (S f)).
  cbn [on_tick_level]. subst innF. rewrite (sh_in _ _ _ _ _ _ Hsh), map_fst_dki.
  fold (due_of (co_s aNb)). fold (rootsC_of (co_s aNb)).
  set (rootsC := rootsC_of (co_s aNb)).
  set (s0 := log_tick (mark_ticked (set_int (set_wake (co_s aNb) lvc (filter (fun e : comp * Z => negb (Z.leb (snd e) time)) (wake_of (co_s aNb) lvc))) lvc []) lvc) lvc time rootsC).
  rewrite tick_with_core. fold Cc. unfold all_of. rewrite (sh_in _ _ _ _ _ _ Hsh). cbn [fold_left]. rewrite fold_left_app. cbn [fold_left].
  set (innC := on_tick_level cfg devf f).
  set (aC0 := {| co_s := s0; co_in := []; co_out := []; co_obs := [] |}).
  (* the external pseudo component routes the system's inputs *)
  assert (Hext_root : memb ext_id rootsC = true).
  { unfold rootsC, rootsC_of. rewrite !memb_app. cbn [memb existsb]. rewrite Pos.eqb_refl. rewrite !orb_true_r. reflexivity. }
  assert (EC1 : step' devf innC lvc Cc time rootsC chg aC0 (ext_id, KDev) =
                {| co_s := s0; co_in := accumulate [] (route Cc ext_id chg); co_out := []; co_obs := [] |}).
  { unfold step'. cbn [fst snd aC0 co_in co_s co_out co_obs]. rewrite Hext_root, orb_true_r, Pos.eqb_refl. reflexivity. }
  rewrite EC1. set (aC1 := {| co_s := s0; co_in := accumulate [] (route Cc ext_id chg); co_out := []; co_obs := [] |}).
  assert (Hchg : NoDup (keys chg)) by (apply (ro_okN _ _ HR c)).
  assert (Hdcs0 : forall z, dcs s0 z = dcs (co_s aNb) z) by (intros z; reflexivity).
  assert (PC1 : forall y q, pd aC1 y q = lookup2r (route Cc ext_id chg) y q).
  { intros y q. unfold pd, aC1. cbn [co_in]. rewrite accumulate_lookup by apply route_WFd. destruct (lookup2r (route Cc ext_id chg) y q); reflexivity. }
  assert (HR2 : R2 aNb aC1 aF).
  { constructor.
    - intros z Hz. unfold drel. cbn [aC1 co_s]. rewrite Hdcs0. apply (ro_dev _ _ HR z Hz).
    - intros d Hd q'. rewrite PC1.
      destruct (pd aF d q') as [v|] eqn:E.
      + apply (HP d Hd q' v) in E. destruct E as [q [Hk E]]. symmetry. apply (route_exact Cc ext_id chg d q' v Sc Hchg).
        exists q. split; [rewrite pd_get_d in E; exact E | exact Hk].
      + destruct (lookup2r (route Cc ext_id chg) d q') as [v|] eqn:E2; [|reflexivity]. exfalso.
        apply (route_exact Cc ext_id chg d q' v Sc Hchg) in E2. destruct E2 as [q [Hl Hk]].
        assert (E3 : pd aF d q' = Some v) by (apply (HP d Hd q' v); exists q; split; [exact Hk | rewrite pd_get_d; exact Hl]). congruence.
    - intros y Hy q Hno. apply (ro_pend _ _ HR y Hy q Hno).
    - (* a port fed by the system: pending in F is what passes straight through the system *)
      intros y Hy q o Hk. rewrite PC1. apply option_ext. intros v. rewrite (HPt o y q Hy Hk v).
      rewrite (route_exact Cc ext_id chg exp_id o v Sc Hchg). split.
      + intros [q0 [Hq Hv]]. exists q0. split; [rewrite pd_get_d in Hv; exact Hv | exact Hq].
      + intros [q0 [Hl Hq]]. exists q0. split; [exact Hq | rewrite pd_get_d; exact Hl].
    - cbn [aC1 co_in]. apply in_ok_accumulate. intros z. cbn. constructor.
    - exact (ro_okF _ _ HR).
    - cbn [aC1 co_obs]. rewrite app_nil_r. exact (ro_obs _ _ HR).
    - intros d Hd. cbn [aC1 co_s]. unfold s0.
      change (wake_of (log_tick (mark_ticked (set_int (set_wake ?x lvc ?w) lvc []) lvc) lvc time rootsC) lvc) with (wake_of (set_wake x lvc w) lvc).
      rewrite wake_of_set_wake. apply (Hwi d Hd).
    - intros y Hy. cbn [aC1 co_s]. unfold s0.
      change (wake_of (log_tick (mark_ticked (set_int (set_wake ?x lvc ?w) lvc []) lvc) lvc time rootsC) top) with (wake_of (set_wake x lvc w) top).
      rewrite wake_of_set_wake_other by exact Hlv. apply (ro_wo _ _ HR y Hy). }
  assert (HS1 : SUB (co_s aC1) (co_s aF)).
  { intros y ly g Hy. destruct (Hsib y ly g Hy) as [_ [Hlvc _]]. cbn [aC1 co_s]. unfold s0.
    apply (SR_frm_l _ _ (co_s aNb) (co_s aF) [] [lvc] _ (HS y ly g Hy) (prologue_frm _ _ _)); [intros z _ [] | intros l Hl [E|[]]; subst l; contradiction]. }
  destruct (in_fold rootsC rootsF chg aNb inn aC1 aF (fun d H => H) (fun d Hd => Hrt eq_refl d Hd) HR2 HS1) as [HR3 [[Ft [Fi [Fk [Fkeys Fout]]]] HS3]].
  unfold innC in *. clear innC.
  set (aC2 := fold_left (step' devf (on_tick_level cfg devf f) lvc Cc time rootsC chg) (map (dki cfg lvc) inn) aC1) in *.
  set (aF' := fold_left (step' devf (on_tick_level cfgF devf (S f)) top CF time rootsF []) (map (dki cfg lvc) inn) aF) in *.
  (* the expose pseudo component *)
  assert (Hout : co_out aC2 = []) by (rewrite Fout; reflexivity).
  set (aC3 := step' devf (on_tick_level cfg devf f) lvc Cc time rootsC chg aC2 (exp_id, KDev)).
  assert (EC3 : co_s aC3 = co_s aC2 /\ co_obs aC3 = co_obs aC2 /\ co_out aC3 = get_d exp_id (co_in aC2)).
  { unfold aC3, step'. cbn [fst snd]. destruct (nonempty (get_d exp_id (co_in aC2)) || memb exp_id rootsC) eqn:En.
    - destruct (Pos.eqb_spec exp_id ext_id) as [E|_]; [discriminate|]. rewrite Pos.eqb_refl. repeat split; reflexivity.
    - repeat split; try reflexivity. rewrite Hout. apply orb_false_iff in En. destruct En as [En _].
      destruct (get_d exp_id (co_in aC2)); [reflexivity | discriminate]. }
  destruct EC3 as [E3s [E3o E3out]]. rewrite E3s, E3o, E3out.
  set (outc := get_d exp_id (co_in aC2)).
  assert (Houtc : NoDup (keys outc)) by (apply (r2_okC _ _ _ HR3 exp_id)).
  set (sfin := match min_wake (wake_of (co_s aC2) lvc) with
               | Some w => set_wake (co_s aC2) top (upd c w (wake_of (co_s aC2) top))
               | None => co_s aC2 end).
  assert (Hdcsfin : forall z, dcs sfin z = dcs (co_s aC2) z) by (intros z; unfold sfin; destruct (min_wake _); reflexivity).
  assert (Hcntfin : forall z, lookup z (s_n sfin) = lookup z (s_n (co_s aC2))) by (intros z; unfold sfin; destruct (min_wake _); reflexivity).
  assert (Hwfin_lvc : wake_of sfin lvc = wake_of (co_s aC2) lvc).
  { unfold sfin. destruct (min_wake _); [apply wake_of_set_wake_other; intros E; apply Hlv; symmetry; exact E | reflexivity]. }
  cbn [co_s co_in co_out co_obs]. fold sfin.
  assert (PN' : forall y q, lookup2r (accumulate (co_in aNb) (route C1 c outc)) y q =
                            match lookup2r (route C1 c outc) y q with Some v => Some v | None => pd aNb y q end).
  { intros y q. apply accumulate_lookup. apply route_WFd. }
  assert (Hall : forall y, In y outs_ -> forall q,
            pd aF' y q = lookup2r (accumulate (co_in aNb) (route C1 c outc)) y q).
  { intros y Hy q. rewrite PN'.
    destruct (lookup2r (route C1 c outc) y q) as [v|] eqn:Er.
    - apply (route_exact C1 c outc y q v S1 Houtc) in Er. destruct Er as [o [Hl Hk]].
      rewrite (r2_pb _ _ _ HR3 y Hy q o Hk), pd_get_d. exact Hl.
    - pose proof (wire_from_dec C1 c y q) as Hcase.
      destruct Hcase as [Hno|[o Hk]]; [apply (r2_pa _ _ _ HR3 y Hy q Hno)|].
      rewrite (r2_pb _ _ _ HR3 y Hy q o Hk), (HNc o y q Hk), pd_get_d. fold outc.
      destruct (lookup o outc) as [v|] eqn:El; [|reflexivity]. exfalso.
      assert (Er2 : lookup2r (route C1 c outc) y q = Some v) by (apply (route_exact C1 c outc y q v S1 Houtc); exists o; split; assumption). congruence. }
  split; [|split; [|split; [|split; [|split; [|split; [|split; [|split]]]]]]].
  - constructor; cbn [co_s co_in co_out co_obs].
    + intros z Hz. unfold drel. rewrite Hdcsfin, Hcntfin. apply (r2_dev _ _ _ HR3 z Hz).
    + intros y Hy q _. unfold pd at 2. cbn [co_in]. apply (Hall y Hy q).
    + apply in_ok_accumulate. exact (ro_okN _ _ HR).
    + exact (r2_okF _ _ _ HR3).
    + exact (r2_obs _ _ _ HR3).
    + intros y Hy. unfold sfin. destruct (min_wake (wake_of (co_s aC2) lvc)) as [w|].
      * rewrite wake_of_set_wake, lookup_upd_other; [apply (r2_wo _ _ _ HR3 y Hy)|].
        intros E. subst y. apply Hc_all. apply in_outs_all in Hy. exact Hy.
      * apply (r2_wo _ _ _ HR3 y Hy).
  - intros o y q Hy _. unfold pd at 2. cbn [co_in]. apply (Hall y Hy q).
  - intros y ly g Hy. destruct (Hsib y ly g Hy) as [Htop _].
    apply (SR_frm_l _ _ (co_s aC2) (co_s aF') [] [top] sfin (HS3 y ly g Hy)); [|intros z _ [] | intros l Hl [E|[]]; subst l; contradiction].
    unfold sfin. destruct (min_wake _); [apply set_wake_frm | apply frm_refl].
  - intros d Hd. rewrite Hwfin_lvc. apply (r2_wi _ _ _ HR3 d Hd).
  - rewrite Hwfin_lvc. unfold sfin. destruct (min_wake (wake_of (co_s aC2) lvc)) as [w|].
    + rewrite wake_of_set_wake. apply lookup_upd_same.
    + rewrite Ft. cbn [aC1 co_s]. unfold s0.
      change (wake_of (log_tick (mark_ticked (set_int (set_wake ?x lvc ?w) lvc []) lvc) lvc time rootsC) top) with (wake_of (set_wake x lvc w) top).
      rewrite wake_of_set_wake_other by exact Hlv. reflexivity.
  - intros _. assert (Hk2 : s_ticked sfin = s_ticked (co_s aC2)) by (unfold sfin; destruct (min_wake _); reflexivity).
    rewrite Hk2, Fk. cbn [aC1 co_s]. unfold s0, log_tick, mark_ticked. cbn [s_ticked].
    destruct (memb lvc (s_ticked (set_int (set_wake (co_s aNb) lvc _) lvc []))) eqn:Em; [exact Em|]. cbn [memb existsb]. rewrite Pos.eqb_refl. reflexivity.
  - discriminate.
  - assert (Hi2 : int_of sfin lvc = int_of (co_s aC2) lvc) by (unfold sfin; destruct (min_wake _); reflexivity).
    rewrite Hi2, Fi. cbn [aC1 co_s]. unfold int_of, s0, log_tick, mark_ticked, set_int. cbn [s_int]. apply get_d_upd_same.
  - intros _ k Hk. rewrite Hwfin_lvc. apply Fkeys. cbn [aC1 co_s]. unfold s0.
    change (wake_of (log_tick (mark_ticked (set_int (set_wake ?x lvc ?w) lvc []) lvc) lvc time rootsC) lvc) with (wake_of (set_wake x lvc w) lvc).
    rewrite wake_of_set_wake. exact Hk.
Qed.

(* ---------- the whole tick *)
Lemma core_eta a : {| co_s := co_s a; co_in := co_in a; co_out := co_out a; co_obs := co_obs a |} = a.
Proof. destruct a; reflexivity. Qed.

Lemma ext_step_id inner lv conns roots a : step' devf inner lv conns time roots [] a (ext_id, KDev) = a.
Proof.
  unfold step'. cbn [fst snd]. destruct (nonempty _ || _); [|reflexivity]. rewrite Pos.eqb_refl.
  unfold route. cbn [fold_left]. unfold accumulate. cbn [fold_left]. apply core_eta.
Qed.

Lemma exp_step_same inner lv conns roots ext a :
  co_s (step' devf inner lv conns time roots ext a (exp_id, KDev)) = co_s a /\
  co_obs (step' devf inner lv conns time roots ext a (exp_id, KDev)) = co_obs a.
Proof.
  unfold step'. cbn [fst snd]. destruct (nonempty _ || _); [|split; reflexivity].
  destruct (Pos.eqb_spec exp_id ext_id) as [E|_]; [discriminate|]. rewrite Pos.eqb_refl. split; reflexivity.
Qed.

Lemma inline_top_order : l_order (level_of (inline cfg c lvc) top) = map (dk cfg) pre ++ map (dki cfg lvc) inn ++ map (dk cfg) post.
Proof.
  unfold level_of, inline. rewrite lookup_upd_same. cbn [l_order]. unfold inline_order, top_level, in_level.
  rewrite (sh_top _ _ _ _ _ _ Hsh), (sh_in _ _ _ _ _ _ Hsh).
  destruct nd_facts with (1 := Hsh) as [Hc_all _].
  assert (Hdev : forall l, ~ In c l -> flat_map (fun ck : comp * ckind => if Pos.eqb (fst ck) c then map (dki cfg lvc) inn else [ck]) (map (dk cfg) l) = map (dk cfg) l).
  { induction l as [|x r IH]; intros Hn; [reflexivity|]. cbn [map flat_map]. unfold dk at 1. cbn [fst].
    destruct (Pos.eqb_spec x c) as [E|_]; [exfalso; apply Hn; left; exact E|]. cbn [app]. f_equal. apply IH. intros Hi. apply Hn. right. exact Hi. }
  rewrite flat_map_app. cbn [flat_map fst]. rewrite Pos.eqb_refl.
  rewrite !Hdev; [reflexivity | |]; intros Hi; apply Hc_all; apply in_app_iff; [right; apply in_app_iff; right; exact Hi | left; exact Hi].
Qed.

Lemma inline_top_conns : l_conns (level_of (inline cfg c lvc) top) = CF.
Proof. unfold level_of, inline. rewrite lookup_upd_same. reflexivity. Qed.

(* what relates the two simulations between ticks and what a tick needs to know about its roots *)
Theorem tick_inline rootsN rootsF sN sF :
  (forall z, In z allc -> drel sN sF z) ->
  (forall y, In y outs_ -> lookup y (wake_of sN top) = lookup y (wake_of sF top)) ->
  (forall y, In y outs_ -> memb y rootsN = memb y rootsF) ->
  (forall d, In d inn -> memb d (rootsC_of sN) = memb d rootsF) ->
  (memb c rootsN = false -> forall d, In d inn -> memb d rootsF = false) ->
  (forall d, In d inn -> lookup d (filter notdue (wake_of sN lvc)) = lookup d (wake_of sF top)) ->
  (memb c rootsN = false -> filter notdue (wake_of sN lvc) = wake_of sN lvc) ->
  SUB sN sF ->
  let '(sN', _, obN) := tick_with cfg devf (on_tick_level cfg devf (S f)) top time rootsN [] sN in
  let '(sF', _, obF) := tick_with (inline cfg c lvc) devf (on_tick_level (inline cfg c lvc) devf (S f)) top time rootsF [] sF in
  (forall z, In z allc -> drel sN' sF' z) /\ obs_rel obN obF /\
  (forall y, In y outs_ -> lookup y (wake_of sN' top) = lookup y (wake_of sF' top)) /\
  (forall d, In d inn -> lookup d (wake_of sN' lvc) = lookup d (wake_of sF' top)) /\
  SUB sN' sF' /\
  exists ticked : bool,
    lookup c (wake_of sN' top) =
      (if ticked then match min_wake (wake_of sN' lvc) with Some w => Some w | None => lookup c (wake_of sN top) end
       else lookup c (wake_of sN top)) /\
    (ticked = true -> memb lvc (s_ticked sN') = true) /\
    (ticked = false -> wake_of sN' lvc = wake_of sN lvc /\ memb lvc (s_ticked sN') = memb lvc (s_ticked sN) /\ int_of sN' lvc = int_of sN lvc) /\
    (memb c rootsN = true -> ticked = true) /\
    int_of sN' lvc = (if ticked then [] else int_of sN lvc) /\
    (ticked = true -> forall k, lookup k (filter notdue (wake_of sN lvc)) <> None -> lookup k (wake_of sN' lvc) <> None).
Proof.
  intros Hdr Hwo Hro Hri Hidle Hwi Hnodue HS0.
  rewrite !tick_with_core. unfold all_of. rewrite inline_top_order, inline_top_conns. fold C1.
  rewrite (sh_top _ _ _ _ _ _ Hsh). cbn [fold_left]. rewrite !ext_step_id.
  rewrite !fold_left_app. cbn [fold_left].
  fold cfgF.
  set (innN := on_tick_level cfg devf (S f)). set (innF := on_tick_level cfgF devf (S f)).
  set (a0N := {| co_s := sN; co_in := []; co_out := []; co_obs := [] |}).
  set (a0F := {| co_s := sF; co_in := []; co_out := []; co_obs := [] |}).
  assert (HR0 : Rout a0N a0F).
  { constructor; cbn [a0N a0F co_s co_in co_obs]; try assumption.
    - intros y _ q _. reflexivity.
    - intros z. cbn. constructor.
    - intros z. cbn. constructor.
    - constructor. }
  assert (HPt0 : Rpt a0N a0F).
  { intros o y q' _ _ v. unfold pd. cbn [a0N a0F co_in lookup2r lookup]. split; [discriminate | intros [q [_ H]]; discriminate]. }
  assert (HP0 : Rpre a0N a0F).
  { intros d _ q' v. unfold pd. cbn [a0N a0F co_in lookup2r lookup]. split; [discriminate | intros [q [_ H]]; discriminate]. }
  assert (HN0 : Rnc a0N) by (intros o y q _; reflexivity).
  assert (Hpre_in : forall x, In x pre -> In x outs_) by (intros x Hx; apply in_app_iff; left; exact Hx).
  assert (Hpost_in : forall x, In x post -> In x outs_) by (intros x Hx; apply in_app_iff; right; exact Hx).
  destruct (out_fold_pre rootsN rootsF pre a0N a0F (fun x H => H) (fun x Hx => Hro x (Hpre_in x Hx)) HR0 HP0 HPt0 HN0 HS0) as [HR1 [HP1 [HPt1 [HN1 [[G1 [G2 [G3 G4]]] [G5 HS1]]]]]].
  fold innN innF in HR1, HP1, HPt1, HN1, G1, G2, G3, G4, G5, HS1.
  set (a1N := fold_left (step' devf innN top C1 time rootsN []) (map (dk cfg) pre) a0N) in *.
  set (a1F := fold_left (step' devf innF top CF time rootsF []) (map (dk cfg) pre) a0F) in *.
  cbn [a0N co_s] in G1, G2, G3, G4. cbn [a0F co_s] in G5.
  assert (Erc : rootsC_of (co_s a1N) = rootsC_of sN) by (unfold rootsC_of, due_of; rewrite G1, G3, G4; reflexivity).
  set (tk := nonempty (get_d c (co_in a1N)) || memb c rootsN).
  destruct (sys_step rootsN rootsF a1N a1F HR1 HP1 HPt1 HN1 HS1) as [HR2 [HF2 [HS2 [HWI [HC [HT1 [HT0 [HI HKP]]]]]]]].
  - intros _ d Hd. rewrite Erc. apply (Hri d Hd).
  - fold tk. intros Et d Hd. apply orb_false_iff in Et. apply (Hidle (proj2 Et) d Hd).
  - fold tk. intros d Hd. rewrite G1, (G5 d Hd). destruct tk eqn:Et; [apply (Hwi d Hd)|].
    apply orb_false_iff in Et. rewrite <- (Hnodue (proj2 Et)). apply (Hwi d Hd).
  - fold tk in HC, HT1, HT0, HI, HKP. fold innN in HR2, HF2, HWI, HC, HT1, HT0, HI, HKP.
    set (a2N := step' devf innN top C1 time rootsN [] a1N (c, KSys lvc)) in *.
    set (a2F := fold_left (step' devf innF top CF time rootsF []) (map (dki cfg lvc) inn) a1F) in *.
    destruct (out_fold_post rootsN rootsF post a2N a2F (fun x H => H) (fun x Hx => Hro x (Hpost_in x Hx)) HR2 HF2 HS2) as [HR3 [[K1 [K2 [K3 K4]]] [K5 HS3]]].
    fold innN innF in HR3, K1, K2, K3, K4, K5, HS3.
    set (a3N := fold_left (step' devf innN top C1 time rootsN []) (map (dk cfg) post) a2N) in *.
    set (a3F := fold_left (step' devf innF top CF time rootsF []) (map (dk cfg) post) a2F) in *.
    destruct (exp_step_same innN top C1 rootsN [] a3N) as [EsN EoN]. destruct (exp_step_same innF top CF rootsF [] a3F) as [EsF EoF].
    rewrite EsN, EoN, EsF, EoF.
    split; [exact (ro_dev _ _ HR3)|]. split; [exact (ro_obs _ _ HR3)|]. split; [exact (ro_wo _ _ HR3)|].
    split; [intros d Hd; rewrite K1, (K5 d Hd); apply (HWI d Hd)|].
    split; [exact HS3|].
    exists tk. split; [|split; [|split; [|split; [|split]]]].
    + rewrite K2, HC, K1, G2. reflexivity.
    + intros Et. rewrite K4. apply HT1. exact Et.
    + intros Et. rewrite K1, K4, K3. rewrite (HT0 Et). split; [exact G1 | split; [exact G4 | exact G3]].
    + intros Hc. unfold tk. rewrite Hc. apply orb_true_r.
    + rewrite K3. rewrite HI. destruct tk; [reflexivity | exact G3].
    + intros Et k Hk. rewrite K1. apply (HKP Et). rewrite G1. exact Hk.
Qed.
End Tick.
