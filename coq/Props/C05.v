(* C05 -- the initial tick updates every device at every depth exactly once.
   Whole-simulation model (Model/Sim.v).  [devices_below] lists the devices of the subtree of a
   level in configuration (dependency) order; [levels_below] the nested scheduler levels.
   Premises = well-formed configuration: the nesting is a tree (every level is the inside of
   one system component: NoDup of the level list), real components do not use the reserved
   pseudo-component ids, and the evaluation fuel exceeds the nesting depth.  That the initial
   OUTPUTS reach everything wired to them within the same tick (also across exposed ports) is the
   "latest value" statement of C03, checked by its oracle on every initial tick.
   Property theorems only. *)
From TV Require Import Base Model.Wiring Model.Ticker Model.Component Model.Sim Proofs.SimP Model.PyLib Gen.SourceFuns Proofs.GenNestedPrologueP.
Open Scope Z_scope.

(* for any device behaviour, any depth: the observations of the master's initial tick are exactly
   the devices of the whole tree, each once, in configuration order, all at the initial time *)
Theorem C05_initial : forall cfg devf fuel initial s0,
  (forall c lv', In (c, KSys lv') (l_order (level_of cfg top)) -> deep_enough cfg fuel lv') ->
  NoDup (flat_map (sub_levels cfg fuel) (l_order (level_of cfg top))) ->
  (forall x, In x (flat_map (sub_levels cfg fuel) (l_order (level_of cfg top))) -> ~ In x (s_ticked s0)) ->
  real_ids cfg top ->
  (forall x, In x (flat_map (sub_levels cfg fuel) (l_order (level_of cfg top))) -> real_ids cfg x) ->
  let roots := map fst (l_order (level_of cfg top)) in
  let '(s1, _, ob) := tick_level cfg devf fuel top initial roots [] s0 in
  map obs_comp ob = flat_map (sub_devices cfg fuel) (l_order (level_of cfg top)) /\
  (forall o, In o ob -> obs_time o = initial).
Proof. exact initial_tick_obs. Qed.

(* the same for the first tick of any nested scheduler, whatever its external inputs -- in
   particular also for inner devices that are not fed from outside their system *)
Theorem C05_first_nested_tick : forall cfg devf f lv time chg s,
  deep_enough cfg f lv -> NoDup (levels_below cfg f lv) ->
  (forall x, In x (levels_below cfg f lv) -> ~ In x (s_ticked s)) ->
  (forall x, In x (levels_below cfg f lv) -> real_ids cfg x) ->
  let '(s', _, _, ob) := on_tick_level cfg devf f lv time chg s in
  map obs_comp ob = devices_below cfg f lv /\
  (forall o, In o ob -> obs_time o = time) /\
  (forall x, In x (s_ticked s') <-> In x (levels_below cfg f lv) \/ In x (s_ticked s)).
Proof. intros cfg devf f. apply (first_tick_all cfg devf f). Qed.

(* "exactly once": with unique component names the list of observed devices has no duplicates *)
Theorem C05_exactly_once : forall cfg fuel (ob : list obs),
  NoDup (flat_map (sub_devices cfg fuel) (l_order (level_of cfg top))) ->
  map obs_comp ob = flat_map (sub_devices cfg fuel) (l_order (level_of cfg top)) ->
  NoDup (map obs_comp ob).
Proof. intros cfg fuel ob Hnd ->. exact Hnd. Qed.

(* non-vacuity: a system in a system, the innermost device not fed from outside *)
Example C05_example :
  let cfg := [(1%positive, {| l_order := [(3%positive, KDev); (4%positive, KSys 2%positive)]; l_conns := [(3, 1, 4, 1)%positive] |});
              (2%positive, {| l_order := [(5%positive, KDev); (6%positive, KSys 3%positive)]; l_conns := [(1, 1, 5, 1)%positive] |});
              (3%positive, {| l_order := [(7%positive, KDev)]; l_conns := [] |})] in
  map (fun o : obs => (fst (fst o), snd (fst o))) (simulate cfg (fun _ _ _ _ => ([], None)) 1 1 5 10 7 [] 100)
  = [(3%positive, 7); (5%positive, 7); (7%positive, 7)].
Proof. vm_compute. reflexivity. Qed.

(* the tie to the source: what [on_tick_level] does before the tick of its level IS what NestedScheduler.on_tick does before
   `await self.ticker(...)` -- the roots are the pending interrupts, the due wakeups, "external" and, the first time only,
   every component of the nested wiring; due wakeups and interrupts are taken off the books, the input changes are stored
   for "external", the output changes start empty.  The left-hand side is regenerated from /repo by the function
   translator (harness/gen_funs.py) on every run; [comps] is `self.ticker.components`. *)
Theorem C05_nested_roots_are_source : forall (wk : list (comp * Z)) (ints : list comp) (done : bool) (comps : list comp)
        (inch outch : values) (time : Z) (chg : values), NoDup (keys wk) ->
  gen_nested_prologue wk ints done comps inch outch time chg =
  (true,
   filter (fun e : comp * Z => negb (Z.leb (snd e) time)) wk,
   [], chg, [],
   ints ++ map fst (filter (fun e : comp * Z => Z.leb (snd e) time) wk) ++ [ext_id] ++ (if negb done then comps else [])).
Proof. exact nested_prologue_is_source. Qed.
