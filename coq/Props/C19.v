(* C19 -- the ZeroMQ push stream preserves order and creates one socket.
   Interleaving semantics: [replay z_init l = Some z] says the action list l (thread steps taken
   in any order -- every suspension point, incl. socket-creation and drain latency, is a separate
   step that may be taken arbitrarily later --, messages queued on the adapter, direct send
   sequences started, setup()'s own _ensure_socket) is a possible execution ending in z.
   asyncio.Lock / asyncio.Queue FIFO behaviour is the modelled contract; the correspondence run
   replays every atomic step of the real ZeroMqPushIo as such an execution.
   Property theorems only. *)
From TV Require Import Base Model.Zmq Proofs.ZmqP.

(* however many sends race (at start-up or later), at most one socket is ever created *)
Theorem C19_one_socket : forall l z, replay z_init l = Some z -> (z_created z <= 1)%nat.
Proof. exact one_socket. Qed.

(* ... and it exists exactly when some thread has been through _ensure_socket *)
Theorem C19_socket_iff_created : forall l z,
  replay z_init l = Some z -> z_created z = if z_socket z then 1%nat else 0%nat.
Proof.
  intros l z H. destruct (replay_inv1 l z_init z Inv1_init H) as [_ _ _ H4]. exact H4.
Qed.

(* for every interleaving: the queued messages that have been written so far are a prefix of
   the queue order -- each written once, none skipped, none reordered.  [isq] tells queued
   message identities from directly sent ones. *)
Theorem C19_fifo_once : forall (isq : msgid -> bool) l z,
  forallb (valid_action isq) l = true -> replay z_init l = Some z ->
  exists rest, filter isq (z_writes z) ++ rest = queued_of l.
Proof. exact fifo_once. Qed.

(* the fixed serialisation rule: bytes unchanged; strings, mappings and models as JSON (a model
   through its dict); anything else is rejected *)
Theorem C19_serialise : forall p,
  serialize_part p =
  match p with
  | PBytes b => Some (WBytes b) | PStr s => Some (WJsonStr s)
  | PMap d => Some (WJsonMap d) | PModel d => Some (WJsonMap d) | POther => None
  end.
Proof. intros []; reflexivity. Qed.

(* non-vacuity: setup and a direct sender race for the socket, then a queued message follows *)
Example C19_example :
  match replay z_init [ASetup; AStep 1; AStep 1; ASpawn [7%Z]; AStep 2; AStep 1; AStep 1; AStep 2; AStep 2; AStep 2;
                       AQueue 1%Z; AStep 0; AStep 0; AStep 0; AStep 0; AStep 2; AStep 0] with
  | Some z => z_created z = 1%nat /\ z_writes z = [7%Z; 1%Z]
  | None => False
  end.
Proof. vm_compute. split; reflexivity. Qed.
