From TV Require Import Base.
Example C03_placeholder : True. Proof. exact I. Qed.
