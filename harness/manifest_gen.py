"""Writes /verif/MANIFEST.json from the table below (kept in one place so it stays valid)."""
import json

CLAIMED = {
    "C20": dict(
        text="Coq theorems over the IoBox model for all histories (invisible writes, last-write-wins in the order inputs-then-pending, failing read of never-written addresses, echo replay along any history); model tied to the real IoBoxDevice by an exhaustive small-scope plus random correspondence evaluated by vm_compute on every run.",
        note="Trusted: Coq kernel + vm_compute, the harness that drives IoBoxDevice and renders cases, Python dict semantics (modelled as insertion-ordered association lists). Values are integers in the correspondence (the device is polymorphic).",
        technique="Coq proof (induction over operation histories) + model/implementation correspondence",
        ref="5/C20"),
}
CLAIMED["C16"] = dict(
    text="Coq theorems over the model of event_router.py for all wirings: both conversions preserve the connection set (from_inverse unconditionally; from_wiring for single-source input ports), both round trips, component-set preservation, route() delivers exactly along the wires, dependants = reflexive-transitive closure (cycles included). The model is tied to Wiring/InverseWiring/EventRouter by exhaustive small-scope and random correspondence on every run.",
    note="Trusted: Coq kernel + vm_compute, harness. Python dict/set semantics modelled as insertion-ordered association lists / duplicate-free lists compared as sets. The fuel bound of the model's breadth-first crawl (2+|connections|) is validated by the correspondence, the theorem is conditional on the crawl answering.",
    technique="Coq proof (fold invariants, induction on reachability) + model/implementation correspondence",
    ref="5/C16")
CLAIMED["C15"] = dict(
    text="Coq theorem over the model of the in-memory bus: for every handler behaviour publishing only to strictly higher topics and every history of subscribe/produce operations (each consumer subscribing to a topic at most once), after every operation each subscribed consumer has received exactly the topic's log in order and unsubscribed consumers nothing; produce appends exactly once; topic-name injectivity/disjointness proved over the prefix/suffix constants re-extracted from the source on every run. Model tied to InternalStateServer by exhaustive small-scope + random correspondence and a Coq oracle evaluated on the observed histories.",
    note="Trusted: Coq kernel + vm_compute, harness, constants translator. Handlers publishing to the topic being delivered (or cyclically) are outside the property and the theorem. Subscriber iteration order of CPython sets is pinned by giving consumers small integer hashes and verified on every case.",
    technique="Coq proof (invariant by induction on fuel/history with framing) + model/implementation correspondence",
    ref="5/C15")
NOT_YET = {}
ALL = [f"C{n:02d}" for n in range(1, 21)]


def main():
    checks = []
    for pid in ALL:
        if pid not in CLAIMED:
            continue
        c = CLAIMED[pid]
        checks.append(dict(
            property_id=pid,
            quick_cmd=f"bin/check {pid} --tier quick",
            thorough_cmd=f"bin/check {pid} --tier thorough",
            evidence_file=f"evidence/{pid}.json",
            replay_cmd_template="bin/replay {path}",
            engine="coq-proof+correspondence",
            level_claimed=dict(category="proof", text=c["text"], design_ref=c["ref"]),
            level_note=c["note"],
            technique=c["technique"],
        ))
    na = [dict(property_id=p, reason=NOT_YET.get(p, "check not built yet in this round; the design (DESIGN.md section 5) applies the same technique to it"))
          for p in ALL if p not in CLAIMED]
    m = dict(
        version=1,
        setup_cmd="bin/setup",
        hooks=dict(guard="TICKIT_VERIF", enable="no source hooks are used: the harness injects probe devices, state-interface classes and the clock through public constructor parameters and module attributes",
                   baseline_off_cmd="cd /repo && /venv/bin/python -m pytest -ra -q -p no:cacheprovider --timeout=900 --continue-on-collection-errors",
                   source_commits=[], add_only=True),
        engines=[dict(name="coq-proof+correspondence", path="coq/ harness/", serves_properties=sorted(CLAIMED),
                      kind_free_text="Coq 8.16 theorems over hand-written executable Gallina models; generated case files evaluated with vm_compute compare model and oracle with what the real tickit classes did")],
        checks=checks,
        notes="Known findings / repaired defects: known_findings.txt. Design: DESIGN.md.",
        not_applicable=na,
    )
    json.dump(m, open("/verif/MANIFEST.json", "w"), indent=1)


if __name__ == "__main__":
    main()
