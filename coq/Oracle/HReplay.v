(* A run of the real schedulers and components on the delaying bus, replayed message by message in the interleaving
   model of Model/HSim.v.  The harness records every delivery of the bus in the order it happened: an Input handed to a
   component, an Output / Skip handed to the scheduler of its level -- at any depth, the deliveries of all the schedulers
   of the nesting interleaved as the bus chose.  [htick_replay] makes the corresponding move of the model for each
   ([MIn] / [MOut], wrapped in the path of system simulations), after checking that the model has that very message
   in flight: the same time, the same changes, the same callback.  What never travels on the bus is done as soon as
   it can be ([hs_auto]: the pseudo components "external" / "expose", which the nested scheduler answers itself, and
   [MDone], a system simulation whose tick has ended producing its Output).
   Codes: 26 a delivery of the real run is not a possible move of the model; 27 the message delivered differs from
   the model's (time, changes or callback); 28 the real tick ended (the next one began) although the model's tick is not
   complete; 29 the real master ticked at another time, more often or less often than the model; 51/52 the device
   observations of the replay differ from those recorded.
   Every state change goes through [hs_apply], so a tick that replays is a run of the step relation of
   Proofs/MsgTreeP.v ([htick_replay_sound], Proofs/HSimP.v): the theorem "every such run ends like Model/Sim.v" is then
   about that very execution of the real code. *)
From TV Require Import Base Model.Wiring Model.Ticker Model.Component Model.Sim Model.SimTime Model.NSim Model.Interrupts Model.NNSim Model.HSim
  Oracle.SimCheck.
Open Scope Z_scope.

Inductive rmsg :=
| RIn (path : list comp) (c : comp) (t : Z) (chg : values)
| ROut (path : list comp) (c : comp) (t : Z) (chg : changes) (ca : option Z)
| RSkip (path : list comp) (c : comp) (t : Z).

Fixpoint wrap (path : list comp) (m : hmove) : hmove :=
  match path with [] => m | x :: r => MKid x (wrap r m) end.

Fixpoint sub_at (path : list comp) (k : hcfg) : option hcfg :=
  match path with
  | [] => Some k
  | x :: r => match k with HC _ _ _ kids => match lookup x kids with Some (_, kx) => sub_at r kx | None => None end end
  end.

Fixpoint is_auto (m : hmove) : bool :=
  match m with
  | MKid _ m' => is_auto m'
  | MDone _ => true
  | MIn c | MOut c => Pos.eqb c ext_id || Pos.eqb c exp_id
  end.

Inductive rres := RR_ok (k : hcfg) (s : sstate) (ob : list obs) | RR_bad (code : Z).

Section HR.
Variable cfg : config.
Variable devf : devfun.
Variable f : nat.
Variable time : Z.

Definition hs_do (m : hmove) (k : hcfg) (s : sstate) (ob : list obs) : option (hcfg * sstate * list obs) :=
  match hs_apply cfg devf (S f) top time [] m k s with
  | Some (k', s', o) => Some (k', s', ob ++ o)
  | None => None
  end.

(* what never travels on the bus, done as soon as it can be *)
Fixpoint hs_auto (n : nat) (k : hcfg) (s : sstate) (ob : list obs) : hcfg * sstate * list obs :=
  match n with
  | O => (k, s, ob)
  | S n' =>
      match filter is_auto (hs_enabled cfg (S f) top k) with
      | [] => (k, s, ob)
      | m :: _ => match hs_do m k s ob with Some (k', s', ob') => hs_auto n' k' s' ob' | None => (k, s, ob) end
      end
  end.

Definition opt_z_eqb (a b : option Z) : bool :=
  match a, b with Some x, Some y => Z.eqb x y | None, None => true | _, _ => false end.

(* the model has this very message in flight *)
Definition rmsg_matches (r : rmsg) (k : hcfg) : bool :=
  match r with
  | RIn path c t chg =>
      match sub_at path k with
      | Some (HC _ tr _ _) =>
          match find_dispatch tr c with
          | Some (Upd _ t' chg') => Z.eqb t t' && values_eqb chg chg'
          | _ => false
          end
      | None => false
      end
  | ROut path c t chg ca =>
      match sub_at path k with
      | Some (HC _ _ pd _) =>
          match lookup c pd with
          | Some (ans, ca') => Z.eqb t time && changes_eqb chg ans && opt_z_eqb ca ca'
          | None => false
          end
      | None => false
      end
  | RSkip path c t =>
      match sub_at path k with
      | Some (HC _ tr _ _) => match find_dispatch tr c with Some (Skp _ t') => Z.eqb t t' | _ => false end
      | None => false
      end
  end.

Definition rmsg_moves (r : rmsg) : list hmove :=
  match r with
  | RIn path c _ _ => [wrap path (MIn c)]
  | ROut path c _ _ _ => [wrap path (MOut c)]
  | RSkip path c _ => [wrap path (MIn c); wrap path (MOut c)]
  end.

Fixpoint hs_moves (ms : list hmove) (k : hcfg) (s : sstate) (ob : list obs) : option (hcfg * sstate * list obs) :=
  match ms with
  | [] => Some (k, s, ob)
  | m :: r => match hs_do m k s ob with Some (k', s', ob') => hs_moves r k' s' ob' | None => None end
  end.

Fixpoint hs_replay (n : nat) (msgs : list rmsg) (k : hcfg) (s : sstate) (ob : list obs) : rres :=
  match msgs with
  | [] => RR_ok k s ob
  | r :: rest =>
      if rmsg_matches r k then
        match hs_moves (rmsg_moves r) k s ob with
        | Some (k1, s1, ob1) => let '(k2, s2, ob2) := hs_auto n k1 s1 ob1 in hs_replay n rest k2 s2 ob2
        | None => RR_bad 26
        end
      else match hs_moves (rmsg_moves r) k s ob with Some _ => RR_bad 27 | None => RR_bad 26 end
  end.

Definition htick_replay (n : nat) (s : sstate) (roots : list comp) (msgs : list rmsg) : rres :=
  let l := level_of cfg top in
  match start_tick (l_conns l) time roots with
  | None => RR_bad 26
  | Some st0 =>
      match schedule (l_conns l) (lcomps l) st0 with
      | None => RR_bad 26
      | Some (st1, acts) =>
          let '(k1, s1, ob1) := hs_auto n (HC st1 (map EDispatch acts) [] []) (log_tick s top time roots) [] in
          match hs_replay n msgs k1 s1 ob1 with
          | RR_ok (HC st tr [] []) s' ob => match todo st with [] => RR_ok (HC st tr [] []) s' ob | _ => RR_bad 28 end
          | RR_ok _ _ _ => RR_bad 28
          | RR_bad code => RR_bad code
          end
      end
  end.
End HR.

(* the master: the timing rule of Model/NNSim.v [xnsim_timed]; every tick consumes the recorded deliveries of one real master tick *)
Fixpoint hreplay_timed (cfg : config) (devf : devfun) (steps f n : nat) (stims : list xstimulus) (horizon now : Z)
                       (ticks : list (Z * list rmsg)) (s : sstate) (ob : list obs) : list Z + (list obs) :=
  match n with
  | O => inr ob
  | S k =>
      let next := first_wakeups (wake_of s top) in
      let finish := match ticks with [] => inr ob | _ => inl [29] end in
      let tick_now :=
        match next with
        | Some (when, roots) =>
            if Z.leb when horizon then
              match ticks with
              | [] => inl [29]
              | (t, msgs) :: trest =>
                  if Z.eqb t when then
                    match htick_replay cfg devf f when steps (set_wake s top (filter (fun e : comp * Z => negb (memb (fst e) roots)) (wake_of s top))) roots msgs with
                    | RR_ok _ s2 o => hreplay_timed cfg devf steps f k stims horizon (Z.max when now) trest s2 (ob ++ o)
                    | RR_bad code => inl [code]
                    end
                  else inl [29]
              end
            else finish
        | None => finish
        end in
      match stims with
      | (r, c, lvc, path) :: rest =>
          if match next with Some (when, _) => Z.ltb r when || Z.leb r now | None => true end then
            if Z.leb r horizon then hreplay_timed cfg devf steps f k rest horizon (Z.max r now) ticks (stim_at s c lvc path r) ob else tick_now
          else tick_now
      | [] => tick_now
      end
  end.

Definition replay_case := (sim_case * list (Z * list rmsg))%type.

Definition check_hreplay (g : replay_case) : list Z :=
  let '(c, ticks) := g in
  match ticks with
  | [] => [29]
  | (t0, msgs0) :: trest =>
      if Z.eqb t0 (sc_initial c) then
        match htick_replay (sc_cfg c) (table_dev (sc_devs c)) 8 (sc_initial c) 400 (set_wake s_init top [])
                           (map fst (l_order (level_of (sc_cfg c) top))) msgs0 with
        | RR_bad code => [code]
        | RR_ok _ s1 o1 =>
            match hreplay_timed (sc_cfg c) (table_dev (sc_devs c)) 400 8 4000
                    (map (fun st : stimulus => let '(r, d, lvc, path) := st in (r + sc_initial c, d, lvc, path)) (sc_stim c))
                    (sc_initial c + sc_end c) (sc_initial c) trest s1 o1 with
            | inl codes => codes
            | inr ob =>
                (if forallb (fun dl : comp * list (Z * values) => seq_eqb (obs_of (fst dl) ob) (snd dl)) (sc_observed c) then [] else [51]) ++
                (if forallb (fun o : obs => memb (fst (fst o)) (keys (sc_observed c))) ob then [] else [52])
            end
        end
      else [29]
  end.

(* how many deliveries were replayed, and how many of them inside system simulations *)
Definition replay_size (g : replay_case) : nat * nat :=
  let all := flat_map snd (snd g) in
  (length all, length (filter (fun r : rmsg => match r with RIn (_ :: _) _ _ _ | ROut (_ :: _) _ _ _ _ | RSkip (_ :: _) _ _ => true | _ => false end) all)).
