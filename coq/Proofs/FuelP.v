(* The fuel of the nested-tick function is only a bound on the nesting depth: once it exceeds the
   depth of the subtree ([deep_enough]) more fuel changes nothing. *)
From TV Require Import Base Model.Wiring Model.Ticker Model.Component Model.Sim
  Proofs.WiringP Proofs.SimP Proofs.NonInterfP Proofs.FrameP Proofs.AgreeP.
Open Scope Z_scope.

Lemma fold_left_ext_in {A B} (f g : A -> B -> A) : forall (l : list B) (a : A),
  (forall a b, In b l -> f a b = g a b) -> fold_left f l a = fold_left g l a.
Proof.
  induction l as [|b r IH]; intros a H; [reflexivity|]. cbn [fold_left].
  rewrite (H a b (or_introl eq_refl)). apply IH. intros a' b' Hb. apply H. right. exact Hb.
Qed.

Section Fuel.
Variable cfg : config.
Variable devf : devfun.

(* a tick of a level uses the inner function only for the system simulations of that level *)
Lemma tick_with_ext_inner inner inner' lv time roots ext s :
  (forall c lv', In (c, KSys lv') (l_order (level_of cfg lv)) -> forall t chg s0, inner lv' t chg s0 = inner' lv' t chg s0) ->
  tick_with cfg devf inner lv time roots ext s = tick_with cfg devf inner' lv time roots ext s.
Proof.
  intros H. unfold tick_with.
  rewrite (fold_left_ext_in (tick_step devf inner lv (l_conns (level_of cfg lv)) time roots ext)
                            (tick_step devf inner' lv (l_conns (level_of cfg lv)) time roots ext)); [reflexivity|].
  intros a [c k] Hi. unfold tick_step. cbn [fst snd]. destruct k as [|lv']; [reflexivity|].
  assert (Hin : In (c, KSys lv') (l_order (level_of cfg lv))).
  { unfold all_of in Hi. destruct Hi as [E|Hi]; [discriminate|]. apply in_app_iff in Hi. destruct Hi as [Hi|[E|[]]]; [exact Hi | discriminate]. }
  rewrite (H c lv' Hin). reflexivity.
Qed.

Theorem on_tick_level_fuel : forall f lv, deep_enough cfg f lv ->
  forall time chg s, on_tick_level cfg devf (S f) lv time chg s = on_tick_level cfg devf f lv time chg s.
Proof.
  induction f as [|f IH]; intros lv Hd time chg s; [destruct Hd|].
  cbn [deep_enough] in Hd.
  change (on_tick_level cfg devf (S (S f)) lv time chg s) with
    (let l := level_of cfg lv in
     let wk := wake_of s lv in
     let due := map fst (filter (fun e : comp * Z => Z.leb (snd e) time) wk) in
     let first := negb (memb lv (s_ticked s)) in
     let roots := int_of s lv ++ due ++ [ext_id] ++ (if first then map fst (l_order l) ++ [exp_id] else []) in
     let s1 := mark_ticked (set_int (set_wake s lv (filter (fun e : comp * Z => negb (Z.leb (snd e) time)) wk)) lv []) lv in
     let '(s2, out, ob) := tick_with cfg devf (on_tick_level cfg devf (S f)) lv time roots chg (log_tick s1 lv time roots) in
     (s2, out, min_wake (wake_of s2 lv), ob)).
  change (on_tick_level cfg devf (S f) lv time chg s) with
    (let l := level_of cfg lv in
     let wk := wake_of s lv in
     let due := map fst (filter (fun e : comp * Z => Z.leb (snd e) time) wk) in
     let first := negb (memb lv (s_ticked s)) in
     let roots := int_of s lv ++ due ++ [ext_id] ++ (if first then map fst (l_order l) ++ [exp_id] else []) in
     let s1 := mark_ticked (set_int (set_wake s lv (filter (fun e : comp * Z => negb (Z.leb (snd e) time)) wk)) lv []) lv in
     let '(s2, out, ob) := tick_with cfg devf (on_tick_level cfg devf f) lv time roots chg (log_tick s1 lv time roots) in
     (s2, out, min_wake (wake_of s2 lv), ob)).
  cbv zeta.
  rewrite (tick_with_ext_inner (on_tick_level cfg devf (S f)) (on_tick_level cfg devf f)); [reflexivity|].
  intros c lv' Hi t chg0 s0. apply IH. apply (Hd c lv' Hi).
Qed.

(* ... and the footprint of the subtree does not grow either *)
Lemma below_fuel : forall f lv, deep_enough cfg f lv ->
  levels_below cfg (S f) lv = levels_below cfg f lv /\ devices_below cfg (S f) lv = devices_below cfg f lv.
Proof.
  induction f as [|f IH]; intros lv Hd; [destruct Hd|]. cbn [deep_enough] in Hd.
  change (levels_below cfg (S (S f)) lv) with
    (lv :: flat_map (fun ck : comp * ckind => match snd ck with KDev => [] | KSys lv' => levels_below cfg (S f) lv' end) (l_order (level_of cfg lv))).
  change (levels_below cfg (S f) lv) with
    (lv :: flat_map (fun ck : comp * ckind => match snd ck with KDev => [] | KSys lv' => levels_below cfg f lv' end) (l_order (level_of cfg lv))).
  change (devices_below cfg (S (S f)) lv) with
    (flat_map (fun ck : comp * ckind => match snd ck with KDev => [fst ck] | KSys lv' => devices_below cfg (S f) lv' end) (l_order (level_of cfg lv))).
  change (devices_below cfg (S f) lv) with
    (flat_map (fun ck : comp * ckind => match snd ck with KDev => [fst ck] | KSys lv' => devices_below cfg f lv' end) (l_order (level_of cfg lv))).
  split; [f_equal|]; apply flat_map_ext_in'; intros [c k] Hi; cbn [snd fst]; destruct k as [|lv']; try reflexivity;
    apply (IH lv' (Hd c lv' Hi)).
Qed.
End Fuel.

(* the depth bound carries over to a configuration that coincides on the subtree *)
Lemma deep_enough_same cfg cfg' : forall f lv, same_below cfg cfg' f lv -> deep_enough cfg f lv -> deep_enough cfg' f lv.
Proof.
  induction f as [|f IH]; intros lv Hs Hd; [exact Hd|]. destruct Hs as [E Hs]. cbn [deep_enough] in *.
  intros c lv' Hi. rewrite E in Hi. apply IH; [apply (Hs c lv' Hi) | apply (Hd c lv' Hi)].
Qed.
