(* Whole flat simulations under EVERY schedule.  The model: the master picks the earliest pending
   wakeups; the tick is ANY complete run of the ticker (Proofs/TickerP.v [Run]: components answer
   in any order the gate allows), each component answering what its DeviceComponent computes from
   its state before the tick; interrupts are applied between ticks.  Theorem: two such runs of the
   same script give every device the same sequence of (time, inputs) and leave equivalent states. *)
From TV Require Import Base Model.Wiring Model.Ticker Model.Component Model.Sim Model.NSim
  Proofs.WiringP Proofs.TickerP Proofs.SimP Proofs.NonInterfP Proofs.LatestP Proofs.EqvP Proofs.NonInterfLoopP
  Proofs.ParDevP Proofs.InlineP Proofs.InlineLoopP Proofs.Confluence2P.
Open Scope Z_scope.

Section NS.
Variable conns : list conn.
Variable comps : list comp.       (* EventRouter.components *)
Variable devf : devfun.

(* ---------- the model *)
Definition ntick (s : sstate) (t : Z) (roots : list comp) (s' : sstate) (ob : list obs) : Prop :=
  exists ext st tr,
    Run conns comps t roots ext st tr /\ todo st = [] /\ answers_by (dev_of devf s t) tr /\
    fold_left (apply_upd devf t) (upds tr) (s, []) = (s', ob).

Inductive NRun : list item -> sstate -> list obs -> sstate -> list obs -> Prop :=
| NR_nil s ob : NRun [] s ob s ob
| NR_stim c w r s ob s' ob' : NRun r (stim s c w) ob s' ob' -> NRun (IStim c w :: r) s ob s' ob'
| NR_idle r s ob s' ob' :
    first_wakeups (wake_of s top) = None -> NRun r s ob s' ob' -> NRun (ITick :: r) s ob s' ob'
| NR_tick r s ob when roots s2 o s' ob' :
    first_wakeups (wake_of s top) = Some (when, roots) ->
    ntick (set_wake s top (filter (fun e : comp * Z => negb (memb (fst e) roots)) (wake_of s top))) when roots s2 o ->
    NRun r s2 (ob ++ o) s' ob' -> NRun (ITick :: r) s ob s' ob'.

(* from the start: the initial tick updates every component *)
Definition nrun (initial : Z) (script : list item) (s' : sstate) (ob' : list obs) : Prop :=
  exists s1 o1, ntick (set_wake s_init top []) initial comps s1 o1 /\ NRun script s1 o1 s' ob'.

(* ---------- one update, locally *)
Hypothesis Hdev_nd : forall c n t i, NoDup (keys (fst (devf c n t i))).
Hypothesis Hdev_ext : forall c n t i i', NoDup (keys i) -> NoDup (keys i') -> eqv i i' -> devf c n t i = devf c n t i'.

Lemma dev_update_view s c t chg :
  let '(s1, ch, ca, o) := dev_update devf s c t chg in
  let n := (match lookup c (s_n s) with Some x => x | None => 0 end + 1) in
  let inputs := merge (d_inputs (dcs s c)) chg in
  dcs s1 c = {| d_inputs := inputs; d_last := fst (devf c n t inputs) |} /\
  lookup c (s_n s1) = Some n /\ ch = diff_outputs (d_last (dcs s c)) (fst (devf c n t inputs)) /\
  ca = snd (devf c n t inputs) /\ o = (c, t, inputs) /\
  (forall z, z <> c -> dcs s1 z = dcs s z /\ lookup z (s_n s1) = lookup z (s_n s)) /\
  s_wake s1 = s_wake s.
Proof.
  unfold dev_update. fold (dcs s c). destruct (devf c _ t _) as [outs ca] eqn:E. cbn [fst snd].
  split; [unfold dcs; cbn [s_dc]; rewrite lookup_upd_same; reflexivity|].
  split; [cbn [s_n]; apply lookup_upd_same|]. split; [reflexivity|]. split; [reflexivity|]. split; [reflexivity|].
  split; [|reflexivity]. intros z Hz. split; [unfold dcs; cbn [s_dc]; rewrite lookup_upd_other by exact Hz; reflexivity|].
  cbn [s_n]. apply lookup_upd_other. exact Hz.
Qed.

(* two states that agree on c (as dictionaries) answer and change alike *)
Lemma dev_update_rel sA sB c t x y :
  drel sA sB c -> NoDup (keys x) -> NoDup (keys y) -> eqv x y ->
  let '(sA1, chA, caA, oA) := dev_update devf sA c t x in
  let '(sB1, chB, caB, oB) := dev_update devf sB c t y in
  chA = chB /\ caA = caB /\ drel sA1 sB1 c /\ fst oA = fst oB /\ eqv (snd oA) (snd oB).
Proof.
  intros [Hl [Hi [Hc [Hn1 Hn2]]]] Hx Hy Hxy.
  pose proof (dev_update_view sA c t x) as VA. pose proof (dev_update_view sB c t y) as VB.
  destruct (dev_update devf sA c t x) as [[[sA1 chA] caA] oA]. destruct (dev_update devf sB c t y) as [[[sB1 chB] caB] oB].
  cbv zeta in VA, VB.
  destruct VA as [A1 [A2 [A3 [A4 [A5 [_ _]]]]]]. destruct VB as [B1 [B2 [B3 [B4 [B5 [_ _]]]]]].
  assert (Hm : eqv (merge (d_inputs (dcs sA c)) x) (merge (d_inputs (dcs sB c)) y)) by (apply merge_eqv; assumption).
  assert (Hd : devf c (match lookup c (s_n sA) with Some k => k | None => 0 end + 1) t (merge (d_inputs (dcs sA c)) x) =
               devf c (match lookup c (s_n sB) with Some k => k | None => 0 end + 1) t (merge (d_inputs (dcs sB c)) y)).
  { rewrite Hc. apply Hdev_ext; [apply NoDup_keys_merge; exact Hn1 | apply NoDup_keys_merge; exact Hn2 | exact Hm]. }
  subst chA chB caA caB oA oB. rewrite Hd, Hl. split; [reflexivity|]. split; [reflexivity|]. split.
  - unfold drel. rewrite A1, B1, A2, B2. cbn [d_last d_inputs]. rewrite Hd, Hc.
    split; [reflexivity|]. split; [exact Hm|]. split; [reflexivity|]. split; apply NoDup_keys_merge; assumption.
  - split; [reflexivity | exact Hm].
Qed.

Lemma dev_of_ext sA sB t c x y : drel sA sB c -> NoDup (keys x) -> NoDup (keys y) -> ch_equiv x y -> dev_of devf sA t c x = dev_of devf sB t c y.
Proof.
  intros Hd Hx Hy Hxy. unfold dev_of. pose proof (dev_update_rel sA sB c t x y Hd Hx Hy Hxy) as H.
  destruct (dev_update devf sA c t x) as [[[sA1 chA] caA] oA]. destruct (dev_update devf sB c t y) as [[[sB1 chB] caB] oB].
  cbn [fst snd]. apply H.
Qed.

Lemma dev_of_wf s t c x : NoDup (keys (dev_of devf s t c x)).
Proof.
  unfold dev_of. pose proof (dev_update_view s c t x) as V. destruct (dev_update devf s c t x) as [[[s1 ch] ca] o].
  cbv zeta in V. destruct V as [_ [_ [E _]]]. cbn [fst snd]. rewrite E. unfold diff_outputs. apply NoDup_keys_filter. apply Hdev_nd.
Qed.

(* ---------- the effect of the Input messages of a tick, each component at most once *)
Definition cnt (s : sstate) (c : comp) : Z := match lookup c (s_n s) with Some x => x | None => 0 end + 1.
Definition inp (s : sstate) (c : comp) (chg : changes) : values := merge (d_inputs (dcs s c)) chg.

Lemma apply_upds_spec t : forall l s ob, NoDup (keys l) ->
  let r := fold_left (apply_upd devf t) l (s, ob) in
  (forall c, match lookup c l with
             | None => dcs (fst r) c = dcs s c /\ lookup c (s_n (fst r)) = lookup c (s_n s) /\
                       lookup c (wake_of (fst r) top) = lookup c (wake_of s top)
             | Some chg =>
                 dcs (fst r) c = {| d_inputs := inp s c chg; d_last := fst (devf c (cnt s c) t (inp s c chg)) |} /\
                 lookup c (s_n (fst r)) = Some (cnt s c) /\
                 lookup c (wake_of (fst r) top) =
                   match snd (devf c (cnt s c) t (inp s c chg)) with Some w => Some w | None => lookup c (wake_of s top) end
             end) /\
  (NoDup (keys (wake_of s top)) -> NoDup (keys (wake_of (fst r) top))) /\
  snd r = ob ++ map (fun e : comp * changes => (fst e, t, inp s (fst e) (snd e))) l.
Proof.
  induction l as [|[c0 chg0] r IH]; intros s ob Hnd; cbv zeta.
  - cbn [fold_left fst snd lookup map]. split; [intros c; repeat split|]. split; [auto | rewrite app_nil_r; reflexivity].
  - inversion Hnd as [|? ? Hni Hnd']; subst. cbn [fold_left].
    assert (E0 := eq_refl (apply_upd devf t (s, ob) (c0, chg0))). unfold apply_upd at 2 in E0. cbn [fst snd] in E0.
    pose proof (dev_update_view s c0 t chg0) as V.
    destruct (dev_update devf s c0 t chg0) as [[[s1 ch] ca] o]. cbv zeta in V. cbv beta iota zeta in E0. rewrite E0. clear E0.
    destruct V as [V1 [V2 [_ [V4 [V5 [V6 V7]]]]]]. fold (cnt s c0) in V1, V2, V4. fold (inp s c0 chg0) in V1, V4, V5.
    set (s2 := match ca with Some w => set_wake s1 top (upd c0 w (wake_of s1 top)) | None => s1 end).
    assert (Hdc : forall z, dcs s2 z = dcs s1 z) by (intros z; unfold s2; destruct ca; reflexivity).
    assert (Hcn : forall z, lookup z (s_n s2) = lookup z (s_n s1)) by (intros z; unfold s2; destruct ca; reflexivity).
    assert (Hw1 : wake_of s1 top = wake_of s top) by (unfold wake_of; rewrite V7; reflexivity).
    assert (Hwk : forall z, lookup z (wake_of s2 top) = if Pos.eqb z c0 then match ca with Some w => Some w | None => lookup z (wake_of s top) end
                                                     else lookup z (wake_of s top)).
    { intros z. unfold s2. destruct ca as [w|].
      - rewrite wake_of_set_wake, lookup_upd, Hw1. reflexivity.
      - rewrite Hw1. destruct (Pos.eqb z c0); reflexivity. }
    specialize (IH s2 (ob ++ [o]) Hnd'). cbv zeta in IH. destruct IH as [IH1 [IH2 IH3]].
    split; [|split].
    + intros c. cbn [lookup]. destruct (Pos.eqb_spec c c0) as [E|Hne].
      * subst c. specialize (IH1 c0). apply lookup_None_keys in Hni. rewrite Hni in IH1. destruct IH1 as [I1 [I2 I3]].
        rewrite I1, I2, I3, Hdc, Hcn, Hwk, Pos.eqb_refl, V1, V2, V4. repeat split.
      * specialize (IH1 c). destruct (V6 c Hne) as [W1 W2].
        assert (Ecnt : cnt s2 c = cnt s c) by (unfold cnt; rewrite Hcn, W2; reflexivity).
        assert (Einp : forall chg, inp s2 c chg = inp s c chg) by (intros chg; unfold inp; rewrite Hdc, W1; reflexivity).
        destruct (lookup c r) as [chg|].
        -- rewrite Ecnt, Einp, Hwk in IH1. destruct (Pos.eqb_spec c c0); [contradiction | exact IH1].
        -- rewrite Hdc, Hcn, Hwk, W1, W2 in IH1. destruct (Pos.eqb_spec c c0); [contradiction | exact IH1].
    + intros Hn. apply IH2. unfold s2. destruct ca as [w|]; [rewrite wake_of_set_wake; apply NoDup_keys_upd|]; rewrite Hw1; exact Hn.
    + rewrite IH3. cbn [map fst snd]. rewrite <- app_assoc. cbn [app]. rewrite V5. f_equal. f_equal.
      apply map_ext_in. intros [z chg] Hz. cbn [fst snd].
      assert (Hne : z <> c0) by (intros E; subst z; apply Hni; apply (in_keys c0 chg r Hz)).
      unfold inp. rewrite Hdc. rewrite (proj1 (V6 z Hne)). reflexivity.
Qed.

(* ---------- the Input messages of a trace *)
Lemma upds_in tr c chg : In (c, chg) (upds tr) <-> exists t', In (EDispatch (Upd c t' chg)) tr.
Proof.
  unfold upds. rewrite in_flat_map. split.
  - intros [e [He Hi]]. destruct e as [[c1 t1 x|c1 t1]|c1 ch1]; [|destruct Hi|destruct Hi]. destruct Hi as [E|[]]. inversion E; subst. exists t1. exact He.
  - intros [t' H]. exists (EDispatch (Upd c t' chg)). split; [exact H | left; reflexivity].
Qed.

Lemma upds_keys_sub tr c : In c (keys (upds tr)) -> In c (disp_comps tr).
Proof.
  unfold keys. intros H. apply in_map_iff in H. destruct H as [[c' chg] [E H]]. cbn in E. subst c'.
  apply upds_in in H. destruct H as [t' H]. apply dispatched_In. exists (Upd c t' chg). split; [exact H | reflexivity].
Qed.

Lemma upds_nodup tr : NoDup (disp_comps tr) -> NoDup (keys (upds tr)).
Proof.
  induction tr as [|e r IH]; intros H; [constructor|].
  destruct e as [[c1 t1 x|c1 t1]|c1 ch1]; cbn [disp_comps flat_map app] in H; fold (disp_comps r) in H.
  - inversion H as [|? ? Hni Hnd]; subst. change (upds (EDispatch (Upd c1 t1 x) :: r)) with ((c1, x) :: upds r).
    cbn [keys map fst]. constructor; [|apply IH; exact Hnd]. intros Hi. apply Hni. apply upds_keys_sub. exact Hi.
  - inversion H as [|? ? Hni Hnd]; subst. change (upds (EDispatch (Skp c1 t1) :: r)) with (upds r). apply IH. exact Hnd.
  - change (upds (EAnswer c1 ch1 :: r)) with (upds r). apply IH. exact H.
Qed.

(* ---------- wakeup tables as dictionaries *)
Definition weq (a b : list (comp * Z)) : Prop := NoDup (keys a) /\ NoDup (keys b) /\ forall c, lookup c a = lookup c b.

Lemma weq_in a b : weq a b -> forall e, In e a <-> In e b.
Proof. intros [Ha [Hb H]] [k v]. rewrite (lookup_In_iff a k v Ha), (lookup_In_iff b k v Hb), (H k). reflexivity. Qed.

Lemma memb_iff (ra rb : list comp) : (forall c, In c ra <-> In c rb) -> forall c, memb c ra = memb c rb.
Proof.
  intros H c. destruct (memb c ra) eqn:Ea, (memb c rb) eqn:Eb; try reflexivity.
  - apply memb_In in Ea. apply H in Ea. apply memb_In in Ea. congruence.
  - apply memb_In in Eb. apply H in Eb. apply memb_In in Eb. congruence.
Qed.

Lemma weq_first a b : weq a b ->
  match first_wakeups a, first_wakeups b with
  | None, None => True
  | Some (m, ra), Some (m', rb) => m = m' /\ forall c, In c ra <-> In c rb
  | _, _ => False
  end.
Proof.
  intros H. pose proof (weq_in a b H) as Hin.
  pose proof (first_wakeups_spec a) as Sa. pose proof (first_wakeups_spec b) as Sb.
  destruct (first_wakeups a) as [[m ra]|], (first_wakeups b) as [[m' rb]|].
  - destruct Sa as [[[ea [Hea Eea]] Hla] Era]. destruct Sb as [[[eb [Heb Eeb]] Hlb] Erb].
    assert (E : m = m').
    { pose proof (Hla eb (proj2 (Hin eb) Heb)). pose proof (Hlb ea (proj1 (Hin ea) Hea)). lia. }
    clear Eea Eeb. subst m'. split; [reflexivity|]. intros c. subst ra rb. rewrite !in_map_iff.
    split; intros [e [Ee Hi]]; exists e; (split; [exact Ee|]); apply filter_In in Hi; apply filter_In; (split; [apply Hin; apply Hi | apply Hi]).
  - destruct Sa as [[[ea [Hea _]] _] _]. subst b. apply Hin in Hea. destruct Hea.
  - destruct Sb as [[[eb [Heb _]] _] _]. subst a. apply Hin in Heb. destruct Heb.
  - exact I.
Qed.

Lemma weq_filter a b (ra rb : list comp) : weq a b -> (forall c, In c ra <-> In c rb) ->
  weq (filter (fun e : comp * Z => negb (memb (fst e) ra)) a) (filter (fun e : comp * Z => negb (memb (fst e) rb)) b).
Proof.
  intros [Ha [Hb H]] Hr. split; [apply NoDup_keys_filter; exact Ha|]. split; [apply NoDup_keys_filter; exact Hb|].
  intros c. rewrite !lookup_filter_nodup by assumption. cbn [fst]. rewrite (H c), (memb_iff ra rb Hr c). reflexivity.
Qed.

Lemma weq_upd a b c w : weq a b -> weq (upd c w a) (upd c w b).
Proof.
  intros [Ha [Hb H]]. split; [apply NoDup_keys_upd; exact Ha|]. split; [apply NoDup_keys_upd; exact Hb|].
  intros z. rewrite !lookup_upd, (H z). reflexivity.
Qed.

(* ---------- two runs between ticks *)
Definition SREL (sA sB : sstate) : Prop := (forall c, drel sA sB c) /\ weq (wake_of sA top) (wake_of sB top).

Definition dev_obs (d : comp) (ob : list obs) : list obs := filter (fun o : obs => Pos.eqb (obs_comp o) d) ob.

Lemma dev_obs_app d a b : dev_obs d (a ++ b) = dev_obs d a ++ dev_obs d b.
Proof. unfold dev_obs. apply filter_app. Qed.

Lemma dev_obs_upds d t (f : comp -> changes -> values) l : NoDup (keys l) ->
  dev_obs d (map (fun e : comp * changes => (fst e, t, f (fst e) (snd e))) l) =
  match lookup d l with Some chg => [(d, t, f d chg)] | None => [] end.
Proof.
  induction l as [|[c chg] r IH]; intros Hnd; [reflexivity|]. inversion Hnd as [|? ? Hni Hnd']; subst.
  cbn [map fst snd lookup].
  change (dev_obs d ((c, t, f c chg) :: ?L)) with (if Pos.eqb c d then (c, t, f c chg) :: dev_obs d L else dev_obs d L).
  rewrite (IH Hnd'). rewrite (Pos.eqb_sym c d). destruct (Pos.eqb_spec d c) as [E|Hne]; [|reflexivity].
  subst c. apply lookup_None_keys in Hni. rewrite Hni. reflexivity.
Qed.

Lemma local_rel sA sB c t x y : drel sA sB c -> NoDup (keys x) -> NoDup (keys y) -> eqv x y ->
  cnt sA c = cnt sB c /\ eqv (inp sA c x) (inp sB c y) /\ NoDup (keys (inp sA c x)) /\ NoDup (keys (inp sB c y)) /\
  devf c (cnt sA c) t (inp sA c x) = devf c (cnt sB c) t (inp sB c y).
Proof.
  intros [Hl [Hi [Hc [Hn1 Hn2]]]] Hx Hy Hxy.
  assert (Ec : cnt sA c = cnt sB c) by (unfold cnt; rewrite Hc; reflexivity).
  assert (Hm : eqv (inp sA c x) (inp sB c y)) by (apply merge_eqv; assumption).
  assert (N1 : NoDup (keys (inp sA c x))) by (apply NoDup_keys_merge; exact Hn1).
  assert (N2 : NoDup (keys (inp sB c y))) by (apply NoDup_keys_merge; exact Hn2).
  repeat split; try assumption. rewrite Ec. apply Hdev_ext; assumption.
Qed.

(* ---------- two lists of Input messages that agree as dictionaries have the same effect *)
Definition KREL (lA lB : list (comp * changes)) : Prop :=
  forall c, match lookup c lA, lookup c lB with
            | Some x, Some y => NoDup (keys x) /\ NoDup (keys y) /\ eqv x y
            | None, None => True
            | _, _ => False
            end.

Lemma apply_upds_rel t sA sB lA lB sA' oA sB' oB :
  SREL sA sB -> NoDup (keys lA) -> NoDup (keys lB) -> KREL lA lB ->
  fold_left (apply_upd devf t) lA (sA, []) = (sA', oA) -> fold_left (apply_upd devf t) lB (sB, []) = (sB', oB) ->
  SREL sA' sB' /\ forall d, obs_rel (dev_obs d oA) (dev_obs d oB).
Proof.
  intros [Hd Hw] NA NB K EA EB.
  pose proof (apply_upds_spec t lA sA [] NA) as SA. pose proof (apply_upds_spec t lB sB [] NB) as SB.
  cbv zeta in SA, SB. rewrite EA in SA. rewrite EB in SB. cbn [fst snd app] in SA, SB.
  destruct SA as [PA [WA OA]]. destruct SB as [PB [WB OB]].
  split; [split|].
  - intros c. specialize (K c). specialize (PA c). specialize (PB c).
    destruct (lookup c lA) as [x|], (lookup c lB) as [y|]; try contradiction.
    + destruct K as [Hx [Hy Hxy]]. destruct (local_rel sA sB c t x y (Hd c) Hx Hy Hxy) as [Ec [Hm [N1 [N2 Ef]]]].
      destruct PA as [A1 [A2 _]]. destruct PB as [B1 [B2 _]]. unfold drel. rewrite A1, B1, A2, B2. cbn [d_last d_inputs]. rewrite Ef, Ec.
      repeat split; assumption.
    + destruct PA as [A1 [A2 _]]. destruct PB as [B1 [B2 _]]. unfold drel. rewrite A1, B1, A2, B2. apply Hd.
  - destruct Hw as [Hna [Hnb Hlk]]. split; [apply WA; exact Hna|]. split; [apply WB; exact Hnb|].
    intros c. specialize (K c). specialize (PA c). specialize (PB c).
    destruct (lookup c lA) as [x|], (lookup c lB) as [y|]; try contradiction.
    + destruct K as [Hx [Hy Hxy]]. destruct (local_rel sA sB c t x y (Hd c) Hx Hy Hxy) as [Ec [Hm [N1 [N2 Ef]]]].
      destruct PA as [_ [_ A3]]. destruct PB as [_ [_ B3]]. rewrite A3, B3, Ef, (Hlk c). reflexivity.
    + destruct PA as [_ [_ A3]]. destruct PB as [_ [_ B3]]. rewrite A3, B3. apply Hlk.
  - intros d. rewrite OA, OB. rewrite !(dev_obs_upds d t (fun c chg => inp _ c chg)) by assumption.
    specialize (K d). destruct (lookup d lA) as [x|], (lookup d lB) as [y|]; try contradiction; [|constructor].
    destruct K as [Hx [Hy Hxy]]. destruct (local_rel sA sB d t x y (Hd d) Hx Hy Hxy) as [_ [Hm _]].
    constructor; [|constructor]. split; [reflexivity | exact Hm].
Qed.

(* two traces whose dispatches agree update the same components with equivalent changes *)
Lemma KREL_of_traces trA trB :
  NoDup (keys (upds trA)) -> NoDup (keys (upds trB)) ->
  (forall a1 a2, In (EDispatch a1) trA -> In (EDispatch a2) trB -> act_comp a1 = act_comp a2 -> action_equiv a1 a2) ->
  (forall c, dispatched trA c <-> dispatched trB c) ->
  (forall a, In (EDispatch a) trA -> nd_action a) -> (forall a, In (EDispatch a) trB -> nd_action a) ->
  KREL (upds trA) (upds trB).
Proof.
  intros NA NB C2 P2 DA DB.
  assert (K1 : forall c x, lookup c (upds trA) = Some x -> exists y, lookup c (upds trB) = Some y /\ NoDup (keys x) /\ NoDup (keys y) /\ eqv x y).
  { intros c x E. apply (lookup_In_iff _ c x NA) in E. apply upds_in in E. destruct E as [t' E].
    assert (Hdisp : dispatched trB c) by (apply P2; exists (Upd c t' x); split; [exact E | reflexivity]).
    destruct Hdisp as [aB [HaB HcB]]. pose proof (C2 (Upd c t' x) aB E HaB (eq_sym HcB)) as Q.
    destruct aB as [c2 t2 y|c2 t2]; [|destruct Q]. destruct Q as [Ec [_ Q]]. subst c2.
    exists y. split; [apply (lookup_In_iff _ c y NB); apply upds_in; exists t2; exact HaB|].
    split; [exact (DA _ E)|]. split; [exact (DB _ HaB) | exact Q]. }
  assert (K2 : forall c y, lookup c (upds trB) = Some y -> exists x, lookup c (upds trA) = Some x).
  { intros c y E. apply (lookup_In_iff _ c y NB) in E. apply upds_in in E. destruct E as [t' E].
    assert (Hdisp : dispatched trA c) by (apply P2; exists (Upd c t' y); split; [exact E | reflexivity]).
    destruct Hdisp as [aA [HaA HcA]]. pose proof (C2 aA (Upd c t' y) HaA E HcA) as Q.
    destruct aA as [c2 t2 x|c2 t2]; [|destruct Q]. destruct Q as [Ec _]. subst c2.
    exists x. apply (lookup_In_iff _ c x NA). apply upds_in. exists t2. exact HaA. }
  intros c. destruct (lookup c (upds trA)) as [x|] eqn:EAc.
  - destruct (K1 c x EAc) as [y [Ey Q]]. rewrite Ey. exact Q.
  - destruct (lookup c (upds trB)) as [y|] eqn:EBc; [|exact I]. destruct (K2 c y EBc) as [x Ex]. congruence.
Qed.

(* ---------- one tick under two schedules *)
Hypothesis Hss : single_source conns.
Variable rank : comp -> nat.
Hypothesis Hrank : forall k, In k conns -> (rank (out_comp k) < rank (in_comp k))%nat.

Lemma ntick_confluent sA sB t rA rB sA' oA sB' oB :
  SREL sA sB -> (forall c, In c rA <-> In c rB) ->
  ntick sA t rA sA' oA -> ntick sB t rB sB' oB ->
  SREL sA' sB' /\ forall d, obs_rel (dev_obs d oA) (dev_obs d oB).
Proof.
  intros HS Hr [extA [stA [trA [RA [FA [BA EA]]]]]] [extB [stB [trB [RB [FB [BB EB]]]]]].
  assert (NA : NoDup (keys (upds trA))) by (apply upds_nodup; apply (run_once conns comps t rA extA stA trA RA)).
  assert (NB : NoDup (keys (upds trB))) by (apply upds_nodup; apply (run_once conns comps t rB extB stB trB RB)).
  assert (Dext : forall c x y, NoDup (keys x) -> NoDup (keys y) -> ch_equiv x y -> dev_of devf sA t c x = dev_of devf sB t c y)
    by (intros c x y Hx Hy Hxy; apply dev_of_ext; [apply (proj1 HS) | exact Hx | exact Hy | exact Hxy]).
  apply (apply_upds_rel t sA sB (upds trA) (upds trB) sA' oA sB' oB HS NA NB); [|exact EA | exact EB].
  apply KREL_of_traces; try assumption.
  - exact (confluent2 conns comps t Hss rank Hrank rA rB Hr (dev_of devf sA t) (dev_of devf sB t) Dext (dev_of_wf sA t) (dev_of_wf sB t)
             extA stA trA extB stB trB RA RB BA BB).
  - exact (same_participants2 conns comps t rA rB Hr extA stA trA extB stB trB RA RB FA FB).
  - exact (run_dispatch_nd conns comps t rA extA stA trA RA).
  - exact (run_dispatch_nd conns comps t rB extB stB trB RB).
Qed.

(* ---------- whole runs *)
Lemma SREL_set_wake sA sB wa wb : (forall c, drel sA sB c) -> weq wa wb -> SREL (set_wake sA top wa) (set_wake sB top wb).
Proof. intros Hd Hw. split; [exact Hd|]. rewrite !wake_of_set_wake. exact Hw. Qed.

Theorem schedule_independent : forall script sA obA sA' obA',
  NRun script sA obA sA' obA' -> forall sB obB sB' obB', NRun script sB obB sB' obB' ->
  SREL sA sB -> (forall d, obs_rel (dev_obs d obA) (dev_obs d obB)) ->
  SREL sA' sB' /\ forall d, obs_rel (dev_obs d obA') (dev_obs d obB').
Proof.
  induction 1 as [sA obA | c w r sA obA sA' obA' HA IH | r sA obA sA' obA' EA HA IH
                  | r sA obA when rootsA s2A oA sA' obA' EA TA HA IH]; intros sB obB sB' obB' HB HS HO.
  - inversion HB as [s0 ob0 | c0 w0 r0 s0 ob0 s0' ob0' HB' | r0 s0 ob0 s0' ob0' EB HB' | r0 s0 ob0 when0 roots0 s20 o0 s0' ob0' EB TB HB']; subst. split; assumption.
  - inversion HB as [s0 ob0 | c0 w0 r0 s0 ob0 s0' ob0' HB' | r0 s0 ob0 s0' ob0' EB HB' | r0 s0 ob0 when0 roots0 s20 o0 s0' ob0' EB TB HB']; subst. apply (IH _ _ _ _ HB'); [|exact HO].
    destruct HS as [Hd Hw]. unfold stim. apply SREL_set_wake; [exact Hd|].
    destruct Hw as [Hna [Hnb Hlk]]. rewrite (Hlk c). apply weq_upd. split; [exact Hna | split; [exact Hnb | exact Hlk]].
  - pose proof (weq_first _ _ (proj2 HS)) as F. rewrite EA in F. inversion HB as [s0 ob0 | c0 w0 r0 s0 ob0 s0' ob0' HB' | r0 s0 ob0 s0' ob0' EB HB' | r0 s0 ob0 when0 roots0 s20 o0 s0' ob0' EB TB HB']; subst.
    + apply (IH _ _ _ _ HB' HS HO).
    + rewrite EB in F. destruct F.
  - pose proof (weq_first _ _ (proj2 HS)) as F. rewrite EA in F. inversion HB as [s0 ob0 | c0 w0 r0 s0 ob0 s0' ob0' HB' | r0 s0 ob0 s0' ob0' EB HB' | r0 s0 ob0 when0 roots0 s20 o0 s0' ob0' EB TB HB']; subst.
    + rewrite EB in F. destruct F.
    + rewrite EB in F. destruct F as [Ew Hr]. subst when0.
      destruct HS as [Hd Hw].
      destruct (ntick_confluent _ _ _ _ _ _ _ _ _ (SREL_set_wake sA sB _ _ Hd (weq_filter _ _ rootsA roots0 Hw Hr)) Hr TA TB) as [HS2 HO2].
      apply (IH _ _ _ _ HB' HS2). intros d. rewrite !dev_obs_app. apply obs_rel_app; [apply HO | apply HO2].
Qed.

(* from the start: every device observes the same sequence of (time, inputs) under every schedule *)
Theorem nrun_deterministic initial script sA obA sB obB :
  nrun initial script sA obA -> nrun initial script sB obB ->
  SREL sA sB /\ forall d, obs_rel (dev_obs d obA) (dev_obs d obB).
Proof.
  intros [s1A [o1A [TA RA]]] [s1B [o1B [TB RB]]].
  assert (H0 : SREL (set_wake s_init top []) (set_wake s_init top [])).
  { apply SREL_set_wake.
    - intros c. split; [reflexivity|]. split; [intros q; reflexivity|]. split; [reflexivity|]. split; constructor.
    - split; [constructor|]. split; [constructor | reflexivity]. }
  destruct (ntick_confluent _ _ _ _ _ _ _ _ _ H0 (fun c => iff_refl _) TA TB) as [HS HO].
  apply (schedule_independent script s1A o1A sA obA RA s1B o1B sB obB RB HS HO).
Qed.

(* ---------- schedules exist: an executable scheduler driven by a strategy [pick] that chooses
   which dispatched component answers next *)
Lemma find_dispatch_spec tr c a : find_dispatch tr c = Some a -> In (EDispatch a) tr /\ act_comp a = c.
Proof.
  unfold find_dispatch. destruct (filter _ tr) as [|e r] eqn:E; [discriminate|]. destruct e as [a'|]; [|discriminate].
  intros H. inversion H; subst a'. assert (Hi : In (EDispatch a) (filter (fun e : ev => match e with EDispatch a => Pos.eqb (act_comp a) c | _ => false end) tr))
    by (rewrite E; left; reflexivity).
  apply filter_In in Hi. destruct Hi as [Hi Hb]. split; [exact Hi | apply Pos.eqb_eq; exact Hb].
Qed.

Lemma run_sched_sound pick s t roots ext : forall fuel st tr st' tr',
  Run conns comps t roots ext st tr -> answers_by (dev_of devf s t) tr ->
  run_sched conns comps devf pick s t fuel st tr = Some (st', tr') ->
  Run conns comps t roots ext st' tr' /\ todo st' = [] /\ answers_by (dev_of devf s t) tr'.
Proof.
  induction fuel as [|f IH]; intros st tr st' tr' HR HB H; [discriminate|]. cbn [run_sched] in H.
  destruct (todo st) as [|cd0 rest] eqn:Et.
  - inversion H; subst. repeat split; assumption.
  - rewrite <- Et in H. destruct (pick (todo st)) as [c|]; [|discriminate].
    destruct (existsb _ (todo st)) eqn:Ex; [|discriminate].
    destruct (find_dispatch tr c) as [a|] eqn:Ef; [|discriminate].
    destruct (propagate conns comps st c t (resp_of (dev_of devf s t) a)) as [|st2 acts fin] eqn:Ep; [discriminate|].
    apply existsb_exists in Ex. destruct Ex as [[c' b] [Hin Hb]]. cbn [fst snd] in Hb. apply andb_true_iff in Hb. destruct Hb as [Hc Hb].
    apply Pos.eqb_eq in Hc. subst c' b.
    apply (IH st2 (tr ++ EAnswer c (resp_of (dev_of devf s t) a) :: map EDispatch acts) st' tr'); [eapply Run_step; eassumption | | exact H].
    destruct (find_dispatch_spec tr c a Ef) as [Hia Hca].
    intros c1 ch1 Hi. apply in_app_iff in Hi. destruct Hi as [Hi|[Hi|Hi]].
    + destruct (HB c1 ch1 Hi) as [a1 [H1 [H2 H3]]]. exists a1. split; [apply in_app_iff; left; exact H1 | split; assumption].
    + inversion Hi; subst c1 ch1. exists a. split; [apply in_app_iff; left; exact Hia | split; [exact Hca | reflexivity]].
    + apply in_map_iff in Hi. destruct Hi as [x [Hx _]]. discriminate.
Qed.

Lemma ntick_exec_sound pick fuel s t roots s' ob tr : ntick_exec conns comps devf pick fuel s t roots = Some (s', ob, tr) -> ntick s t roots s' ob.
Proof.
  unfold ntick_exec. destruct (start_tick conns t roots) as [st0|] eqn:Es; [|discriminate].
  destruct (schedule conns comps st0) as [[st1 acts]|] eqn:Ec; [|discriminate].
  destruct (run_sched conns comps devf pick s t fuel st1 (map EDispatch acts)) as [[st2 tr2]|] eqn:Er; [|discriminate].
  destruct (fold_left (apply_upd devf t) (upds tr2) (s, [])) as [s2 ob2] eqn:Ef. intros H. inversion H; subst.
  assert (HR : Run conns comps t roots (pending st0) st1 (map EDispatch acts)) by (eapply Run_start; [exact Es | reflexivity | exact Ec]).
  assert (HB : answers_by (dev_of devf s t) (map EDispatch acts)).
  { intros c ch Hi. apply in_map_iff in Hi. destruct Hi as [x [Hx _]]. discriminate. }
  destruct (run_sched_sound pick s t roots (pending st0) fuel st1 _ st2 tr HR HB Er) as [R2 [F2 B2]].
  exists (pending st0), st2, tr. repeat split; assumption.
Qed.

Lemma nrun_exec_sound pick fuel : forall script s ob s' ob', nrun_exec conns comps devf pick fuel script s ob = Some (s', ob') -> NRun script s ob s' ob'.
Proof.
  induction script as [|[|c w] r IH]; intros s ob s' ob' H; cbn [nrun_exec] in H.
  - inversion H; subst. constructor.
  - destruct (first_wakeups (wake_of s top)) as [[when roots]|] eqn:Ef.
    + destruct (ntick_exec conns comps devf pick fuel _ when roots) as [[[s2 o] tr]|] eqn:Et; [|discriminate].
      eapply NR_tick; [exact Ef | eapply ntick_exec_sound; exact Et | apply IH; exact H].
    + apply NR_idle; [exact Ef | apply IH; exact H].
  - apply NR_stim. apply IH. exact H.
Qed.

Lemma nrun_from_start_sound pick fuel initial script s' ob' :
  nrun_from_start conns comps devf pick fuel initial script = Some (s', ob') -> nrun initial script s' ob'.
Proof.
  unfold nrun_from_start. destruct (ntick_exec conns comps devf pick fuel _ initial comps) as [[[s1 o1] tr]|] eqn:Et; [|discriminate].
  intros H. exists s1, o1. split; [eapply ntick_exec_sound; exact Et | apply nrun_exec_sound with (pick := pick) (fuel := fuel); exact H].
Qed.
End NS.
