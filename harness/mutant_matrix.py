"""Re-run the current checks against every recorded seeded change (seeded/<id>/patch.diff).
usage: mutant_matrix.py [-j N] [<seed id> ...]     (default: all, 6 workers)
Each worker owns a scratch copy of /verif and a scratch git worktree of /repo (both under
/root/scratch/mm, removed afterwards), applies one change to its worktree and runs the quick check of
the property the change targets plus the checks listed in its meta.json, with VERIF_ROOT / VERIF_REPO
pointing at the copies.  /repo itself is never touched.  Writes seeded/MATRIX.json and MATRIX.md."""
import json
import os
import re
import shutil
import subprocess
import sys
import threading
import time
from pathlib import Path

VERIF = Path("/verif")
SCR = Path("/root/scratch/mm")


def sh(cmd, timeout=3600, env=None):
    e = dict(os.environ)
    e.update(env or {})
    r = subprocess.run(cmd, shell=True, capture_output=True, text=True, timeout=timeout, env=e)
    return r.returncode, r.stdout + r.stderr


SEEDDIR = "seeded"
ALL = [f"C{n:02d}" for n in range(1, 21)]


def checks_of(sid):
    if SEEDDIR != "seeded":
        return list(ALL)          # behaviour-preserving refactorings: every check must stay silent
    meta = json.load(open(VERIF / SEEDDIR / sid / "meta.json"))
    out = []
    for c in [sid.split("-")[0]] + list(meta.get("checks_run", [])) + list(meta.get("extra_checks", [])):
        if c not in out:
            out.append(c)
    return out


def worker(k, jobs, matrix, lock):
    root = SCR / f"w{k}"
    vroot, rroot = root / "verif", root / "repo"
    shutil.rmtree(root, ignore_errors=True)
    root.mkdir(parents=True)
    sh(f"rsync -a --exclude .git --exclude work --exclude replays --exclude evidence {VERIF}/ {vroot}/")
    (vroot / "evidence").mkdir(exist_ok=True)
    rc, out = sh(f"git -C /repo worktree add --detach {rroot} HEAD")
    assert rc == 0, out
    env = dict(VERIF_ROOT=str(vroot), VERIF_REPO=str(rroot))
    try:
        sh(f"{vroot}/bin/setup", env=env)
        while True:
            with lock:
                if not jobs:
                    return
                sid = jobs.pop(0)
            d = VERIF / SEEDDIR / sid
            rc, out = sh(f"git -C {rroot} apply {d}/patch.diff")
            row = {}
            if rc != 0:
                row["_error"] = "patch does not apply: " + out[-200:]
            else:
                for c in checks_of(sid):
                    t0 = time.time()
                    rc, out = sh(f"timeout 1800 {vroot}/bin/check {c} --tier quick", env=env)
                    lines = [l for l in out.splitlines() if l.startswith(("VIOLATION", "OK ", "KNOWN-FINDING"))]
                    reasons = []
                    for l in lines:
                        m = re.search(r"replay=(\S+)", l)
                        if m and os.path.exists(m.group(1)):
                            try:
                                r = json.load(open(m.group(1)))
                                reasons.append(r.get("reason") or (r.get("broken") or ["?"])[0][:120])
                            except Exception:
                                pass
                    row[c] = dict(rc=rc, violations=sum(l.startswith("VIOLATION") for l in lines),
                                  no_input=any("no-failing-input-found" in l for l in lines),
                                  with_input=any(l.startswith("VIOLATION") and "no-failing-input-found" not in l for l in lines),
                                  reasons=sorted(set(reasons))[:4], wall=round(time.time() - t0, 1))
                    print(sid, c, row[c], flush=True)
                sh(f"git -C {rroot} checkout -- . && git -C {rroot} clean -fdq")
            with lock:
                matrix[sid] = row
                json.dump(matrix, open(VERIF / SEEDDIR / "MATRIX.json", "w"), indent=1, sort_keys=True)
    finally:
        sh(f"git -C /repo worktree remove --force {rroot}")
        shutil.rmtree(root, ignore_errors=True)


def main():
    global SEEDDIR
    args = sys.argv[1:]
    if args[:1] == ["--benign"]:
        SEEDDIR, args = "seeded_benign", args[1:]
    nj = 6
    if args[:1] == ["-j"]:
        nj, args = int(args[1]), args[2:]
    ids = args or sorted(p.name for p in (VERIF / SEEDDIR).iterdir() if (p / "patch.diff").exists())
    mfile = VERIF / SEEDDIR / "MATRIX.json"
    matrix = json.load(open(mfile)) if mfile.exists() else {}
    jobs, lock = list(ids), threading.Lock()
    ths = [threading.Thread(target=worker, args=(k, jobs, matrix, lock)) for k in range(min(nj, len(ids)))]
    for t in ths:
        t.start()
    for t in ths:
        t.join()
    lines = ["| seeded change | caught with a failing input by | caught as broken proof / correspondence only by | not caught by |", "|---|---|---|---|"]
    for sid in sorted(matrix):
        row = {c: r for c, r in matrix[sid].items() if not c.startswith("_")}
        a = [c for c, r in row.items() if r["with_input"]]
        b = [c for c, r in row.items() if r["rc"] != 0 and not r["with_input"]]
        n = [c for c, r in row.items() if r["rc"] == 0]
        mf = VERIF / SEEDDIR / sid / "meta.json"
        note = json.load(open(mf)).get("superseded") if mf.exists() else None
        lines.append(f"| {sid}{' (superseded)' if note else ''} | {' '.join(a) or '-'} | {' '.join(b) or '-'} | {' '.join(n) or '-'} |")
    open(VERIF / SEEDDIR / "MATRIX.md", "w").write("\n".join(lines) + "\n")


if __name__ == "__main__":
    main()
