"""Level C: drive a real DeviceComponent (scripted device, probe adapters, recording producer)."""
import asyncio
import random

from common import P, Zr, L, T


def pn(k): return f"p{k}"
def ci(s): return int(s[1:])


def run_dc(history, nadapters=2, same_time=False):
    """history: list of (input changes {port:int}, device outputs {port:int}, call_at|None).
    returns (per update: (inputs seen by device, reported changes, call_at), adapter notification counts)"""
    from immutables import Map
    from tickit.core.adapter import AdapterContainer
    from tickit.core.components.device_component import DeviceComponent
    from tickit.core.device import Device, DeviceUpdate
    from tickit.core.typedefs import Changes, Output, SimTime

    seen = []
    script = list(history)

    class Dev(Device):
        def __init__(self):
            self.n = 0

        def update(self, time, inputs):
            _, outs, call_at = script[self.n]
            self.n += 1
            seen.append({ci(k): v for k, v in inputs.items()})
            return DeviceUpdate({pn(k): v for k, v in outs.items()}, None if call_at is None else SimTime(call_at))

    class ProbeAdapter:
        def __init__(self):
            self.n = 0

        def after_update(self):
            self.n += 1

    class NoIo:
        async def setup(self, adapter, raise_interrupt):
            pass

    produced = []

    class Prod:
        async def produce(self, topic, value):
            produced.append((topic, value))

    adapters = [ProbeAdapter() for _ in range(nadapters)]
    comp = DeviceComponent(name="dev", device=Dev(), adapters=[AdapterContainer(a, NoIo()) for a in adapters])
    comp.state_producer = Prod()

    # same_time: the updates come in pairs at one instant (a component re-evaluated at once, an interrupt stamped with the time
    # of the tick that has just ended)
    when = (lambda i: (i // 2) * 10) if same_time else (lambda i: i * 10)

    async def main():
        for i, (chg, _, _) in enumerate(history):
            script_pos[0] = i
            await comp.on_tick(SimTime(when(i)), Changes(Map({pn(k): v for k, v in chg.items()})))

    script_pos = [0]
    Dev.update = (lambda orig: (lambda self, time, inputs: (setattr(self, "n", script_pos[0]), called.append(script_pos[0]), orig(self, time, inputs))[2]))(Dev.update)
    called = []
    asyncio.run(main())
    obs = []
    seen_at = dict(zip(called, seen))
    for i, (topic, msg) in enumerate(produced):
        assert isinstance(msg, Output) and topic == "tickit-dev-out" and msg.source == "dev" and msg.time == when(i)
        # an update for which the device was not asked at all: a marker no model run has (41)
        obs.append((seen_at.get(i, {99: -1}), {ci(k): v for k, v in msg.changes.items()}, msg.call_at))
    assert len(obs) == len(history)
    return obs, [a.n for a in adapters]


NONE = -777_777      # the Python value None as a port value: one more value, equal to itself only


def r_vals(d): return L(T(P(k), Zr(NONE if v is None else v)) for k, v in d.items())


def render_dc(history, obs, notif):
    return T(L(T(r_vals(c), r_vals(o)) for c, o, _ in history), L(T(r_vals(i), r_vals(c)) for i, c, _ in obs),
             L(Zr(n) for n in notif))


def gen_history(rng, n=None):
    n = n or rng.randint(1, 12)
    ports = [1, 2, 3]
    cur = {}
    h = []
    for i in range(n):
        chg = {p: rng.randint(0, 3) for p in (1, 2) if rng.random() < 0.4}
        outs = {}
        for p in ports:
            x = rng.random()
            if x < 0.25:
                continue                      # omit the port
            elif x < 0.6 and p in cur:
                outs[p] = cur[p]              # repeat the previous value
            else:
                outs[p] = rng.choice([0, 1, 2, 0, 1, 2, None])   # (maybe) change; None is a value like any other
        cur.update(outs)
        # cur keeps the last value ever reported, so "omit then re-report the same value" occurs
        h.append((chg, outs, rng.choice([None, None, i * 10 + 5])))
    return h


def nontrivial(h):
    """a port omitted at one update and reported again later"""
    for p in (1, 2, 3):
        seq = [p in o for _, o, _ in h]
        for i in range(len(seq) - 2):
            if seq[i] and not seq[i + 1] and any(seq[i + 2:]):
                return True
    return False
