import sys, time
import common

t0 = time.time()
try:
    res = common.build_coq()
except common.BuildError as e:
    print(e)
    sys.exit(1)
if res["broken"]:
    for f, why in sorted(res["broken"].items()):
        print("BROKEN:", f, "--", why[:300])
    sys.exit(1)
probs = common.audit_sources()
for p in probs:
    print("AUDIT:", p)
print(f"setup ok: coq development built in {time.time() - t0:.1f}s, {len(common.coq_files())} files")
sys.exit(1 if probs else 0)
