(* The tick-level statements of C01/C02/C03, as a decidable check of one observed tick
   (the dispatches and answers of the implementation, in order), independent of the ticker
   model: only the wiring functions of Model/Wiring.v are used. *)
From TV Require Import Base Model.Wiring Model.Ticker.

Section O.
Variable conns : list conn.

(* what component c must be handed, given the answers seen so far in this tick:
   for every wire (u,p)->(c,q) whose source u has answered with a change of p *)
Definition expected_changes (answered : list (comp * changes)) (c : comp) : changes :=
  flat_map (fun k : conn =>
              let '(u, p, c', q) := k in
              if Pos.eqb c' c then
                match lookup u answered with
                | Some ch => match lookup p ch with Some v => [(q, v)] | None => [] end
                | None => []
                end
              else []) conns.

Definition check_dispatch (t : Z) (roots ext : list comp) (answered : list (comp * changes))
           (dispatched : list comp) (a : action) : list Z :=
  let c := act_comp a in
  (if memb c ext then [] else [13%Z]) ++
  (if memb c dispatched then [12%Z] else []) ++
  (if forallb (fun u => negb (memb u ext) || memb u (keys answered)) (preds conns c) then [] else [11%Z]) ++
  (if Z.eqb (act_time a) t then [] else [17%Z]) ++
  (let exp := expected_changes answered c in
   match a with
   | Upd _ _ ch =>
       (if memb c roots || negb (match exp with [] => true | _ => false end) then [] else [14%Z]) ++
       (if changes_eqb ch exp then [] else [15%Z])
   | Skp _ _ =>
       if memb c roots || negb (match exp with [] => true | _ => false end) then [14%Z] else []
   end).

Fixpoint check_dispatches t roots ext answered dispatched (acts : list action) : list Z * list comp :=
  match acts with
  | [] => ([], dispatched)
  | a :: r =>
      let e := check_dispatch t roots ext answered dispatched a in
      let '(e2, d2) := check_dispatches t roots ext answered (dispatched ++ [act_comp a]) r in
      (e ++ e2, d2)
  end.

Fixpoint check_answers t roots ext answered dispatched (ans : list answer) : list Z :=
  match ans with
  | [] => []
  | (c, t', ch, OErr) :: rest => check_answers t roots ext answered dispatched rest
  | (c, t', ch, OOk acts fin) :: rest =>
      let answered' := answered ++ [(c, ch)] in
      let '(e, d) := check_dispatches t roots ext answered' dispatched acts in
      let all_done := forallb (fun x => memb x (keys answered')) ext in
      e ++ (if Bool.eqb fin all_done then [] else [16%Z]) ++
      (if fin && negb (forallb (fun x => memb x d) ext) then [18%Z] else []) ++
      check_answers t roots ext answered' d rest
  end.

(* only well-formed answer sequences are judged: each answer comes from a component that
   was dispatched and has not answered yet, at the tick's time *)
Fixpoint wellformed t (dispatched answered : list comp) (ans : list answer) : bool :=
  match ans with
  | [] => true
  | (c, t', ch, o) :: rest =>
      memb c dispatched && negb (memb c answered) && Z.eqb t' t &&
      match o with
      | OErr => false
      | OOk acts _ => wellformed t (dispatched ++ map act_comp acts) (answered ++ [c]) rest
      end
  end.

Definition oracle_tick (tk : tick) : list Z :=
  let '(t, roots, o0, ans) := tk in
  match extent conns roots [], o0 with
  | Some ext, Some acts0 =>
      if wellformed t (map act_comp acts0) [] ans then
        let '(e, d) := check_dispatches t roots ext [] [] acts0 in
        e ++ check_answers t roots ext [] d ans
      else []
  | _, _ => []
  end.
End O.

Definition oracle (c : case) : list Z :=
  let '(conns, comps, ticks) := c in flat_map (oracle_tick conns) ticks.

Definition check_all (c : case) : list Z := check c ++ oracle c.

(* ---------- C08 at ticker level: several runs of the same tick history under different
   answer orders must dispatch every component with the same kind and the same changes *)
Definition dispatches_of (tk : tick) : list action :=
  let '(_, _, o0, ans) := tk in
  (match o0 with Some a => a | None => [] end) ++
  flat_map (fun x : answer => match snd x with OOk acts _ => acts | OErr => [] end) ans.

Fixpoint ticks_agree (r1 r2 : list tick) : bool :=
  match r1, r2 with
  | [], [] => true
  | a :: s, b :: t => actions_eqb (dispatches_of a) (dispatches_of b) && ticks_agree s t
  | _, _ => false
  end.

Definition multi_case := (list conn * list comp * list (list tick))%type.

(* code 21: two answer orders of the same history gave some component a different dispatch *)
Definition check_multi (c : multi_case) : list Z :=
  let '(conns, comps, runs) := c in
  flat_map (fun r => check_all (conns, comps, r)) runs ++
  match runs with
  | [] => []
  | r0 :: rest => if forallb (ticks_agree r0) rest then [] else [21%Z]
  end.
