"""bin/check Cxx [--tier quick|thorough]   |   bin/check --replay file.json"""
import argparse
import importlib
import json
import logging
import os
import sys

# nothing is printed by the code under test (its log records are made and thrown away), but logging is NOT disabled:
# part of the runs switch debug logging on, and what the code does must not depend on it
logging.getLogger().addHandler(logging.NullHandler())
logging.lastResort = None


def main() -> int:
    ap = argparse.ArgumentParser()
    ap.add_argument("pid", nargs="?")
    ap.add_argument("--tier", default=os.environ.get("VERIF_TIER") or "quick", choices=["quick", "thorough"])
    ap.add_argument("--replay")
    a = ap.parse_args()
    seed = int(os.environ.get("VERIF_SEED") or 0)
    if a.replay:
        rp = json.load(open(a.replay))
        mod = importlib.import_module("props." + rp["property"].lower())
        return mod.replay(rp)
    mod = importlib.import_module("props." + a.pid.lower())
    try:
        return mod.main(a.tier, seed)
    except Exception:
        # the harness itself failed (e.g. the implementation raised where the model says it cannot):
        # the property is no longer shown to hold
        import traceback
        from pathlib import Path
        tb = traceback.format_exc()
        d = Path(os.environ.get("VERIF_ROOT") or "/verif") / "replays"
        d.mkdir(exist_ok=True)
        path = d / f"{a.pid}_{a.tier}_harness_crash.json"
        import common
        what = "harness crashed while driving the implementation"
        if "BuildError" in tb:
            what = ("the model / oracle files this check evaluates no longer compile against the current source "
                    "(translator or build): " + "; ".join(f"{k}: {v}" for k, v in list(common.LAST_BUILD.get("broken", {}).items())[:3]))
        path.write_text(json.dumps(dict(property=a.pid, broken=what, traceback=tb), indent=1))
        sys.stderr.write(tb)
        print(f"VIOLATION property={a.pid} replay={path} no-failing-input-found")
        return 1


if __name__ == "__main__":
    sys.exit(main())
