(* Nested simulations under a schedule chosen by a strategy: the executable part of the model of
   Proofs/NScheduleP.v (there: the relation over ALL schedules of all levels, and the theorems).
   A tick of a level -- the master's or a nested scheduler's -- is run by Model/Ticker.v with the
   dispatched components answering one at a time in the order a strategy [pick] chooses; a device
   answers what its DeviceComponent computes, a system simulation answers with the outcome of a tick of
   its own level (same strategy, one unit of fuel less) in the state as it is when its turn comes; the
   pseudo components "external" / "expose" answer with the system's input changes / nothing.
   Definitions only. *)
From TV Require Import Base Model.Wiring Model.Ticker Model.Component Model.Sim Model.NSim Model.Interrupts.
Open Scope Z_scope.

Definition lcomps (l : level) : list comp := map fst (all_of l).

(* the callback of a component is recorded in the wakeup table of the level that ticked it *)
Definition wake_upd (s : sstate) (lv : positive) (x : comp) (ca : option Z) : sstate :=
  match ca with Some w => set_wake s lv (upd x w (wake_of s lv)) | None => s end.

(* what the "expose" pseudo component was handed: the output changes of the system *)
Definition exposed (tr : list ev) : values :=
  match find_dispatch tr exp_id with Some (Upd _ _ x) => x | _ => [] end.

Section NN.
Variable cfg : config.
Variable devf : devfun.

Definition nroots (s : sstate) (lv : positive) (time : Z) : list comp :=
  let l := level_of cfg lv in
  int_of s lv ++ map fst (filter (fun e : comp * Z => Z.leb (snd e) time) (wake_of s lv)) ++ [ext_id] ++
  (if negb (memb lv (s_ticked s)) then map fst (l_order l) ++ [exp_id] else []).

Definition nprologue (s : sstate) (lv : positive) (time : Z) : sstate :=
  log_tick (mark_ticked (set_int (set_wake s lv (filter (fun e : comp * Z => negb (Z.leb (snd e) time)) (wake_of s lv))) lv []) lv)
           lv time (nroots s lv time).

Definition inner_exec := positive -> Z -> values -> sstate -> option (sstate * values * option Z * list obs).

(* the component x of level lv handles the dispatch a in state s: new state, answer, observations *)
Definition comp_exec (inner : inner_exec) (lv : positive) (time : Z) (ext_chg : values) (a : action) (s : sstate)
  : option (sstate * changes * list obs) :=
  match a with
  | Skp _ _ => Some (s, [], [])
  | Upd x _ chg =>
      if Pos.eqb x ext_id then Some (s, ext_chg, [])
      else if Pos.eqb x exp_id then Some (s, [], [])
      else match lookup x (l_order (level_of cfg lv)) with
           | Some KDev => let '(s1, ch, ca, o) := dev_update devf s x time chg in Some (wake_upd s1 lv x ca, ch, [o])
           | Some (KSys lv') =>
               match inner lv' time chg s with
               | Some (s1, out, ca, ob) => Some (wake_upd s1 lv x ca, out, ob)
               | None => None
               end
           | None => None
           end
  end.

Fixpoint run_sched_n (pick : list (comp * bool) -> option comp) (inner : inner_exec) (lv : positive) (time : Z) (ext_chg : values)
         (conns : list conn) (comps : list comp) (fuel : nat) (st : tstate) (tr : list ev) (s : sstate) (ob : list obs)
  : option (tstate * list ev * sstate * list obs) :=
  match fuel with
  | O => None
  | S k =>
      match todo st with
      | [] => Some (st, tr, s, ob)
      | _ =>
          match pick (todo st) with
          | None => None
          | Some c =>
              if existsb (fun cd : comp * bool => Pos.eqb (fst cd) c && snd cd) (todo st) then
                match find_dispatch tr c with
                | None => None
                | Some a =>
                    match comp_exec inner lv time ext_chg a s with
                    | None => None
                    | Some (s1, ch, o) =>
                        match propagate conns comps st c time ch with
                        | POk st' acts _ => run_sched_n pick inner lv time ext_chg conns comps k st' (tr ++ EAnswer c ch :: map EDispatch acts) s1 (ob ++ o)
                        | PErr => None
                        end
                    end
                end
              else None
          end
      end
  end.

(* one tick of level lv: [steps] bounds the number of answers *)
Definition level_exec (pick : list (comp * bool) -> option comp) (inner : inner_exec) (steps : nat)
           (lv : positive) (time : Z) (roots : list comp) (ext_chg : values) (s0 : sstate)
  : option (list ev * sstate * list obs) :=
  let l := level_of cfg lv in
  match start_tick (l_conns l) time roots with
  | None => None
  | Some st0 =>
      match schedule (l_conns l) (lcomps l) st0 with
      | None => None
      | Some (st1, acts) =>
          match run_sched_n pick inner lv time ext_chg (l_conns l) (lcomps l) steps st1 (map EDispatch acts) s0 [] with
          | Some (_, tr, s', ob) => Some (tr, s', ob)
          | None => None
          end
      end
  end.

Fixpoint nt_exec (pick : list (comp * bool) -> option comp) (steps : nat) (f : nat) : inner_exec :=
  fun lv time chg s =>
  match f with
  | O => Some (s, [], None, [])
  | S f' =>
      match level_exec pick (nt_exec pick steps f') steps lv time (nroots s lv time) chg (nprologue s lv time) with
      | Some (tr, s', ob) => Some (s', exposed tr, min_wake (wake_of s' lv), ob)
      | None => None
      end
  end.

(* the master on scripts *)
Fixpoint nnrun_exec (pick : list (comp * bool) -> option comp) (steps f : nat) (script : list item) (s : sstate) (ob : list obs)
  : option (sstate * list obs) :=
  match script with
  | [] => Some (s, ob)
  | IStim c w :: r => nnrun_exec pick steps f r (stim s c w) ob
  | ITick :: r =>
      match first_wakeups (wake_of s top) with
      | None => nnrun_exec pick steps f r s ob
      | Some (when, roots) =>
          let s1 := set_wake s top (filter (fun e : comp * Z => negb (memb (fst e) roots)) (wake_of s top)) in
          match level_exec pick (nt_exec pick steps f) steps top when roots [] (log_tick s1 top when roots) with
          | Some (_, s2, o) => nnrun_exec pick steps f r s2 (ob ++ o)
          | None => None
          end
      end
  end.

Definition nnrun_from_start (pick : list (comp * bool) -> option comp) (steps f : nat) (initial : Z) (script : list item)
  : option (sstate * list obs) :=
  let roots := map fst (l_order (level_of cfg top)) in
  match level_exec pick (nt_exec pick steps f) steps top initial roots [] (log_tick (set_wake s_init top []) top initial roots) with
  | Some (_, s1, o1) => nnrun_exec pick steps f script s1 o1
  | None => None
  end.

(* the same with the stimuli (interrupts of top-level components) given by their time stamps and a horizon: the rule of
   Model/NSim.v [nsim_timed], i.e. of Model/Sim.v [master_loop] at speed 1 *)
Definition mtick_exec (pick : list (comp * bool) -> option comp) (steps f : nat) (s : sstate) (when : Z) (roots : list comp)
  : option (sstate * list obs) :=
  match level_exec pick (nt_exec pick steps f) steps top when roots [] (log_tick s top when roots) with
  | Some (_, s2, o) => Some (s2, o)
  | None => None
  end.

Fixpoint nnsim_timed (pick : list (comp * bool) -> option comp) (steps f n : nat) (stims : list (Z * comp)) (horizon now : Z)
                     (s : sstate) (ob : list obs) : option (sstate * list obs) :=
  match n with
  | O => Some (s, ob)
  | S k =>
      let next := first_wakeups (wake_of s top) in
      let tick_now :=
        match next with
        | Some (when, roots) =>
            if Z.leb when horizon then
              match mtick_exec pick steps f (set_wake s top (filter (fun e : comp * Z => negb (memb (fst e) roots)) (wake_of s top))) when roots with
              | Some (s2, o) => nnsim_timed pick steps f k stims horizon (Z.max when now) s2 (ob ++ o)
              | None => None
              end
            else Some (s, ob)
        | None => Some (s, ob)
        end in
      match stims with
      | (r, c) :: rest =>
          if match next with Some (when, _) => Z.ltb r when || Z.leb r now | None => true end then
            if Z.leb r horizon then nnsim_timed pick steps f k rest horizon (Z.max r now) (stim s c r) ob else tick_now
          else tick_now
      | [] => tick_now
      end
  end.

Definition nnsim_timed_from_start (pick : list (comp * bool) -> option comp) (steps f n : nat) (initial : Z) (stims : list (Z * comp)) (horizon : Z)
  : option (sstate * list obs) :=
  match mtick_exec pick steps f (set_wake s_init top []) initial (map fst (l_order (level_of cfg top))) with
  | Some (s1, o1) => nnsim_timed pick steps f n stims horizon initial s1 o1
  | None => None
  end.

(* ---------- interrupts of devices at any depth (Model/Interrupts.v): scripts of [xitem]s, and stimuli
   (stamp, device, its level, the enclosing system simulations outermost first) under the timing rule above *)
Fixpoint xnrun_exec (pick : list (comp * bool) -> option comp) (steps f : nat) (script : list xitem) (s : sstate) (ob : list obs)
  : option (sstate * list obs) :=
  match script with
  | [] => Some (s, ob)
  | XStim c lvc path w :: r => xnrun_exec pick steps f r (stim_at s c lvc path w) ob
  | XTick :: r =>
      match first_wakeups (wake_of s top) with
      | None => xnrun_exec pick steps f r s ob
      | Some (when, roots) =>
          match mtick_exec pick steps f (set_wake s top (filter (fun e : comp * Z => negb (memb (fst e) roots)) (wake_of s top))) when roots with
          | Some (s2, o) => xnrun_exec pick steps f r s2 (ob ++ o)
          | None => None
          end
      end
  end.

Definition xnrun_from_start (pick : list (comp * bool) -> option comp) (steps f : nat) (initial : Z) (script : list xitem)
  : option (sstate * list obs) :=
  match mtick_exec pick steps f (set_wake s_init top []) initial (map fst (l_order (level_of cfg top))) with
  | Some (s1, o1) => xnrun_exec pick steps f script s1 o1
  | None => None
  end.

Definition xstimulus := (Z * comp * positive * list (positive * comp))%type.

Fixpoint xnsim_timed (pick : list (comp * bool) -> option comp) (steps f n : nat) (stims : list xstimulus) (horizon now : Z)
                     (s : sstate) (ob : list obs) : option (sstate * list obs) :=
  match n with
  | O => Some (s, ob)
  | S k =>
      let next := first_wakeups (wake_of s top) in
      let tick_now :=
        match next with
        | Some (when, roots) =>
            if Z.leb when horizon then
              match mtick_exec pick steps f (set_wake s top (filter (fun e : comp * Z => negb (memb (fst e) roots)) (wake_of s top))) when roots with
              | Some (s2, o) => xnsim_timed pick steps f k stims horizon (Z.max when now) s2 (ob ++ o)
              | None => None
              end
            else Some (s, ob)
        | None => Some (s, ob)
        end in
      match stims with
      | (r, c, lvc, path) :: rest =>
          if match next with Some (when, _) => Z.ltb r when || Z.leb r now | None => true end then
            if Z.leb r horizon then xnsim_timed pick steps f k rest horizon (Z.max r now) (stim_at s c lvc path r) ob else tick_now
          else tick_now
      | [] => tick_now
      end
  end.

Definition xnsim_timed_from_start (pick : list (comp * bool) -> option comp) (steps f n : nat) (initial : Z) (stims : list xstimulus) (horizon : Z)
  : option (sstate * list obs) :=
  match mtick_exec pick steps f (set_wake s_init top []) initial (map fst (l_order (level_of cfg top))) with
  | Some (s1, o1) => xnsim_timed pick steps f n stims horizon initial s1 o1
  | None => None
  end.
End NN.
