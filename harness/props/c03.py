"""C03 -- devices see exactly the latest upstream values along the declared wiring.
(a) whole simulations (flat, nested to depth 3) compared with Model/Sim.v; Coq oracle latest_ok (81) on the flattened wiring;
(b) the step-exhaustive interrupt injection sweep of C07 (an interrupt of every device at every event-loop step, i.e. also
    while a tick -- of the master or of a system simulation -- is running), judged by the same oracle: nothing a tick has
    produced may be lost or left stale because an interrupt arrived in the middle of it."""
import slevel
import sprops
from common import run_shards
from props import c07

PID = "C03"


def inj_part(ck, tier, rng):
    icases, _ = c07.s_part(ck, tier, rng)
    iterms = [slevel.render_sim_case(c["cfg"], c["devs"], (1, 1), c.get("initial", 0), [], 1_300_000_003, c["run"]) for c in icases]
    ibad = run_shards(PID + "_i", sprops.HEADER, "sim_case", "oracle_c03", iterms, shard_size=60)
    ck.coverage.update(injection_sweep_runs=len(icases), injection_sweep_stale_or_lost=len(ibad))
    for i in sorted(ibad):
        c = icases[i]
        ck.report(sprops.REASONS[81] + "-after-a-mid-tick-interrupt",
                  f"interrupt of device c{c['device']} injected at loop step {c['step']} ({c['name']}): a later update is handed a value "
                  "which is not the latest one its source reported",
                  dict(kind="injection", initial=c.get("initial", 0), cfg={str(k): v for k, v in c["cfg"].items()}, devs={str(k): v for k, v in c["devs"].items()},
                       device=c["device"], step=c["step"], inj=c["inj"], codes=ibad[i],
                       updates=[(cc, t, sorted(i2.items())) for (cc, t, i2) in c["run"]["trace"]][-14:]))
        break


def main(tier, seed):
    return sprops.main_S(PID, tier, seed, {81}, "Props.C03",
                         ["Model/Sim.v", "Oracle/SimCheck.v", "Oracle/SimOracle.v", "Model/Wiring.v", "Model/Ticker.v", "Model/Component.v", "Proofs/WiringP.v", "Proofs/TickerP.v", "Proofs/SimP.v", "Proofs/FlattenP.v", "Proofs/NonInterfP.v", "Proofs/LatestP.v", "Model/SimTime.v", "Model/Inline.v", "Proofs/EqvP.v", "Proofs/WakeWfP.v", "Proofs/InlineP.v", "Proofs/InlineLoopP.v", "Proofs/InlineScopeP.v", "Proofs/InlineLatestP.v", "Proofs/FrameP.v", "Proofs/ExtentP.v", "Proofs/EqvCongP.v", "Proofs/ParDevP.v", "Proofs/AgreeP.v", "Proofs/FuelP.v", "Proofs/InlineAllP.v", "Proofs/InlineAllLatestP.v",
                          "Model/NSim.v", "Model/NNSim.v", "Proofs/Confluence3P.v", "Proofs/NScheduleP.v", "Proofs/NDetP.v", "Proofs/NDetScopeP.v", "Proofs/SimNTP.v", "Model/PyLib.v", "Gen/SourceFuns.v", "Proofs/GenDeviceInputsP.v", "Props/C03.v"],
                         "values along the wiring", "nested", extra=inj_part)


def replay(rp):
    if rp.get("kind") == "injection":
        cfg = {int(k): dict(order=[(c, kk) for c, kk in v["order"]], conns=[tuple(x) for x in v["conns"]]) for k, v in rp["cfg"].items()}
        devs = {int(k): tuple(v) for k, v in rp["devs"].items()}
        r = slevel.run_internal(cfg, devs, (1, 1), rp.get("initial", 0), [], 1_300_000_003, inject=(rp["step"], rp["device"]))
        bad = run_shards("replay", sprops.HEADER, "sim_case", "oracle_c03", [slevel.render_sim_case(cfg, devs, (1, 1), rp.get("initial", 0), [], 1_300_000_003, r)])
        print("interrupt of device", rp["device"], "injected at loop step", rp["step"])
        print("updates (device, time, inputs):", [(c, t, sorted(i.items())) for (c, t, i) in r["trace"]][-14:])
        print("codes:", bad.get(0, []))
        return 1 if bad else 0
    return sprops.replay_S(rp)
