(* The decision procedure [shape_of] is sound for [shape], and the table-driven devices the harness
   uses meet the device conditions of the inlining theorem. *)
From Coq Require Import Permutation.
From TV Require Import Base Model.Wiring Model.Ticker Model.Component Model.Sim Model.SimTime Model.Inline
  Oracle.SimCheck Proofs.WiringP Proofs.EqvP Proofs.InlineP Proofs.InlineLoopP.
Open Scope Z_scope.

Lemma all_dev_map l : forallb is_dev l = true -> l = map dv (map fst l).
Proof.
  induction l as [|[x k] r IH]; intros H; [reflexivity|]. cbn [forallb] in H. apply andb_true_iff in H. destruct H as [H1 H2].
  destruct k as [|lv]; [|discriminate]. cbn [map fst]. unfold dv at 1. f_equal. apply IH. exact H2.
Qed.

Lemma split_sys_sound l pre c lv post : split_sys l = Some (pre, c, lv, post) -> l = map dv pre ++ (c, KSys lv) :: map dv post.
Proof.
  revert pre. induction l as [|[x k] r IH]; intros pre H; [discriminate|]. cbn [split_sys] in H. destruct k as [|lv'].
  - destruct (split_sys r) as [[[[pre' c'] lv''] post']|]; [|discriminate]. inversion H; subst. cbn [map app]. unfold dv at 1. f_equal.
    apply IH. reflexivity.
  - destruct (forallb is_dev r) eqn:E; [|discriminate]. inversion H; subst. cbn [map app]. f_equal. apply all_dev_map. exact E.
Qed.

Lemma single_sourceb_sound cs : single_sourceb cs = true -> single_source cs.
Proof.
  intros H oc op oc' op' ic ip H1 H2. unfold single_sourceb in H.
  pose proof (proj1 (forallb_forall _ cs) H _ H1) as Ha. cbv beta in Ha.
  pose proof (proj1 (forallb_forall _ cs) Ha _ H2) as Hb. cbv beta iota in Hb.
  rewrite !Pos.eqb_refl in Hb. cbn [andb] in Hb. apply andb_true_iff in Hb. destruct Hb as [E1 E2].
  apply Pos.eqb_eq in E1. apply Pos.eqb_eq in E2. split; assumption.
Qed.

Theorem shape_of_sound cfg c lvc pre inn post :
  shape_of cfg = Some (c, lvc, pre, inn, post) -> shape cfg c lvc pre inn post.
Proof.
  unfold shape_of. destruct (split_sys (l_order (level_of cfg top))) as [[[[pre' c'] lv'] post']|] eqn:Es; [|discriminate].
  match goal with |- (if ?b then _ else _) = _ -> _ => destruct b eqn:Eb; [|discriminate] end.
  intros H. inversion H; subst. clear H.
  repeat (apply andb_true_iff in Eb; let H := fresh "K" in destruct Eb as [Eb H]).
  constructor.
  - apply split_sys_sound. exact Es.
  - apply all_dev_map. exact Eb.
  - apply nodupb_NoDup. exact K4.
  - intros E. rewrite E, Pos.eqb_refl in K3. discriminate.
  - apply single_sourceb_sound. exact K2.
  - apply single_sourceb_sound. exact K1.
  - intros u p y q Hin. pose proof (proj1 (forallb_forall _ _) K0 _ Hin) as Hk. cbv beta iota in Hk.
    apply andb_true_iff in Hk. destruct Hk as [Hk Hn]. apply andb_true_iff in Hk. destruct Hk as [Hu Hy].
    split; [apply memb_In; exact Hu|]. split; [apply memb_In; exact Hy|]. intros [E1 E2]. subst. rewrite !Pos.eqb_refl in Hn. discriminate.
  - intros u p e q Hin. pose proof (proj1 (forallb_forall _ _) K _ Hin) as Hk. cbv beta iota in Hk.
    apply andb_true_iff in Hk. destruct Hk as [Hk Hn]. apply andb_true_iff in Hk. destruct Hk as [Hu Hy].
    split; [apply memb_In; exact Hu|]. split; [apply memb_In; exact Hy|]. intros [E1 E2]. subst. rewrite !Pos.eqb_refl in Hn. discriminate.
Qed.

(* ---------- the harness's devices *)
Lemma eqv_perm (a b : values) : NoDup (keys a) -> NoDup (keys b) -> eqv a b -> Permutation a b.
Proof.
  intros Ha Hb H. apply NoDup_Permutation.
  - unfold keys in Ha. apply NoDup_map_inv in Ha. exact Ha.
  - unfold keys in Hb. apply NoDup_map_inv in Hb. exact Hb.
  - intros [k v]. rewrite (lookup_In_iff a k v Ha), (lookup_In_iff b k v Hb), (H k). reflexivity.
Qed.

Lemma fold_comm_perm (f : Z -> port * Z -> Z) l l' :
  (forall x a b, f (f x a) b = f (f x b) a) -> Permutation l l' ->
  forall x, fold_left f l x = fold_left f l' x.
Proof.
  intros Hf. induction 1 as [|e l l' _ IH|e e' l|l l' l'' _ IH1 _ IH2]; intros x; cbn [fold_left].
  - reflexivity.
  - apply IH.
  - rewrite Hf. reflexivity.
  - rewrite IH1. apply IH2.
Qed.

Lemma table_dev_ext tab c n t i i' : NoDup (keys i) -> NoDup (keys i') -> eqv i i' -> table_dev tab c n t i = table_dev tab c n t i'.
Proof.
  intros Hi Hi' H. unfold table_dev. destruct (lookup c tab) as [[[seed period] policy]|]; [|reflexivity].
  assert (E : fold_left (fun acc (kv : port * Z) => acc + Z.pos (fst kv) * 31 + snd kv) i 0 =
              fold_left (fun acc (kv : port * Z) => acc + Z.pos (fst kv) * 31 + snd kv) i' 0).
  { apply fold_comm_perm; [intros; lia | apply eqv_perm; assumption]. }
  rewrite E. reflexivity.
Qed.

Lemma table_dev_nd tab c n t i : NoDup (keys (fst (table_dev tab c n t i))).
Proof.
  unfold table_dev. destruct (lookup c tab) as [[[seed period] policy]|]; [|constructor]. cbn [fst flat_map].
  destruct (hsh seed (Z.pos c) n (Z.pos 1) mod 8 =? 0); [|destruct (hsh seed (Z.pos c) n (Z.pos 1) mod 8 <=? 3)];
  (destruct (hsh seed (Z.pos c) n (Z.pos 2) mod 8 =? 0); [|destruct (hsh seed (Z.pos c) n (Z.pos 2) mod 8 <=? 3)]);
  cbn [app keys map fst]; repeat constructor; cbn [In]; intuition discriminate.
Qed.

(* the table devices never ask to be called back in the past when their periods are not negative *)
Definition periods_ok (tab : dev_table) : bool := forallb (fun e : comp * (Z * Z * Z) => Z.leb 0 (snd (fst (snd e)))) tab.

Lemma lookup_in_tab (tab : dev_table) c x : lookup c tab = Some x -> In (c, x) tab.
Proof.
  induction tab as [|[k v] r IH]; [discriminate|]. cbn [lookup]. destruct (Pos.eqb_spec c k) as [E|_].
  - intros H. inversion H; subst. left. reflexivity.
  - intros H. right. apply IH. exact H.
Qed.

Lemma table_dev_well tab : periods_ok tab = true -> forall c n t i w, snd (table_dev tab c n t i) = Some w -> t <= w.
Proof.
  intros Hp c n t i w. unfold table_dev. destruct (lookup c tab) as [[[seed period] policy]|] eqn:El; [|discriminate].
  apply lookup_in_tab in El. pose proof (proj1 (forallb_forall _ tab) Hp _ El) as Hq. cbn [snd fst] in Hq. apply Z.leb_le in Hq.
  cbn [snd].
  assert (Hsome : forall x, Some x = Some w -> t <= x -> t <= w) by (intros x E Hx; injection E as E; rewrite <- E; exact Hx).
  destruct (policy =? 1); [intros H; apply (Hsome _ H); lia|].
  destruct (policy =? 2); [destruct (n =? 1); intros H; [apply (Hsome _ H); lia | discriminate]|].
  destruct (policy =? 3).
  { destruct (hsh seed (Z.pos c) n 7 mod 5 <? 3); intros H; [|discriminate]. apply (Hsome _ H).
    assert (0 <= hsh seed (Z.pos c) n 7 mod 3) by (apply Z.mod_pos_bound; lia).
    rewrite <- (Z.add_0_r t) at 1. apply Z.add_le_mono_l. apply Z.mul_nonneg_nonneg; lia. }
  destruct (policy =? 4); [destruct (n mod 2 =? 1); intros H; apply (Hsome _ H); lia|]. discriminate.
Qed.
