(* The vocabulary the function translator (harness/gen_funs.py) emits: the Python built-ins and dict / list / set
   operations that occur in the translated tickit functions, on the dictionaries of Base.v (insertion-ordered
   association lists with unique keys; [upd] is d[k] = v, [merge] is {**a, **b}, [lookup] is d[k] with None for
   KeyError).  Definitions only. *)
From TV Require Import Base.
Open Scope Z_scope.

(* `not x` for a dict / list / set *)
Definition py_not {A} (l : list A) : bool := match l with [] => true | _ => false end.
(* min(...) / max(...) of a non-empty iterable of integers (ValueError on an empty one is not modelled: every
   translated call is guarded by an emptiness test) *)
Definition py_min (l : list Z) : Z := match l with [] => 0 | x :: r => fold_left Z.min r x end.
Definition py_max (l : list Z) : Z := match l with [] => 0 | x :: r => fold_left Z.max r x end.
Definition py_values {A} (d : list (positive * A)) : list A := map snd d.
(* k in d / k in s *)
Definition py_in_dict {A} (k : positive) (d : list (positive * A)) : bool :=
  match lookup k d with Some _ => true | None => false end.
Definition py_in_set (k : positive) (s : list positive) : bool := memb k s.
(* d.get(k, default) *)
Definition py_get {A} (d : list (positive * A)) (k : positive) (default : A) : A :=
  match lookup k d with Some v => v | None => default end.
(* {f(x) for x in it if c(x)} over an iterable without repetitions, [f(x) for ...], {k: v for k, v in d.items() if c} *)
Definition py_comp {A B} (f : A -> B) (c : A -> bool) (it : list A) : list B := map f (filter c it).
(* a == b where one side is the result of d[k] (None = KeyError never reached: the translated uses are guarded) *)
Definition py_eq_opt (x y : option Z) : bool := opt_eqb Z.eqb x y.
