(* C13 -- start-up order does not matter.
   (a) the bus: a participant that subscribes late is replayed the whole backlog of its topics,
       exactly once and in order, and from then on receives everything (Proofs/BusP.v);
   (b) replay safety: when the backlog is replayed inside subscribe(), everything the handler uses
       already exists -- checked against the start-up sequences extracted from the current source;
   (c) an interrupt published before the scheduler came up is a wakeup at the initial time
       (Model/Sim.v [simulate_full]'s pre-wakeups), compared with the real schedulers for every
       start-delay vector by the correspondence run.  Kafka's own replay is the broker's and is
       not modelled.  Property theorems only. *)
From TV Require Import Base Gen.SourceConsts Model.Bus Model.Startup Proofs.BusP.

(* (a) whatever was published before, subscribing delivers exactly the topic's log, once, in
   order; nothing of other topics; the invariant then keeps holding for every later message *)
Theorem C13_replay_complete :
  forall (h : handler) (N : positive) (fuel : nat),
    wf_handler h N -> (Pos.to_nat N < fuel)%nat ->
    forall ts b c, Inv_all b -> NoDup ts -> (forall t, In t ts -> ~ In c (subs_of b t)) ->
      let b' := subscribe h fuel b c ts in
      forall t, In t ts -> recv_on b' c t = log_of b' t.
Proof.
  intros h N fuel Hwf Hf ts b c Hinv Hnd Hnot b' t Ht.
  destruct (subscribe_spec h N Hwf fuel Hf ts b c Hinv Hnd Hnot) as [Hi Hs].
  destruct (Hi t) as [_ Hc]. apply Hc. apply Hs. left. exact Ht.
Qed.

(* (b) with the start-up order of the current source, the handler of every participant finds
   what it needs when the backlog is replayed *)
Theorem C13_replay_safe :
  replay_safe component_needs component_start = true /\
  replay_safe scheduler_needs scheduler_start = true /\
  replay_safe master_needs master_start = true.
Proof. vm_compute. repeat split; reflexivity. Qed.

(* the pinned tree's order was unsafe *)
Theorem C13_pinned_refuted :
  replay_safe component_needs component_start_pinned = false /\
  replay_safe master_needs master_start_pinned = false.
Proof. vm_compute. split; reflexivity. Qed.
