(* The deterministic tick of Model/Sim.v (components folded in topological order) seen as a trace of
   the ticker: it satisfies everything the confluence argument needs ([WT], Proofs/Confluence2P.v),
   so every complete run of the ticker -- any answer order -- updates the same components with
   the same changes as Model/Sim.v does. *)
From TV Require Import Base Model.Wiring Model.Ticker Model.Component Model.Sim Model.Inline Model.NSim
  Proofs.WiringP Proofs.TickerP Proofs.SimP Proofs.NonInterfP Proofs.LatestP Proofs.ExtentP Proofs.EqvP Proofs.ParDevP Proofs.InlineP
  Proofs.InlineLatestP Proofs.Confluence2P Proofs.ScheduleP.
Open Scope Z_scope.

Section ST.
Variable conns : list conn.
Variable devf : devfun.
Hypothesis Hdev_nd : forall c n t i, NoDup (keys (fst (devf c n t i))).
Hypothesis Hss : single_source conns.
Variable t : Z.
Variable roots : list comp.
Variable ext : list comp.            (* the participants of the tick *)
Hypothesis Hext : forall c, In c ext <-> exists r, In r roots /\ reach conns r c.
Variable s0 : sstate.                (* the state before the tick *)
Variable inner : positive -> Z -> values -> sstate -> sstate * values * option Z * list obs.

Notation step := (step' devf inner top conns t roots []).

(* the trace the fold over [l] writes, starting from the accumulator [a] *)
Fixpoint sim_tr (l : list comp) (a : core) : list ev :=
  match l with
  | [] => []
  | c :: r =>
      let inp := get_d c (co_in a) in
      (if memb c ext then
         if nonempty inp || memb c roots then [EDispatch (Upd c t inp); EAnswer c (dev_of devf (co_s a) t c inp)]
         else [EDispatch (Skp c t); EAnswer c []]
       else []) ++ sim_tr r (step a (dv c))
  end.

Lemma dev_of_local s1 s2 c x : dcs s1 c = dcs s2 c -> lookup c (s_n s1) = lookup c (s_n s2) -> dev_of devf s1 t c x = dev_of devf s2 t c x.
Proof.
  intros H1 H2. unfold dev_of. pose proof (dev_update_view devf s1 c t x) as V1. pose proof (dev_update_view devf s2 c t x) as V2.
  destruct (dev_update devf s1 c t x) as [[[a1 ch1] ca1] o1]. destruct (dev_update devf s2 c t x) as [[[a2 ch2] ca2] o2].
  cbv zeta in V1, V2. destruct V1 as [_ [_ [E1 _]]]. destruct V2 as [_ [_ [E2 _]]]. cbn [fst snd]. rewrite E1, E2, H1, H2. reflexivity.
Qed.

(* after the components of [done] *)
Record TI (done : list comp) (a : core) (tr : list ev) : Prop := {
  ti_in : forall c q v, lookup2r (co_in a) c q = Some v <-> spec_inputs conns tr c q v;
  ti_ok : in_ok (co_in a);
  ti_ans : forall u, answered tr u <-> In u done /\ In u ext;
  ti_disp : forall a0, In (EDispatch a0) tr -> In (act_comp a0) done;
  ti_gate : gate_from conns ext [] tr;
  ti_dok : disp_ok conns t roots [] tr;
  ti_nd : forall a0, In (EDispatch a0) tr -> nd_action a0;
  ti_by : answers_by (dev_of devf s0 t) tr;
  ti_eff : fold_left (apply_upd devf t) (upds tr) (s0, []) = (co_s a, co_obs a);
  ti_view : forall c, ~ In c done -> dcs (co_s a) c = dcs s0 c /\ lookup c (s_n (co_s a)) = lookup c (s_n s0);
  ti_da : forall u, dispatched tr u <-> answered tr u;
  ti_dnd : NoDup (disp_comps tr)
}.

Lemma da_block tr c (a0 : action) ch : act_comp a0 = c ->
  (forall u, dispatched tr u <-> answered tr u) -> forall u, dispatched (tr ++ [EDispatch a0; EAnswer c ch]) u <-> answered (tr ++ [EDispatch a0; EAnswer c ch]) u.
Proof.
  intros Ha H u. rewrite dispatched_app, answered_app, (H u). split; (intros [Hu|Hu]; [left; exact Hu | right]).
  - destruct Hu as [a1 [[E|[E|[]]] Hc]]; [|discriminate]. inversion E; subst a1. exists ch. right. left. rewrite <- Hc, Ha. reflexivity.
  - destruct Hu as [ch' [E|[E|[]]]]; [discriminate|]. inversion E; subst. exists a0. split; [left; reflexivity | reflexivity].
Qed.

Lemma dnd_block tr c (a0 : action) ch : act_comp a0 = c -> ~ In c (disp_comps tr) ->
  NoDup (disp_comps tr) -> NoDup (disp_comps (tr ++ [EDispatch a0; EAnswer c ch])).
Proof.
  intros Ha Hn H. rewrite disp_comps_app. cbn [disp_comps flat_map app]. rewrite Ha.
  apply NoDup_app_disj; [exact H | constructor; [intros [] | constructor] | intros x Hx [E|[]]; subst x; exact (Hn Hx)].
Qed.

Lemma upds_app tr1 tr2 : upds (tr1 ++ tr2) = upds tr1 ++ upds tr2.
Proof. unfold upds. apply flat_map_app. Qed.

Lemma spec_inputs_one c0 ch c q v :
  spec_inputs conns [EAnswer c0 ch] c q v <-> exists p, In (c0, p, c, q) conns /\ lookup p ch = Some v.
Proof.
  unfold spec_inputs. split.
  - intros [u [p [ch' [[E|[]] [Hk Hl]]]]]. inversion E; subst. exists p. split; assumption.
  - intros [p [Hk Hl]]. exists c0, p, ch. split; [left; reflexivity | split; assumption].
Qed.

Lemma spec_inputs_dispatch1 a0 c q v : ~ spec_inputs conns [EDispatch a0] c q v.
Proof. intros [u [p [ch [[E|[]] _]]]]. discriminate. Qed.

Lemma ti_step done a tr c :
  TI done a tr -> ~ In c done -> c <> ext_id -> c <> exp_id ->
  (forall u p q, In (u, p, c, q) conns -> In u done) ->
  let inp := get_d c (co_in a) in
  let new := if memb c ext then
               if nonempty inp || memb c roots then [EDispatch (Upd c t inp); EAnswer c (dev_of devf (co_s a) t c inp)]
               else [EDispatch (Skp c t); EAnswer c []]
             else [] in
  TI (done ++ [c]) (step a (dv c)) (tr ++ new).
Proof.
  intros HT Hc He Hx Hsrc inp new.
  destruct HT as [Jin Jok Jans Jdisp Jgate Jdok Jnd Jby Jeff Jview Jda Jdnd].
  assert (Hcd : ~ In c (disp_comps tr)) by (intros H; apply Hc; apply dispatched_In in H; destruct H as [a1 [H1 H2]]; rewrite <- H2; apply Jdisp; exact H1).
  assert (Hinp_nd : NoDup (keys inp)) by (apply Jok).
  assert (Hinp_spec : forall q v, lookup q inp = Some v <-> spec_inputs conns tr c q v).
  { intros q v. unfold inp. rewrite <- lookup2r_get_d. apply Jin. }
  assert (Hgate_c : forall u, In u (preds conns c) -> In u ext -> In u (rev (ans_comps tr) ++ [])).
  { intros u Hu Hue. rewrite app_nil_r, <- in_rev. apply answered_In. apply Jans. split; [|exact Hue].
    apply preds_In in Hu. destruct Hu as [[[[u' p] c'] q] [Hk [E1 E2]]]. cbn in E1, E2. subst c' u'. apply (Hsrc u p q Hk). }
  assert (Hdone_app : forall x, In x done -> In x (done ++ [c])) by (intros x Hx0; apply in_app_iff; left; exact Hx0).
  (* a component outside the tick's extent has nothing pending and is no root *)
  assert (Hout : memb c ext = false -> nonempty inp || memb c roots = false).
  { intros Hm. apply memb_false in Hm. apply orb_false_iff. split.
    - destruct inp as [|[q v] r] eqn:Ei; [reflexivity|]. exfalso.
      assert (Hs : spec_inputs conns tr c q v) by (apply Hinp_spec; cbn; rewrite Pos.eqb_refl; reflexivity).
      destruct Hs as [u [p [ch [Hin [Hk _]]]]]. assert (Hu : In u ext) by (apply Jans; exists ch; exact Hin).
      apply Hext in Hu. destruct Hu as [r0 [Hr0 Hreach]]. apply Hm. apply Hext. exists r0. split; [exact Hr0|].
      apply (reach_step conns r0 u (u, p, c, q) Hreach Hk). reflexivity.
    - apply memb_false. intros Hr. apply Hm. apply Hext. exists c. split; [exact Hr | apply reach_refl]. }
  destruct (nonempty inp || memb c roots) eqn:Eupd.
  - (* updated: it is a participant *)
    assert (Hm : memb c ext = true) by (destruct (memb c ext) eqn:Em; [reflexivity | specialize (Hout eq_refl); discriminate]).
    unfold new. rewrite Hm.
    assert (Est : step a (dv c) = let '(s1, ch, ca, o) := dev_update devf (co_s a) c t inp in
                  {| co_s := match ca with Some w => set_wake s1 top (upd c w (wake_of s1 top)) | None => s1 end;
                     co_in := accumulate (co_in a) (route conns c ch); co_out := co_out a; co_obs := co_obs a ++ [o] |}).
    { unfold step', dv. cbn [fst snd]. fold inp. rewrite Eupd.
      destruct (Pos.eqb_spec c ext_id); [contradiction|]. destruct (Pos.eqb_spec c exp_id); [contradiction|].
      destruct (dev_update devf (co_s a) c t inp) as [[[s1 ch] ca] o]. reflexivity. }
    assert (Ech : dev_of devf (co_s a) t c inp = snd (fst (fst (dev_update devf (co_s a) c t inp)))) by reflexivity.
    pose proof (dev_update_view devf (co_s a) c t inp) as V.
    assert (Eap : apply_upd devf t (co_s a, co_obs a) (c, inp) =
                  let '(s1, ch, ca, o) := dev_update devf (co_s a) c t inp in
                  (match ca with Some w => set_wake s1 top (upd c w (wake_of s1 top)) | None => s1 end, co_obs a ++ [o])) by reflexivity.
    destruct (dev_update devf (co_s a) c t inp) as [[[s1 ch] ca] o]. cbn [fst snd] in Ech. cbv zeta in V. rewrite Est. clear Est.
    destruct V as [V1 [V2 [V3 [_ [_ [V6 _]]]]]].
    assert (Hch_nd : NoDup (keys ch)) by (rewrite V3; unfold diff_outputs; apply NoDup_keys_filter; apply Hdev_nd).
    rewrite Ech.
    assert (Hroute : forall x q v, lookup2r (route conns c ch) x q = Some v <-> exists p, lookup p ch = Some v /\ In (c, p, x, q) conns)
      by (intros; apply route_exact; assumption).
    constructor; cbn [co_s co_in co_obs].
    + intros x q v. rewrite accumulate_lookup by apply route_WFd.
      rewrite spec_inputs_app. replace [EDispatch (Upd c t inp); EAnswer c ch] with ([EDispatch (Upd c t inp)] ++ [EAnswer c ch]) by reflexivity.
      rewrite spec_inputs_app, spec_inputs_one. split.
      * destruct (lookup2r (route conns c ch) x q) as [v'|] eqn:Er.
        -- intros E. inversion E; subst v'. right. right. apply Hroute in Er. destruct Er as [p [Hl Hk]]. exists p. split; assumption.
        -- intros E. left. apply Jin. exact E.
      * intros [Hs|[Hs|[p [Hk Hl]]]].
        -- destruct (lookup2r (route conns c ch) x q) as [v'|] eqn:Er; [|apply Jin; exact Hs]. exfalso.
           apply Hroute in Er. destruct Er as [p' [_ Hk']]. destruct Hs as [u [p [ch' [Hin [Hk _]]]]].
           destruct (Hss u p c p' x q Hk Hk') as [Eu _]. subst u. apply Hc. apply Jans. exists ch'. exact Hin.
        -- exfalso. eapply spec_inputs_dispatch1. exact Hs.
        -- assert (Er : lookup2r (route conns c ch) x q = Some v) by (apply Hroute; exists p; split; assumption). rewrite Er. reflexivity.
    + apply in_ok_accumulate. exact Jok.
    + intros u. rewrite answered_app. split.
      * intros [Hu|Hu]; [apply Jans in Hu; destruct Hu as [H1 H2]; split; [apply Hdone_app; exact H1 | exact H2]|].
        destruct Hu as [ch' [E|[E|[]]]]; [discriminate|]. inversion E; subst. split; [apply in_app_iff; right; left; reflexivity | apply memb_In; exact Hm].
      * intros [Hu Hue]. apply in_app_iff in Hu. destruct Hu as [Hu|[E|[]]]; [left; apply Jans; split; assumption|].
        subst u. right. exists ch. right. left. reflexivity.
    + intros a0 Hi. apply in_app_iff in Hi. destruct Hi as [Hi|[E|[E|[]]]]; [apply Hdone_app; apply Jdisp; exact Hi | | discriminate].
      inversion E; subst a0. apply in_app_iff. right. left. reflexivity.
    + apply gate_from_app. split; [exact Jgate|]. cbn [gate_from act_comp]. split; [exact Hgate_c | exact I].
    + apply disp_ok_app. split; [exact Jdok|]. cbn [disp_ok app]. split; [|exact I].
      split; [reflexivity|]. split; [exact Hinp_spec|].
      apply orb_true_iff in Eupd. destruct Eupd as [E|E]; [right; destruct inp; [discriminate | discriminate] | left; apply memb_In; exact E].
    + intros a0 Hi. apply in_app_iff in Hi. destruct Hi as [Hi|[E|[E|[]]]]; [apply Jnd; exact Hi | | discriminate]. inversion E; subst a0. exact Hinp_nd.
    + intros u chu Hi. apply in_app_iff in Hi. destruct Hi as [Hi|[E|[E|[]]]]; [|discriminate|].
      * destruct (Jby u chu Hi) as [a0 [H1 [H2 H3]]]. exists a0. split; [apply in_app_iff; left; exact H1 | split; assumption].
      * inversion E; subst u chu. exists (Upd c t inp). split; [apply in_app_iff; right; left; reflexivity|]. split; [reflexivity|].
        cbn [resp]. rewrite <- Ech. destruct (Jview c Hc) as [W1 W2]. apply dev_of_local; assumption.
    + rewrite upds_app, fold_left_app, Jeff. cbn [upds flat_map app fold_left]. exact Eap.
    + intros x Hx0. assert (Hxd : ~ In x done) by (intros H; apply Hx0; apply Hdone_app; exact H).
      assert (Hne : x <> c) by (intros E; apply Hx0; subst x; apply in_app_iff; right; left; reflexivity).
      destruct (V6 x Hne) as [W1 W2]. destruct (Jview x Hxd) as [U1 U2].
      split; [destruct ca; cbn; unfold dcs in *; cbn [s_dc set_wake]; rewrite <- U1; exact W1 | destruct ca; cbn [s_n set_wake]; rewrite <- U2; exact W2].
    + apply da_block; [reflexivity | exact Jda].
    + apply dnd_block; [reflexivity | exact Hcd | exact Jdnd].
  - (* not updated: the fold leaves everything as it is *)
    assert (Est : step a (dv c) = a) by (unfold step', dv; cbn [fst snd]; fold inp; rewrite Eupd; reflexivity).
    rewrite Est. unfold new. destruct (memb c ext) eqn:Hm.
    + apply orb_false_iff in Eupd. destruct Eupd as [Einp Eroot].
      assert (Ei : inp = []) by (destruct inp; [reflexivity | discriminate]).
      assert (Hnone : forall q v, ~ spec_inputs conns tr c q v) by (intros q v Hs; apply Hinp_spec in Hs; rewrite Ei in Hs; discriminate).
      constructor.
      * intros x q v. rewrite spec_inputs_app. replace [EDispatch (Skp c t); EAnswer c []] with ([EDispatch (Skp c t)] ++ [EAnswer c []]) by reflexivity.
        rewrite spec_inputs_app, spec_inputs_one, Jin. split; [auto|].
        intros [H|[H|[p [_ H]]]]; [exact H | exfalso; eapply spec_inputs_dispatch1; exact H | discriminate].
      * exact Jok.
      * intros u. rewrite answered_app. split.
        -- intros [Hu|Hu]; [apply Jans in Hu; destruct Hu as [H1 H2]; split; [apply Hdone_app; exact H1 | exact H2]|].
           destruct Hu as [ch' [E|[E|[]]]]; [discriminate|]. inversion E; subst. split; [apply in_app_iff; right; left; reflexivity | apply memb_In; exact Hm].
        -- intros [Hu Hue]. apply in_app_iff in Hu. destruct Hu as [Hu|[E|[]]]; [left; apply Jans; split; assumption|].
           subst u. right. exists []. right. left. reflexivity.
      * intros a0 Hi. apply in_app_iff in Hi. destruct Hi as [Hi|[E|[E|[]]]]; [apply Hdone_app; apply Jdisp; exact Hi | | discriminate].
        inversion E; subst a0. apply in_app_iff. right. left. reflexivity.
      * apply gate_from_app. split; [exact Jgate|]. cbn [gate_from act_comp]. split; [exact Hgate_c | exact I].
      * apply disp_ok_app. split; [exact Jdok|]. cbn [disp_ok app]. split; [|exact I].
        split; [reflexivity|]. split; [apply memb_false; exact Eroot | exact Hnone].
      * intros a0 Hi. apply in_app_iff in Hi. destruct Hi as [Hi|[E|[E|[]]]]; [apply Jnd; exact Hi | | discriminate]. inversion E; subst a0. exact I.
      * intros u chu Hi. apply in_app_iff in Hi. destruct Hi as [Hi|[E|[E|[]]]]; [|discriminate|].
        -- destruct (Jby u chu Hi) as [a0 [H1 [H2 H3]]]. exists a0. split; [apply in_app_iff; left; exact H1 | split; assumption].
        -- inversion E; subst u chu. exists (Skp c t). split; [apply in_app_iff; right; left; reflexivity|]. split; reflexivity.
      * rewrite upds_app. cbn [upds flat_map app]. rewrite app_nil_r. exact Jeff.
      * intros x Hx0. apply Jview. intros H. apply Hx0. apply Hdone_app. exact H.
      * apply da_block; [reflexivity | exact Jda].
      * apply dnd_block; [reflexivity | exact Hcd | exact Jdnd].
    + rewrite app_nil_r. constructor; try assumption.
      * intros u. rewrite Jans. split; [intros [H1 H2]; split; [apply Hdone_app; exact H1 | exact H2]|].
        intros [Hu Hue]. split; [|exact Hue]. apply in_app_iff in Hu. destruct Hu as [Hu|[E|[]]]; [exact Hu|].
        subst u. apply memb_false in Hm. contradiction.
      * intros a0 Hi. apply Hdone_app. apply Jdisp. exact Hi.
      * intros x Hx0. apply Jview. intros H. apply Hx0. apply Hdone_app. exact H.
Qed.

(* the components in a topological order of the wiring *)
Variable order : list comp.
Hypothesis Hnodup : NoDup order.
Hypothesis Htopo : forall l1 c l2, order = l1 ++ c :: l2 -> forall u p q, In (u, p, c, q) conns -> In u l1.
Hypothesis Hreal : forall c, In c order -> c <> ext_id /\ c <> exp_id.

Lemma ti_fold : forall l2 l1 a tr, order = l1 ++ l2 -> TI l1 a tr ->
  TI order (fold_left step (map dv l2) a) (tr ++ sim_tr l2 a).
Proof.
  induction l2 as [|c r IH]; intros l1 a tr E HT.
  - cbn [map fold_left sim_tr]. rewrite !app_nil_r in *. subst l1. exact HT.
  - cbn [map fold_left sim_tr]. rewrite app_assoc. apply (IH (l1 ++ [c])); [rewrite <- app_assoc; exact E|].
    assert (Hc : In c order) by (rewrite E; apply in_app_iff; right; left; reflexivity).
    destruct (Hreal c Hc) as [He Hx].
    apply ti_step; try assumption.
    + assert (Hnd := Hnodup). rewrite E in Hnd. apply NoDup_remove_2 in Hnd. intros H. apply Hnd. apply in_app_iff. left. exact H.
    + intros u p q Hk. apply (Htopo l1 c r E u p q Hk).
Qed.

Definition a_init : core := {| co_s := s0; co_in := []; co_out := []; co_obs := [] |}.

Lemma ti_init : TI [] a_init [].
Proof.
  constructor; cbn [a_init co_s co_in co_obs].
  - intros c q v. split; [discriminate | intros [u [p [ch [[] _]]]]].
  - intros c. cbn. constructor.
  - intros u. split; [intros [ch []] | intros [[] _]].
  - intros a0 [].
  - exact I.
  - exact I.
  - intros a0 [].
  - intros c ch [].
  - reflexivity.
  - intros c _. split; reflexivity.
  - intros u. split; [intros [a1 [[] _]] | intros [ch []]].
  - constructor.
Qed.

Definition sim_trace : list ev := sim_tr order a_init.
Definition a_final : core := fold_left step (map dv order) a_init.

Lemma sim_TI : TI order a_final sim_trace.
Proof. apply (ti_fold order [] a_init [] eq_refl ti_init). Qed.

Theorem sim_trace_WT : WT conns t roots ext (dev_of devf s0 t) sim_trace.
Proof.
  destruct sim_TI as [Jin Jok Jans Jdisp Jgate Jdok Jnd Jby Jeff Jview Jda Jdnd]. constructor; try assumption.
  intros x Hx. apply Jans in Hx. apply Hx.
Qed.

Lemma sim_trace_dispatched c : dispatched sim_trace c <-> In c order /\ In c ext.
Proof. destruct sim_TI as [_ _ Jans _ _ _ _ _ _ _ Jda _]. rewrite Jda. apply Jans. Qed.

Lemma sim_trace_effect : fold_left (apply_upd devf t) (upds sim_trace) (s0, []) = (co_s a_final, co_obs a_final).
Proof. exact (ti_eff _ _ _ sim_TI). Qed.

Lemma sim_trace_nodup : NoDup (keys (upds sim_trace)).
Proof. apply upds_nodup. exact (ti_dnd _ _ _ sim_TI). Qed.
End ST.

(* ---------- every schedule of a tick agrees with Model/Sim.v *)
Section Refine.
Variable cfg : config.
Variable devf : devfun.
Hypothesis Hdev_nd : forall c n t i, NoDup (keys (fst (devf c n t i))).
Hypothesis Hdev_ext : forall c n t i i', NoDup (keys i) -> NoDup (keys i') -> eqv i i' -> devf c n t i = devf c n t i'.
Hypothesis Hwf : flat_wf (level_of cfg top).
Notation conns := (l_conns (level_of cfg top)).
Notation order := (map fst (l_order (level_of cfg top))).

Definition rank_of (c : comp) : nat := length (Inline.prefix_before c order).

Lemma rank_ok : forall k, In k conns -> (rank_of (out_comp k) < rank_of (in_comp k))%nat.
Proof.
  destruct Hwf as [_ [Hnd [_ [Hcl [Htopo _]]]]]. intros [[[u p] c] q] Hk. cbn [out_comp in_comp].
  destruct (Hcl u p c q Hk) as [_ Hc]. destruct (in_split _ _ Hc) as [l1 [l2 E]].
  pose proof (Htopo l1 c l2 E u p q Hk) as Hu. destruct (in_split _ _ Hu) as [la [lb E1]].
  unfold rank_of. rewrite (InlineLatestP.prefix_before_split order Hnd l1 c l2 E).
  assert (E2 : order = la ++ u :: (lb ++ c :: l2)) by (rewrite E, E1, <- app_assoc; reflexivity).
  rewrite (InlineLatestP.prefix_before_split order Hnd la u _ E2). rewrite E1, app_length. cbn [length]. lia.
Qed.

Lemma reach_in_order r c : In r order -> reach conns r c -> In c order.
Proof.
  destruct Hwf as [_ [_ [_ [Hcl _]]]]. intros Hr H. induction H as [|c0 [[[u p] c1] q] _ IH Hk E]; [exact Hr|].
  cbn [in_comp]. apply (Hcl u p c1 q Hk).
Qed.

Theorem ntick_refines_sim comps inner sA sS t rA rS sA' oA :
  SREL sA sS -> (forall c, In c rA <-> In c rS) -> (forall c, In c rS -> In c order) ->
  ntick conns comps devf sA t rA sA' oA ->
  let '(sS', _, oS) := tick_with cfg devf inner top t rS [] sS in
  SREL sA' sS' /\ forall d, obs_rel (dev_obs d oA) (dev_obs d oS).
Proof.
  intros HS Hr Hro [extA [stA [trA [RA [FA [BA EA]]]]]].
  destruct Hwf as [Hk [Hnd [Hss [Hcl [Htopo Hreal]]]]].
  assert (HextS : forall c, In c extA <-> exists r, In r rS /\ reach conns r c).
  { destruct (run_ext conns comps t rA extA stA trA RA) as [st0 [Hst E0]]. subst extA.
    destruct (start_tick_spec conns t rA st0 Hst) as [_ [_ [_ [_ [_ H]]]]]. intros c. rewrite H.
    split; intros [r [H1 H2]]; exists r; (split; [apply Hr; exact H1 | exact H2]). }
  pose proof (sim_trace_WT conns devf Hdev_nd Hss t rS extA HextS sS inner order Hnd Htopo Hreal) as WS.
  pose proof (sim_trace_dispatched conns devf Hdev_nd Hss t rS extA HextS sS inner order Hnd Htopo Hreal) as DS.
  pose proof (sim_trace_effect conns devf Hdev_nd Hss t rS extA HextS sS inner order Hnd Htopo Hreal) as ES.
  pose proof (sim_trace_nodup conns devf Hdev_nd Hss t rS extA HextS sS inner order Hnd Htopo Hreal) as NS.
  set (trS := sim_trace conns devf t rS extA sS inner order) in *.
  (* Model/Sim.v's tick is that fold *)
  rewrite tick_with_core. unfold all_of. rewrite (order_as_map (l_order (level_of cfg top)) Hk).
  cbn [fold_left]. rewrite (ext_step_id devf t inner top conns rS). rewrite fold_left_app. cbn [fold_left].
  change (fold_left (step' devf inner top conns t rS []) (map (fun c : comp => (c, KDev)) order)
            {| co_s := sS; co_in := []; co_out := []; co_obs := [] |}) with (a_final conns devf t rS sS inner order).
  destruct (exp_step_same devf t inner top conns rS [] (a_final conns devf t rS sS inner order)) as [E1 E2]. rewrite E1, E2.
  (* the run's trace *)
  assert (NA : NoDup (keys (upds trA))) by (apply upds_nodup; apply (run_once conns comps t rA extA stA trA RA)).
  assert (Dext : forall c x y, NoDup (keys x) -> NoDup (keys y) -> ch_equiv x y -> dev_of devf sA t c x = dev_of devf sS t c y)
    by (intros c x y Hx Hy Hxy; apply (dev_of_ext devf Hdev_ext); [apply (proj1 HS) | exact Hx | exact Hy | exact Hxy]).
  pose proof (run_WT conns comps t Hss rA extA stA trA (dev_of devf sA t) (dev_of_wf devf Hdev_nd sA t) RA BA) as WA.
  apply (apply_upds_rel devf Hdev_ext t sA sS (upds trA) (upds trS) sA' oA _ _ HS NA NS); [|exact EA | exact ES].
  apply KREL_of_traces; try assumption.
  - intros a1 a2 H1 H2 Hc.
    apply (confluent_WT conns t rank_of rank_ok rA rS Hr (dev_of devf sA t) (dev_of devf sS t) Dext extA trA extA trS WA WS (fun x => iff_refl _)
             (S (rank_of (act_comp a1))) (act_comp a1)); [lia | exact H1 | exact H2 | reflexivity | symmetry; exact Hc].
  - intros c. rewrite DS. split.
    + intros H. assert (Hce : In c extA) by (apply (i_disp_ext _ _ _ _ _ _ (run_inv conns comps t rA extA stA trA RA)); exact H).
      split; [|exact Hce]. apply HextS in Hce. destruct Hce as [r [H1 H2]]. apply (reach_in_order r c (Hro r H1) H2).
    + intros [_ Hce]. apply (run_finished conns comps t rA extA stA trA RA FA c Hce).
  - exact (wt_nd _ _ _ _ _ _ WA).
  - exact (wt_nd _ _ _ _ _ _ WS).
Qed.
End Refine.

(* ---------- whole runs: every schedule agrees with Model/Sim.v *)
Section RefineRun.
Variable cfg : config.
Variable devf : devfun.
Variable fuel : nat.
Hypothesis Hdev_nd : forall c n t i, NoDup (keys (fst (devf c n t i))).
Hypothesis Hdev_ext : forall c n t i i', NoDup (keys i) -> NoDup (keys i') -> eqv i i' -> devf c n t i = devf c n t i'.
Hypothesis Hwf : flat_wf (level_of cfg top).
Notation conns := (l_conns (level_of cfg top)).
Notation order := (map fst (l_order (level_of cfg top))).

Definition script_ok (script : list item) : Prop := forall c w, In (IStim c w) script -> In c order.

Lemma SREL_log sA sS lv t r : SREL sA sS -> SREL sA (log_tick sS lv t r).
Proof. intros H. exact H. Qed.

Theorem nrun_refines_sim comps : forall script sA obA sA' obA',
  NRun conns comps devf script sA obA sA' obA' -> script_ok script ->
  forall sS obS, SREL sA sS -> WakeWfP.wake_wf cfg sS -> (forall d, obs_rel (dev_obs d obA) (dev_obs d obS)) ->
  let '(sS', obS') := sim_script cfg devf fuel script sS obS in
  SREL sA' sS' /\ forall d, obs_rel (dev_obs d obA') (dev_obs d obS').
Proof.
  induction 1 as [sA obA | c w r sA obA sA' obA' HA IH | r sA obA sA' obA' EA HA IH
                  | r sA obA when rootsA s2A oA sA' obA' EA TA HA IH]; intros Hok sS obS HS HW HO; cbn [sim_script].
  - split; assumption.
  - assert (Hc : In c order) by (apply (Hok c w); left; reflexivity).
    apply IH; [intros c' w' Hi; apply (Hok c' w'); right; exact Hi | | | exact HO].
    + destruct HS as [Hd Hw]. unfold stim. apply SREL_set_wake; [exact Hd|].
      destruct Hw as [Hna [Hnb Hlk]]. rewrite (Hlk c). apply weq_upd. split; [exact Hna | split; [exact Hnb | exact Hlk]].
    + unfold stim. apply WakeWfP.wake_wf_set; [exact HW | apply NoDup_keys_upd; apply HW|].
      intros k Hk. apply in_keys_upd in Hk. destruct Hk as [E|Hk]; [subst k; exact Hc | apply (proj2 (HW top)); exact Hk].
  - pose proof (weq_first _ _ (proj2 HS)) as F. rewrite EA in F.
    destruct (first_wakeups (wake_of sS top)) as [[when rS]|]; [destruct F|].
    apply IH; [intros c' w' Hi; apply (Hok c' w'); right; exact Hi | exact HS | exact HW | exact HO].
  - pose proof (weq_first _ _ (proj2 HS)) as F. rewrite EA in F.
    destruct (first_wakeups (wake_of sS top)) as [[when' rS]|] eqn:ES; [|destruct F]. destruct F as [Ew Hr]. subst when'.
    set (s1S := set_wake sS top (filter (fun e : comp * Z => negb (memb (fst e) rS)) (wake_of sS top))).
    assert (Hro : forall c, In c rS -> In c order).
    { intros c Hc. apply (LatestP.first_wakeups_roots _ _ _ ES) in Hc. apply (proj2 (HW top)). exact Hc. }
    assert (HS1 : SREL (set_wake sA top (filter (fun e : comp * Z => negb (memb (fst e) rootsA)) (wake_of sA top))) (log_tick s1S top when rS)).
    { apply SREL_log. destruct HS as [Hd Hw]. apply SREL_set_wake; [exact Hd | apply weq_filter; assumption]. }
    pose proof (ntick_refines_sim cfg devf Hdev_nd Hdev_ext Hwf comps (on_tick_level cfg devf fuel) _ _ when rootsA rS s2A oA HS1 Hr Hro TA) as T.
    assert (HW1 : WakeWfP.wake_wf cfg (log_tick s1S top when rS))
      by (eapply WakeWfP.wake_wf_same; [|apply WakeWfP.wake_wf_filter; exact HW]; reflexivity).
    pose proof (WakeWfP.tick_level_wf cfg devf fuel top when rS [] _ HW1) as HW2.
    unfold tick_level in *. destruct (tick_with cfg devf (on_tick_level cfg devf fuel) top when rS [] (log_tick s1S top when rS)) as [[s2S outS] oS].
    cbn [fst] in HW2. destruct T as [HS2 HO2].
    apply IH; [intros c' w' Hi; apply (Hok c' w'); right; exact Hi | exact HS2 | exact HW2|].
    intros d. rewrite !dev_obs_app. apply obs_rel_app; [apply HO | apply HO2].
Qed.

(* from the start *)
Theorem nrun_is_sim initial script sA obA :
  script_ok script -> nrun conns order devf initial script sA obA ->
  let '(sS, obS) := sim_script_from_start cfg devf fuel initial script in
  SREL sA sS /\ forall d, obs_rel (dev_obs d obA) (dev_obs d obS).
Proof.
  intros Hok [s1A [o1A [TA RA]]]. unfold sim_script_from_start.
  set (s0 := set_wake s_init top []).
  assert (H0 : SREL s0 (log_tick s0 top initial order)).
  { apply SREL_log. apply SREL_set_wake.
    - intros c. split; [reflexivity|]. split; [intros q; reflexivity|]. split; [reflexivity|]. split; constructor.
    - split; [constructor|]. split; [constructor | reflexivity]. }
  assert (HW0 : WakeWfP.wake_wf cfg (log_tick s0 top initial order)).
  { intros lv. change (wake_of (log_tick s0 top initial order) lv) with (wake_of s0 lv).
    unfold s0, wake_of, set_wake, get_d. cbn [s_wake s_init upd lookup]. destruct (Pos.eqb lv top); split; try constructor; intros k []. }
  pose proof (ntick_refines_sim cfg devf Hdev_nd Hdev_ext Hwf order (on_tick_level cfg devf fuel) _ _ initial order order s1A o1A H0
                (fun c => iff_refl _) (fun c H => H) TA) as T.
  pose proof (WakeWfP.tick_level_wf cfg devf fuel top initial order [] _ HW0) as HW1.
  unfold tick_level in *. destruct (tick_with cfg devf (on_tick_level cfg devf fuel) top initial order [] (log_tick s0 top initial order)) as [[s1S out1] o1S].
  cbn [fst] in HW1. destruct T as [HS1 HO1].
  apply (nrun_refines_sim order script s1A o1A sA obA RA Hok s1S o1S HS1 HW1 HO1).
Qed.

(* the simulation-time master of Model/SimTime.v (the model of the C09 / C10 run theorems) runs such a script *)
Lemma sim_loop_is_script horizon : forall n s ob s' ob' fin,
  SimTime.sim_loop cfg devf n fuel horizon s ob = (s', ob', fin) ->
  exists k, sim_script cfg devf fuel (repeat ITick k) s ob = (s', ob').
Proof.
  induction n as [|n IH]; intros s ob s' ob' fin H; cbn [SimTime.sim_loop] in H.
  - inversion H; subst. exists O. reflexivity.
  - destruct (first_wakeups (wake_of s top)) as [[when roots]|] eqn:Ef.
    + destruct (Z.leb when horizon).
      * destruct (tick_level cfg devf fuel top when roots [] _) as [[s2 out] o] eqn:Et.
        destruct (IH _ _ _ _ _ H) as [k Hk]. exists (S k). cbn [repeat sim_script]. rewrite Ef, Et. exact Hk.
      * inversion H; subst. exists O. reflexivity.
    + inversion H; subst. exists O. reflexivity.
Qed.

Theorem sim_run_is_every_schedule n initial horizon sS obS fin :
  SimTime.sim_run cfg devf n fuel initial horizon = (sS, obS, fin) ->
  exists k, forall sA obA, nrun conns order devf initial (repeat ITick k) sA obA ->
    SREL sA sS /\ forall d, obs_rel (dev_obs d obA) (dev_obs d obS).
Proof.
  unfold SimTime.sim_run. intros H.
  destruct (tick_level cfg devf fuel top initial order [] (log_tick (set_wake s_init top []) top initial order)) as [[s1 out1] o1] eqn:Et.
  destruct (sim_loop_is_script horizon n s1 o1 sS obS fin H) as [k Hk]. exists k. intros sA obA HA.
  assert (Hok : script_ok (repeat ITick k)) by (intros c w Hi; apply repeat_spec in Hi; discriminate).
  pose proof (nrun_is_sim initial (repeat ITick k) sA obA Hok HA) as T. unfold sim_script_from_start in T.
  rewrite Et, Hk in T. exact T.
Qed.
End RefineRun.

(* ---------- the observation relation is an equivalence compatible with per-device projection *)
Lemma obs_rel_sym a b : obs_rel a b -> obs_rel b a.
Proof. induction 1 as [|x y l l' [H1 H2] _ IH]; constructor; [split; [symmetry; exact H1 | apply eqv_sym; exact H2] | exact IH]. Qed.

Lemma obs_rel_trans a b c : obs_rel a b -> obs_rel b c -> obs_rel a c.
Proof.
  intros H. revert c. induction H as [|x y l l' [H1 H2] _ IH]; intros c Hc; inversion Hc as [|y' z l2 l3 [G1 G2] Hr]; subst; constructor.
  - split; [congruence | eapply eqv_trans; eassumption].
  - apply IH. exact Hr.
Qed.

Lemma obs_rel_dev_obs d a b : obs_rel a b -> obs_rel (dev_obs d a) (dev_obs d b).
Proof.
  induction 1 as [|x y l l' [H1 H2] _ IH]; [constructor|]. unfold dev_obs in *. cbn [filter]. unfold obs_comp in *. rewrite <- H1.
  destruct (Pos.eqb (fst (fst x)) d); [constructor; [split; assumption | exact IH] | exact IH].
Qed.
