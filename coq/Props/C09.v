From TV Require Import Base.
Example C09_placeholder : True. Proof. exact I. Qed.
