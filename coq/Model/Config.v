(* Model of configuration loading: src/tickit/utils/configuration/tagged_union.py (the
   registry of config classes, its cached discriminated union, dispatch by type tag),
   InverseWiring.from_component_configs and build_simulation's selection.
   Field validation of a class is pydantic's business (an oracle): a loaded entry is described
   by the class chosen and its fields are compared by the harness.  Definitions only. *)
From TV Require Import Base Model.Wiring.

Definition cls := positive.           (* a config class: the harness numbers "module.QualName" *)

Record registry := {
  r_classes : list cls;               (* super_cls._ref_classes *)
  r_cache : option (list cls)         (* super_cls._model: the union it was built over *)
}.

Inductive cev :=
| Define (c : cls)                    (* __init_subclass__: a class body is executed (import) *)
| Validate (tag : cls) (known : bool).  (* __validate__ of an entry whose tag names class [tag];
                                           known = false: the tag names no importable class *)

Inductive vres := Chosen (c : cls) | Rejected.

Definition define (r : registry) (c : cls) : registry :=
  {| r_classes := if memb c (r_classes r) then r_classes r else r_classes r ++ [c]; r_cache := None |}.

(* dispatch on the tag among the registered classes (pydantic's discriminated union, or the
   single registered subclass whose Literal type field must equal the tag) *)
Definition validate (r : registry) (tag : cls) (known : bool) : registry * vres :=
  if negb known then (r, Rejected)
  else
    let r' := match r_cache r with
              | Some _ => r
              | None => match r_classes r with
                        | [_] => r                       (* single subclass: parsed directly, no union built *)
                        | l => {| r_classes := l; r_cache := Some l |}
                        end
              end in
    (r', if memb tag (r_classes r) then Chosen tag else Rejected).

Fixpoint run_reg (r : registry) (evs : list cev) : list vres :=
  match evs with
  | [] => []
  | Define c :: t => run_reg (define r c) t
  | Validate tag k :: t => let '(r', v) := validate r tag k in v :: run_reg r' t
  end.

(* ---------- wiring and selection *)
(* a component entry: name, declared inputs (in port -> source component, source port) *)
Definition entry := (comp * list (port * cport))%type.

(* InverseWiring.from_component_configs: {config.name: config.inputs} *)
Definition wiring_of (es : list entry) : iwiring :=
  fold_left (fun iw (e : entry) => upd (fst e) (snd e) iw) es [].

(* build_simulation: None = ValueError *)
Definition select (es : list entry) (requested : option (list comp)) : option (list comp) :=
  match requested with
  | None => Some (dedup (map fst es))
  | Some req => if forallb (fun n => memb n (map fst es)) req
                then Some (filter (fun n => memb n req) (dedup (map fst es))) else None
  end.

(* ---------- comparison *)
Definition vres_eqb (a b : vres) : bool :=
  match a, b with Chosen x, Chosen y => Pos.eqb x y | Rejected, Rejected => true | _, _ => false end.

Record cfg_case := {
  cc_initial : list cls;                   (* classes registered before the case *)
  cc_events : list cev;
  cc_results : list vres;                  (* class of each loaded entry / rejection *)
  cc_entries : list entry;                 (* top-level entries as declared *)
  cc_sched_conns : list conn;              (* connections of the wiring handed to the scheduler *)
  cc_sched_keys : list comp;
  cc_requested : option (list comp);
  cc_selected : option (list comp)         (* names of the components built (None = ValueError) *)
}.

Definition conns_seteq (a b : list conn) : bool :=
  forallb (fun x => existsb (conn_eqb x) b) a && forallb (fun y => existsb (conn_eqb y) a) b.
Definition comps_seteq (a b : list comp) : bool :=
  forallb (fun x => memb x b) a && forallb (fun x => memb x a) b.

(* 141 a class other than the one named by the tag was built / rejection differs;
   142 the scheduler's wiring is not exactly the declared inputs; 143 selection differs *)
Definition check_cfg (c : cfg_case) : list Z :=
  (if list_eqb vres_eqb (run_reg {| r_classes := cc_initial c; r_cache := None |} (cc_events c)) (cc_results c)
   then [] else [141%Z]) ++
  (let iw := wiring_of (cc_entries c) in
   if conns_seteq (conns_iw iw) (cc_sched_conns c) && comps_seteq (keys iw) (cc_sched_keys c) then [] else [142%Z]) ++
  (if opt_eqb comps_seteq (select (cc_entries c) (cc_requested c)) (cc_selected c) then [] else [143%Z]).
