(* Invariants of the interleaving model of the ZeroMQ push sender (Model/Zmq.v). *)
From TV Require Import Base Model.Zmq.

Lemma nth_error_set_thread l : forall i t j,
  (i < length l)%nat ->
  nth_error (set_thread l i t) j = if Nat.eqb j i then Some t else nth_error l j.
Proof.
  unfold set_thread. induction l as [|x r IH]; intros i t j Hi; simpl in Hi; [lia|].
  destruct i as [|i'].
  - simpl. destruct j as [|j']; reflexivity.
  - simpl. destruct j as [|j']; [reflexivity|]. simpl. apply IH. lia.
Qed.

Lemma nth_error_lt {A} (l : list A) i x : nth_error l i = Some x -> (i < length l)%nat.
Proof. intros H. apply nth_error_Some. congruence. Qed.

Definition holder (t : thread) : bool :=
  match t_pc t with Creating _ | HasLock _ => true | _ => false end.
Definition creating (t : thread) : bool :=
  match t_pc t with Creating _ => true | _ => false end.

(* ---------- one socket *)
Record Inv1 (z : zstate) : Prop := {
  i_one_holder : forall i j ti tj, nth_error (z_threads z) i = Some ti -> nth_error (z_threads z) j = Some tj ->
                                   holder ti = true -> holder tj = true -> i = j;
  i_lock : z_lock z = false -> forall i ti, nth_error (z_threads z) i = Some ti -> holder ti = false;
  i_creating : forall i ti, nth_error (z_threads z) i = Some ti -> creating ti = true -> z_socket z = false;
  i_created : z_created z = if z_socket z then 1%nat else 0%nat
}.

Lemma Inv1_init : Inv1 z_init.
Proof.
  constructor; simpl.
  - intros i j ti tj Hi Hj Hh. destruct i as [|i]; simpl in Hi; [inversion Hi; subst; discriminate | destruct i; discriminate].
  - intros _ i ti Hi. destruct i as [|i]; simpl in Hi; [inversion Hi; subst; reflexivity | destruct i; discriminate].
  - intros i ti Hi Hc. destruct i as [|i]; simpl in Hi; [inversion Hi; subst; discriminate | destruct i; discriminate].
  - reflexivity.
Qed.

Lemma nth_error_app_new {A} (l : list A) x i y :
  nth_error (l ++ [x]) i = Some y -> nth_error l i = Some y \/ (i = length l /\ y = x).
Proof.
  intros H. destruct (Nat.lt_ge_cases i (length l)) as [Hlt|Hge].
  - rewrite nth_error_app1 in H by exact Hlt. left. exact H.
  - rewrite nth_error_app2 in H by exact Hge. destruct (i - length l)%nat as [|k] eqn:E.
    + simpl in H. inversion H. right. split; [lia | reflexivity].
    + simpl in H. destruct k; discriminate.
Qed.

Lemma Inv1_append z t :
  holder t = false -> Inv1 z ->
  Inv1 {| z_threads := z_threads z ++ [t]; z_queue := z_queue z; z_lock := z_lock z; z_socket := z_socket z;
          z_created := z_created z; z_writes := z_writes z |}.
Proof.
  intros Ht [H1 H2 H3 H4]. assert (Hc : creating t = false) by (unfold holder, creating in *; destruct (t_pc t); congruence).
  constructor; simpl.
  - intros i j ti tj Hi Hj Hhi Hhj.
    apply nth_error_app_new in Hi. apply nth_error_app_new in Hj.
    destruct Hi as [Hi|[_ ->]]; [|congruence]. destruct Hj as [Hj|[_ ->]]; [|congruence]. eapply H1; eassumption.
  - intros Hl i ti Hi. apply nth_error_app_new in Hi. destruct Hi as [Hi|[_ ->]]; [eapply H2; eassumption | exact Ht].
  - intros i ti Hi Hcr. apply nth_error_app_new in Hi. destruct Hi as [Hi|[_ ->]]; [eapply H3; eassumption | congruence].
  - exact H4.
Qed.

Lemma Inv1_step z a z' : Inv1 z -> zstep z a = Some z' -> Inv1 z'.
Proof.
  intros HI Hs. destruct a as [i|m|ms|]; simpl in Hs.
  - (* a thread moves *)
    unfold step_thread in Hs. destruct (nth_error (z_threads z) i) as [t|] eqn:Et; [|discriminate].
    assert (Hlt := nth_error_lt _ _ _ Et). destruct HI as [H1 H2 H3 H4].
    assert (Hother : forall t' j tj, nth_error (set_thread (z_threads z) i t') j = Some tj -> j <> i -> nth_error (z_threads z) j = Some tj).
    { intros t' j tj Hj Hne. rewrite nth_error_set_thread in Hj by exact Hlt. destruct (Nat.eqb_spec j i); [contradiction | exact Hj]. }
    assert (Hself : forall t' tj, nth_error (set_thread (z_threads z) i t') i = Some tj -> tj = t').
    { intros t' tj Hj. rewrite nth_error_set_thread, Nat.eqb_refl in Hj by exact Hlt. inversion Hj. reflexivity. }
    (* generic reconstruction when the moving thread is not a holder afterwards and was not before,
       or handled case by case below *)
    destruct (t_pc t) as [|m|m|m|m|m] eqn:Epc.
    + (* Idle: takes a message, becomes WantLock *)
      assert (Hnh : holder t = false) by (unfold holder; rewrite Epc; reflexivity).
      destruct (t_queue_reader t).
      * destruct (z_queue z) as [|m q]; [discriminate|]. inversion Hs; subst z'; clear Hs. constructor; simpl.
        -- intros a b ta tb Ha Hb Hha Hhb. destruct (Nat.eq_dec a i) as [->|Na]; [apply Hself in Ha; subst ta; discriminate|].
           destruct (Nat.eq_dec b i) as [->|Nb]; [apply Hself in Hb; subst tb; discriminate|].
           eapply H1; [eapply Hother; eassumption | eapply Hother; eassumption | |]; assumption.
        -- intros Hl a ta Ha. destruct (Nat.eq_dec a i) as [->|Na]; [apply Hself in Ha; subst ta; reflexivity|].
           eapply H2; [exact Hl | eapply Hother; eassumption].
        -- intros a ta Ha Hc. destruct (Nat.eq_dec a i) as [->|Na]; [apply Hself in Ha; subst ta; discriminate|].
           eapply H3; [eapply Hother; eassumption | exact Hc].
        -- exact H4.
      * destruct (t_todo t) as [|m r]; [discriminate|]. inversion Hs; subst z'; clear Hs. constructor; simpl.
        -- intros a b ta tb Ha Hb Hha Hhb. destruct (Nat.eq_dec a i) as [->|Na]; [apply Hself in Ha; subst ta; discriminate|].
           destruct (Nat.eq_dec b i) as [->|Nb]; [apply Hself in Hb; subst tb; discriminate|].
           eapply H1; [eapply Hother; eassumption | eapply Hother; eassumption | |]; assumption.
        -- intros Hl a ta Ha. destruct (Nat.eq_dec a i) as [->|Na]; [apply Hself in Ha; subst ta; reflexivity|].
           eapply H2; [exact Hl | eapply Hother; eassumption].
        -- intros a ta Ha Hc. destruct (Nat.eq_dec a i) as [->|Na]; [apply Hself in Ha; subst ta; discriminate|].
           eapply H3; [eapply Hother; eassumption | exact Hc].
        -- exact H4.
    + (* WantLock: acquires the free lock *)
      destruct (z_lock z) eqn:El; [discriminate|]. inversion Hs; subst z'; clear Hs. constructor; simpl.
      * intros a b ta tb Ha Hb Hha Hhb.
        destruct (Nat.eq_dec a i) as [->|Na]; destruct (Nat.eq_dec b i) as [->|Nb]; auto.
        -- exfalso. assert (Hx := H2 eq_refl b tb (Hother _ _ _ Hb Nb)). congruence.
        -- exfalso. assert (Hx := H2 eq_refl a ta (Hother _ _ _ Ha Na)). congruence.
        -- exfalso. assert (Hx := H2 eq_refl a ta (Hother _ _ _ Ha Na)). congruence.
      * discriminate.
      * intros a ta Ha Hc. destruct (Nat.eq_dec a i) as [->|Na].
        -- apply Hself in Ha. subst ta. unfold creating, with_pc in Hc. simpl in Hc. destruct (z_socket z); [discriminate | reflexivity].
        -- exfalso. assert (Hx := H2 eq_refl a ta (Hother _ _ _ Ha Na)). unfold holder, creating in *. destruct (t_pc ta); discriminate.
      * exact H4.
    + (* Creating: the factory returns *)
      assert (Hsock : z_socket z = false) by (eapply H3; [exact Et | unfold creating; rewrite Epc; reflexivity]).
      assert (Hh : holder t = true) by (unfold holder; rewrite Epc; reflexivity).
      inversion Hs; subst z'; clear Hs. constructor; simpl.
      * intros a b ta tb Ha Hb Hha Hhb.
        destruct (Nat.eq_dec a i) as [->|Na]; destruct (Nat.eq_dec b i) as [->|Nb]; auto.
        -- symmetry. eapply H1; [eapply Hother; eassumption | exact Et | assumption | assumption].
        -- eapply H1; [eapply Hother; eassumption | exact Et | assumption | assumption].
        -- eapply H1; [eapply Hother; eassumption | eapply Hother; eassumption | |]; assumption.
      * discriminate.
      * intros a ta Ha Hc. destruct (Nat.eq_dec a i) as [->|Na]; [apply Hself in Ha; subst ta; discriminate|].
        exfalso. assert (Hta := Hother _ _ _ Ha Na).
        assert (a = i) by (eapply H1; [exact Hta | exact Et | unfold holder, creating in *; destruct (t_pc ta); congruence | exact Hh]). contradiction.
      * rewrite H4, Hsock. reflexivity.
    + (* HasLock: releases *)
      assert (Hh : holder t = true) by (unfold holder; rewrite Epc; reflexivity).
      inversion Hs; subst z'; clear Hs. constructor; simpl.
      * intros a b ta tb Ha Hb Hha Hhb.
        assert (Ht' : forall x tx, nth_error (set_thread (z_threads z) i (with_pc t (if t_nowrite t then Idle else Writing m))) x = Some tx ->
                                   holder tx = true -> x <> i).
        { intros x tx Hx Hhx ->. apply Hself in Hx. subst tx. unfold holder, with_pc in Hhx. simpl in Hhx. destruct (t_nowrite t); discriminate. }
        eapply H1; [eapply Hother; [exact Ha | eapply Ht'; eassumption] | eapply Hother; [exact Hb | eapply Ht'; eassumption] | |]; assumption.
      * intros _ a ta Ha. destruct (Nat.eq_dec a i) as [->|Na].
        -- apply Hself in Ha. subst ta. unfold holder, with_pc. simpl. destruct (t_nowrite t); reflexivity.
        -- assert (Hta := Hother _ _ _ Ha Na). destruct (holder ta) eqn:Eh; [|reflexivity].
           exfalso. apply Na. eapply H1; [exact Hta | exact Et | exact Eh | exact Hh].
      * intros a ta Ha Hc. destruct (Nat.eq_dec a i) as [->|Na].
        -- apply Hself in Ha. subst ta. unfold creating, with_pc in Hc. simpl in Hc. destruct (t_nowrite t); discriminate.
        -- eapply H3; [eapply Hother; eassumption | exact Hc].
      * exact H4.
    + (* Writing *)
      inversion Hs; subst z'; clear Hs. constructor; simpl.
      * intros a b ta tb Ha Hb Hha Hhb. destruct (Nat.eq_dec a i) as [->|Na]; [apply Hself in Ha; subst ta; discriminate|].
        destruct (Nat.eq_dec b i) as [->|Nb]; [apply Hself in Hb; subst tb; discriminate|].
        eapply H1; [eapply Hother; eassumption | eapply Hother; eassumption | |]; assumption.
      * intros Hl a ta Ha. destruct (Nat.eq_dec a i) as [->|Na]; [apply Hself in Ha; subst ta; reflexivity|].
        eapply H2; [exact Hl | eapply Hother; eassumption].
      * intros a ta Ha Hc. destruct (Nat.eq_dec a i) as [->|Na]; [apply Hself in Ha; subst ta; discriminate|].
        eapply H3; [eapply Hother; eassumption | exact Hc].
      * exact H4.
    + (* Draining *)
      inversion Hs; subst z'; clear Hs. constructor; simpl.
      * intros a b ta tb Ha Hb Hha Hhb. destruct (Nat.eq_dec a i) as [->|Na]; [apply Hself in Ha; subst ta; discriminate|].
        destruct (Nat.eq_dec b i) as [->|Nb]; [apply Hself in Hb; subst tb; discriminate|].
        eapply H1; [eapply Hother; eassumption | eapply Hother; eassumption | |]; assumption.
      * intros Hl a ta Ha. destruct (Nat.eq_dec a i) as [->|Na]; [apply Hself in Ha; subst ta; reflexivity|].
        eapply H2; [exact Hl | eapply Hother; eassumption].
      * intros a ta Ha Hc. destruct (Nat.eq_dec a i) as [->|Na]; [apply Hself in Ha; subst ta; discriminate|].
        eapply H3; [eapply Hother; eassumption | exact Hc].
      * exact H4.
  - inversion Hs; subst z'. destruct HI as [H1 H2 H3 H4]. constructor; simpl; assumption.
  - inversion Hs; subst z'. apply Inv1_append; [reflexivity | exact HI].
  - inversion Hs; subst z'. apply Inv1_append; [reflexivity | exact HI].
Qed.

Lemma replay_inv1 l : forall z z', Inv1 z -> replay z l = Some z' -> Inv1 z'.
Proof.
  induction l as [|a r IH]; intros z z' HI Hr; simpl in Hr.
  - inversion Hr; subst. exact HI.
  - destruct (zstep z a) as [z1|] eqn:E; [|discriminate]. eapply IH; [eapply Inv1_step; eassumption | exact Hr].
Qed.

Lemma one_socket l z' : replay z_init l = Some z' -> (z_created z' <= 1)%nat.
Proof.
  intros H. assert (HI := replay_inv1 l z_init z' Inv1_init H). destruct HI as [_ _ _ H4]. rewrite H4. destruct (z_socket z'); lia.
Qed.

(* ---------- queued messages are written in queue order, each once *)
Section Fifo.
Variable isq : msgid -> bool.   (* which message identities are queued on the adapter (the others are sent directly) *)

Definition valid_action (a : zaction) : bool :=
  match a with
  | AStep _ => true
  | AQueue m => isq m
  | ASpawn ms => forallb (fun m => negb (isq m)) ms
  | ASetup => negb (isq 0%Z)
  end.

Definition pc_msg (p : pc) : list msgid :=
  match p with Idle => [] | WantLock m | Creating m | HasLock m | Writing m | Draining m => [m] end.
Definition inflight (p : pc) : list msgid :=
  match p with WantLock m | Creating m | HasLock m | Writing m => [m] | _ => [] end.

Record Inv2 (z : zstate) (Q : list msgid) : Prop := {
  f_reader0 : exists t0, nth_error (z_threads z) 0 = Some t0 /\ t_queue_reader t0 = true /\ t_nowrite t0 = false /\
                         (forall m, In m (pc_msg (t_pc t0)) -> isq m = true) /\
                         filter isq (z_writes z) ++ inflight (t_pc t0) ++ z_queue z = Q;
  f_others : forall i t, nth_error (z_threads z) i = Some t -> i <> 0%nat ->
                         t_queue_reader t = false /\ (forall m, In m (pc_msg (t_pc t) ++ t_todo t) -> isq m = false);
  f_queue : forall m, In m (z_queue z) -> isq m = true
}.

Lemma Inv2_init : Inv2 z_init [].
Proof.
  constructor; simpl.
  - eexists. split; [reflexivity|]. simpl. repeat split; auto. 
  - intros i t Hi Hne. destruct i; [contradiction|]. destruct i; discriminate.
  - intros m [].
Qed.

Lemma filter_app_single (l : list msgid) m : filter isq (l ++ [m]) = filter isq l ++ (if isq m then [m] else []).
Proof. rewrite filter_app. simpl. destruct (isq m); reflexivity. Qed.

Lemma Inv2_step z Q a z' :
  Inv2 z Q -> valid_action a = true -> zstep z a = Some z' ->
  Inv2 z' (match a with AQueue m => Q ++ [m] | _ => Q end).
Proof.
  intros [[t0 [Ht0 [Hr0 [Hnw0 [Hq0 HQ]]]]] Hoth Hqueue] Hv Hs.
  destruct a as [i|m|ms|]; simpl in Hs.
  - unfold step_thread in Hs. destruct (nth_error (z_threads z) i) as [t|] eqn:Et; [|discriminate].
    assert (Hlt := nth_error_lt _ _ _ Et).
    assert (Hnth : forall t' j, nth_error (set_thread (z_threads z) i t') j = if Nat.eqb j i then Some t' else nth_error (z_threads z) j)
      by (intros; apply nth_error_set_thread; exact Hlt).
    destruct (Nat.eq_dec i 0) as [->|Hi0].
    + (* the queue reader moves *)
      rewrite Ht0 in Et. inversion Et; subst t. clear Et.
      assert (Hrest : forall t' j tj, nth_error (set_thread (z_threads z) 0 t') j = Some tj -> j <> 0%nat ->
                                      nth_error (z_threads z) j = Some tj).
      { intros t' j tj Hj Hne. rewrite Hnth in Hj. destruct (Nat.eqb_spec j 0); [contradiction | exact Hj]. }
      assert (Hgen0 : forall p' (writes queue : list msgid) lock sock created,
                 (forall m, In m (pc_msg p') -> isq m = true) ->
                 (forall m, In m queue -> isq m = true) ->
                 filter isq writes ++ inflight p' ++ queue = Q ->
                 Inv2 {| z_threads := set_thread (z_threads z) 0 (with_pc t0 p'); z_queue := queue; z_lock := lock;
                         z_socket := sock; z_created := created; z_writes := writes |} Q).
      { intros p' writes queue lock sock created Hp' Hq' HQ'. constructor; simpl.
        - exists (with_pc t0 p'). split; [first [reflexivity | rewrite Hnth; reflexivity]|]. simpl. auto.
        - intros j tj Hj Hne. apply (Hoth j tj (Hrest _ _ _ Hj Hne) Hne).
        - exact Hq'. }
      destruct (t_pc t0) as [|m|m|m|m|m] eqn:Epc; try rewrite Hr0 in Hs.
      * destruct (z_queue z) as [|m q] eqn:Eq; [discriminate|]. inversion Hs; subst z'; clear Hs.
        apply Hgen0.
        -- intros x [<-|[]]. apply Hqueue. left. reflexivity.
        -- intros x Hx. apply Hqueue. right. exact Hx.
        -- simpl in *. exact HQ.
      * destruct (z_lock z); [discriminate|]. inversion Hs; subst z'; clear Hs.
        apply Hgen0; [destruct (z_socket z); exact Hq0 | exact Hqueue | destruct (z_socket z); exact HQ].
      * inversion Hs; subst z'; clear Hs. apply Hgen0; [exact Hq0 | exact Hqueue | exact HQ].
      * inversion Hs; subst z'; clear Hs. rewrite Hnw0. apply Hgen0; [exact Hq0 | exact Hqueue | exact HQ].
      * inversion Hs; subst z'; clear Hs. apply Hgen0; [exact Hq0 | exact Hqueue |].
        rewrite filter_app_single, (Hq0 m (or_introl eq_refl)). simpl in *. rewrite <- app_assoc. exact HQ.
      * inversion Hs; subst z'; clear Hs. apply Hgen0; [intros x [] | exact Hqueue | exact HQ].
    + (* a direct sender (or the setup thread) moves *)
      destruct (Hoth i t Et Hi0) as [Hnr Hmsgs]. rewrite Hnr in Hs.
      assert (Hkeep0 : forall t', nth_error (set_thread (z_threads z) i t') 0 = Some t0).
      { intros t'. rewrite Hnth. destruct (Nat.eqb_spec 0 i); [congruence | exact Ht0]. }
      assert (Hgen : forall t' (writes : list msgid) lock sock created,
                 t_queue_reader t' = false ->
                 (forall m, In m (pc_msg (t_pc t') ++ t_todo t') -> isq m = false) ->
                 filter isq writes = filter isq (z_writes z) ->
                 Inv2 {| z_threads := set_thread (z_threads z) i t'; z_queue := z_queue z; z_lock := lock; z_socket := sock;
                         z_created := created; z_writes := writes |} Q).
      { intros t' writes lock sock created Hr' Hm' Hw. constructor; simpl.
        - exists t0. split; [apply Hkeep0|]. repeat split; auto. rewrite Hw. exact HQ.
        - intros j tj Hj Hne. rewrite Hnth in Hj. destruct (Nat.eqb_spec j i) as [->|Hji].
          + inversion Hj; subst tj. auto.
          + apply (Hoth j tj Hj Hne).
        - exact Hqueue. }
      destruct (t_pc t) as [|m|m|m|m|m] eqn:Epc.
      * destruct (t_todo t) as [|m r] eqn:Etodo; [discriminate|]. inversion Hs; subst z'; clear Hs.
        apply Hgen; simpl; auto. all: try (intros x [<-|Hx]; apply Hmsgs; simpl; auto).
      * destruct (z_lock z); [discriminate|]. inversion Hs; subst z'; clear Hs.
        apply Hgen; simpl; auto. all: try (destruct (z_socket z); simpl; intros x Hx; apply Hmsgs; exact Hx).
      * inversion Hs; subst z'; clear Hs. apply Hgen; simpl; auto.
      * inversion Hs; subst z'; clear Hs. apply Hgen; simpl; auto.
        all: try (destruct (t_nowrite t); simpl; intros x Hx; apply Hmsgs; simpl; auto).
      * inversion Hs; subst z'; clear Hs. apply Hgen; simpl; auto.
        all: try (rewrite filter_app_single, (Hmsgs m (or_introl eq_refl)); apply app_nil_r).
      * inversion Hs; subst z'; clear Hs. apply Hgen; simpl; auto.
        all: try (intros x Hx; apply Hmsgs; simpl; right; exact Hx).
  - inversion Hs; subst z'; clear Hs. simpl in Hv. constructor; simpl.
    + exists t0. split; [exact Ht0|]. repeat split; auto. rewrite <- HQ, <- !app_assoc. reflexivity.
    + exact Hoth.
    + intros x Hx. apply in_app_iff in Hx. destruct Hx as [Hx|[<-|[]]]; [apply Hqueue; exact Hx | exact Hv].
  - inversion Hs; subst z'; clear Hs. simpl in Hv. constructor; simpl.
    + exists t0. split; [|repeat split; auto]. destruct (z_threads z); [discriminate | exact Ht0].
    + intros j tj Hj Hne. apply nth_error_app_new in Hj. destruct Hj as [Hj|[_ ->]]; [apply (Hoth j tj Hj Hne)|].
      simpl. split; [reflexivity|]. intros x Hx. rewrite forallb_forall in Hv. apply negb_true_iff. apply Hv. exact Hx.
    + exact Hqueue.
  - inversion Hs; subst z'; clear Hs. simpl in Hv. constructor; simpl.
    + exists t0. split; [|repeat split; auto]. destruct (z_threads z); [discriminate | exact Ht0].
    + intros j tj Hj Hne. apply nth_error_app_new in Hj. destruct Hj as [Hj|[_ ->]]; [apply (Hoth j tj Hj Hne)|].
      simpl. split; [reflexivity|]. intros x [<-|[]]. apply negb_true_iff. exact Hv.
    + exact Hqueue.
Qed.

Fixpoint queued_of (l : list zaction) : list msgid :=
  match l with [] => [] | AQueue m :: r => m :: queued_of r | _ :: r => queued_of r end.

Lemma replay_inv2 l : forall z Q z',
  Inv2 z Q -> forallb valid_action l = true -> replay z l = Some z' -> Inv2 z' (Q ++ queued_of l).
Proof.
  induction l as [|a r IH]; intros z Q z' HI Hv Hr; simpl in *.
  - inversion Hr; subst. rewrite app_nil_r. exact HI.
  - apply andb_true_iff in Hv. destruct Hv as [Hva Hvr].
    destruct (zstep z a) as [z1|] eqn:E; [|discriminate].
    assert (H1 := Inv2_step z Q a z1 HI Hva E).
    destruct a as [i|m|ms|]; simpl; try (apply (IH z1 Q z' H1 Hvr Hr)).
    specialize (IH z1 (Q ++ [m]) z' H1 Hvr Hr). rewrite <- app_assoc in IH. exact IH.
Qed.

Lemma fifo_once l z' :
  forallb valid_action l = true -> replay z_init l = Some z' ->
  exists rest, filter isq (z_writes z') ++ rest = queued_of l.
Proof.
  intros Hv Hr. destruct (replay_inv2 l z_init [] z' Inv2_init Hv Hr) as [[t0 [_ [_ [_ [_ HQ]]]]] _ _].
  simpl in HQ. eexists. exact HQ.
Qed.
End Fifo.
