"""C12 -- pacing against real time.
(a) level S: whole simulations at speeds 1/2, 1, 2 compared with Model/Sim.v; Coq oracle: no tick earlier than
    the speed allows (96).
(b) level M: the real MasterScheduler driven message by message with real-time costs (answers in flight,
    interrupts in every phase): every sleep it arms and every tick time -- hence every interrupt stamp -- is
    compared with Model/Master.v, for which C12_exact / C12_stamp are proved."""
import sprops
from props import c07

PID = "C12"


def m_level(ck, tier, rng):
    mcases, mbad = c07.m_part(ck, tier, rng)
    ck.coverage.update(master_scripts=len(mcases), master_disagreements=len(mbad))
    hit = [i for i in sorted(mbad) if 101 in mbad[i]]
    if hit and not ck.violations:
        c = mcases[hit[0]]
        ck.report("correspondence-broken", "MasterScheduler arms other sleeps / starts ticks at other times than the model of the pacing "
                  "arithmetic, but no tick earlier than the speed allows was found",
                  dict(kind="master", conns=c["conns"], comps=c["comps"], initial=c["initial"], speed=c["speed"],
                       events=[[r, list(e), [list(o) for o in outs]] for r, e, outs in c["events"]], codes=mbad[hit[0]],
                       broken="correspondence Model/Master.v vs master.py; theorems C12_exact, C12_stamp of Props.C12"), no_input=True)


def main(tier, seed):
    return sprops.main_S(PID, tier, seed, {96}, "Props.C12",
                         ["Model/Sim.v", "Model/Master.v", "Oracle/SimCheck.v", "Oracle/SimOracle.v", "Oracle/MasterOracle.v",
                          "Proofs/MasterP.v", "Props/C12.v"],
                         "pacing", "callbacks", extra=m_level)


def replay(rp):
    if rp.get("kind") == "master":
        return c07.replay(rp)
    return sprops.replay_S(rp)
