(* C01 -- in a tick a component updates only after its in-tick upstreams (glitch-free).
   Property theorems only.  [Run conns comps t roots ext st tr] (Proofs/TickerP.v): the
   ticker state st and the event trace tr are reachable in the tick (t, roots) whose
   participant set is ext, under ANY order in which dispatched components answer.  The same
   Ticker class (hence this model) is used by the master and by every nested scheduler, so
   the statements hold per scheduler at every nesting depth. *)
From TV Require Import Base Model.Wiring Model.Ticker Proofs.WiringP Proofs.TickerP.

(* whenever a component is given its update (or is passed over), every component wired into
   it that takes part in the tick has already answered -- for all wirings, roots, orders *)
Theorem C01_gate : forall conns comps t roots ext st tr,
  Run conns comps t roots ext st tr ->
  forall l1 a l2, tr = l1 ++ EDispatch a :: l2 ->
  forall u, In u (preds conns (act_comp a)) -> In u ext -> answered l1 u.
Proof.
  intros conns comps t roots ext st tr HR. apply gate_split.
  eapply run_gate. exact HR.
Qed.

(* no component is dispatched twice in a tick, none answers twice *)
Theorem C01_once : forall conns comps t roots ext st tr,
  Run conns comps t roots ext st tr -> NoDup (disp_comps tr) /\ NoDup (ans_comps tr).
Proof. exact run_once. Qed.

(* the participants are exactly the components reachable from the roots *)
Theorem C01_extent : forall conns comps t roots ext st tr,
  Run conns comps t roots ext st tr ->
  forall c, In c ext <-> exists r, In r roots /\ reach conns r c.
Proof.
  intros conns comps t roots ext st tr HR c.
  destruct (run_ext conns comps t roots ext st tr HR) as [st0 [Hs ->]].
  apply (start_tick_spec conns t roots st0 Hs).
Qed.

(* an answer from a non-participant, from a component that already answered, or with
   another time is rejected *)
Theorem C01_rejects : forall conns comps st c t ch,
  ~ In c (pending st) \/ t <> tt st -> propagate conns comps st c t ch = PErr.
Proof. exact propagate_rejects. Qed.

(* progress: with an acyclic wiring, as long as the tick is not over some dispatched component
   is awaiting its answer; each answer removes exactly one participant, so the tick ends
   after exactly |ext| answers, and then every participant has been dispatched and answered *)
Theorem C01_progress : forall conns comps t roots ext st tr,
  acyclic conns -> Run conns comps t roots ext st tr -> todo st <> [] ->
  exists c, In (c, true) (todo st).
Proof. exact run_progress. Qed.

Theorem C01_count : forall conns comps t roots ext st tr,
  Run conns comps t roots ext st tr ->
  (length (pending st) + length (ans_comps tr) = length ext)%nat.
Proof. exact run_count. Qed.

Theorem C01_finished : forall conns comps t roots ext st tr,
  Run conns comps t roots ext st tr -> todo st = [] ->
  forall c, In c ext -> dispatched tr c /\ answered tr c.
Proof. exact run_finished. Qed.

(* no mixture of this-tick and previous-tick values: what a component is handed is exactly
   the set of changes routed from ALL its in-tick upstreams (which, by C01_gate, have all
   answered) -- [action_ok] spells this out *)
Theorem C01_no_mixture : forall conns comps t roots ext st tr,
  single_source conns -> Run conns comps t roots ext st tr -> wf_answers tr ->
  forall l1 a l2, tr = l1 ++ EDispatch a :: l2 -> action_ok conns t roots l1 a.
Proof.
  intros conns comps t roots ext st tr Hss HR Hwf. apply disp_ok_split.
  eapply run_disp_ok; eassumption.
Qed.

(* non-vacuity: a diamond, the slow branch answering last *)
Example C01_example :
  let conns : list conn := [(1, 1, 2, 1); (1, 1, 3, 1); (2, 1, 4, 1); (3, 1, 4, 2)]%positive in
  let comps := [1; 2; 3; 4]%positive in
  match start_tick conns 0 [1%positive] with
  | Some st0 =>
      match schedule conns comps st0 with
      | Some (st1, a1) =>
          match propagate conns comps st1 1%positive 0 [(1%positive, 7%Z)] with
          | POk st2 a2 f2 =>
              match propagate conns comps st2 2%positive 0 [(1%positive, 8%Z)] with
              | POk st3 a3 f3 =>
                  match propagate conns comps st3 3%positive 0 [(1%positive, 9%Z)] with
                  | POk st4 a4 f4 => a3 = [] /\ a4 = [Upd 4%positive 0 [(1%positive, 8%Z); (2%positive, 9%Z)]] /\ f4 = false
                  | PErr => False
                  end
              | PErr => False
              end
          | PErr => False
          end
      | None => False
      end
  | None => False
  end.
Proof. vm_compute. repeat split; reflexivity. Qed.
