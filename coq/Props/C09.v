(* C09 -- system simulations are transparent.
   The flat wiring equivalent to a nesting is defined in Coq ([flatten], Oracle/SimOracle.v):
   external / exposed ports are resolved to the device output that really drives them.
   Proved here:
   (1) for every configuration, the devices of the flattening are exactly the devices the nested
       model visits, in the same order; a configuration without system simulations is its own
       flattening;
   (2) for every configuration, initial-tick transparency: in the master's initial tick the nested
       model updates exactly the devices of the flattening, each once, at the initial time;
   (3) whole-run transparency for one system simulation ([C09_inline_transparent]): for every
       configuration made of top-level devices and one system simulation holding devices
       ([shape], decided by [shape_of]), every device family that reports each output port at most
       once and reads its inputs as a dictionary, every initial time, horizon and number of master
       ticks, the run of the nested configuration and the run of the configuration with the system
       replaced by its contents ([inline]) perform the same device updates in the same order, at
       the same simulation times, with equal inputs (as dictionaries) -- callbacks included; the
       table-driven devices of the harness are such a family ([C09_inline_transparent_table]).
       [C09_inline_transparent_master] states the same for the real-time master model at speed 1
       ([simulate_full], the model every run of the real schedulers is compared with);
       [C09_inline_transparent_script] adds interrupts of the devices outside the system between
       ticks; [C09_nested_is_every_flat_schedule] composes it with C08: the nested model computes
       what every schedule (answer order) of the flat simulation gives every device.
   (4) [C09_inline_transparent_siblings]: the same with SIBLING system simulations at the top level,
       themselves nested to any depth (their ticks are related through the dictionary-adequacy
       theorem of C03 and the footprint theorems of C10); systems of devices can so be inlined one
       after the other ([C09_inline_two_siblings]).
   (5) [C09_flatten_any_depth] (+ _table, _master, _script, [C09_any_depth_is_every_flat_schedule]): ANY DEPTH and
       ANY MIX of external inputs, exposed outputs, pass-through ports (wires straight from an external to an exposed
       port) or none: the inlined system may hold system simulations itself, and inlining the top-level systems one
       after the other ([inline_all], scope decided by [scope_all]) flattens the whole nesting; nested run and flat
       run perform the same device updates, in order, at the same times, with equal inputs.
   (6) [C09_inner_interrupts_refuted]: with interrupts of devices INSIDE system simulations the statement is false,
       in the model and in the code (one specific way, recorded as a known finding).
   PARTIAL: the theorems are about runs with interrupts of top-level components only (between ticks), at speed 1
   where real time is involved; other speeds and interrupts of inner devices are decided per pair of runs of the
   real schedulers (codes 71, 76) and per run by the oracles shared with C03/C06/C12 -- [check_flat_pair] also
   checks that the harness's flat configuration IS the Coq flattening (code 73) and that [inline] / [inline_all]
   compute that flattening (code 74).  Property theorems only. *)
From TV Require Import Base Model.Wiring Model.Ticker Model.Component Model.Sim Model.SimTime Model.Inline Model.NSim Model.Interrupts
  Oracle.SimCheck Oracle.SimOracle
  Proofs.SimP Proofs.FlattenP Proofs.EqvP Proofs.ParDevP Proofs.InlineP Proofs.InlineLoopP Proofs.InlineScopeP Proofs.InlineAllP Proofs.InterruptsP Proofs.SimTimeP Proofs.InlineLatestP Proofs.ScheduleP Proofs.SimTraceP
  Model.NNSim Proofs.NScheduleP Proofs.NDetP Proofs.NDetScopeP Proofs.SimNTP.
Open Scope Z_scope.

Theorem C09_flat_devices : forall cfg fuel lv, flat_order fuel cfg lv = devices_below cfg fuel lv.
Proof. intros. apply flat_order_devices. Qed.

Theorem C09_flat_identity : forall l,
  (forall c k, In (c, k) (l_order l) -> k = KDev /\ c <> ext_id) ->
  forall u p c q,
    In (u, p, c, q) (flat_conns [(1%positive, l)]) <->
    In (u, p, c, q) (l_conns l) /\ lookup c (l_order l) = Some KDev /\ lookup u (l_order l) = Some KDev.
Proof. exact flat_conns_single. Qed.

(* the nested initial tick observes exactly the flattened device list *)
Theorem C09_initial_transparent : forall cfg devf fuel initial s0,
  (forall c lv', In (c, KSys lv') (l_order (level_of cfg top)) -> deep_enough cfg fuel lv') ->
  NoDup (flat_map (sub_levels cfg fuel) (l_order (level_of cfg top))) ->
  (forall x, In x (flat_map (sub_levels cfg fuel) (l_order (level_of cfg top))) -> ~ In x (s_ticked s0)) ->
  real_ids cfg top ->
  (forall x, In x (flat_map (sub_levels cfg fuel) (l_order (level_of cfg top))) -> real_ids cfg x) ->
  let roots := map fst (l_order (level_of cfg top)) in
  let '(s1, _, ob) := tick_level cfg devf fuel top initial roots [] s0 in
  map obs_comp ob = flat_order (S fuel) cfg top /\ (forall o, In o ob -> obs_time o = initial).
Proof.
  intros cfg devf fuel initial s0 H1 H2 H3 H4 H5 roots.
  pose proof (initial_tick_obs cfg devf fuel initial s0 H1 H2 H3 H4 H5) as H. cbv zeta in H.
  fold roots in H. destruct (tick_level cfg devf fuel top initial roots [] s0) as [[s1 o] ob].
  destruct H as [Ha Hb]. split; [|exact Hb]. rewrite Ha. cbn [flat_order].
  apply flat_map_ext. intros [c k]. destruct k as [|lv']; cbn [sub_devices snd fst]; [reflexivity|].
  symmetry. apply flat_order_devices.
Qed.

Example C09_example :
  let cfg := [(1%positive, {| l_order := [(3%positive, KDev); (4%positive, KSys 2%positive); (8%positive, KDev)];
                              l_conns := [(3, 1, 4, 1); (4, 1, 8, 1)]%positive |});
              (2%positive, {| l_order := [(5%positive, KDev)]; l_conns := [(1, 1, 5, 1); (5, 1, 2, 1)]%positive |})] in
  flat_order 40 cfg 1 = [3; 5; 8]%positive /\ flat_conns cfg = [(5, 1, 8, 1); (3, 1, 5, 1)]%positive.
Proof. vm_compute. split; reflexivity. Qed.

(* (3) one system simulation replaced by its contents: same updates, same order, same times, equal inputs *)
Theorem C09_inline_transparent : forall cfg c lvc pre inn post (devf : devfun) f n initial horizon,
  shape_of cfg = Some (c, lvc, pre, inn, post) ->
  (forall d k t i, NoDup (keys (fst (devf d k t i)))) ->
  (forall d k t i i', NoDup (keys i) -> NoDup (keys i') -> eqv i i' -> devf d k t i = devf d k t i') ->
  let '(_, obN, doneN) := sim_run cfg devf n (S f) initial horizon in
  let '(_, obF, doneF) := sim_run (inline cfg c lvc) devf n (S f) initial horizon in
  obs_rel obN obF /\ doneN = doneF.
Proof.
  intros cfg c lvc pre inn post devf f n initial horizon Hs Hnd Hext.
  pose proof (run_inline cfg c lvc pre inn post (shape_of_sound _ _ _ _ _ _ Hs) devf Hnd Hext f (shape_of_devices _ _ _ _ _ _ Hs f) n initial horizon) as H.
  destruct (sim_run cfg devf n (S f) initial horizon) as [[sN obN] dN].
  destruct (sim_run (inline cfg c lvc) devf n (S f) initial horizon) as [[sF obF] dF].
  split; apply H.
Qed.

Theorem C09_inline_transparent_table : forall cfg c lvc pre inn post tab f n initial horizon,
  shape_of cfg = Some (c, lvc, pre, inn, post) ->
  let '(_, obN, doneN) := sim_run cfg (table_dev tab) n (S f) initial horizon in
  let '(_, obF, doneF) := sim_run (inline cfg c lvc) (table_dev tab) n (S f) initial horizon in
  obs_rel obN obF /\ doneN = doneF.
Proof.
  intros cfg c lvc pre inn post tab f n initial horizon Hs.
  exact (C09_inline_transparent cfg c lvc pre inn post (table_dev tab) f n initial horizon Hs
           (table_dev_nd tab) (table_dev_ext tab)).
Qed.

(* the same for the master model with real time (Model/Sim.v [simulate_full], the model every
   whole-simulation run of the real schedulers is compared with) at speed 1 without interrupts,
   for devices that never ask to be called back in the past: that model IS the simulation-time
   loop ([master_is_sim_loop], every configuration) *)
Theorem C09_inline_transparent_master : forall cfg c lvc pre inn post (devf : devfun) f n initial t_end,
  shape_of cfg = Some (c, lvc, pre, inn, post) ->
  (forall d k t i, NoDup (keys (fst (devf d k t i)))) ->
  (forall d k t i i', NoDup (keys i) -> NoDup (keys i') -> eqv i i' -> devf d k t i = devf d k t i') ->
  (forall d k t i w, snd (devf d k t i) = Some w -> t <= w) ->
  obs_rel (m_obs (simulate_full cfg devf 1 1 (S f) n initial [] [] t_end))
          (m_obs (simulate_full (inline cfg c lvc) devf 1 1 (S f) n initial [] [] t_end)).
Proof.
  intros cfg c lvc pre inn post devf f n initial t_end Hs Hnd Hext Hwell.
  pose proof (C09_inline_transparent cfg c lvc pre inn post devf f n initial (initial + t_end) Hs Hnd Hext) as H.
  pose proof (master_is_sim_loop cfg devf Hwell (S f) initial t_end n) as HN.
  pose proof (master_is_sim_loop (inline cfg c lvc) devf Hwell (S f) initial t_end n) as HF.
  cbv zeta in HN, HF.
  destruct (sim_run cfg devf n (S f) initial (initial + t_end)) as [[sN obN] dN].
  destruct (sim_run (inline cfg c lvc) devf n (S f) initial (initial + t_end)) as [[sF obF] dF].
  destruct HN as [_ HN]. destruct HF as [_ HF]. rewrite HN, HF. apply H.
Qed.

Theorem C09_inline_transparent_master_table : forall cfg c lvc pre inn post tab f n initial t_end,
  shape_of cfg = Some (c, lvc, pre, inn, post) -> periods_ok tab = true ->
  obs_rel (m_obs (simulate_full cfg (table_dev tab) 1 1 (S f) n initial [] [] t_end))
          (m_obs (simulate_full (inline cfg c lvc) (table_dev tab) 1 1 (S f) n initial [] [] t_end)).
Proof.
  intros cfg c lvc pre inn post tab f n initial t_end Hs Hp.
  exact (C09_inline_transparent_master cfg c lvc pre inn post (table_dev tab) f n initial t_end Hs
           (table_dev_nd tab) (table_dev_ext tab) (table_dev_well tab Hp)).
Qed.

(* ... with interrupts of the devices outside the system at any points between the ticks
   ([sim_script]: the whole-simulation model run on a script of ticks and interrupts) *)
Theorem C09_inline_transparent_script : forall cfg c lvc pre inn post (devf : devfun) f initial script,
  shape_of cfg = Some (c, lvc, pre, inn, post) ->
  (forall d k t i, NoDup (keys (fst (devf d k t i)))) ->
  (forall d k t i i', NoDup (keys i) -> NoDup (keys i') -> eqv i i' -> devf d k t i = devf d k t i') ->
  (forall y w, In (IStim y w) script -> In y (pre ++ post)) ->
  obs_rel (snd (sim_script_from_start cfg devf (S f) initial script))
          (snd (sim_script_from_start (inline cfg c lvc) devf (S f) initial script)).
Proof.
  intros cfg c lvc pre inn post devf f initial script Hs Hnd Hext Hok.
  pose proof (script_run_inline cfg c lvc pre inn post (shape_of_sound _ _ _ _ _ _ Hs) devf Hnd Hext f (shape_of_devices _ _ _ _ _ _ Hs f) initial script Hok) as H.
  destruct (sim_script_from_start cfg devf (S f) initial script) as [sN obN].
  destruct (sim_script_from_start (inline cfg c lvc) devf (S f) initial script) as [sF obF]. apply H.
Qed.

(* composed with C08: what the NESTED model computes is what EVERY schedule of the FLAT (inlined)
   simulation gives every device -- any order in which the components of the flat simulation answer,
   tick after tick *)
Theorem C09_nested_is_every_flat_schedule : forall cfg c lvc pre inn post (devf : devfun) f initial script sA obA,
  shape_of cfg = Some (c, lvc, pre, inn, post) ->
  flat_wfb (level_of (inline cfg c lvc) top) = true ->
  (forall d k t i, NoDup (keys (fst (devf d k t i)))) ->
  (forall d k t i i', NoDup (keys i) -> NoDup (keys i') -> eqv i i' -> devf d k t i = devf d k t i') ->
  (forall y w, In (IStim y w) script -> In y (pre ++ post)) ->
  nrun (l_conns (level_of (inline cfg c lvc) top)) (map fst (l_order (level_of (inline cfg c lvc) top))) devf initial script sA obA ->
  forall d, obs_rel (dev_obs d (snd (sim_script_from_start cfg devf (S f) initial script))) (dev_obs d obA).
Proof.
  intros cfg c lvc pre inn post devf f initial script sA obA Hs Hwf Hnd Hext Hok HA d.
  pose proof (C09_inline_transparent_script cfg c lvc pre inn post devf f initial script Hs Hnd Hext Hok) as H1.
  assert (Hok2 : forall y w, In (IStim y w) script -> In y (map fst (l_order (level_of (inline cfg c lvc) top)))).
  { intros y w Hi. specialize (Hok y w Hi). rewrite (inline_top_order _ _ _ _ _ _ (shape_of_sound _ _ _ _ _ _ Hs)), !map_app.
    unfold dv. rewrite !map_map. cbn [fst]. rewrite !map_id. apply in_app_iff in Hok. apply in_app_iff.
    destruct Hok as [H|H]; [left; exact H | right; apply in_app_iff; right; exact H]. }
  pose proof (nrun_is_sim (inline cfg c lvc) devf (S f) Hnd Hext (flat_wfb_sound _ Hwf) initial script sA obA Hok2 HA) as H2.
  destruct (sim_script_from_start (inline cfg c lvc) devf (S f) initial script) as [sF obF]. destruct H2 as [_ H2]. cbn [snd] in H1.
  eapply obs_rel_trans; [apply obs_rel_dev_obs; exact H1 | apply obs_rel_sym; apply H2].
Qed.

(* (4) the same when the system sits among top-level devices AND sibling system simulations, which may
   themselves be nested to any depth ([shape_at] decides the scope for the fuel of the run): replacing
   ONE system simulation of devices by its contents changes no observation -- of the top-level
   devices, of the inlined devices, or of any device inside a sibling system *)
Theorem C09_inline_transparent_siblings : forall cfg c lvc pre inn post (devf : devfun) f n initial horizon,
  shape_at cfg (S f) c = Some (lvc, pre, inn, post) ->
  (forall d k t i, NoDup (keys (fst (devf d k t i)))) ->
  (forall d k t i i', NoDup (keys i) -> NoDup (keys i') -> eqv i i' -> devf d k t i = devf d k t i') ->
  let '(_, obN, doneN) := sim_run cfg devf n (S f) initial horizon in
  let '(_, obF, doneF) := sim_run (inline cfg c lvc) devf n (S f) initial horizon in
  obs_rel obN obF /\ doneN = doneF.
Proof.
  intros cfg c lvc pre inn post devf f n initial horizon Hs Hnd Hext.
  destruct (shape_at_sound cfg f c lvc pre inn post Hs) as [Hsh Hsib].
  pose proof (run_inline cfg c lvc pre inn post Hsh devf Hnd Hext f Hsib n initial horizon) as H.
  destruct (sim_run cfg devf n (S f) initial horizon) as [[sN obN] dN].
  destruct (sim_run (inline cfg c lvc) devf n (S f) initial horizon) as [[sF obF] dF].
  split; apply H.
Qed.

(* inlining one system after the other: two sibling systems of devices flattened in two steps *)
Theorem C09_inline_two_siblings : forall cfg c1 lv1 pre1 inn1 post1 c2 lv2 pre2 inn2 post2 (devf : devfun) f n initial horizon,
  shape_at cfg (S f) c1 = Some (lv1, pre1, inn1, post1) ->
  shape_at (inline cfg c1 lv1) (S f) c2 = Some (lv2, pre2, inn2, post2) ->
  (forall d k t i, NoDup (keys (fst (devf d k t i)))) ->
  (forall d k t i i', NoDup (keys i) -> NoDup (keys i') -> eqv i i' -> devf d k t i = devf d k t i') ->
  obs_rel (snd (fst (sim_run cfg devf n (S f) initial horizon)))
          (snd (fst (sim_run (inline (inline cfg c1 lv1) c2 lv2) devf n (S f) initial horizon))).
Proof.
  intros cfg c1 lv1 pre1 inn1 post1 c2 lv2 pre2 inn2 post2 devf f n initial horizon H1 H2 Hnd Hext.
  pose proof (C09_inline_transparent_siblings cfg c1 lv1 pre1 inn1 post1 devf f n initial horizon H1 Hnd Hext) as A.
  pose proof (C09_inline_transparent_siblings (inline cfg c1 lv1) c2 lv2 pre2 inn2 post2 devf f n initial horizon H2 Hnd Hext) as B.
  destruct (sim_run cfg devf n (S f) initial horizon) as [[s0 o0] d0].
  destruct (sim_run (inline cfg c1 lv1) devf n (S f) initial horizon) as [[s1 o1] d1].
  destruct (sim_run (inline (inline cfg c1 lv1) c2 lv2) devf n (S f) initial horizon) as [[s2 o2] d2].
  cbn [fst snd]. eapply obs_rel_trans; [apply A | apply B].
Qed.

(* non-vacuity: source 3 -> system 4 (devices 5 -> 6) -> sibling system 7 (device 9 and a system 10 holding
   device 11, i.e. depth 2) -> sink 8; the system 4 is inlined; and two sibling systems of devices inlined one
   after the other *)
Definition sib_cfg : config :=
  [(1%positive, {| l_order := [(3%positive, KDev); (4%positive, KSys 2%positive); (7%positive, KSys 3%positive); (8%positive, KDev)];
                   l_conns := [(3, 1, 4, 1); (4, 1, 7, 1); (7, 1, 8, 1); (3, 2, 8, 2)]%positive |});
   (2%positive, {| l_order := [(5%positive, KDev); (6%positive, KDev)];
                   l_conns := [(1, 1, 5, 1); (5, 1, 6, 1); (6, 1, 2, 1)]%positive |});
   (3%positive, {| l_order := [(9%positive, KDev); (10%positive, KSys 4%positive)];
                   l_conns := [(1, 1, 9, 1); (9, 1, 10, 1); (10, 1, 2, 1)]%positive |});
   (4%positive, {| l_order := [(11%positive, KDev)]; l_conns := [(1, 1, 11, 1); (11, 1, 2, 1)]%positive |})].
Definition sib_tab : dev_table :=
  [(3%positive, (11, 300, 1)); (5%positive, (12, 700, 1)); (6%positive, (13, 500, 4)); (8%positive, (14, 400, 0));
   (9%positive, (15, 600, 1)); (11%positive, (16, 900, 4))].
Definition two_cfg : config :=
  [(1%positive, {| l_order := [(3%positive, KDev); (4%positive, KSys 2%positive); (7%positive, KSys 3%positive); (8%positive, KDev)];
                   l_conns := [(3, 1, 4, 1); (4, 1, 7, 1); (7, 1, 8, 1)]%positive |});
   (2%positive, {| l_order := [(5%positive, KDev)]; l_conns := [(1, 1, 5, 1); (5, 1, 2, 1)]%positive |});
   (3%positive, {| l_order := [(9%positive, KDev)]; l_conns := [(1, 1, 9, 1); (9, 1, 2, 1)]%positive |})].

Example C09_siblings_example :
  shape_at sib_cfg 8 4%positive = Some (2%positive, [3%positive], [5%positive; 6%positive], [7%positive; 8%positive]) /\
  (let '(_, obN, _) := sim_run sib_cfg (table_dev sib_tab) 20 8 0 100000 in
   (40 <? Z.of_nat (length obN)) = true /\ existsb (fun o : obs => Pos.eqb (fst (fst o)) 11) obN = true) /\
  shape_at two_cfg 8 4%positive = Some (2%positive, [3%positive], [5%positive], [7%positive; 8%positive]) /\
  shape_at (inline two_cfg 4%positive 2%positive) 8 7%positive = Some (3%positive, [3%positive; 5%positive], [9%positive], [8%positive]) /\
  map fst (l_order (level_of (inline (inline two_cfg 4%positive 2%positive) 7%positive 3%positive) 1%positive)) = [3; 5; 9; 8]%positive.
Proof. vm_compute. repeat split; reflexivity. Qed.

(* (5) ANY DEPTH.  The system simulation c that is inlined may itself hold system simulations (of any depth): they
   become top-level system simulations of the inlined configuration ([shape_at] accepts them; the nested
   scheduler of c ran them with one unit of fuel less, which changes nothing once the fuel exceeds the depth,
   Proofs/FuelP.v).  Inlining the top-level system simulations one after the other ([inline_all]) therefore
   flattens a nesting of any depth, and the nested run and the run of the flat result perform the same device
   updates, in the same order, at the same simulation times, with equal inputs.  [scope_all] decides the scope:
   every step in the scope of (4), the given number of steps enough to reach a top level of devices. *)
Theorem C09_flatten_any_depth : forall cfg k (devf : devfun) f n initial horizon,
  scope_all k (S f) [] cfg = true ->
  (forall d k t i, NoDup (keys (fst (devf d k t i)))) ->
  (forall d k t i i', NoDup (keys i) -> NoDup (keys i') -> eqv i i' -> devf d k t i = devf d k t i') ->
  (forall ck, In ck (l_order (level_of (inline_all k cfg) top)) -> snd ck = KDev) /\
  let '(_, obN, doneN) := sim_run cfg devf n (S f) initial horizon in
  let '(_, obF, doneF) := sim_run (inline_all k cfg) devf n (S f) initial horizon in
  obs_rel obN obF /\ doneN = doneF.
Proof.
  intros cfg k devf f n initial horizon Hs Hnd Hext. split; [exact (inline_all_flat k (S f) [] cfg Hs)|].
  exact (inline_all_transparent devf Hnd Hext f n initial horizon k cfg Hs).
Qed.

Theorem C09_flatten_any_depth_table : forall cfg k tab f n initial horizon,
  scope_all k (S f) [] cfg = true ->
  let '(_, obN, doneN) := sim_run cfg (table_dev tab) n (S f) initial horizon in
  let '(_, obF, doneF) := sim_run (inline_all k cfg) (table_dev tab) n (S f) initial horizon in
  obs_rel obN obF /\ doneN = doneF.
Proof.
  intros cfg k tab f n initial horizon Hs.
  exact (inline_all_transparent (table_dev tab) (table_dev_nd tab) (table_dev_ext tab) f n initial horizon k cfg Hs).
Qed.

(* the same for the real-time master model at speed 1 *)
Theorem C09_flatten_any_depth_master : forall cfg k (devf : devfun) f n initial t_end,
  scope_all k (S f) [] cfg = true ->
  (forall d k t i, NoDup (keys (fst (devf d k t i)))) ->
  (forall d k t i i', NoDup (keys i) -> NoDup (keys i') -> eqv i i' -> devf d k t i = devf d k t i') ->
  (forall d k t i w, snd (devf d k t i) = Some w -> t <= w) ->
  obs_rel (m_obs (simulate_full cfg devf 1 1 (S f) n initial [] [] t_end))
          (m_obs (simulate_full (inline_all k cfg) devf 1 1 (S f) n initial [] [] t_end)).
Proof.
  intros cfg k devf f n initial t_end Hs Hnd Hext Hwell.
  pose proof (inline_all_transparent devf Hnd Hext f n initial (initial + t_end) k cfg Hs) as H.
  pose proof (master_is_sim_loop cfg devf Hwell (S f) initial t_end n) as HN.
  pose proof (master_is_sim_loop (inline_all k cfg) devf Hwell (S f) initial t_end n) as HF.
  cbv zeta in HN, HF.
  destruct (sim_run cfg devf n (S f) initial (initial + t_end)) as [[sN obN] dN].
  destruct (sim_run (inline_all k cfg) devf n (S f) initial (initial + t_end)) as [[sF obF] dF].
  destruct HN as [_ HN]. destruct HF as [_ HF]. rewrite HN, HF. apply H.
Qed.

(* with interrupts, between ticks, of components that stay outside every inlined system (ys) *)
Theorem C09_flatten_any_depth_script : forall cfg k ys (devf : devfun) f initial script,
  scope_all k (S f) ys cfg = true ->
  (forall d k t i, NoDup (keys (fst (devf d k t i)))) ->
  (forall d k t i i', NoDup (keys i) -> NoDup (keys i') -> eqv i i' -> devf d k t i = devf d k t i') ->
  (forall y w, In (IStim y w) script -> In y ys) ->
  obs_rel (snd (sim_script_from_start cfg devf (S f) initial script))
          (snd (sim_script_from_start (inline_all k cfg) devf (S f) initial script)).
Proof.
  intros cfg k ys devf f initial script Hs Hnd Hext Hys.
  exact (inline_all_transparent_script devf Hnd Hext f initial script ys Hys k cfg Hs).
Qed.

(* composed with C08: what the NESTED model of a nesting of any depth computes is what EVERY schedule (any order
   in which the components answer, tick after tick) of its flat equivalent gives every device *)
Theorem C09_any_depth_is_every_flat_schedule : forall cfg k ys (devf : devfun) f initial script sA obA,
  scope_all k (S f) ys cfg = true ->
  flat_wfb (level_of (inline_all k cfg) top) = true ->
  (forall d k t i, NoDup (keys (fst (devf d k t i)))) ->
  (forall d k t i i', NoDup (keys i) -> NoDup (keys i') -> eqv i i' -> devf d k t i = devf d k t i') ->
  (forall y w, In (IStim y w) script -> In y ys) ->
  (forall y, In y ys -> In y (map fst (l_order (level_of (inline_all k cfg) top)))) ->
  nrun (l_conns (level_of (inline_all k cfg) top)) (map fst (l_order (level_of (inline_all k cfg) top))) devf initial script sA obA ->
  forall d, obs_rel (dev_obs d (snd (sim_script_from_start cfg devf (S f) initial script))) (dev_obs d obA).
Proof.
  intros cfg k ys devf f initial script sA obA Hs Hwf Hnd Hext Hys Hin HA d.
  pose proof (C09_flatten_any_depth_script cfg k ys devf f initial script Hs Hnd Hext Hys) as H1.
  assert (Hok2 : forall y w, In (IStim y w) script -> In y (map fst (l_order (level_of (inline_all k cfg) top)))).
  { intros y w Hi. apply Hin. apply (Hys y w Hi). }
  pose proof (nrun_is_sim (inline_all k cfg) devf (S f) Hnd Hext (flat_wfb_sound _ Hwf) initial script sA obA Hok2 HA) as H2.
  destruct (sim_script_from_start (inline_all k cfg) devf (S f) initial script) as [sF obF]. destruct H2 as [_ H2]. cbn [snd] in H1.
  eapply obs_rel_trans; [apply obs_rel_dev_obs; exact H1 | apply obs_rel_sym; apply H2].
Qed.

(* ... and with the nested half of C08: EVERY schedule of the nested simulation (any answer order at every level,
   a system simulation answering with any run of its own level) and EVERY schedule of its flat equivalent give every
   device the same sequence of (time, inputs) *)
Theorem C09_every_nested_schedule_is_every_flat_schedule : forall cfg k ys (devf : devfun) f initial script sN obN sF obF,
  scope_all k (S f) ys cfg = true ->
  flat_wfb (level_of (inline_all k cfg) top) = true ->
  subtree_okb cfg (S (S f)) top = true ->
  (forall d k t i, NoDup (keys (fst (devf d k t i)))) ->
  (forall d k t i i', NoDup (keys i) -> NoDup (keys i') -> eqv i i' -> devf d k t i = devf d k t i') ->
  (forall y w, In (IStim y w) script -> In y ys) ->
  (forall y, In y ys -> In y (map fst (l_order (level_of (inline_all k cfg) top)))) ->
  nnrun cfg devf (S f) initial script sN obN ->
  nrun (l_conns (level_of (inline_all k cfg) top)) (map fst (l_order (level_of (inline_all k cfg) top))) devf initial script sF obF ->
  forall d, obs_rel (dev_obs d obN) (dev_obs d obF).
Proof.
  intros cfg k ys devf f initial script sN obN sF obF Hs Hwf Hok Hnd Hext Hys Hin HN HF d.
  destruct (nnrun_is_sim cfg devf Hnd Hext (S f) initial script sN obN (subtree_okb_sound _ _ _ Hok) HN) as [_ H1].
  pose proof (C09_any_depth_is_every_flat_schedule cfg k ys devf f initial script sF obF Hs Hwf Hnd Hext Hys Hin HF d) as H2.
  eapply obs_rel_trans; [apply H1 | exact H2].
Qed.

(* non-vacuity: [sib_cfg] above is three levels deep (system 7 holds device 9 and system 10, which holds device 11):
   the system 7 can be inlined (its inner system 10 becomes a top-level system); four steps flatten the whole
   nesting, the result is the Coq flattening, and it is a well-formed flat level; interrupts of the source 3 and
   the sink 8 stay in scope *)
Example C09_any_depth_example :
  shape_at sib_cfg 8 7%positive = Some (3%positive, [3%positive; 4%positive], [9%positive; 10%positive], [8%positive]) /\
  scope_all 5 8 [3%positive; 8%positive] sib_cfg = true /\
  map fst (l_order (level_of (inline_all 5 sib_cfg) 1%positive)) = [3; 5; 6; 9; 11; 8]%positive /\
  list_eqb Pos.eqb (flat_order 40 sib_cfg 1%positive) (map fst (l_order (level_of (inline_all 5 sib_cfg) 1%positive))) = true /\
  conns_set_eqb (flat_conns sib_cfg) (l_conns (level_of (inline_all 5 sib_cfg) 1%positive)) = true /\
  flat_wfb (level_of (inline_all 5 sib_cfg) 1%positive) = true /\
  (let '(_, obN, _) := sim_run sib_cfg (table_dev sib_tab) 20 8 0 100000 in
   map fst obN = map fst (snd (fst (sim_run (inline_all 5 sib_cfg) (table_dev sib_tab) 20 8 0 100000)))).
Proof. vm_compute. repeat split; reflexivity. Qed.

(* ... and its hypotheses are met by [sib_cfg] with runs under the last-dispatched-first strategy on both sides *)
Example C09_nested_and_flat_schedules_example :
  let script := [ITick; ITick; IStim 3%positive 650; ITick; ITick; IStim 8%positive 1000; ITick; ITick] in
  let F := level_of (inline_all 5 sib_cfg) top in
  scope_all 5 8 [3%positive; 8%positive] sib_cfg = true /\ flat_wfb F = true /\ subtree_okb sib_cfg 9 top = true /\
  (exists sN obN, nnrun sib_cfg (table_dev sib_tab) 8 0 script sN obN) /\
  (exists sF obF, nrun (l_conns F) (map fst (l_order F)) (table_dev sib_tab) 0 script sF obF).
Proof.
  cbv zeta. split; [vm_compute; reflexivity|]. split; [vm_compute; reflexivity|]. split; [vm_compute; reflexivity|]. split.
  - destruct (nnrun_from_start sib_cfg (table_dev sib_tab) pick_last 100 8 0 [ITick; ITick; IStim 3%positive 650; ITick; ITick; IStim 8%positive 1000; ITick; ITick])
      as [[sN obN]|] eqn:E; [|vm_compute in E; discriminate].
    exists sN, obN. eapply nnrun_from_start_sound. exact E.
  - destruct (nrun_from_start (l_conns (level_of (inline_all 5 sib_cfg) top)) (map fst (l_order (level_of (inline_all 5 sib_cfg) top))) (table_dev sib_tab) pick_last 100 0
                [ITick; ITick; IStim 3%positive 650; ITick; ITick; IStim 8%positive 1000; ITick; ITick])
      as [[sF obF]|] eqn:E; [|vm_compute in E; discriminate].
    exists sF, obF. eapply nrun_from_start_sound. exact E.
Qed.

(* pass-through ports: a wire straight from an external to an exposed port of the system 4 (external 1 -> expose 2)
   becomes the direct wire 3.1 -> 8.2 of the inlined configuration; the shape is in scope as long as what feeds the
   port comes before the system and what it feeds comes after it in the order of the top level *)
Definition pt_cfg : config :=
  [(1%positive, {| l_order := [(3%positive, KDev); (4%positive, KSys 2%positive); (8%positive, KDev)];
                   l_conns := [(3, 1, 4, 1); (4, 1, 8, 1); (4, 2, 8, 2)]%positive |});
   (2%positive, {| l_order := [(5%positive, KDev)]; l_conns := [(1, 1, 5, 1); (5, 1, 2, 1); (1, 1, 2, 2)]%positive |})].
Example C09_pass_through_example :
  shape_at pt_cfg 8 4%positive = Some (2%positive, [3%positive], [5%positive], [8%positive]) /\
  scope_all 3 8 [] pt_cfg = true /\
  In (3, 1, 8, 2)%positive (l_conns (level_of (inline_all 3 pt_cfg) 1%positive)) /\
  conns_set_eqb (flat_conns pt_cfg) (l_conns (level_of (inline_all 3 pt_cfg) 1%positive)) = true /\
  (let tab : dev_table := [(3%positive, (11, 300, 1)); (5%positive, (12, 700, 0)); (8%positive, (14, 400, 0))] in
   let '(_, obN, _) := sim_run pt_cfg (table_dev tab) 12 8 0 100000 in
   existsb (fun o : obs => Pos.eqb (fst (fst o)) 8 && nonempty (filter (fun kv : port * Z => Pos.eqb (fst kv) 2) (snd o))) obN = true).
Proof. vm_compute. repeat split; try reflexivity; intuition. Qed.

(* (6) REFUTED for interrupts of devices INSIDE system simulations, in the model and in the code (DESIGN.md 7.3).
   An interrupt of an inner device is queued by name in the nested scheduler and wakes the OUTERMOST system
   simulation at the master, which keeps the earlier of that stamp and the wakeup the system already has
   ([stim_at] = the bookkeeping of [raise_interrupt], Proofs/InterruptsP.v).  Two devices of one system that
   raise interrupts before the master has served the first are therefore both updated at the FIRST stamp, while
   in the flat wiring each has its own wakeup and is updated at its own stamp: the second device observes another
   update time.  The witness below (two devices in one system, stamps 1000 and 1001) is replayed on the real
   schedulers by the check (reason interrupts-of-one-system-share-the-earliest-stamp). *)
Definition coal_cfg : config :=
  [(1%positive, {| l_order := [(3%positive, KDev); (4%positive, KSys 2%positive)]; l_conns := [] |});
   (2%positive, {| l_order := [(5%positive, KDev); (6%positive, KDev)]; l_conns := [] |})].
Definition coal_tab : dev_table := [(3%positive, (1, 0, 0)); (5%positive, (2, 0, 0)); (6%positive, (3, 0, 0))].
Definition coal_script : list xitem :=
  [XStim 5%positive 2%positive [(1%positive, 4%positive)] 1000; XStim 6%positive 2%positive [(1%positive, 4%positive)] 1001; XTick; XTick].

Lemma obs_rel_fst a b : obs_rel a b -> map fst a = map fst b.
Proof. induction 1 as [|x y l l' [E _] _ IH]; [reflexivity|]. cbn [map]. rewrite E, IH. reflexivity. Qed.

Theorem C09_inner_interrupts_refuted :
  scope_all 3 8 [] coal_cfg = true /\
  let obN := snd (xsim_from_start coal_cfg (table_dev coal_tab) 8 0 coal_script) in
  let obF := snd (xsim_from_start (inline_all 3 coal_cfg) (table_dev coal_tab) 8 0 (map flat_item coal_script)) in
  obs_of 6%positive obN = [(0, []); (1000, [])] /\ obs_of 6%positive obF = [(0, []); (1001, [])] /\ ~ obs_rel obN obF.
Proof.
  split; [vm_compute; reflexivity|]. cbv zeta. split; [vm_compute; reflexivity|]. split; [vm_compute; reflexivity|].
  intros H. apply obs_rel_fst in H. vm_compute in H. discriminate H.
Qed.

(* ... while interrupts with EQUAL stamps are served together on both sides (the witness with both stamps 1000) *)
Example C09_inner_interrupts_same_stamp :
  let script := [XStim 5%positive 2%positive [(1%positive, 4%positive)] 1000; XStim 6%positive 2%positive [(1%positive, 4%positive)] 1000; XTick; XTick] in
  map fst (snd (xsim_from_start coal_cfg (table_dev coal_tab) 8 0 script)) =
  map fst (snd (xsim_from_start (inline_all 3 coal_cfg) (table_dev coal_tab) 8 0 (map flat_item script))).
Proof. vm_compute. reflexivity. Qed.

(* the premises hold somewhere and the conclusion is not empty: two devices around a system of two
   devices, callbacks on three of them; 20 master ticks produce more than 30 device updates, and the
   inlined configuration is the flattening *)
Definition ex_cfg : config :=
  [(1%positive, {| l_order := [(3%positive, KDev); (4%positive, KSys 2%positive); (8%positive, KDev)];
                   l_conns := [(3, 1, 4, 1); (3, 2, 4, 2); (4, 1, 8, 1); (3, 1, 8, 2)]%positive |});
   (2%positive, {| l_order := [(5%positive, KDev); (6%positive, KDev)];
                   l_conns := [(1, 1, 5, 1); (1, 2, 6, 2); (5, 1, 6, 1); (6, 1, 2, 1); (5, 2, 2, 2)]%positive |})].
Definition ex_tab : dev_table :=
  [(3%positive, (11, 300, 1)); (5%positive, (12, 700, 1)); (6%positive, (13, 500, 4)); (8%positive, (14, 400, 0))].

Example C09_inline_example :
  shape_of ex_cfg = Some (4%positive, 2%positive, [3%positive], [5%positive; 6%positive], [8%positive]) /\
  (let '(_, obN, doneN) := sim_run ex_cfg (table_dev ex_tab) 20 8 0 100000 in
   (30 <? Z.of_nat (length obN)) = true /\
   map fst obN = map fst (snd (fst (sim_run (inline ex_cfg 4%positive 2%positive) (table_dev ex_tab) 20 8 0 100000)))) /\
  conns_set_eqb (flat_conns ex_cfg) (l_conns (level_of (inline ex_cfg 4%positive 2%positive) 1%positive)) = true /\
  periods_ok ex_tab = true.
Proof. vm_compute. repeat split; reflexivity. Qed.
