(* The tick log of the whole-simulation model: every tick of every scheduler is logged when it starts
   (level, time, roots).  All entries written while a tick of some level runs -- the ticks of the system
   simulations below it, at any depth -- carry that tick's time, and they are written after its own entry:
   an inner tick lies inside the outer tick that triggered it, at the same time (C04). *)
From TV Require Import Base Model.Wiring Model.Ticker Model.Component Model.Sim Proofs.SimP.
Open Scope Z_scope.

Definition log_time (e : positive * Z * list comp) : Z := snd (fst e).

(* s' extends the log of s by entries that all carry time t *)
Definition log_ext (t : Z) (s s' : sstate) : Prop :=
  exists l, s_log s' = s_log s ++ l /\ forall e, In e l -> log_time e = t.

Lemma log_ext_refl t s : log_ext t s s.
Proof. exists []. split; [rewrite app_nil_r; reflexivity | intros e []]. Qed.

Lemma log_ext_trans t s1 s2 s3 : log_ext t s1 s2 -> log_ext t s2 s3 -> log_ext t s1 s3.
Proof.
  intros [l1 [E1 H1]] [l2 [E2 H2]]. exists (l1 ++ l2). split; [rewrite E2, E1, app_assoc; reflexivity|].
  intros e He. apply in_app_iff in He. destruct He as [He|He]; [apply H1 | apply H2]; exact He.
Qed.

Lemma log_ext_same t s s' : s_log s' = s_log s -> log_ext t s s'.
Proof. intros E. exists []. split; [rewrite app_nil_r; exact E | intros e []]. Qed.

Section L.
Variable cfg : config.
Variable devf : devfun.

Definition inner_logs (inner : positive -> Z -> values -> sstate -> sstate * values * option Z * list obs) : Prop :=
  forall lv t chg s, log_ext t s (fst (fst (fst (inner lv t chg s)))).

Lemma tick_step_log inner lv conns time roots ext a ck : inner_logs inner ->
  log_ext time (ta_s a) (ta_s (tick_step devf inner lv conns time roots ext a ck)).
Proof.
  intros Hin. unfold tick_step. destruct (in_extent conns roots (ta_touched a) (fst ck)); [|apply log_ext_refl].
  destruct (nonempty (get_d (fst ck) (ta_in a)) || memb (fst ck) roots); [|apply log_ext_refl].
  destruct (Pos.eqb (fst ck) ext_id); [apply log_ext_refl|]. destruct (Pos.eqb (fst ck) exp_id); [apply log_ext_refl|].
  destruct (snd ck) as [|lv'].
  - unfold dev_update. destruct (devf (fst ck) _ time _) as [outs ca]. destruct ca; cbn [ta_s]; apply log_ext_same; reflexivity.
  - pose proof (Hin lv' time (get_d (fst ck) (ta_in a)) (ta_s a)) as H.
    destruct (inner lv' time (get_d (fst ck) (ta_in a)) (ta_s a)) as [[[s1 ch] ca] ob]. cbn [fst] in H.
    destruct ca; cbn [ta_s]; [|exact H]. eapply log_ext_trans; [exact H | apply log_ext_same; reflexivity].
Qed.

Lemma tick_fold_log inner lv conns time roots ext : inner_logs inner -> forall l a,
  log_ext time (ta_s a) (ta_s (fold_left (tick_step devf inner lv conns time roots ext) l a)).
Proof.
  intros Hin. induction l as [|ck r IH]; intros a; [apply log_ext_refl|]. cbn [fold_left].
  eapply log_ext_trans; [apply tick_step_log; exact Hin | apply IH].
Qed.

Lemma tick_with_log inner lv time roots ext s : inner_logs inner ->
  log_ext time s (fst (fst (tick_with cfg devf inner lv time roots ext s))).
Proof.
  intros Hin. unfold tick_with. cbn [fst].
  exact (tick_fold_log inner lv (l_conns (level_of cfg lv)) time roots ext Hin (all_of (level_of cfg lv))
           {| ta_s := s; ta_in := []; ta_touched := []; ta_out := []; ta_obs := [] |}).
Qed.

Theorem on_tick_level_logs : forall f, inner_logs (on_tick_level cfg devf f).
Proof.
  induction f as [|f IH]; intros lv t chg s; [apply log_ext_refl|]. cbn [on_tick_level].
  set (roots := int_of s lv ++ _).
  set (s1 := mark_ticked (set_int (set_wake s lv _) lv []) lv).
  pose proof (tick_with_log (on_tick_level cfg devf f) lv t roots chg (log_tick s1 lv t roots) IH) as H.
  destruct (tick_with cfg devf (on_tick_level cfg devf f) lv t roots chg (log_tick s1 lv t roots)) as [[s2 out] ob]. cbn [fst] in *.
  eapply log_ext_trans; [|exact H].
  exists [(lv, t, roots)]. split; [reflexivity|]. intros e [E|[]]. subst e. reflexivity.
Qed.

(* a tick of any level, at any depth: everything it writes to the log carries its time *)
Theorem tick_level_logs f lv time roots ext s :
  log_ext time s (fst (fst (tick_level cfg devf f lv time roots ext s))).
Proof. unfold tick_level. apply tick_with_log. apply on_tick_level_logs. Qed.

(* a master tick: its own entry comes first, then only entries with its time *)
Theorem do_tick_logs f m when roots real :
  exists l, s_log (m_s (do_tick cfg devf f m when roots real)) = s_log (m_s m) ++ (top, when, roots) :: l /\
            forall e, In e l -> log_time e = when.
Proof.
  unfold do_tick.
  set (s1 := set_wake (m_s m) top _).
  pose proof (tick_level_logs f top when roots [] (log_tick s1 top when roots)) as H.
  destruct (tick_level cfg devf f top when roots [] (log_tick s1 top when roots)) as [[s2 o] ob]. cbn [fst m_s] in *.
  destruct H as [l [E Hl]]. exists l. split; [|exact Hl]. rewrite E. unfold log_tick. cbn [s_log]. unfold s1, set_wake. cbn [s_log].
  rewrite <- app_assoc. reflexivity.
Qed.
End L.
