import sprops

PID = "C06"


def main(tier, seed):
    return sprops.main_S(PID, tier, seed, {65, 66, 67}, "Props.C06",
                         ["Model/Sim.v", "Model/Master.v", "Oracle/SimCheck.v", "Oracle/SimOracle.v", "Proofs/MasterP.v", "Props/C06.v"],
                         "callbacks", "callbacks")


replay = sprops.replay_S
