(* C04 -- ticks are serialised, carry one time each, and time never runs backwards.
   Message-level model of the master scheduler (Model/Master.v): [MRun m now outs] says that the
   master, fed ANY sequence of start / Output / Skip / Interrupt / ComponentException / timer events
   at non-decreasing real times -- in which the sleep timer does not fire before its deadline and no
   component asks to be called back before the time of the tick it answers ([env_ok]) -- has
   produced the outputs [outs].  Handlers are atomic between suspensions (asyncio).  The nested
   scheduler's inner tick runs inside SystemComponent.on_tick, i.e. between the system's Input and
   its Output: on the whole-simulation model (Model/Sim.v, any configuration, any nesting depth) every
   tick of every scheduler is logged when it starts, and [C04_inner_ticks_inside_outer_tick] shows that
   everything a tick writes to that log -- the ticks of the system simulations below it, at any depth --
   comes after its own entry and carries its time; the same containment is checked on whole nested
   simulations of the real schedulers by the correspondence run (oracle code 49).
   AT MESSAGE LEVEL, ANY INTERLEAVING ([C04_inner_tick_inside_outer_tick_any_interleaving], [C04_answers_only_from_a_running_tick]):
   in the alert protocol of Model/Alert.v (the bookkeeping of all schedulers of a nesting with the messages in flight; interrupts
   at any moment; the real runs are replayed in it step by step, see C07) a scheduler starts a tick only when it is not ticking
   and ends it only when every component it updates has answered (the guards of the steps), and in every reachable state a ticking
   nested scheduler's system simulation has been handed its Input in a tick of the enclosing scheduler that is still running,
   has not answered it, and the two ticks carry one time; an Output in flight comes from a component of a running tick that has
   been handed its Input, has not been answered for, and whose own scheduler has finished.
   Property theorems only. *)
From TV Require Import Base Model.Wiring Model.Ticker Model.Master Model.Component Model.Sim Proofs.MasterP Proofs.LogP
  Model.Alert Proofs.AlertP.
Open Scope Z_scope.

(* no tick starts before the previous one has ended; every tick ends with its own time; every
   Input / Skip is produced inside a tick and carries that tick's time -- for every event history *)
Theorem C04_serial_one_time : forall conns comps initial num den,
  0 < num -> 0 < den ->
  forall m now outs, MRun conns comps initial num den m now outs ->
  exists c, bracket None outs = Some c /\ (mp m = PStopped \/ c = cur_of m).
Proof. intros conns comps initial num den Hn Hd. apply run_bracket; assumption. Qed.

(* a tick ends only when every participant has answered: the ticker's todo list is empty *)
Theorem C04_tick_ends_when_all_answered : forall conns comps st c t ch st' acts,
  propagate conns comps st c t ch = POk st' acts true -> todo st' = [].
Proof.
  intros conns comps st c t ch st' acts H.
  destruct (TickerP.propagate_ok conns comps st c t ch st' acts true H) as [_ [_ [_ Hf]]].
  destruct (todo st'); [reflexivity | discriminate].
Qed.

(* provided no component asks to be called back in the past, successive tick times never
   decrease -- including ticks caused by interrupts raised while a tick is running *)
Theorem C04_monotone : forall conns comps initial num den,
  0 < num -> 0 < den ->
  forall m now outs, MRun conns comps initial num den m now outs -> nondecr (tick_times outs).
Proof. intros conns comps initial num den Hn Hd. apply run_monotone; assumption. Qed.

(* a system simulation's inner tick lies wholly inside the outer tick that triggered it, at the same time:
   a master tick of the whole-simulation model writes its own entry (top level, time, roots) and then only
   entries -- of nested schedulers at any depth -- that carry the same time; likewise for the tick of any level *)
Theorem C04_inner_ticks_inside_outer_tick : forall cfg devf f m when roots real,
  exists l, s_log (m_s (do_tick cfg devf f m when roots real)) = s_log (m_s m) ++ (top, when, roots) :: l /\
            forall e, In e l -> log_time e = when.
Proof. intros. apply do_tick_logs. Qed.

Theorem C04_nested_tick_one_time : forall cfg devf f lv time chg s,
  exists l, s_log (fst (fst (fst (on_tick_level cfg devf f lv time chg s)))) = s_log s ++ l /\
            forall e, In e l -> log_time e = time.
Proof. intros cfg devf f lv time chg s. exact (on_tick_level_logs cfg devf f lv time chg s). Qed.

Example C04_nested_example :
  let cfg : config :=
    [(1%positive, {| l_order := [(3%positive, KDev); (4%positive, KSys 2%positive)]; l_conns := [(3, 1, 4, 1)]%positive |});
     (2%positive, {| l_order := [(5%positive, KDev); (6%positive, KSys 3%positive)]; l_conns := [(1, 1, 5, 1); (5, 1, 6, 1)]%positive |});
     (3%positive, {| l_order := [(7%positive, KDev)]; l_conns := [(1, 1, 7, 1)]%positive |})] in
  let devf : devfun := fun c n t i => ([(1%positive, n)], Some (t + 10)) in
  let m := {| m_s := s_init; m_tprev := 0; m_real := 0; m_now := 0; m_obs := []; m_ticks := [] |} in
  map (fun e : positive * Z * list comp => (fst (fst e), snd (fst e))) (s_log (m_s (do_tick cfg devf 8 m 5 [3%positive; 4%positive] 0)))
  = [(1%positive, 5); (2%positive, 5); (3%positive, 5)].
Proof. vm_compute. reflexivity. Qed.

Example C04_nonvacuous :
  let '(m1, o1) := step [] [3%positive] 0 1 1 (m_init 0) 5 IStart in
  let '(m2, o2) := step [] [3%positive] 0 1 1 m1 6 (IInterrupt 3%positive) in
  let '(m3, o3) := step [] [3%positive] 0 1 1 m2 9 (IOutput 3%positive 0 [] None) in
  let '(m4, o4) := step [] [3%positive] 0 1 1 m3 10 ITimer in
  o1 = [OTickStart 0 [3%positive]; OAct (Upd 3%positive 0 [])] /\ o2 = [] /\
  o3 = [OTickEnd 0; OArm 10] /\ o4 = [OTickStart 1 [3%positive]; OAct (Upd 3%positive 1 [])].
Proof. vm_compute. repeat split; reflexivity. Qed.

(* ---------- at message level, under any interleaving (Model/Alert.v) *)
Theorem C04_inner_tick_inside_outer_tick_any_interleaving : forall cfg tops initial s,
  tree_okb cfg = true -> AReachFrom cfg (a_boot tops initial) s ->
  forall p x lv t', child cfg p x lv -> a_tick (getl s lv) = Some t' ->
  exists t, a_tick (getl s p) = Some t /\ In x (t_handed t) /\ In x (t_todo t) /\ t_time t' = t_time t.
Proof.
  intros cfg tops initial s Hok HR. destruct (tree_okb_sound cfg Hok) as [H1 [H2 H3]].
  destruct (boot_inv cfg H3 tops initial) as [B1 B2]. destruct (reach_inv_from cfg H1 H2 H3 _ s B1 B2 HR) as [HS _].
  apply (as_par _ _ HS).
Qed.

Theorem C04_answers_only_from_a_running_tick : forall cfg tops initial s,
  tree_okb cfg = true -> AReachFrom cfg (a_boot tops initial) s ->
  forall p c ca, In (c, AOut ca) (a_q (getl s p)) ->
  exists t, a_tick (getl s p) = Some t /\ In c (t_todo t) /\ In c (t_handed t) /\
            forall lv, child cfg p c lv -> a_tick (getl s lv) = None.
Proof.
  intros cfg tops initial s Hok HR. destruct (tree_okb_sound cfg Hok) as [H1 [H2 H3]].
  destruct (boot_inv cfg H3 tops initial) as [B1 B2]. destruct (reach_inv_from cfg H1 H2 H3 _ s B1 B2 HR) as [HS _].
  apply (as_q _ _ HS).
Qed.
