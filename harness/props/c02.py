import tprops

PID = "C02"


def main(tier, seed):
    return tprops.main_T(PID, tier, seed, {13, 14, 18}, "Props.C02",
                         ["Model/Ticker.v", "Model/Component.v", "Oracle/TickerOracle.v", "Model/Sim.v", "Proofs/TickerP.v", "Proofs/ExtentP.v", "Model/PyLib.v", "Gen/SourceFuns.v", "Proofs/GenOutChangesP.v", "Props/C02.v"],
                         "exactly the roots and the changed-input closure are updated", with_dc=True)


replay = tprops.replay_T
