(* C10 -- unconnected parts of a simulation never influence each other.
   Proved here, for every configuration and history:
   (1) topics: two components never share a topic, and no input topic is an output topic -- with the
       prefix / suffixes extracted from the current source (Gen/SourceConsts.v); the bus delivers per
       topic (C15), so messages of one component are never seen by another's handler;
   (2) frame: updating a device touches the state of that device only, and a component outside the
       extent of a tick (not a root, nothing upstream of it touched) is not touched at all;
   (3) see [C10_tick_noninterference] below (added when proved) for whole ticks.
   PARTIAL: equality of every old device's full observation sequence between a run and the run
   extended by a disconnected part (with its own callbacks, adapters, nested systems) is decided per
   pair of runs of the real schedulers (code 91) and, for adapters / EPICS records, on the real
   adapter classes; it is not a theorem over multi-tick master histories.  Property theorems only. *)
From TV Require Import Base Gen.SourceConsts Model.Topics Model.Wiring Model.Ticker Model.Component Model.Sim
  Proofs.TopicsP Proofs.SimP Proofs.FlattenP.
Open Scope Z_scope.

Theorem C10_topics_disjoint : forall a b,
  (input_topic a = input_topic b -> a = b) /\
  (output_topic a = output_topic b -> a = b) /\
  input_topic a <> output_topic b.
Proof.
  intros a b. split; [apply input_topic_inj | split; [apply output_topic_inj|]].
  apply in_out_disjoint. exact consts_ok_now.
Qed.

Theorem C10_update_frame : forall devf s c time chg c',
  c' <> c ->
  let '(s', _, _, _) := dev_update devf s c time chg in
  lookup c' (s_dc s') = lookup c' (s_dc s) /\ lookup c' (s_n s') = lookup c' (s_n s) /\
  s_wake s' = s_wake s /\ s_int s' = s_int s.
Proof. intros devf. apply (dev_update_frame devf). Qed.

Theorem C10_outside_extent_untouched : forall devf inner lv conns time roots ext a ck,
  in_extent conns roots (ta_touched a) (fst ck) = false ->
  tick_step devf inner lv conns time roots ext a ck = a.
Proof. intros devf. apply (tick_step_outside devf). Qed.
