From TV Require Import Base Model.Command.

Definition is_match (p : parse_res) : bool := match p with Match _ => true | _ => false end.

Lemma handle_from_spec m : forall i,
  match handle_from i m with
  | HCommand j args => exists k, j = (i + k)%nat /\ nth_error m k = Some (Match args) /\
                                 forall k', (k' < k)%nat -> forall p, nth_error m k' = Some p -> is_match p = false
  | HUnknown => forall p, In p m -> is_match p = false
  | HRaise => False
  end.
Proof.
  induction m as [|p r IH]; intros i; simpl.
  - intros p [].
  - destruct p as [| |args].
    + specialize (IH (S i)). destruct (handle_from (S i) r) as [|j a|].
      * intros p [<-|H]; [reflexivity | apply IH; exact H].
      * destruct IH as [k [Hj [Hn Hlt]]]. exists (S k). split; [lia|]. split; [exact Hn|].
        intros k' Hk' p Hp. destruct k' as [|k'']; [inversion Hp; reflexivity|]. simpl in Hp. eapply Hlt; [|exact Hp]. lia.
      * exact IH.
    + specialize (IH (S i)). destruct (handle_from (S i) r) as [|j a|].
      * intros p [<-|H]; [reflexivity | apply IH; exact H].
      * destruct IH as [k [Hj [Hn Hlt]]]. exists (S k). split; [lia|]. split; [exact Hn|].
        intros k' Hk' p Hp. destruct k' as [|k'']; [inversion Hp; reflexivity|]. simpl in Hp. eapply Hlt; [|exact Hp]. lia.
      * exact IH.
    + exists 0%nat. split; [lia|]. split; [reflexivity|]. intros k' Hk'. lia.
Qed.

(* the first command whose pattern matches (after its own decoding) handles the message *)
Lemma handle_dispatch m i args :
  handle m = HCommand i args <->
  nth_error m i = Some (Match args) /\ forall j, (j < i)%nat -> forall p, nth_error m j = Some p -> is_match p = false.
Proof.
  unfold handle. assert (H := handle_from_spec m 0). split.
  - intros E. rewrite E in H. destruct H as [k [Hj [Hn Hlt]]]. simpl in Hj. subst. auto.
  - intros [Hn Hlt]. destruct (handle_from 0 m) as [|j a|] eqn:E.
    + exfalso. assert (Hin : In (Match args) m) by (eapply nth_error_In; exact Hn). apply H in Hin. discriminate.
    + destruct H as [k [Hj [Hn' Hlt']]]. simpl in Hj. subst j.
      destruct (Nat.lt_trichotomy i k) as [Hlt1|[->|Hgt]].
      * specialize (Hlt' i Hlt1 _ Hn). discriminate.
      * rewrite Hn in Hn'. inversion Hn'. reflexivity.
      * specialize (Hlt k Hgt _ Hn'). discriminate.
    + destruct H.
Qed.

Lemma handle_unknown m : handle m = HUnknown <-> forall p, In p m -> is_match p = false.
Proof.
  unfold handle. assert (H := handle_from_spec m 0). split.
  - intros E. rewrite E in H. exact H.
  - intros Hall. destruct (handle_from 0 m) as [|j a|] eqn:E; [reflexivity | | destruct H].
    destruct H as [k [_ [Hn _]]]. apply nth_error_In in Hn. apply Hall in Hn. discriminate.
Qed.

Lemma handle_never_raises m : handle m <> HRaise.
Proof. unfold handle. assert (H := handle_from_spec m 0). intros E. rewrite E in H. exact H. Qed.

Lemma stream_spec replies x :
  In (EvWrite x) (stream replies false) <-> In (Some x) replies.
Proof.
  unfold stream. rewrite in_flat_map. split.
  - intros [r [Hr Hx]]. destruct r as [y|]; [|destruct Hx]. destruct Hx as [Hx|[]]. inversion Hx; subst. exact Hr.
  - intros H. exists (Some x). split; [exact H | left; reflexivity].
Qed.

(* the writes are exactly the non-empty replies, in order: stream is a filter-map *)
Lemma stream_order replies :
  stream replies false = map EvWrite (flat_map (fun r => match r with Some x => [x] | None => [] end) replies).
Proof.
  unfold stream. induction replies as [|[x|] r IH]; simpl; [reflexivity | rewrite IH; reflexivity | exact IH].
Qed.

Lemma pinned_refuted : exists m, handle_pinned_from 0 m = HRaise /\ handle m = HUnknown.
Proof. exists [DecodeFails; NoMatch]. split; reflexivity. Qed.
