(* C08 beyond one scheduler level: nested simulations under ANY schedule.
   A tick of a level -- the master's or a nested scheduler's -- is any complete run of the ticker
   (Proofs/TickerP.v [Run]: any order in which the dispatched components answer).  When a component's
   turn to answer comes, its Input takes effect in the state as it is then: a device is updated
   ([dev_update]), a system simulation runs a tick of its own level under a schedule of its own (one unit
   of fuel less), the pseudo components "external" / "expose" answer with the system's input changes /
   nothing; the callback of a component goes into the wakeup table of the level.
   [NT f lv time chg s s' out ca ob]: level lv, ticked at [time] with input changes [chg] in state s, can
   end in s' with output changes [out], callback [ca] and device updates [ob].
   The executable scheduler of Model/NNSim.v (one schedule per strategy) is sound for the relation. *)
From TV Require Import Base Model.Wiring Model.Ticker Model.Component Model.Sim Model.SimTime Model.NSim Model.NNSim
  Proofs.WiringP Proofs.TickerP Proofs.SimP Proofs.LatestP Proofs.Confluence2P Proofs.Confluence3P.
Open Scope Z_scope.

Definition ntick_rel := positive -> Z -> values -> sstate -> sstate -> values -> option Z -> list obs -> Prop.

Section NS.
Variable cfg : config.
Variable devf : devfun.

(* the component of level lv handles the dispatch a in state s: new state, answer, callback, device updates *)
Definition comp_step0 (inner : ntick_rel) (lv : positive) (time : Z) (ext_chg : values) (a : action)
           (s s1 : sstate) (ans : changes) (ca : option Z) (ob : list obs) : Prop :=
  match a with
  | Skp _ _ => s1 = s /\ ans = [] /\ ca = None /\ ob = []
  | Upd x _ chg =>
      if Pos.eqb x ext_id then s1 = s /\ ans = ext_chg /\ ca = None /\ ob = []
      else if Pos.eqb x exp_id then s1 = s /\ ans = [] /\ ca = None /\ ob = []
      else match lookup x (l_order (level_of cfg lv)) with
           | Some KDev => exists o, dev_update devf s x time chg = (s1, ans, ca, o) /\ ob = [o]
           | Some (KSys lv') => inner lv' time chg s s1 ans ca ob
           | None => False
           end
  end.

(* ... and its callback goes into the wakeup table of the level *)
Definition comp_step (inner : ntick_rel) (lv : positive) (time : Z) (ext_chg : values) (a : action)
           (s s' : sstate) (ans : changes) (ob : list obs) : Prop :=
  exists s1 ca, comp_step0 inner lv time ext_chg a s s1 ans ca ob /\ s' = wake_upd s1 lv (act_comp a) ca.

(* a run of the ticker of one level with the state threaded through the answers *)
Inductive SRun (inner : ntick_rel) (lv : positive) (time : Z) (ext_chg : values) (conns : list conn) (comps roots ext : list comp) (s0 : sstate)
  : tstate -> list ev -> sstate -> list obs -> Prop :=
| SR_start st0 st1 acts :
    start_tick conns time roots = Some st0 -> ext = pending st0 ->
    schedule conns comps st0 = Some (st1, acts) ->
    SRun inner lv time ext_chg conns comps roots ext s0 st1 (map EDispatch acts) s0 []
| SR_step st tr s ob c a ch s1 o st' acts fin :
    SRun inner lv time ext_chg conns comps roots ext s0 st tr s ob ->
    In (c, true) (todo st) -> In (EDispatch a) tr -> act_comp a = c ->
    comp_step inner lv time ext_chg a s s1 ch o ->
    propagate conns comps st c time ch = POk st' acts fin ->
    SRun inner lv time ext_chg conns comps roots ext s0 st' (tr ++ EAnswer c ch :: map EDispatch acts) s1 (ob ++ o).

Lemma SRun_Run inner lv time ext_chg conns comps roots ext s0 st tr s ob :
  SRun inner lv time ext_chg conns comps roots ext s0 st tr s ob -> Run conns comps time roots ext st tr.
Proof.
  induction 1 as [st0 st1 acts H1 H2 H3 | st tr s ob c a ch s1 o st' acts fin HR IH Hc Ha Hac Hs Hp].
  - eapply Run_start; eassumption.
  - eapply Run_step; eassumption.
Qed.

Fixpoint NT (f : nat) : ntick_rel :=
  fun lv time chg s s' out ca ob =>
  match f with
  | O => s' = s /\ out = [] /\ ca = None /\ ob = []
  | S f' =>
      let l := level_of cfg lv in
      exists ext st tr,
        SRun (NT f') lv time chg (l_conns l) (lcomps l) (nroots cfg s lv time) ext (nprologue cfg s lv time) st tr s' ob /\
        todo st = [] /\ out = exposed tr /\ ca = min_wake (wake_of s' lv)
  end.

(* ---------- the master on scripts of ticks and interrupts of top-level components *)
Definition mtick (f : nat) (s : sstate) (time : Z) (roots : list comp) (s' : sstate) (ob : list obs) : Prop :=
  let l := level_of cfg top in
  exists ext st tr,
    SRun (NT f) top time [] (l_conns l) (lcomps l) roots ext (log_tick s top time roots) st tr s' ob /\ todo st = [].

Inductive NNRun (f : nat) : list item -> sstate -> list obs -> sstate -> list obs -> Prop :=
| NNR_nil s ob : NNRun f [] s ob s ob
| NNR_stim c w r s ob s' ob' : NNRun f r (stim s c w) ob s' ob' -> NNRun f (IStim c w :: r) s ob s' ob'
| NNR_idle r s ob s' ob' :
    first_wakeups (wake_of s top) = None -> NNRun f r s ob s' ob' -> NNRun f (ITick :: r) s ob s' ob'
| NNR_tick r s ob when roots s2 o s' ob' :
    first_wakeups (wake_of s top) = Some (when, roots) ->
    mtick f (set_wake s top (filter (fun e : comp * Z => negb (memb (fst e) roots)) (wake_of s top))) when roots s2 o ->
    NNRun f r s2 (ob ++ o) s' ob' -> NNRun f (ITick :: r) s ob s' ob'.

Definition nnrun (f : nat) (initial : Z) (script : list item) (s' : sstate) (ob' : list obs) : Prop :=
  exists s1 o1, mtick f (set_wake s_init top []) initial (map fst (l_order (level_of cfg top))) s1 o1 /\ NNRun f script s1 o1 s' ob'.

(* ---------- the executable scheduler computes runs of the relation *)
Definition inner_sound (ie : inner_exec) (ir : ntick_rel) : Prop :=
  forall lv time chg s s' out ca ob, ie lv time chg s = Some (s', out, ca, ob) -> ir lv time chg s s' out ca ob.

Lemma find_dispatch_In tr c a : find_dispatch tr c = Some a -> In (EDispatch a) tr /\ act_comp a = c.
Proof.
  unfold find_dispatch. intros H.
  destruct (filter (fun e : ev => match e with EDispatch a0 => Pos.eqb (act_comp a0) c | _ => false end) tr) as [|e r] eqn:E; [discriminate|].
  destruct e as [a0|c0 ch0]; [|discriminate]. inversion H; subst a0.
  assert (Hi : In (EDispatch a) (filter (fun e : ev => match e with EDispatch a0 => Pos.eqb (act_comp a0) c | _ => false end) tr)) by (rewrite E; left; reflexivity).
  apply filter_In in Hi. destruct Hi as [Hi Hb]. apply Pos.eqb_eq in Hb. split; assumption.
Qed.

Lemma comp_exec_sound ie ir lv time ext_chg a s s1 ch o :
  inner_sound ie ir -> comp_exec cfg devf ie lv time ext_chg a s = Some (s1, ch, o) -> comp_step ir lv time ext_chg a s s1 ch o.
Proof.
  intros Hs. unfold comp_exec, comp_step, comp_step0. destruct a as [x t0 chg|x t0]; cbn [act_comp].
  - destruct (Pos.eqb x ext_id); [intros H; inversion H; subst; exists s1, None; auto|].
    destruct (Pos.eqb x exp_id); [intros H; inversion H; subst; exists s1, None; auto|].
    destruct (lookup x (l_order (level_of cfg lv))) as [[|lv']|]; [| |discriminate].
    + destruct (dev_update devf s x time chg) as [[[s2 ch2] ca2] o2] eqn:E. intros H. inversion H; subst.
      exists s2, ca2. split; [exists o2; split; reflexivity | reflexivity].
    + destruct (ie lv' time chg s) as [[[[s2 out2] ca2] ob2]|] eqn:E; [|discriminate]. intros H. inversion H; subst.
      exists s2, ca2. split; [apply Hs; exact E | reflexivity].
  - intros H. inversion H; subst. exists s1, None. auto.
Qed.

Lemma run_sched_n_sound pick ie ir lv time ext_chg conns comps roots ext s0 : inner_sound ie ir ->
  forall fuel st tr s ob st' tr' s' ob',
  SRun ir lv time ext_chg conns comps roots ext s0 st tr s ob ->
  run_sched_n cfg devf pick ie lv time ext_chg conns comps fuel st tr s ob = Some (st', tr', s', ob') ->
  SRun ir lv time ext_chg conns comps roots ext s0 st' tr' s' ob' /\ todo st' = [].
Proof.
  intros Hs. induction fuel as [|k IH]; intros st tr s ob st' tr' s' ob' HR H; [discriminate|]. cbn [run_sched_n] in H.
  destruct (todo st) as [|e r] eqn:Et.
  - inversion H; subst. split; [exact HR | exact Et].
  - rewrite <- Et in H. destruct (pick (todo st)) as [c|]; [|discriminate].
    destruct (existsb (fun cd : comp * bool => Pos.eqb (fst cd) c && snd cd) (todo st)) eqn:Ex; [|discriminate].
    destruct (find_dispatch tr c) as [a|] eqn:Ef; [|discriminate].
    destruct (comp_exec cfg devf ie lv time ext_chg a s) as [[[s1 ch] o]|] eqn:Ec; [|discriminate].
    destruct (propagate conns comps st c time ch) as [|st2 acts fin] eqn:Ep; [discriminate|].
    apply existsb_exists in Ex. destruct Ex as [[c0 b] [Hin Hb]]. cbn [fst snd] in Hb. apply andb_true_iff in Hb. destruct Hb as [Hb1 Hb2].
    apply Pos.eqb_eq in Hb1. subst c0 b.
    destruct (find_dispatch_In tr c a Ef) as [Ha Hac].
    apply (IH st2 (tr ++ EAnswer c ch :: map EDispatch acts) s1 (ob ++ o) st' tr' s' ob'); [|exact H].
    eapply SR_step; try eassumption. apply (comp_exec_sound ie ir lv time ext_chg a s s1 ch o Hs Ec).
Qed.

Lemma level_exec_sound pick ie ir steps lv time roots ext_chg s0 tr s' ob : inner_sound ie ir ->
  level_exec cfg devf pick ie steps lv time roots ext_chg s0 = Some (tr, s', ob) ->
  exists ext st, SRun ir lv time ext_chg (l_conns (level_of cfg lv)) (lcomps (level_of cfg lv)) roots ext s0 st tr s' ob /\ todo st = [].
Proof.
  intros Hs. unfold level_exec.
  destruct (start_tick (l_conns (level_of cfg lv)) time roots) as [st0|] eqn:E0; [|discriminate].
  destruct (schedule (l_conns (level_of cfg lv)) (lcomps (level_of cfg lv)) st0) as [[st1 acts]|] eqn:E1; [|discriminate].
  destruct (run_sched_n cfg devf pick ie lv time ext_chg _ _ steps st1 (map EDispatch acts) s0 []) as [[[[st2 tr2] s2] ob2]|] eqn:E2; [|discriminate].
  intros H. inversion H; subst.
  destruct (run_sched_n_sound pick ie ir lv time ext_chg (l_conns (level_of cfg lv)) (lcomps (level_of cfg lv)) roots (pending st0) s0 Hs steps st1 (map EDispatch acts) s0 [] st2 tr s' ob) as [HR Ht]; [|exact E2|].
  - eapply SR_start; [exact E0 | reflexivity | exact E1].
  - exists (pending st0), st2. split; assumption.
Qed.

Theorem nt_exec_sound pick steps : forall f, inner_sound (nt_exec cfg devf pick steps f) (NT f).
Proof.
  induction f as [|f IH]; intros lv time chg s s' out ca ob H.
  - cbn [nt_exec] in H. inversion H; subst. cbn [NT]. auto.
  - cbn [nt_exec] in H.
    destruct (level_exec cfg devf pick (nt_exec cfg devf pick steps f) steps lv time (nroots cfg s lv time) chg (nprologue cfg s lv time)) as [[[tr s2] ob2]|] eqn:E; [|discriminate].
    inversion H; subst. cbn [NT].
    destruct (level_exec_sound pick _ (NT f) steps lv time _ chg _ tr s' ob IH E) as [ext [st [HR Ht]]].
    exists ext, st, tr. split; [exact HR|]. split; [exact Ht|]. split; reflexivity.
Qed.

Theorem nnrun_exec_sound pick steps f : forall script s ob s' ob',
  nnrun_exec cfg devf pick steps f script s ob = Some (s', ob') -> NNRun f script s ob s' ob'.
Proof.
  induction script as [|[|c w] r IH]; intros s ob s' ob' H; cbn [nnrun_exec] in H.
  - inversion H; subst. constructor.
  - destruct (first_wakeups (wake_of s top)) as [[when roots]|] eqn:Ef.
    + destruct (level_exec cfg devf pick (nt_exec cfg devf pick steps f) steps top when roots [] _) as [[[tr s2] o]|] eqn:E; [|discriminate].
      destruct (level_exec_sound pick _ (NT f) steps top when roots [] _ tr s2 o (nt_exec_sound pick steps f) E) as [ext [st [HR Ht]]].
      eapply NNR_tick; [exact Ef | exists ext, st, tr; split; [exact HR | exact Ht] | apply IH; exact H].
    + apply NNR_idle; [exact Ef | apply IH; exact H].
  - apply NNR_stim. apply IH. exact H.
Qed.

Theorem nnrun_from_start_sound pick steps f initial script s' ob' :
  nnrun_from_start cfg devf pick steps f initial script = Some (s', ob') -> nnrun f initial script s' ob'.
Proof.
  unfold nnrun_from_start.
  destruct (level_exec cfg devf pick (nt_exec cfg devf pick steps f) steps top initial _ [] _) as [[[tr s1] o1]|] eqn:E; [|discriminate].
  intros H. destruct (level_exec_sound pick _ (NT f) steps top initial _ [] _ tr s1 o1 (nt_exec_sound pick steps f) E) as [ext [st [HR Ht]]].
  exists s1, o1. split; [exists ext, st, tr; split; [exact HR | exact Ht] | apply (nnrun_exec_sound pick steps f script s1 o1 s' ob' H)].
Qed.
End NS.
