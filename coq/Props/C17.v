(* C17 -- configuration files build exactly the simulation they describe.
   The logic of the tagged-union registry (dispatch by type tag, cache of the discriminated
   union), of the wiring handed to the scheduler and of the component selection.  YAML parsing,
   importlib and pydantic's field validation are oracles: the values of fields and the dump/load
   round trip are validated by the correspondence run only.  Property theorems only. *)
From TV Require Import Base Model.Wiring Model.Config Proofs.WiringP Proofs.ConfigP.

(* an entry is built as exactly the class its tag names -- never another class whose fields
   happen to fit -- provided that class is registered; a tag naming no registered class (or no
   importable class at all) is rejected *)
Theorem C17_dispatch : forall r tag known,
  snd (validate r tag known) = if known && memb tag (r_classes r) then Chosen tag else Rejected.
Proof. exact validate_spec. Qed.

(* for every history of class definitions (imports, in any order) and validations: the k-th
   validated entry is built as the class named by its tag iff that class had been defined by then.
   In particular the cached union is never stale. *)
Theorem C17_history : forall evs init pre tag known post,
  evs = pre ++ Validate tag known :: post ->
  nth_error (run_reg {| r_classes := init; r_cache := None |} evs)
            (length (filter (fun e => match e with Validate _ _ => true | _ => false end) pre)) =
  Some (if known && memb tag (defined init pre) then Chosen tag else Rejected).
Proof.
  intros evs init pre tag known post E.
  apply (run_reg_spec evs {| r_classes := init; r_cache := None |} I pre tag known post E).
Qed.

Theorem C17_cache_never_stale : forall r tag known c,
  cache_ok r -> cache_ok (fst (validate r tag known)) /\ cache_ok (define r c).
Proof. intros. split; [apply cache_ok_validate; assumption | apply cache_ok_define]. Qed.

(* the wiring handed to the scheduler contains exactly the connections declared under inputs
   (component names being unique) *)
Theorem C17_wiring : forall es n ins,
  NoDup (map fst es) -> (lookup n (wiring_of es) = Some ins <-> In (n, ins) es).
Proof. exact wiring_of_exact. Qed.

(* the simulation contains exactly the requested components, or the request is rejected *)
Theorem C17_selection : forall es req l,
  select es req = Some l ->
  forall x, In x l <-> In x (map fst es) /\ match req with None => True | Some r => In x r end.
Proof. exact select_spec. Qed.

Theorem C17_selection_rejects : forall es r,
  select es (Some r) = None <-> exists n, In n r /\ ~ In n (map fst es).
Proof. exact select_rejects. Qed.

(* non-vacuity: two classes defined late, a union built in between *)
Example C17_example :
  run_reg {| r_classes := [1%positive; 2%positive]; r_cache := None |}
          [Validate 3%positive true; Validate 1%positive true; Define 3%positive; Validate 3%positive true;
           Validate 4%positive false; Define 4%positive; Validate 2%positive true; Validate 4%positive true]
  = [Rejected; Chosen 1%positive; Chosen 3%positive; Rejected; Chosen 2%positive; Chosen 4%positive].
Proof. vm_compute. reflexivity. Qed.
