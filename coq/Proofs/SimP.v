(* Theorems about the whole-simulation model (Model/Sim.v). *)
From TV Require Import Base Model.Wiring Model.Ticker Model.Component Model.Sim.
Open Scope Z_scope.

Section S.
Variable cfg : config.
Variable devf : devfun.

(* the level ids and the devices in the subtree of a level, devices in update order *)
Fixpoint levels_below (fuel : nat) (lv : positive) : list positive :=
  match fuel with
  | O => []
  | S f => lv :: flat_map (fun ck : comp * ckind => match snd ck with KDev => [] | KSys lv' => levels_below f lv' end)
                          (l_order (level_of cfg lv))
  end.

Fixpoint devices_below (fuel : nat) (lv : positive) : list comp :=
  match fuel with
  | O => []
  | S f => flat_map (fun ck : comp * ckind => match snd ck with KDev => [fst ck] | KSys lv' => devices_below f lv' end)
                    (l_order (level_of cfg lv))
  end.

(* the nesting is not cut off by the fuel *)
Fixpoint deep_enough (fuel : nat) (lv : positive) : Prop :=
  match fuel with
  | O => False
  | S f => forall c lv', In (c, KSys lv') (l_order (level_of cfg lv)) -> deep_enough f lv'
  end.

Definition obs_comp (o : obs) : comp := fst (fst o).
Definition obs_time (o : obs) : Z := snd (fst o).

(* pseudo-component ids are not used by real components *)
Definition real_ids (lv : positive) : Prop :=
  forall c k, In (c, k) (l_order (level_of cfg lv)) -> c <> ext_id /\ c <> exp_id.

Lemma dev_update_obs s c time chg :
  let '(s', ch, ca, o) := dev_update devf s c time chg in
  obs_comp o = c /\ obs_time o = time /\ s_ticked s' = s_ticked s.
Proof.
  unfold dev_update. destruct (devf c _ time _) as [outs ca]. simpl. auto.
Qed.

Lemma NoDup_app_l {A} (l1 l2 : list A) : NoDup (l1 ++ l2) -> NoDup l1.
Proof.
  induction l1 as [|x t IH]; simpl; intros H; [constructor|]. inversion H; subst. constructor.
  - intros Hx. apply H2. apply in_or_app. left. exact Hx.
  - apply IH. exact H3.
Qed.
Lemma NoDup_app_r {A} (l1 l2 : list A) : NoDup (l1 ++ l2) -> NoDup l2.
Proof. induction l1 as [|x t IH]; simpl; intros H; [exact H|]. inversion H; subst. apply IH. exact H3. Qed.
Lemma NoDup_app_disjoint {A} (l1 l2 : list A) x : NoDup (l1 ++ l2) -> In x l1 -> ~ In x l2.
Proof.
  induction l1 as [|y t IH]; simpl; intros H Hx Hx2; [destruct Hx|]. inversion H; subst.
  destruct Hx as [->|Hx]; [apply H2; apply in_or_app; right; exact Hx2 | apply (IH H3 Hx Hx2)].
Qed.

Definition sub_levels (f : nat) (ck : comp * ckind) : list positive :=
  match snd ck with KDev => [] | KSys lv' => levels_below f lv' end.
Definition sub_devices (f : nat) (ck : comp * ckind) : list comp :=
  match snd ck with KDev => [fst ck] | KSys lv' => devices_below f lv' end.

(* the statement about the first tick of a (nested) level *)
Definition FirstTick (f : nat) (inner : positive -> Z -> values -> sstate -> sstate * values * option Z * list obs) : Prop :=
  forall lv time chg s,
    deep_enough f lv -> NoDup (levels_below f lv) ->
    (forall x, In x (levels_below f lv) -> ~ In x (s_ticked s)) ->
    (forall x, In x (levels_below f lv) -> real_ids x) ->
    let '(s', _, _, ob) := inner lv time chg s in
    map obs_comp ob = devices_below f lv /\
    (forall o, In o ob -> obs_time o = time) /\
    (forall x, In x (s_ticked s') <-> In x (levels_below f lv) \/ In x (s_ticked s)).

Lemma set_wake_ticked s lv w : s_ticked (set_wake s lv w) = s_ticked s.
Proof. reflexivity. Qed.

(* processing one real component that is a root of the tick *)
Lemma tick_step_root inner lv conns time roots ext a c k :
  memb c roots = true -> c <> ext_id -> c <> exp_id ->
  let r := match k with
           | KDev => let '(s1, ch, ca, o) := dev_update devf (ta_s a) c time (get_d c (ta_in a)) in (s1, ch, ca, [o])
           | KSys lv' => inner lv' time (get_d c (ta_in a)) (ta_s a)
           end in
  let '(s1, ch, ca, ob) := r in
  ta_obs (tick_step devf inner lv conns time roots ext a (c, k)) = ta_obs a ++ ob /\
  s_ticked (ta_s (tick_step devf inner lv conns time roots ext a (c, k))) = s_ticked s1 /\
  ta_out (tick_step devf inner lv conns time roots ext a (c, k)) = ta_out a.
Proof.
  intros Hr He Hx. unfold tick_step. cbn [fst snd]. unfold in_extent. rewrite Hr. cbn [orb]. rewrite orb_true_r.
  assert (E1 : Pos.eqb c ext_id = false) by (apply Pos.eqb_neq; exact He).
  assert (E2 : Pos.eqb c exp_id = false) by (apply Pos.eqb_neq; exact Hx).
  rewrite E1, E2.
  destruct k as [|lv'].
  - destruct (dev_update devf (ta_s a) c time (get_d c (ta_in a))) as [[[s1 ch] ca] o]. destruct ca; simpl; auto.
  - destruct (inner lv' time (get_d c (ta_in a)) (ta_s a)) as [[[s1 ch] ca] ob]. destruct ca; simpl; auto.
Qed.

(* the loop over the real components of a level, all of them roots (the first tick) *)
Lemma first_tick_loop f inner lv conns time roots ext :
  FirstTick f inner ->
  forall cs a,
    (forall c k, In (c, k) cs -> memb c roots = true /\ c <> ext_id /\ c <> exp_id) ->
    (forall c lv', In (c, KSys lv') cs -> deep_enough f lv') ->
    NoDup (flat_map (sub_levels f) cs) ->
    (forall x, In x (flat_map (sub_levels f) cs) -> ~ In x (s_ticked (ta_s a))) ->
    (forall x, In x (flat_map (sub_levels f) cs) -> real_ids x) ->
    let a' := fold_left (tick_step devf inner lv conns time roots ext) cs a in
    exists ob, ta_obs a' = ta_obs a ++ ob /\
               map obs_comp ob = flat_map (sub_devices f) cs /\
               (forall o, In o ob -> obs_time o = time) /\
               (forall x, In x (s_ticked (ta_s a')) <-> In x (flat_map (sub_levels f) cs) \/ In x (s_ticked (ta_s a))) /\
               ta_out a' = ta_out a.
Proof.
  intros HFT. induction cs as [|[c k] cs IH]; intros a Hroots Hdeep Hnd Hfresh Hreal; simpl.
  - exists []. rewrite app_nil_r. repeat split; auto; try (intros o []); intuition.
  - destruct (Hroots c k (or_introl eq_refl)) as [Hr [He Hx]].
    assert (Hstep := tick_step_root inner lv conns time roots ext a c k Hr He Hx). simpl in Hstep.
    set (a1 := tick_step devf inner lv conns time roots ext a (c, k)) in *.
    simpl in Hnd, Hfresh, Hreal.
    assert (Hnd1 : NoDup (sub_levels f (c, k))) by (eapply NoDup_app_l; exact Hnd).
    assert (Hnd2 : NoDup (flat_map (sub_levels f) cs)) by (eapply NoDup_app_r; exact Hnd).
    assert (Hdisj : forall x, In x (sub_levels f (c, k)) -> ~ In x (flat_map (sub_levels f) cs))
      by (intros x Hx1; eapply NoDup_app_disjoint; eassumption).
    (* what the head component contributes *)
    assert (Hhead : exists ob1, ta_obs a1 = ta_obs a ++ ob1 /\ map obs_comp ob1 = sub_devices f (c, k) /\
                      (forall o, In o ob1 -> obs_time o = time) /\
                      (forall x, In x (s_ticked (ta_s a1)) <-> In x (sub_levels f (c, k)) \/ In x (s_ticked (ta_s a))) /\
                      ta_out a1 = ta_out a).
    { destruct k as [|lv'].
      - assert (Hd := dev_update_obs (ta_s a) c time (get_d c (ta_in a))).
        destruct (dev_update devf (ta_s a) c time (get_d c (ta_in a))) as [[[s1 ch] ca] o].
        destruct Hd as [Hc [Ht Htk]]. destruct Hstep as [Ho [Hs Hout]].
        exists [o]. split; [exact Ho|]. split; [simpl; rewrite Hc; reflexivity|].
        split; [intros o' [<-|[]]; exact Ht|]. split; [|exact Hout].
        intros x. rewrite Hs, Htk. unfold sub_levels. simpl. intuition.
      - assert (HF := HFT lv' time (get_d c (ta_in a)) (ta_s a)).
        destruct (inner lv' time (get_d c (ta_in a)) (ta_s a)) as [[[s1 ch] ca] ob1].
        destruct Hstep as [Ho [Hs Hout]].
        destruct HF as [H1 [H2 H3]].
        + apply (Hdeep c lv'). left. reflexivity.
        + exact Hnd1.
        + intros x Hx1. apply Hfresh. apply in_or_app. left. exact Hx1.
        + intros x Hx1. apply Hreal. apply in_or_app. left. exact Hx1.
        + exists ob1. split; [exact Ho|]. split; [exact H1|]. split; [exact H2|]. split; [|exact Hout].
          intros x. rewrite Hs. apply H3. }
    destruct Hhead as [ob1 [Ho1 [Hc1 [Ht1 [Hk1 Hout1]]]]].
    destruct (IH a1) as [ob2 [Ho2 [Hc2 [Ht2 [Hk2 Hout2]]]]].
    + intros c' k' Hin. apply (Hroots c' k'). right. exact Hin.
    + intros c' lv' Hin. apply (Hdeep c' lv'). right. exact Hin.
    + exact Hnd2.
    + intros x Hx2 Hx3. apply Hk1 in Hx3. destruct Hx3 as [Hx3|Hx3].
      * apply (Hdisj x Hx3 Hx2).
      * apply (Hfresh x); [apply in_or_app; right; exact Hx2 | exact Hx3].
    + intros x Hx2. apply Hreal. apply in_or_app. right. exact Hx2.
    + exists (ob1 ++ ob2). split; [rewrite Ho2, Ho1, app_assoc; reflexivity|].
      split; [rewrite map_app, Hc1, Hc2; reflexivity|].
      split; [intros o Hin; apply in_app_iff in Hin; destruct Hin; [apply Ht1 | apply Ht2]; assumption|].
      split; [|rewrite Hout2; exact Hout1].
      intros x. rewrite Hk2, Hk1, in_app_iff. intuition.
Qed.

(* the pseudo-components never produce an observation and never touch the device / level state *)
Lemma tick_step_pseudo inner lv conns time roots ext a c k :
  c = ext_id \/ c = exp_id ->
  ta_obs (tick_step devf inner lv conns time roots ext a (c, k)) = ta_obs a /\
  ta_s (tick_step devf inner lv conns time roots ext a (c, k)) = ta_s a.
Proof.
  intros Hc. unfold tick_step. cbn [fst snd].
  destruct (in_extent conns roots (ta_touched a) c); [|auto].
  destruct (nonempty (get_d c (ta_in a)) || memb c roots); [|auto].
  destruct Hc as [-> | ->].
  - rewrite Pos.eqb_refl. auto.
  - change (Pos.eqb exp_id ext_id) with false. rewrite Pos.eqb_refl. auto.
Qed.

Lemma mark_ticked_In s lv x : In x (s_ticked (mark_ticked s lv)) <-> x = lv \/ In x (s_ticked s).
Proof.
  unfold mark_ticked. simpl. destruct (memb lv (s_ticked s)) eqn:E.
  - apply memb_In in E. split; [auto|]. intros [->|H]; assumption.
  - simpl. intuition.
Qed.

Lemma first_tick_all f : FirstTick f (on_tick_level cfg devf f).
Proof.
  induction f as [|f IH]; intros lv time chg s Hdeep Hnd Hfresh Hreal; [destruct Hdeep|].
  cbn [on_tick_level].
  assert (Hlv : ~ In lv (s_ticked s)) by (apply Hfresh; simpl; left; reflexivity).
  assert (Hfirst : memb lv (s_ticked s) = false) by (apply memb_false; exact Hlv).
  rewrite Hfirst. cbn [negb].
  set (l := level_of cfg lv).
  set (roots := int_of s lv ++ map fst (filter (fun e : comp * Z => snd e <=? time) (wake_of s lv)) ++ [ext_id] ++ map fst (l_order l) ++ [exp_id]).
  set (s1 := log_tick (mark_ticked (set_int (set_wake s lv (filter (fun e : comp * Z => negb (snd e <=? time)) (wake_of s lv))) lv []) lv) lv time roots).
  unfold tick_with. fold l. unfold all_of. cbn [fold_left]. rewrite fold_left_app. cbn [fold_left].
  set (a0 := {| ta_s := s1; ta_in := []; ta_touched := []; ta_out := []; ta_obs := [] |}).
  set (a1 := tick_step devf (on_tick_level cfg devf f) lv (l_conns l) time roots chg a0 (ext_id, KDev)).
  destruct (tick_step_pseudo (on_tick_level cfg devf f) lv (l_conns l) time roots chg a0 ext_id KDev (or_introl eq_refl)) as [Ho1 Hs1].
  fold a1 in Ho1, Hs1.
  assert (Hticked1 : forall x, In x (s_ticked (ta_s a1)) <-> x = lv \/ In x (s_ticked s)).
  { intros x. rewrite Hs1. unfold a0, s1. simpl. apply mark_ticked_In. }
  simpl in Hnd. inversion Hnd as [|? ? Hnotin Hnd']; subst.
  destruct (first_tick_loop f (on_tick_level cfg devf f) lv (l_conns l) time roots chg IH (l_order l) a1)
    as [ob [Hob [Hcomps [Htimes [Hticked Hout]]]]].
  - intros c k Hin. destruct (Hreal lv (or_introl eq_refl) c k Hin) as [He Hx]. split; [|split; assumption].
    apply memb_In. unfold roots. rewrite !in_app_iff. right. right. right. left. apply in_map_iff. exists (c, k). auto.
  - intros c lv' Hin. apply (Hdeep c lv' Hin).
  - exact Hnd'.
  - intros x Hx Hx2. apply Hticked1 in Hx2. destruct Hx2 as [->|Hx2]; [contradiction|].
    apply (Hfresh x); [simpl; right; exact Hx | exact Hx2].
  - intros x Hx. apply Hreal. simpl. right. exact Hx.
  - set (a2 := fold_left (tick_step devf (on_tick_level cfg devf f) lv (l_conns l) time roots chg) (l_order l) a1) in *.
    destruct (tick_step_pseudo (on_tick_level cfg devf f) lv (l_conns l) time roots chg a2 exp_id KDev (or_intror eq_refl)) as [Ho3 Hs3].
    rewrite Ho3, Hs3. rewrite Hob, Ho1. unfold a0. simpl. split; [exact Hcomps|]. split; [exact Htimes|].
    intros x. rewrite Hticked, Hticked1. simpl. intuition.
Qed.

(* the master's initial tick: every device at every depth is updated exactly once, at the
   initial time, in dependency (configuration) order *)
Lemma initial_tick_obs fuel initial s0 :
  (forall c lv', In (c, KSys lv') (l_order (level_of cfg top)) -> deep_enough fuel lv') ->
  NoDup (flat_map (sub_levels fuel) (l_order (level_of cfg top))) ->
  (forall x, In x (flat_map (sub_levels fuel) (l_order (level_of cfg top))) -> ~ In x (s_ticked s0)) ->
  real_ids top -> (forall x, In x (flat_map (sub_levels fuel) (l_order (level_of cfg top))) -> real_ids x) ->
  let roots := map fst (l_order (level_of cfg top)) in
  let '(s1, _, ob) := tick_level cfg devf fuel top initial roots [] s0 in
  map obs_comp ob = flat_map (sub_devices fuel) (l_order (level_of cfg top)) /\
  (forall o, In o ob -> obs_time o = initial).
Proof.
  intros Hdeep Hnd Hfresh Hreal0 Hreal roots. unfold tick_level, tick_with.
  set (l := level_of cfg top) in *. unfold all_of. cbn [fold_left]. rewrite fold_left_app. cbn [fold_left].
  set (a0 := {| ta_s := s0; ta_in := []; ta_touched := []; ta_out := []; ta_obs := [] |}).
  set (a1 := tick_step devf (on_tick_level cfg devf fuel) top (l_conns l) initial roots [] a0 (ext_id, KDev)).
  destruct (tick_step_pseudo (on_tick_level cfg devf fuel) top (l_conns l) initial roots [] a0 ext_id KDev (or_introl eq_refl)) as [Ho1 Hs1].
  fold a1 in Ho1, Hs1.
  destruct (first_tick_loop fuel (on_tick_level cfg devf fuel) top (l_conns l) initial roots [] (first_tick_all fuel) (l_order l) a1)
    as [ob [Hob [Hcomps [Htimes [_ _]]]]].
  - intros c k Hin. destruct (Hreal0 c k Hin) as [He Hx]. split; [|split; assumption].
    apply memb_In. unfold roots. apply in_map_iff. exists (c, k). auto.
  - exact Hdeep.
  - exact Hnd.
  - intros x Hx. rewrite Hs1. unfold a0. simpl. apply Hfresh. exact Hx.
  - exact Hreal.
  - set (a2 := fold_left (tick_step devf (on_tick_level cfg devf fuel) top (l_conns l) initial roots []) (l_order l) a1) in *.
    destruct (tick_step_pseudo (on_tick_level cfg devf fuel) top (l_conns l) initial roots [] a2 exp_id KDev (or_intror eq_refl)) as [Ho3 _].
    rewrite Ho3, Hob, Ho1. unfold a0. simpl. split; [exact Hcomps | exact Htimes].
Qed.
End S.
