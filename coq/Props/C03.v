(* C03 -- devices see exactly the latest upstream values along the declared wiring.
   Three layers, each for every wiring / history / answer order:
   (1) routing (Model/Wiring.v): an output change reaches exactly the input ports wired to it;
   (2) within a tick (Model/Ticker.v): the changes handed to a component are exactly the values its
       upstream components answered earlier in the same tick, whatever the order of the answers;
   (3) across ticks (Model/Component.v): the device component's cumulative inputs hold, per port,
       the latest value ever received.
   (4) composed, on the whole-simulation model (Model/Sim.v) for a flat simulation, along any
       multi-tick history with callbacks and interrupts at any speed: after every tick, and in every
       state the master reaches, each wired input port holds the value its source reported last;
       every update is handed exactly those inputs ([C03_sim_update_latest], [C03_sim_run_latest]).
   (5) through the boundary of a system simulation ([C03_through_system_boundary]): for a top level
       of devices and one system simulation of devices, in every state a run of the master reaches
       each RESOLVED wire -- a top-level wire, a wire into the system composed with the wire from
       its external port, a wire to an exposed port composed with the wire out of the system, an
       inner wire, a wire into the system composed with a pass-through wire (external -> expose) and
       the wire out of the system ([C03_resolved_wiring]) -- carries the latest report of its source device.
   (6) through the boundaries of a nesting of ANY depth, in both directions
       ([C03_through_any_nesting]): for every configuration that [inline_all] flattens step by step
       (system simulations beside and inside one another, decided by [scope_all]), in every state a
       run of the master reaches with the NESTED configuration each wire of the flat result -- every
       chain of wires through external and exposed ports resolved to the device output that drives
       it -- carries the latest report of its source device.
   PARTIAL: (5) and (6) are about runs without interrupts (pass-through ports -- wires straight from an external
   to an exposed port -- are covered by (6)); interrupts are decided per run by the Coq-defined oracle [latest_ok]
   (Oracle/SimOracle.v, code 81) on the flattened wiring of every generated nesting.
   Property theorems only. *)
From TV Require Import Base Model.Wiring Model.Ticker Model.Component Model.Sim Model.SimTime Model.Inline
  Proofs.WiringP Proofs.TickerP Proofs.FlattenP Proofs.SimP Proofs.LatestP Proofs.EqvP Proofs.ParDevP Proofs.InlineP Proofs.InlineLoopP
  Oracle.SimCheck Oracle.SimOracle Proofs.InlineScopeP Proofs.InlineLatestP Proofs.FrameP Proofs.EqvCongP Proofs.InlineAllP Proofs.InlineAllLatestP
  Model.NSim Model.NNSim Proofs.NScheduleP Proofs.NDetP Proofs.NDetScopeP Proofs.SimNTP Model.PyLib Gen.SourceFuns Proofs.GenDeviceInputsP.
Open Scope Z_scope.

Theorem C03_route_exact : forall (conns : list conn) src (ch : list (port * Z)) ic ip v,
  single_source conns -> NoDup (keys ch) ->
  (lookup2r (route conns src ch) ic ip = Some v <->
   exists op, lookup op ch = Some v /\ In (src, op, ic, ip) conns).
Proof. intros. apply route_exact; assumption. Qed.

Theorem C03_route_nothing_else : forall (conns : list conn) src (ch : list (port * Z)) ic ip v,
  lookup2r (route conns src ch) ic ip = Some v ->
  exists op, In (op, v) ch /\ In (src, op, ic, ip) conns.
Proof. intros conns src ch ic ip v. apply route_nothing_else. Qed.

(* any tick, any interleaving of answers: what an update carries is exactly what was answered
   upstream before it (no loss, no cross-talk, nothing for unwired components) *)
Theorem C03_within_tick : forall conns comps t roots ext st tr,
  single_source conns -> Run conns comps t roots ext st tr -> wf_answers tr ->
  forall l1 c t' chg l2, tr = l1 ++ EDispatch (Upd c t' chg) :: l2 ->
  forall q v, lookup q chg = Some v <-> spec_inputs conns l1 c q v.
Proof.
  intros conns comps t roots ext st tr Hss HR Hwf l1 c t' chg l2 E.
  assert (H : action_ok conns t roots l1 (Upd c t' chg)).
  { eapply disp_ok_split; [eapply run_disp_ok; eassumption | exact E]. }
  destruct H as [_ [H _]]. exact H.
Qed.

(* any history of updates of a device component: the i-th update is handed, per port, the latest
   value among everything received so far -- nothing stale, nothing forgotten *)
Theorem C03_cumulative_latest : forall h i inp ch q,
  nth_error (run_dc dc_init h) i = Some (inp, ch) ->
  lookup q inp = last_write q (concat (map fst (firstn (S i) h))).
Proof.
  intros h i inp ch q H. rewrite (run_dc_latest h dc_init i inp ch q H).
  destruct (last_write q _); reflexivity.
Qed.

(* a flat level in topological order ([flat_wf]: only devices, unique names, single-source input
   ports, wires between listed components, every source listed before its sink), devices whose
   reports have unique port names.  If before a tick every wire carries its source's latest report,
   then so it does after the tick, and every device updated in the tick was handed, on each wired
   input port, the value its source reported last (possibly earlier in this very tick) *)
Theorem C03_sim_update_latest : forall cfg devf inner lv time roots ext s,
  flat_wf (level_of cfg lv) ->
  (forall c n t i, NoDup (keys (fst (devf c n t i)))) ->
  ~ In ext_id roots -> ~ In exp_id roots ->
  LATEST (l_conns (level_of cfg lv)) s ->
  let '(s2, _, ob) := tick_with cfg devf inner lv time roots ext s in
  LATEST (l_conns (level_of cfg lv)) s2 /\
  forall o, In o ob -> forall u p q, In (u, p, obs_comp o, q) (l_conns (level_of cfg lv)) ->
    forall v, lookup p (d_last (dcs s2 u)) = Some v -> lookup q (snd o) = Some v.
Proof.
  intros cfg devf inner lv time roots ext s Hwf Hdev H1 H2 HL.
  pose proof (tick_latest cfg devf inner lv time roots ext s Hwf Hdev H1 H2 HL) as H.
  destruct (tick_with cfg devf inner lv time roots ext s) as [[s2 out] ob]. destruct H as [HL2 Ho].
  split; [exact HL2|]. intros o Hi u p q Hk v Hl. rewrite (Ho o Hi). apply (HL2 u p (obs_comp o) q Hk v Hl).
Qed.

(* every state the master model reaches -- any speed, any number of ticks, any interrupts of its
   devices -- has every wire carrying the latest report of its source *)
Theorem C03_sim_run_latest : forall cfg devf num den fuel steps initial stim t_end,
  flat_wf (level_of cfg top) ->
  (forall c n t i, NoDup (keys (fst (devf c n t i)))) ->
  flat_stim stim ->
  LATEST (l_conns (level_of cfg top)) (m_s (simulate_full cfg devf num den fuel steps initial [] stim t_end)).
Proof. intros cfg devf num den fuel steps initial stim t_end Hwf Hdev. apply simulate_latest; assumption. Qed.

(* the wiring seen through the boundary of the system simulation c (inner level lvc) *)
Theorem C03_resolved_wiring : forall cfg c lvc u p d q,
  In (u, p, d, q) (l_conns (level_of (inline cfg c lvc) top)) <->
  (In (u, p, d, q) (l_conns (level_of cfg top)) /\ u <> c /\ d <> c) \/
  (exists q0, In (u, p, c, q0) (l_conns (level_of cfg top)) /\ In (ext_id, q0, d, q) (l_conns (level_of cfg lvc)) /\ d <> exp_id) \/
  (exists o, In (u, p, exp_id, o) (l_conns (level_of cfg lvc)) /\ In (c, o, d, q) (l_conns (level_of cfg top)) /\ u <> ext_id) \/
  (In (u, p, d, q) (l_conns (level_of cfg lvc)) /\ u <> ext_id /\ d <> exp_id) \/
  (exists q0 o, In (u, p, c, q0) (l_conns (level_of cfg top)) /\ In (ext_id, q0, exp_id, o) (l_conns (level_of cfg lvc)) /\
                In (c, o, d, q) (l_conns (level_of cfg top))).
Proof.
  intros cfg c lvc u p d q. rewrite inline_top_conns, in_Cf, in_conns_A, in_conns_B, in_conns_C, in_conns_D, in_conns_E. reflexivity.
Qed.

(* every state the master reaches when it runs the NESTED configuration has every resolved wire
   carrying the latest report of its source: a device inside the system sees the latest value of
   the outer device that feeds the system's input port, and an outer device the latest value of the
   inner device behind the system's output port *)
Theorem C03_through_system_boundary : forall cfg c lvc pre inn post (devf : devfun) f n initial horizon,
  shape_of cfg = Some (c, lvc, pre, inn, post) ->
  flat_wfb (level_of (inline cfg c lvc) top) = true ->
  (forall d k t i, NoDup (keys (fst (devf d k t i)))) ->
  (forall d k t i i', NoDup (keys i) -> NoDup (keys i') -> eqv i i' -> devf d k t i = devf d k t i') ->
  let s := fst (fst (sim_run cfg devf n (S f) initial horizon)) in
  forall u p d q, In (u, p, d, q) (l_conns (level_of (inline cfg c lvc) top)) ->
  forall v, lookup p (d_last (dcs s u)) = Some v -> lookup q (d_inputs (dcs s d)) = Some v.
Proof.
  intros cfg c lvc pre inn post devf f n initial horizon Hs Hwf Hnd Hext s u p d q Hk.
  rewrite inline_top_conns in Hk.
  exact (nested_latest cfg c lvc pre inn post devf f n initial horizon (shape_of_sound _ _ _ _ _ _ Hs)
           (flat_wfb_sound _ Hwf) Hnd Hext u p d q Hk).
Qed.

(* the premises hold somewhere, with values flowing in both directions through the boundary *)
Example C03_boundary_example :
  let cfg := [(1%positive, {| l_order := [(3%positive, KDev); (4%positive, KSys 2%positive); (8%positive, KDev)];
                              l_conns := [(3, 1, 4, 1); (4, 1, 8, 1)]%positive |});
              (2%positive, {| l_order := [(5%positive, KDev)]; l_conns := [(1, 1, 5, 1); (5, 1, 2, 1)]%positive |})] in
  let tab : dev_table := [(3%positive, (11, 300, 1)); (5%positive, (12, 700, 0)); (8%positive, (14, 400, 0))] in
  shape_of cfg = Some (4%positive, 2%positive, [3%positive], [5%positive], [8%positive]) /\
  flat_wfb (level_of (inline cfg 4%positive 2%positive) top) = true /\
  l_conns (level_of (inline cfg 4%positive 2%positive) top) = [(3, 1, 5, 1); (5, 1, 8, 1)]%positive /\
  let s := fst (fst (sim_run cfg (table_dev tab) 10 8 0 100000)) in
  (lookup 1%positive (d_last (dcs s 3%positive)) <> None /\ lookup 1%positive (d_last (dcs s 5%positive)) <> None).
Proof. vm_compute. repeat split; discriminate. Qed.

(* (6) any depth: the flat result of the iterated inlining has no system simulation left, its wires are the
   resolved wires of the whole nesting, and the state of the NESTED run has every one of them carrying
   the latest report of its source *)
Theorem C03_through_any_nesting : forall cfg k (devf : devfun) f n initial horizon,
  scope_all k (S f) [] cfg = true ->
  flat_wfb (level_of (inline_all k cfg) top) = true ->
  (forall d k t i, NoDup (keys (fst (devf d k t i)))) ->
  (forall d k t i i', NoDup (keys i) -> NoDup (keys i') -> eqv i i' -> devf d k t i = devf d k t i') ->
  let s := fst (fst (sim_run cfg devf n (S f) initial horizon)) in
  forall u p d q, In (u, p, d, q) (l_conns (level_of (inline_all k cfg) top)) ->
  forall v, lookup p (d_last (dcs s u)) = Some v -> lookup q (d_inputs (dcs s d)) = Some v.
Proof.
  intros cfg k devf f n initial horizon Hs Hwf Hnd Hext s u p d q Hk.
  exact (nested_latest_any_depth devf Hnd Hext f n initial horizon k cfg Hs (flat_wfb_sound _ Hwf) u p d q Hk).
Qed.

(* the premises hold somewhere: source 3 -> system 4 (devices 5 -> 6) -> system 7 (device 9 -> system 10 (device 11))
   -> sink 8, three levels deep; the flat result is the Coq flattening; values have crossed every boundary *)
Example C03_any_nesting_example :
  let cfg : config :=
    [(1%positive, {| l_order := [(3%positive, KDev); (4%positive, KSys 2%positive); (7%positive, KSys 3%positive); (8%positive, KDev)];
                     l_conns := [(3, 1, 4, 1); (4, 1, 7, 1); (7, 1, 8, 1); (3, 2, 8, 2)]%positive |});
     (2%positive, {| l_order := [(5%positive, KDev); (6%positive, KDev)];
                     l_conns := [(1, 1, 5, 1); (5, 1, 6, 1); (6, 1, 2, 1)]%positive |});
     (3%positive, {| l_order := [(9%positive, KDev); (10%positive, KSys 4%positive)];
                     l_conns := [(1, 1, 9, 1); (9, 1, 10, 1); (10, 1, 2, 1)]%positive |});
     (4%positive, {| l_order := [(11%positive, KDev)]; l_conns := [(1, 1, 11, 1); (11, 1, 2, 1)]%positive |})] in
  let tab : dev_table := [(3%positive, (11, 300, 1)); (5%positive, (12, 700, 1)); (6%positive, (13, 500, 4)); (8%positive, (14, 400, 0));
                          (9%positive, (15, 600, 1)); (11%positive, (16, 900, 4))] in
  scope_all 5 8 [] cfg = true /\
  flat_wfb (level_of (inline_all 5 cfg) top) = true /\
  conns_set_eqb (flat_conns cfg) (l_conns (level_of (inline_all 5 cfg) top)) = true /\
  In (6, 1, 9, 1)%positive (l_conns (level_of (inline_all 5 cfg) top)) /\
  In (11, 1, 8, 1)%positive (l_conns (level_of (inline_all 5 cfg) top)) /\
  let s := fst (fst (sim_run cfg (table_dev tab) 10 8 0 100000)) in
  (lookup 1%positive (d_last (dcs s 6%positive)) <> None /\ lookup 1%positive (d_last (dcs s 11%positive)) <> None).
Proof. vm_compute. repeat split; try discriminate; try reflexivity; intuition. Qed.

(* (7) ... with interrupts of top-level devices (those of [ys]) at any points between the ticks *)
Theorem C03_through_any_nesting_script : forall cfg k ys (devf : devfun) f initial script,
  scope_all k (S f) ys cfg = true ->
  flat_wfb (level_of (inline_all k cfg) top) = true ->
  (forall d k t i, NoDup (keys (fst (devf d k t i)))) ->
  (forall d k t i i', NoDup (keys i) -> NoDup (keys i') -> eqv i i' -> devf d k t i = devf d k t i') ->
  (forall y w, In (IStim y w) script -> In y ys) ->
  (forall y, In y ys -> y <> ext_id /\ y <> exp_id) ->
  let s := fst (sim_script_from_start cfg devf (S f) initial script) in
  forall u p d q, In (u, p, d, q) (l_conns (level_of (inline_all k cfg) top)) ->
  forall v, lookup p (d_last (dcs s u)) = Some v -> lookup q (d_inputs (dcs s d)) = Some v.
Proof.
  intros cfg k ys devf f initial script Hs Hwf Hnd Hext Hys Hreal s u p d q Hk.
  exact (nested_latest_any_depth_script devf Hnd Hext f initial script ys k cfg Hys Hreal Hs (flat_wfb_sound _ Hwf) u p d q Hk).
Qed.

(* (8) ... and under EVERY schedule of the nested simulation (any answer order at every level, tick after tick; the
   nested half of C08): at the end of any such run every wire of the resolved wiring carries its source's latest report *)
Theorem C03_through_any_nesting_any_schedule : forall cfg k ys (devf : devfun) f initial script sA obA,
  scope_all k (S f) ys cfg = true ->
  flat_wfb (level_of (inline_all k cfg) top) = true ->
  subtree_okb cfg (S (S f)) top = true ->
  (forall d k t i, NoDup (keys (fst (devf d k t i)))) ->
  (forall d k t i i', NoDup (keys i) -> NoDup (keys i') -> eqv i i' -> devf d k t i = devf d k t i') ->
  (forall y w, In (IStim y w) script -> In y ys) ->
  (forall y, In y ys -> y <> ext_id /\ y <> exp_id) ->
  nnrun cfg devf (S f) initial script sA obA ->
  forall u p d q, In (u, p, d, q) (l_conns (level_of (inline_all k cfg) top)) ->
  In u (devices_below cfg (S (S f)) top) -> In d (devices_below cfg (S (S f)) top) ->
  forall v, lookup p (d_last (dcs sA u)) = Some v -> lookup q (d_inputs (dcs sA d)) = Some v.
Proof.
  intros cfg k ys devf f initial script sA obA Hs Hwf Hok Hnd Hext Hys Hreal HA u p d q Hk Hu Hd v Hv.
  destruct (nnrun_is_sim cfg devf Hnd Hext (S f) initial script sA obA (subtree_okb_sound _ _ _ Hok) HA) as [[HD _] _].
  destruct (HD u Hu) as [Elast _]. destruct (HD d Hd) as [_ [Einp _]].
  rewrite (Einp q). apply (C03_through_any_nesting_script cfg k ys devf f initial script Hs Hwf Hnd Hext Hys Hreal u p d q Hk).
  rewrite <- Elast. exact Hv.
Qed.

(* the premises of (7) and (8) hold for the nesting of the example above with interrupts of the source 3 and the sink 8,
   and the last-dispatched-first strategy at all levels yields a run of (8) in which values have crossed every boundary *)
Example C03_any_schedule_example :
  let cfg : config :=
    [(1%positive, {| l_order := [(3%positive, KDev); (4%positive, KSys 2%positive); (7%positive, KSys 3%positive); (8%positive, KDev)];
                     l_conns := [(3, 1, 4, 1); (4, 1, 7, 1); (7, 1, 8, 1); (3, 2, 8, 2)]%positive |});
     (2%positive, {| l_order := [(5%positive, KDev); (6%positive, KDev)];
                     l_conns := [(1, 1, 5, 1); (5, 1, 6, 1); (6, 1, 2, 1)]%positive |});
     (3%positive, {| l_order := [(9%positive, KDev); (10%positive, KSys 4%positive)];
                     l_conns := [(1, 1, 9, 1); (9, 1, 10, 1); (10, 1, 2, 1)]%positive |});
     (4%positive, {| l_order := [(11%positive, KDev)]; l_conns := [(1, 1, 11, 1); (11, 1, 2, 1)]%positive |})] in
  let tab : dev_table := [(3%positive, (11, 300, 1)); (5%positive, (12, 700, 1)); (6%positive, (13, 500, 4)); (8%positive, (14, 400, 0));
                          (9%positive, (15, 600, 1)); (11%positive, (16, 900, 4))] in
  let script := [ITick; ITick; IStim 3%positive 650; ITick; ITick; IStim 8%positive 1000; ITick; ITick] in
  scope_all 5 8 [3%positive; 8%positive] cfg = true /\ subtree_okb cfg 9 top = true /\
  match nnrun_from_start cfg (table_dev tab) pick_last 100 8 0 script with
  | Some (s, ob) =>
      lookup 1%positive (d_last (dcs s 6%positive)) <> None /\
      lookup 1%positive (d_last (dcs s 6%positive)) = lookup 1%positive (d_inputs (dcs s 9%positive)) /\
      lookup 1%positive (d_last (dcs s 11%positive)) <> None /\
      lookup 1%positive (d_last (dcs s 11%positive)) = lookup 1%positive (d_inputs (dcs s 8%positive))
  | None => False
  end.
Proof. vm_compute. repeat split; try discriminate; reflexivity. Qed.

(* values are dictionaries: nothing the whole-simulation model computes depends on the order in
   which an association list holds its entries.  Two nested ticks (any configuration with
   single-source wirings, any depth) from states whose device inputs are equal as dictionaries
   ([SR]: same last outputs, same update counts, inputs equal port by port, same scheduler
   bookkeeping), on input changes equal as dictionaries, give outputs equal as dictionaries, the same
   callback, the same updates with equal inputs, and states related in the same way *)
Theorem C03_dictionary_adequacy : forall cfg (devf : devfun),
  (forall c n t i, NoDup (keys (fst (devf c n t i)))) ->
  (forall c n t i i', NoDup (keys i) -> NoDup (keys i') -> eqv i i' -> devf c n t i = devf c n t i') ->
  (forall lv, single_source (l_conns (level_of cfg lv))) ->
  forall f lv t chg chg' s s',
    SR (devices_below cfg f lv) (levels_below cfg f lv) s s' -> eqv chg chg' -> NoDup (keys chg) -> NoDup (keys chg') ->
    let '(s2, o, ca, ob) := on_tick_level cfg devf f lv t chg s in
    let '(s2', o', ca', ob') := on_tick_level cfg devf f lv t chg' s' in
    eqv o o' /\ NoDup (keys o) /\ NoDup (keys o') /\ ca' = ca /\ obs_rel ob ob' /\
    SR (devices_below cfg f lv) (levels_below cfg f lv) s2 s2'.
Proof. intros cfg devf Hnd Hext Hss f lv. exact (on_tick_level_eqv cfg devf Hnd Hext Hss f lv). Qed.

Example C03_example :
  map fst (run_dc dc_init [([(1%positive, 5)], []); ([(2%positive, 7)], []); ([(1%positive, 6)], [])])
  = [[(1%positive, 5)]; [(1%positive, 5); (2%positive, 7)]; [(1%positive, 6); (2%positive, 7)]].
Proof. vm_compute. reflexivity. Qed.

(* the tie to the source: the cumulative inputs of the model ARE `{**self.device_inputs, **changes}` of
   DeviceComponent.on_tick -- the left-hand side is regenerated from /repo by the function translator on every run *)
Theorem C03_device_inputs_is_source : forall inputs chg : values, gen_device_inputs inputs chg = merge inputs chg.
Proof. exact device_inputs_is_source. Qed.
