(* The hand-written model function IS the translation of the tickit function it models (see Proofs/GenWakeupsP.v).
   This file: NestedScheduler.on_tick after its tick -- the callback handed to the enclosing scheduler is the earliest
   wakeup left ([min_wake], as in [on_tick_level] of Model/Sim.v). *)
From TV Require Import Base Model.PyLib Model.Wiring Model.Component Model.Sim Gen.SourceFuns Proofs.GenWakeupsP.
Open Scope Z_scope.

(* after the tick: the callback handed to the enclosing scheduler is the earliest wakeup left *)
Theorem nested_epilogue_is_source (wk : list (comp * Z)) (ints : list comp) (done : bool) (comps : list comp)
        (inch outch : values) (time : Z) (chg : values) :
  gen_nested_epilogue wk ints done comps inch outch time chg = (outch, min_wake wk).
Proof.
  unfold gen_nested_epilogue. rewrite first_wakeups_is_source. unfold first_wakeups. destruct (min_wake wk); reflexivity.
Qed.
