"""Function translator: turns the bodies of the pure, dictionary-manipulating tickit functions the models rest on
into Gallina (coq/Gen/SourceFuns.v), from the current /repo sources, with Python's ast.  The vocabulary is
coq/Model/PyLib.v + Base.v (dicts are insertion-ordered association lists).  Proofs/GenFunsP.v proves every
generated definition equal to the hand-written model function the theorems are about, so a change of the source
changes the definition and breaks that equation (or, when the new body leaves the translated subset, the
definition is left out and the equation no longer compiles): fail-closed per function.

The translated subset: assignments to locals / self fields / dict items, list.append, early returns under `if`,
for-loops over a list of pairs (folded, the assigned variables being the accumulator), set / list / dict
comprehensions with one generator, {**a, **b}, min / max / set() / list() / dict(), d.values() / d.items() /
d.keys() / d.get(k, default), d[k] (an option: None = KeyError), ==, !=, <, <=, >, >=, in, not in, not, and, or,
integer literals, None, tuples.  Calls of logging functions are skipped.  Anything else: Unrecognised."""
from __future__ import annotations

import ast
import os
from pathlib import Path

SRC = Path(os.environ.get("VERIF_REPO") or "/repo") / "src" / "tickit"
OUT = Path(os.environ.get("VERIF_ROOT") or "/verif") / "coq" / "Gen" / "SourceFuns.v"

COQ_TYPE = {"dict": "list (positive * Z)", "pairs": "list (positive * Z)", "set": "list positive", "Z": "Z", "pos": "positive",
            "optZ": "option Z", "bool": "bool", "listZ": "list Z", "w": "wiring", "iw": "iwiring",
            "routed": "list (comp * list (port * Z))"}

# nested wiring dictionaries (Model/Wiring.v): what the elements of a loop over them are
ELEMS = {"items:iw": ("pos", "iw_inner"), "items:w": ("pos", "w_inner"), "items:iw_inner": ("pos", "cport"),
         "items:w_inner": ("pos", "cports"), "cports": ("pos", "pos"), "pairs": ("pos", "Z")}


class Unrecognised(Exception):
    pass


def find_func(tree, cls, name):
    body = tree.body
    if cls:
        for n in body:
            if isinstance(n, ast.ClassDef) and n.name == cls:
                body = n.body
                break
        else:
            raise Unrecognised(f"class {cls} not found")
    for n in body:
        if isinstance(n, (ast.FunctionDef, ast.AsyncFunctionDef)) and n.name == name:
            return n
    raise Unrecognised(f"function {name} not found")


# ---------------------------------------------------------------- normalisation of the source before translation
# Behaviour-preserving rewrites of a method body that undo what refactorings commonly do -- a private helper method (or
# property, or module-level constant) extracted from the method, a local alias for a field or for an expression used once,
# a set built by a loop instead of a comprehension -- so that the translated definition, and the equation proved about it,
# do not depend on such choices.  Each rewrite is applied only where it is safe by a syntactic criterion; where it is not,
# the source is left as it is (and the translator recognises it or fails closed as before).
import copy

_PURE_CALLS = {"Changes", "Map", "State", "SimTime", "ComponentID", "PortID", "ComponentPort", "set", "list", "dict", "min", "max",
               "cast", "int", "len", "DeviceUpdate", "frozenset", "tuple"}
_PURE_METHODS = {"items", "values", "keys", "get", "Outputs", "union", "intersection", "copy"}
_MUTATORS = {"append", "add", "update", "clear", "pop", "remove", "extend", "discard", "setdefault", "insert"}


def _path(e):
    """'x', 'self.f', 'x.a.b' for a pure access path, else None"""
    parts = []
    while isinstance(e, ast.Attribute):
        parts.insert(0, e.attr)
        e = e.value
    if isinstance(e, ast.Name):
        return ".".join([e.id] + parts)
    return None


def _root(path):
    bits = path.split(".")
    return "self." + bits[1] if bits[0] == "self" and len(bits) > 1 else bits[0]


def _is_pure(e):
    """no side effect and no dependence on anything but the values of the names / fields it reads"""
    for n in ast.walk(e):
        if isinstance(n, (ast.Await, ast.Yield, ast.YieldFrom, ast.NamedExpr, ast.Lambda)):
            return False
        if isinstance(n, ast.Call):
            f = n.func
            if isinstance(f, ast.Name) and f.id in _PURE_CALLS:
                continue
            if isinstance(f, ast.Attribute) and f.attr in _PURE_METHODS:
                continue
            return False
    return True


def _reads(e):
    """roots ('x' / 'self.f') of everything an expression or statement reads"""
    out = set()
    funcs = {id(n.func) for n in ast.walk(e) if isinstance(n, ast.Call) and isinstance(n.func, ast.Name)}
    for n in ast.walk(e):
        if isinstance(n, (ast.Name, ast.Attribute)) and isinstance(getattr(n, "ctx", None), ast.Load) and id(n) not in funcs:
            p = _path(n)
            if p:
                out.add(_root(p))
    return out


def _writes(stmts):
    """roots bound or mutated by a list of statements"""
    out = set()
    for s in stmts:
        for n in ast.walk(s):
            tg = []
            if isinstance(n, ast.Assign):
                tg = n.targets
            elif isinstance(n, (ast.AnnAssign, ast.AugAssign)):
                tg = [n.target]
            elif isinstance(n, ast.Delete):
                tg = n.targets
            elif isinstance(n, ast.For):
                tg = [n.target]
            elif isinstance(n, ast.Call) and isinstance(n.func, ast.Attribute) and n.func.attr in _MUTATORS:
                tg = [n.func.value]
            elif isinstance(n, ast.comprehension):
                tg = []
            for t in tg:
                for x in (t.elts if isinstance(t, ast.Tuple) else [t]):
                    while isinstance(x, ast.Subscript):
                        x = x.value
                    p = _path(x)
                    if p:
                        out.add(_root(p))
    return out


def _rebinds(stmts):
    """roots bound as a whole (x = ..., self.f = ...) -- not those merely mutated"""
    out = set()
    for s in stmts:
        for n in ast.walk(s):
            tg = []
            if isinstance(n, ast.Assign):
                tg = n.targets
            elif isinstance(n, (ast.AnnAssign, ast.AugAssign)):
                tg = [n.target]
            elif isinstance(n, ast.For):
                tg = [n.target]
            for t in tg:
                for x in (t.elts if isinstance(t, ast.Tuple) else [t]):
                    p = _path(x)
                    if p:
                        out.add(_root(p))
    return out


class _Subst(ast.NodeTransformer):
    """names -> expressions (Load) / names -> names (Store); beta-reduces calls of names bound to lambdas"""
    def __init__(self, exprs, lambdas=None):
        self.exprs, self.lambdas = exprs, lambdas or {}

    def visit_Name(self, n):
        if n.id in self.exprs:
            e = self.exprs[n.id]
            if isinstance(n.ctx, ast.Load):
                return copy.deepcopy(e)
            if isinstance(e, ast.Name):
                return ast.Name(id=e.id, ctx=n.ctx)
        return n

    def visit_Call(self, n):
        if isinstance(n.func, ast.Name) and n.func.id in self.lambdas and not n.keywords:
            lam = self.lambdas[n.func.id]
            ps = [a.arg for a in lam.args.args]
            if len(ps) == len(n.args):
                args = [self.visit(a) for a in n.args]
                return _Subst(dict(zip(ps, args))).visit(copy.deepcopy(lam.body))
        return self.generic_visit(n)

    def visit_Attribute(self, n):
        p = _path(n)
        if p and p in self.exprs and isinstance(n.ctx, ast.Load):
            return copy.deepcopy(self.exprs[p])
        return self.generic_visit(n)


def _strip(body):
    """without the docstring and the logging calls"""
    out = []
    for i, s in enumerate(body):
        if isinstance(s, ast.Expr) and isinstance(s.value, ast.Constant) and isinstance(s.value.value, str):
            continue
        if isinstance(s, ast.Expr) and isinstance(s.value, ast.Call) and isinstance(s.value.func, ast.Attribute) \
                and isinstance(s.value.func.value, ast.Name) and s.value.func.value.id == "LOGGER":
            continue
        out.append(s)
    return out


def _helpers(tree, cls):
    """private plain methods / properties / static methods of the class and of its bases in the same module"""
    classes = {n.name: n for n in tree.body if isinstance(n, ast.ClassDef)}
    out = {}

    def collect(cname, seen):
        if cname not in classes or cname in seen:
            return
        seen.add(cname)
        for b in classes[cname].bases:
            if isinstance(b, ast.Name):
                collect(b.id, seen)
        for n in classes[cname].body:
            if isinstance(n, ast.FunctionDef) and n.name.startswith("_") and not n.name.startswith("__"):
                decos = [ast.unparse(d) for d in n.decorator_list]
                kind = {(): "method", ("property",): "property", ("staticmethod",): "static"}.get(tuple(decos))
                body = _strip(n.body)
                rets = [x for s0 in body for x in ast.walk(s0) if isinstance(x, ast.Return)]
                bad = any(isinstance(x, (ast.Await, ast.Yield, ast.YieldFrom, ast.FunctionDef, ast.AsyncFunctionDef, ast.Global, ast.Nonlocal,
                                         ast.Try, ast.With, ast.While, ast.Raise, ast.ClassDef)) for s0 in body for x in ast.walk(s0))
                if kind and not bad and len(rets) <= 1 and (not rets or (body and body[-1] is rets[0])) \
                        and not n.args.vararg and not n.args.kwarg and not n.args.kwonlyargs:
                    out[n.name] = (kind, n, body)
    if cls:
        collect(cls, set())
    return out


def _constants(tree):
    """module-level NAME = <pure expression of literals>"""
    out = {}
    for n in tree.body:
        if isinstance(n, ast.Assign) and len(n.targets) == 1 and isinstance(n.targets[0], ast.Name) and _is_pure(n.value) \
                and not _reads(n.value):
            out[n.targets[0].id] = n.value
        elif isinstance(n, ast.AnnAssign) and isinstance(n.target, ast.Name) and n.value is not None and _is_pure(n.value) and not _reads(n.value):
            out[n.target.id] = n.value
    return out


def _helper_writes(name, helpers, seen=None):
    seen = seen or set()
    if name in seen or name not in helpers:
        return set()
    seen.add(name)
    _, node, body = helpers[name]
    out = {w for w in _writes(body) if w.startswith("self.")}
    for n in ast.walk(node):
        if isinstance(n, ast.Call) and isinstance(n.func, ast.Attribute) and isinstance(n.func.value, ast.Name) and n.func.value.id == "self":
            out |= _helper_writes(n.func.attr, helpers, seen)
    return out


def _find_call(e, helpers, guarded=False):
    """the first call of a helper (or read of a helper property) in evaluation order that is evaluated unconditionally
    -- innermost first; returns the node or None"""
    if isinstance(e, (ast.Lambda, ast.ListComp, ast.SetComp, ast.DictComp, ast.GeneratorExp)):
        return None
    if isinstance(e, ast.BoolOp):
        return _find_call(e.values[0], helpers)
    if isinstance(e, ast.IfExp):
        return _find_call(e.test, helpers)
    for c in ast.iter_child_nodes(e):
        if isinstance(c, ast.expr):
            r = _find_call(c, helpers)
            if r is not None:
                return r
    if isinstance(e, ast.Call) and isinstance(e.func, ast.Attribute) and isinstance(e.func.value, ast.Name) \
            and e.func.value.id in ("self", "cls") and e.func.attr in helpers and helpers[e.func.attr][0] in ("method", "static"):
        return e
    if isinstance(e, ast.Attribute) and isinstance(e.ctx, ast.Load) and isinstance(e.value, ast.Name) and e.value.id == "self" \
            and e.attr in helpers and helpers[e.attr][0] == "property":
        return e
    return None


class _Replace(ast.NodeTransformer):
    def __init__(self, old, new):
        self.old, self.new = old, new

    def visit(self, n):
        if n is self.old:
            return self.new
        return super().visit(n)


def _inline_one(stmt, helpers, counter):
    """hoists the first helper call of a simple statement: returns the statements that replace it, or None"""
    if isinstance(stmt, (ast.Assign, ast.AnnAssign, ast.AugAssign, ast.Expr, ast.Return)):
        holder = stmt
        value = stmt.value
    elif isinstance(stmt, ast.If):
        holder, value = stmt, stmt.test
    elif isinstance(stmt, ast.For):
        holder, value = stmt, stmt.iter
    else:
        return None
    if value is None:
        return None
    call = _find_call(value, helpers)
    if call is None:
        return None
    name = call.func.attr if isinstance(call, ast.Call) else call.attr
    kind, node, body = helpers[name]
    counter[0] += 1
    tag = f"{name.lstrip('_')}_{counter[0]}"
    params = [a.arg for a in node.args.args]
    if kind in ("method", "property"):
        params = params[1:]
    args = list(call.args) if isinstance(call, ast.Call) else []
    kws = {k.arg: k.value for k in call.keywords} if isinstance(call, ast.Call) else {}
    if None in kws or len(args) > len(params):
        return None
    defaults = dict(zip(params[len(params) - len(node.args.defaults):], node.args.defaults))
    bound = {}
    for i, p0 in enumerate(params):
        if i < len(args):
            bound[p0] = args[i]
        elif p0 in kws:
            bound[p0] = kws[p0]
        elif p0 in defaults:
            bound[p0] = defaults[p0]
        else:
            return None
    hw = _helper_writes(name, helpers)
    local = {x for x in _writes(body) if not x.startswith("self.")} | set(params)
    exprs, lambdas, pre = {}, {}, []
    assigned_in_helper = _writes(body)
    for p0, a in bound.items():
        if isinstance(a, ast.Lambda):
            if p0 in assigned_in_helper:
                return None
            lambdas[p0] = a
            continue
        pa = _path(a)
        if (pa is not None or isinstance(a, ast.Constant)) and p0 not in assigned_in_helper and (pa is None or _root(pa) not in hw):
            exprs[p0] = a                      # a name, a field, an access path, a literal: substituted
        else:
            fresh = f"{tag}_{p0}"
            pre.append(ast.Assign(targets=[ast.Name(id=fresh, ctx=ast.Store())], value=a))
            exprs[p0] = ast.Name(id=fresh, ctx=ast.Load())
    for x in local - set(params):
        exprs[x] = ast.Name(id=f"{tag}_{x}", ctx=ast.Load())
    sub = _Subst(exprs, lambdas)
    new_body = [sub.visit(copy.deepcopy(s0)) for s0 in body]
    ret = None
    if new_body and isinstance(new_body[-1], ast.Return):
        ret = new_body[-1].value
        new_body = new_body[:-1]
    if isinstance(stmt, ast.Expr) and stmt.value is call:
        return pre + new_body                                   # a call for its effect
    if ret is None:
        ret = ast.Constant(value=None)
    if value is call and isinstance(stmt, ast.Assign) and len(stmt.targets) == 1 and isinstance(stmt.targets[0], ast.Name) \
            and isinstance(ret, ast.Name) and ret.id.startswith(tag + "_") and stmt.targets[0].id not in _reads(ast.Module(body=pre + new_body, type_ignores=[])) \
            and stmt.targets[0].id not in _writes(pre + new_body):
        # x = self._h(...) where _h returns one of its locals: that local IS x
        ren = _Subst({ret.id: ast.Name(id=stmt.targets[0].id, ctx=ast.Load())})
        return [ren.visit(s0) for s0 in pre + new_body]
    if value is call and isinstance(stmt, (ast.Assign, ast.AnnAssign, ast.Return)):
        new_stmt = copy.copy(stmt)
        new_stmt.value = ret                                    # x = self._h(...)  /  return self._h(...)
        return pre + new_body + [new_stmt]
    tmp = f"{tag}_result"
    new_stmt = _Replace(call, ast.Name(id=tmp, ctx=ast.Load())).visit(stmt)
    return pre + new_body + [ast.Assign(targets=[ast.Name(id=tmp, ctx=ast.Store())], value=ret), new_stmt]


def _order_safe(stmt, call, hw):
    """nothing the statement evaluates besides the call reads what the helper writes"""
    if isinstance(stmt, ast.If):
        value = stmt.test
    elif isinstance(stmt, ast.For):
        value = stmt.iter
    else:
        value = stmt.value
    reads = set()
    stack = [value]
    while stack:
        n = stack.pop()
        if n is call:
            for a in (list(n.args) + [k.value for k in n.keywords]) if isinstance(n, ast.Call) else []:
                reads |= _reads(a)
            continue
        if isinstance(n, (ast.Name, ast.Attribute)) and isinstance(getattr(n, "ctx", None), ast.Load):
            p0 = _path(n)
            if p0:
                reads.add(_root(p0))
                continue
        stack.extend(ast.iter_child_nodes(n))
    return not (reads & hw)


def _inline_helpers(body, helpers, counter, depth=0):
    if depth > 12:
        raise Unrecognised("helper methods nested too deeply")
    out = []
    for s in body:
        if isinstance(s, (ast.If, ast.For)):
            s = copy.copy(s)
            s.body = _inline_helpers(s.body, helpers, counter, depth)
            if getattr(s, "orelse", None):
                s.orelse = _inline_helpers(s.orelse, helpers, counter, depth)
        value = s.test if isinstance(s, ast.If) else s.iter if isinstance(s, ast.For) else getattr(s, "value", None)
        call = _find_call(value, helpers) if value is not None and isinstance(s, (ast.Assign, ast.AnnAssign, ast.AugAssign, ast.Expr, ast.Return, ast.If, ast.For)) else None
        if call is not None:
            name = call.func.attr if isinstance(call, ast.Call) else call.attr
            if _order_safe(s, call, _helper_writes(name, helpers)):
                rep = _inline_one(s, helpers, counter)
                if rep is not None:
                    out.extend(_inline_helpers(rep, helpers, counter, depth + 1))
                    continue
        out.append(s)
    return out


def _count_loads(stmts, name):
    return sum(1 for s in stmts for n in ast.walk(s) if isinstance(n, (ast.Name, ast.Attribute)) and isinstance(getattr(n, "ctx", None), ast.Load)
               and _path(n) == name)


def _inline_locals(body):
    """x = <pure expression>, x bound once: later uses are replaced by the expression when x stands for a field / an access
    path (an alias) or is used once, provided nothing the expression reads is written in between"""
    changed = True
    while changed:
        changed = False
        for i, s in enumerate(body):
            if isinstance(s, ast.AnnAssign) and s.value is not None and isinstance(s.target, ast.Name):
                s = ast.Assign(targets=[s.target], value=s.value)
            if not (isinstance(s, ast.Assign) and len(s.targets) == 1 and isinstance(s.targets[0], ast.Name)):
                continue
            x = s.targets[0].id
            if not _is_pure(s.value) or x in _reads(s.value):
                continue
            if x in _writes(body[:i]) or x in _writes(body[i + 1:]):
                # bound more than once, or mutated through this name: only a name for a FIELD that is never rebound can be replaced
                pa = _path(s.value)
                if not (pa and x not in _rebinds(body[:i]) and x not in _rebinds(body[i + 1:]) and _root(pa) not in _rebinds(body)):
                    continue
            rest = body[i + 1:]
            uses = _count_loads(rest, x)
            alias = _path(s.value) is not None or isinstance(s.value, ast.Constant)
            if uses == 0 or not (alias or uses == 1):
                continue
            # the last statement that uses x; nothing the expression reads may be written before it (by an earlier statement)
            last = max(j for j, r in enumerate(rest) if _count_loads([r], x))
            rd = _reads(s.value)
            if rd & _writes(rest[:last]):
                continue
            # ... nor inside a loop / conditional that both writes it and uses x
            if any(isinstance(r, (ast.For, ast.If, ast.While)) and _count_loads([r], x) and (rd & _writes([r])) for r in rest[:last + 1]):
                continue
            sub = _Subst({x: s.value})
            body = body[:i] + [sub.visit(r) for r in rest]
            changed = True
            break
    return body


def _loops_to_comprehensions(body):
    """x = set(); for <pat> in <it>: [if c:] x.add(e)   ->   x = {e for <pat> in <it> [if c]}"""
    out = []
    i = 0
    while i < len(body):
        s = body[i]
        tgt = s.targets[0] if isinstance(s, ast.Assign) and len(s.targets) == 1 else s.target if isinstance(s, ast.AnnAssign) and s.value is not None else None
        if isinstance(tgt, ast.Name) and isinstance(s.value, ast.Call) and isinstance(s.value.func, ast.Name) and s.value.func.id == "set" \
                and not s.value.args and i + 1 < len(body) and isinstance(body[i + 1], ast.For) and not body[i + 1].orelse:
            f = body[i + 1]
            inner, conds = f.body, []
            while len(inner) == 1 and isinstance(inner[0], ast.If) and not inner[0].orelse:
                conds.append(inner[0].test)
                inner = inner[0].body
            if len(inner) == 1 and isinstance(inner[0], ast.Expr) and isinstance(inner[0].value, ast.Call) \
                    and isinstance(inner[0].value.func, ast.Attribute) and inner[0].value.func.attr == "add" \
                    and isinstance(inner[0].value.func.value, ast.Name) and inner[0].value.func.value.id == tgt.id \
                    and len(inner[0].value.args) == 1 and tgt.id not in _reads(f.iter) \
                    and all(tgt.id not in _reads(c) for c in conds) and tgt.id not in _reads(inner[0].value.args[0]):
                comp = ast.SetComp(elt=inner[0].value.args[0],
                                   generators=[ast.comprehension(target=f.target, iter=f.iter, ifs=conds, is_async=0)])
                out.append(ast.Assign(targets=[ast.Name(id=tgt.id, ctx=ast.Store())], value=comp))
                i += 2
                continue
        out.append(s)
        i += 1
    return out


def normalise(tree, cls, fn):
    helpers = _helpers(tree, cls)
    consts = _constants(tree)
    body = _strip(fn.body)
    if consts:
        local = _writes(body) | {a.arg for a in fn.args.args}
        sub = _Subst({k: v for k, v in consts.items() if k not in local and k.startswith("_")})
        body = [sub.visit(copy.deepcopy(s)) for s in body]
    if helpers:
        body = _inline_helpers([copy.deepcopy(s) for s in body], helpers, [0])
        if consts:
            body = [sub.visit(s) for s in body]
    body = _loops_to_comprehensions(body)
    body = _inline_locals(body)
    new = copy.copy(fn)
    new.body = [ast.fix_missing_locations(s) for s in body] or [ast.Pass()]
    return new


class Tr:
    def __init__(self, env):
        self.env = dict(env)          # python name ("self.f" for fields) -> (coq name, kind)
        self.mutated = []             # field names assigned, in order of first assignment

    # ---------------------------------------------------------------- expressions
    def name_of(self, e):
        if isinstance(e, ast.Name):
            return e.id
        if isinstance(e, ast.Attribute) and isinstance(e.value, ast.Name) and e.value.id == "self":
            return "self." + e.attr
        if isinstance(e, ast.Attribute) and isinstance(e.value, ast.Attribute) and isinstance(e.value.value, ast.Name) \
                and e.value.value.id == "self" and ("self." + e.value.attr + "." + e.attr) in self.env:
            return "self." + e.value.attr + "." + e.attr
        return None

    def expr(self, e):
        n = self.name_of(e)
        if n is not None:
            if n not in self.env:
                raise Unrecognised(f"unknown name {n}")
            return self.env[n]
        if isinstance(e, ast.Constant):
            if e.value is None:
                return ("(@None Z)", "none")
            if isinstance(e.value, bool):
                return ("true" if e.value else "false", "bool")
            if isinstance(e.value, int):
                return (f"({e.value})%Z", "Z")
            raise Unrecognised(f"constant {e.value!r}")
        if isinstance(e, ast.Tuple):
            parts = [self.expr(x) for x in e.elts]
            return ("(" + ", ".join(p for p, _ in parts) + ")", "tuple:" + ",".join(k for _, k in parts))
        if isinstance(e, ast.UnaryOp) and isinstance(e.op, ast.Not):
            s, k = self.expr(e.operand)
            if k in ("dict", "pairs", "set", "listZ"):
                return (f"(py_not {s})", "bool")
            if k == "bool":
                return (f"(negb {s})", "bool")
            raise Unrecognised(f"not on {k}")
        if isinstance(e, ast.BoolOp):
            parts = [self.expr(x) for x in e.values]
            if any(k != "bool" for _, k in parts):
                raise Unrecognised("and/or on non-booleans")
            op = " || " if isinstance(e.op, ast.Or) else " && "
            return ("(" + op.join(p for p, _ in parts) + ")", "bool")
        if isinstance(e, ast.Compare):
            if len(e.ops) != 1:
                raise Unrecognised("chained comparison")
            return self.compare(e.left, e.ops[0], e.comparators[0])
        if isinstance(e, ast.Subscript) and isinstance(e.ctx, ast.Load):
            d, kd = self.expr(e.value)
            i, ki = self.expr(e.slice)
            if kd == "dict" and ki == "pos":
                return (f"(lookup {i} {d})", "optZ")
            if kd == "w" and ki == "pos":                  # a default dictionary: a missing entry reads as empty
                return (f"(get_d {i} {d})", "w_inner")
            if kd == "w_inner" and ki == "pos":
                return (f"(get_d {i} {d})", "cports")
            raise Unrecognised(f"subscript of {kd} by {ki}")
        if isinstance(e, ast.BinOp) and isinstance(e.op, ast.Add):
            a, ka = self.expr(e.left)
            b, kb = self.expr(e.right)
            if ka == kb == "Z":
                return (f"({a} + {b})", "Z")
            if ka in ("pairs",) and kb in ("pairs",):
                return (f"({a} ++ {b})", "pairs")
            raise Unrecognised(f"+ on {ka}, {kb}")
        if isinstance(e, ast.Dict):
            if e.keys and all(k is None for k in e.keys):          # {**a, **b}
                parts = [self.unwrap_cast(v) for v in e.values]
                vals = [self.expr(v) for v in parts]
                if any(k != "dict" for _, k in vals):
                    raise Unrecognised("** of a non-dict")
                s = vals[0][0]
                for v, _ in vals[1:]:
                    s = f"(merge {s} {v})"
                return (s, "dict")
            if not e.keys:
                return ("(@nil (positive * Z))", "dict")
            raise Unrecognised("dict display")
        if isinstance(e, ast.Set):                                   # {*a, *b, c}: a union, written as the concatenation
            parts = []
            for x in e.elts:
                if isinstance(x, ast.Starred):
                    v, k = self.expr(x.value)
                    if k != "set":
                        raise Unrecognised(f"* of {k} in a set display")
                    parts.append(v)
                else:
                    v, k = self.expr(x)
                    if k != "pos":
                        raise Unrecognised(f"{k} in a set display")
                    parts.append(f"[{v}]")
            return ("(" + " ++ ".join(parts) + ")", "set")
        if isinstance(e, ast.List) and not e.elts:
            return ("(@nil (positive * Z))", "pairs")
        if isinstance(e, (ast.SetComp, ast.ListComp, ast.GeneratorExp, ast.DictComp)):
            return self.comp(e)
        if isinstance(e, ast.Call):
            return self.call(e)
        raise Unrecognised(f"expression {ast.dump(e)[:80]}")

    def unwrap_cast(self, e):
        # typing.cast(T, x) is x
        if isinstance(e, ast.Call) and isinstance(e.func, ast.Name) and e.func.id == "cast" and len(e.args) == 2:
            return e.args[1]
        return e

    def compare(self, left, op, right):
        a, ka = self.expr(left)
        b, kb = self.expr(right)
        if isinstance(op, (ast.In, ast.NotIn)):
            if ka != "pos":
                raise Unrecognised(f"in: element of kind {ka}")
            if kb == "dict":
                s = f"(py_in_dict {a} {b})"
            elif kb == "set":
                s = f"(py_in_set {a} {b})"
            else:
                raise Unrecognised(f"in {kb}")
            return (f"(negb {s})" if isinstance(op, ast.NotIn) else s, "bool")
        if isinstance(op, (ast.Eq, ast.NotEq)):
            if "optZ" in (ka, kb) and {ka, kb} <= {"optZ", "Z"}:
                wa = a if ka == "optZ" else f"(Some {a})"
                wb = b if kb == "optZ" else f"(Some {b})"
                s = f"(py_eq_opt {wa} {wb})"
            elif ka == kb == "Z":
                s = f"(Z.eqb {a} {b})"
            elif ka == kb == "pos":
                s = f"(Pos.eqb {a} {b})"
            else:
                raise Unrecognised(f"== on {ka}, {kb}")
            return (f"(negb {s})" if isinstance(op, ast.NotEq) else s, "bool")
        table = {ast.Lt: "Z.ltb", ast.LtE: "Z.leb", ast.Gt: "Z.gtb", ast.GtE: "Z.geb"}
        if type(op) in table and ka == kb == "Z":
            return (f"({table[type(op)]} {a} {b})", "bool")
        raise Unrecognised(f"comparison {type(op).__name__} on {ka}, {kb}")

    def comp(self, e):
        if len(e.generators) != 1:
            raise Unrecognised("comprehension with several generators")
        g = e.generators[0]
        if g.is_async:
            raise Unrecognised("async comprehension")
        it, kit = self.expr(g.iter)
        if kit not in ("pairs", "dict"):
            raise Unrecognised(f"comprehension over {kit}")
        if not (isinstance(g.target, ast.Tuple) and len(g.target.elts) == 2 and all(isinstance(x, ast.Name) for x in g.target.elts)):
            raise Unrecognised("comprehension target is not a pair of names")
        a, b = (x.id for x in g.target.elts)
        inner = Tr(self.env)
        inner.env[a] = (a, "pos")
        inner.env[b] = (b, "Z")
        pat = f"fun '({a}, {b}) =>"
        conds = [inner.expr(c) for c in g.ifs]
        if any(k != "bool" for _, k in conds):
            raise Unrecognised("comprehension condition is not boolean")
        cond = " && ".join(c for c, _ in conds) if conds else "true"
        if isinstance(e, ast.DictComp):
            k, kk = inner.expr(e.key)
            v, kv = inner.expr(e.value)
            if (kk, kv) != ("pos", "Z"):
                raise Unrecognised("dict comprehension of other than key: integer")
            return (f"(py_comp ({pat} ({k}, {v})) ({pat} {cond}) {it})", "dict")
        el, kel = inner.expr(e.elt)
        kind = {"pos": "set" if isinstance(e, ast.SetComp) else "set", "Z": "listZ"}.get(kel)
        if kind is None:
            raise Unrecognised(f"comprehension of {kel}")
        return (f"(py_comp ({pat} {el}) ({pat} {cond}) {it})", kind)

    def call(self, e):
        f = e.func
        if isinstance(f, ast.Name):
            if f.id in ("min", "max") and len(e.args) == 2 and not e.keywords:
                a, ka = self.expr(e.args[0])
                b, kb = self.expr(e.args[1])
                if (ka, kb) != ("Z", "Z"):
                    raise Unrecognised(f"{f.id} of {ka}, {kb}")
                return (f"(Z.{f.id} {a} {b})", "Z")
            if f.id in ("min", "max") and len(e.args) == 1 and not e.keywords:
                a, k = self.expr(e.args[0])
                if k != "listZ":
                    raise Unrecognised(f"{f.id} of {k}")
                return (f"(py_{f.id} {a})", "Z")
            if f.id in ("set", "list", "dict") and not e.keywords:
                if not e.args:
                    return ({"set": "(@nil positive)", "list": "(@nil (positive * Z))", "dict": "(@nil (positive * Z))"}[f.id],
                            {"set": "set", "list": "pairs", "dict": "dict"}[f.id])
                a, k = self.expr(e.args[0])
                return (a, k)
            if f.id == "defaultdict" and len(e.args) == 1 and isinstance(e.args[0], ast.Name) and e.args[0].id == "dict":
                return ("(@nil (comp * list (port * Z)))", "routed")
            if f.id == "cls" and not e.args and not e.keywords and "cls" in self.env:   # the empty instance of the class
                return self.env["cls"]
            if f.id == "ComponentPort" and len(e.args) == 2 and not e.keywords:
                a, ka = self.expr(e.args[0])
                b, kb = self.expr(e.args[1])
                if (ka, kb) != ("pos", "pos"):
                    raise Unrecognised("ComponentPort of other than a component and a port")
                return (f"({a}, {b})", "cport")
            if f.id in ("SimTime", "ComponentID", "PortID") and len(e.args) == 1:     # NewType constructors
                a0 = e.args[0]
                if isinstance(a0, ast.Constant) and isinstance(a0.value, str):
                    if a0.value in self.env.get("<strings>", {}):
                        return (self.env["<strings>"][a0.value], "pos")
                    raise Unrecognised(f"string {a0.value!r}")
                return self.expr(a0)
            if f.id in ("Changes", "Map") and not e.keywords and len(e.args) <= 1:        # immutable wrappers of a mapping
                if not e.args:
                    return ("(@nil (positive * Z))", "dict")
                return self.expr(e.args[0])
            if f.id == "DeviceUpdate" and len(e.args) == 2:
                a, ka = self.expr(e.args[0])
                b, kb = self.expr(e.args[1])
                return (f"({a}, {b})", f"tuple:{ka},{kb}")
        if isinstance(f, ast.Attribute):
            if f.attr == "Outputs" and not e.args and len(e.keywords) == 1:              # a TypedDict with one entry
                return self.expr(e.keywords[0].value)
            if f.attr == "items" and not e.args:
                d, k = self.expr(f.value)
                if k in ("w", "iw", "w_inner", "iw_inner"):
                    return (d, "items:" + k)
            if f.attr in ("values", "items", "keys") and not e.args:
                d, k = self.expr(f.value)
                if k != "dict":
                    raise Unrecognised(f".{f.attr}() of {k}")
                return {"values": (f"(py_values {d})", "listZ"), "items": (d, "pairs"), "keys": (f"(keys {d})", "set")}[f.attr]
            if f.attr == "get" and len(e.args) == 2:
                n = self.name_of(f.value)
                if n in self.env and self.env[n][1] == "strdict" and isinstance(e.args[0], ast.Constant) and isinstance(e.args[0].value, str):
                    # a mapping keyed by port NAME of which one entry is used: that entry is a parameter of its own
                    d, k = self.expr(e.args[1])
                    if d != "(@nil (positive * Z))":
                        raise Unrecognised("default of a port lookup is not the empty list")
                    return (f"{self.env[n][0]}_{e.args[0].value}", "pairs")
                d, k = self.expr(f.value)
                i, ki = self.expr(e.args[0])
                dflt, kd = self.expr(e.args[1])
                if (k, ki, kd) == ("dict", "pos", "Z"):
                    return (f"(py_get {d} {i} {dflt})", "Z")
        raise Unrecognised(f"call {ast.dump(e)[:100]}")

    # ---------------------------------------------------------------- statements
    def base_of(self, e):
        while isinstance(e, ast.Subscript):
            e = e.value
        return self.name_of(e)

    def assigned(self, stmts):
        out = []
        for s in stmts:
            tgs = []
            if isinstance(s, ast.Assign) and len(s.targets) == 1:
                tgs = [self.base_of(s.targets[0])]
            elif isinstance(s, ast.Expr) and isinstance(s.value, ast.Call) and isinstance(s.value.func, ast.Attribute) \
                    and s.value.func.attr in ("append", "add"):
                tgs = [self.base_of(s.value.func.value)]
            elif isinstance(s, ast.Expr) and isinstance(s.value, ast.Call) and isinstance(s.value.func, ast.Attribute) \
                    and s.value.func.attr in ("update", "clear"):
                tgs = [self.base_of(s.value.func.value)]
            elif isinstance(s, ast.Delete) and len(s.targets) == 1:
                tgs = [self.base_of(s.targets[0])]
            elif isinstance(s, ast.Expr) and isinstance(s.value, ast.Subscript):
                tgs = [self.base_of(s.value)]
            elif isinstance(s, (ast.For, ast.If)):
                tgs = self.assigned(s.body)
            for tg in tgs:
                if tg and tg not in out:
                    out.append(tg)
        return out

    def subscripts(self, e):
        """X[a][b] -> (name of X, [a, b])"""
        idx = []
        while isinstance(e, ast.Subscript):
            idx.insert(0, e.slice)
            e = e.value
        return self.name_of(e), idx

    def bind(self, name, kind):
        coq = name.replace("self.", "self_").lstrip("_") if not name.startswith("self.") else "self_" + name[5:].lstrip("_").replace(".", "_")
        if name.startswith("self.") and name[5:] not in self.mutated:
            self.mutated.append(name[5:])
        self.env[name] = (coq, kind)
        return coq

    def block(self, stmts, ret):
        """ret: function giving the Coq term for `return <expr>` (None = fall off the end)"""
        if not stmts:
            return ret(None)
        s, rest = stmts[0], stmts[1:]
        if isinstance(s, ast.Expr) and isinstance(s.value, ast.Constant):                 # docstring
            return self.block(rest, ret)
        if isinstance(s, ast.Expr) and isinstance(s.value, ast.Call) and isinstance(s.value.func, ast.Attribute) \
                and isinstance(s.value.func.value, ast.Name) and s.value.func.value.id == "LOGGER":
            return self.block(rest, ret)                                                 # logging
        if isinstance(s, ast.Return):
            return ret(s.value)
        if isinstance(s, ast.AnnAssign) and s.value is not None:
            s = ast.Assign(targets=[s.target], value=s.value)
        if isinstance(s, ast.Assign) and len(s.targets) == 1 and isinstance(s.targets[0], ast.Tuple) and isinstance(s.value, ast.Call) \
                and ast.unparse(s.value) == "self.get_first_wakeups()" and len(s.targets[0].elts) == 2 \
                and all(isinstance(x, ast.Name) for x in s.targets[0].elts) and "self.wakeups" in self.env:
            a, b = (x.id for x in s.targets[0].elts)               # the translated method of the same class hierarchy
            ca = "_" if a == "_" else self.bind(a, "set")
            cb = "_" if b == "_" else self.bind(b, "optZ")
            return f"let '({ca}, {cb}) := gen_get_first_wakeups {self.env['self.wakeups'][0]} in\n  {self.block(rest, ret)}"
        if isinstance(s, ast.Expr) and isinstance(s.value, ast.Call) and ast.unparse(s.value.func) == "self.add_wakeup" \
                and len(s.value.args) == 2 and not s.value.keywords and "self.wakeups" in self.env:
            a, ka = self.expr(s.value.args[0])
            b, kb = self.expr(s.value.args[1])
            if (ka, kb) != ("pos", "Z"):
                raise Unrecognised(f"add_wakeup({ka}, {kb})")
            d = self.env["self.wakeups"][0]
            c = self.bind("self.wakeups", "dict")
            return f"let {c} := gen_add_wakeup {d} {a} {b} in\n  {self.block(rest, ret)}"
        # ---- nested default dictionaries of Model/Wiring.v
        if isinstance(s, ast.Expr) and isinstance(s.value, ast.Subscript):               # wiring[c]: creates the entry
            n, idx = self.subscripts(s.value)
            if n in self.env and self.env[n][1] in ("w", "iw") and len(idx) == 1:
                i, ki = self.expr(idx[0])
                if ki != "pos":
                    raise Unrecognised("index of a wiring is not a component")
                d, kd = self.env[n]
                c = self.bind(n, kd)
                return f"let {c} := touch {i} {d} in\n  {self.block(rest, ret)}"
        if isinstance(s, ast.Expr) and isinstance(s.value, ast.Call) and isinstance(s.value.func, ast.Attribute) \
                and s.value.func.attr == "add" and len(s.value.args) == 1:                # wiring[oc][op].add(ComponentPort(ic, ip))
            n, idx = self.subscripts(s.value.func.value)
            if n in self.env and self.env[n][1] == "w" and len(idx) == 2:
                a, ka = self.expr(idx[0])
                b, kb = self.expr(idx[1])
                v, kv = self.expr(s.value.args[0])
                if (ka, kb, kv) != ("pos", "pos", "cport"):
                    raise Unrecognised(f"wiring[{ka}][{kb}].add({kv})")
                d, kd = self.env[n]
                c = self.bind(n, kd)
                return f"let {c} := add_target {d} {a} {b} {v} in\n  {self.block(rest, ret)}"
        if isinstance(s, ast.Assign) and len(s.targets) == 1 and isinstance(s.targets[0], ast.Subscript):
            n, idx = self.subscripts(s.targets[0])
            if n in self.env and self.env[n][1] == "routed" and len(idx) == 2:           # routed[ic][ip] = value
                a, ka = self.expr(idx[0])
                b, kb = self.expr(idx[1])
                v, kv = self.expr(s.value)
                if (ka, kb, kv) != ("pos", "pos", "Z"):
                    raise Unrecognised(f"routed[{ka}][{kb}] = {kv}")
                d, kd = self.env[n]
                c = self.bind(n, kd)
                return f"let {c} := upd {a} (upd {b} {v} (get_d {a} {d})) {d} in\n  {self.block(rest, ret)}"
            if n in self.env and self.env[n][1] == "iw" and len(idx) == 2:               # inverse_wiring[ic][ip] = ComponentPort(oc, op)
                a, ka = self.expr(idx[0])
                b, kb = self.expr(idx[1])
                v, kv = self.expr(s.value)
                if (ka, kb, kv) != ("pos", "pos", "cport"):
                    raise Unrecognised(f"inverse_wiring[{ka}][{kb}] = {kv}")
                d, kd = self.env[n]
                c = self.bind(n, kd)
                return f"let {c} := set_source {d} {a} {b} {v} in\n  {self.block(rest, ret)}"
        if isinstance(s, ast.Assign) and len(s.targets) == 1:
            t = s.targets[0]
            if isinstance(t, ast.Subscript):                                             # d[k] = v
                n = self.name_of(t.value)
                d, kd = self.expr(t.value)
                i, ki = self.expr(t.slice)
                v, kv = self.expr(s.value)
                if (kd, ki, kv) != ("dict", "pos", "Z"):
                    raise Unrecognised(f"item assignment {kd}[{ki}] = {kv}")
                c = self.bind(n, "dict")
                return f"let {c} := upd {i} {v} {d} in\n  {self.block(rest, ret)}"
            n = self.name_of(t)
            if n is None:
                raise Unrecognised("assignment target")
            v, kv = self.expr(s.value)
            if n in self.env and self.env[n][1] in ("dict", "pairs", "set") and kv in ("dict", "pairs", "set"):
                kv = self.env[n][1]          # an empty display takes the kind of the variable it re-initialises
            c = self.bind(n, kv)
            return f"let {c} := {v} in\n  {self.block(rest, ret)}"
        if isinstance(s, ast.Expr) and isinstance(s.value, ast.Call) and isinstance(s.value.func, ast.Attribute) \
                and s.value.func.attr == "append" and len(s.value.args) == 1:
            n = self.name_of(s.value.func.value)
            l, kl = self.expr(s.value.func.value)
            v, kv = self.expr(s.value.args[0])
            if kl != "pairs" or kv != "tuple:pos,Z":
                raise Unrecognised(f"append of {kv} to {kl}")
            c = self.bind(n, "pairs")
            return f"let {c} := {l} ++ [{v}] in\n  {self.block(rest, ret)}"
        if isinstance(s, ast.Expr) and isinstance(s.value, ast.Call) and isinstance(s.value.func, ast.Attribute) \
                and s.value.func.attr == "update" and len(s.value.args) == 1:              # a_set.update(another)
            n = self.name_of(s.value.func.value)
            a, ka = self.expr(s.value.func.value)
            b, kb = self.expr(s.value.args[0])
            if (ka, kb) != ("set", "set"):
                raise Unrecognised(f"{ka}.update({kb})")
            c = self.bind(n, "set")
            return f"let {c} := {a} ++ {b} in\n  {self.block(rest, ret)}"
        if isinstance(s, ast.Expr) and isinstance(s.value, ast.Call) and isinstance(s.value.func, ast.Attribute) \
                and s.value.func.attr == "clear" and not s.value.args:
            n = self.name_of(s.value.func.value)
            a, ka = self.expr(s.value.func.value)
            if ka != "set":
                raise Unrecognised(f"{ka}.clear()")
            c = self.bind(n, "set")
            return f"let {c} := (@nil positive) in\n  {self.block(rest, ret)}"
        if isinstance(s, ast.Delete) and len(s.targets) == 1 and isinstance(s.targets[0], ast.Subscript):      # del d[k]
            n = self.name_of(s.targets[0].value)
            d, kd = self.expr(s.targets[0].value)
            i, ki = self.expr(s.targets[0].slice)
            if (kd, ki) != ("dict", "pos"):
                raise Unrecognised(f"del {kd}[{ki}]")
            c = self.bind(n, "dict")
            return f"let {c} := remove_key {i} {d} in\n  {self.block(rest, ret)}"
        if isinstance(s, ast.If) and not s.orelse and not any(isinstance(x, ast.Return) for x in ast.walk(s)):
            c, kc = self.expr(s.test)
            if kc != "bool":
                raise Unrecognised("if on a non-boolean")
            acc = self.assigned(s.body)
            if not acc or any(n not in self.env for n in acc):
                raise Unrecognised("conditional assigns nothing / an uninitialised variable")
            before = [self.env[n] for n in acc]
            inner = Tr(self.env)
            inner.mutated = self.mutated
            then = inner.block(s.body, lambda v: "(" + ", ".join(inner.env[n][0] for n in acc) + ")")
            pat = "(" + ", ".join(cq for cq, _ in before) + ")"
            for n, (cq, k) in zip(acc, before):
                self.bind(n, k)
            if len(acc) == 1:
                return f"let {before[0][0]} := if {c} then {then} else {before[0][0]} in\n  {self.block(rest, ret)}"
            return f"let '{pat} := if {c} then {then} else {pat} in\n  {self.block(rest, ret)}"
        if isinstance(s, ast.For) and not s.orelse and isinstance(s.target, ast.Name):      # for x in a_set
            it, kit = self.expr(s.iter)
            if kit != "set":
                raise Unrecognised(f"for <name> over {kit}")
            acc = self.assigned(s.body)
            if not acc or any(n not in self.env for n in acc):
                raise Unrecognised("loop body assigns nothing / an uninitialised variable")
            before = [self.env[n] for n in acc]
            inner = Tr(self.env)
            inner.mutated = self.mutated
            inner.env[s.target.id] = (s.target.id, "pos")
            body = inner.block(s.body, lambda v: "(" + ", ".join(inner.env[n][0] for n in acc) + ")")
            pat = "(" + ", ".join(cq for cq, _ in before) + ")" if len(acc) > 1 else before[0][0]
            for n, (cq, k) in zip(acc, before):
                self.bind(n, k)
            q = "'" if len(acc) > 1 else ""
            return f"let {q}{pat} := fold_left (fun {q}{pat} {s.target.id} =>\n      {body}) {it} {pat} in\n  {self.block(rest, ret)}"
        if isinstance(s, ast.If) and not s.orelse and isinstance(s.body[-1], ast.Return):
            c, kc = self.expr(s.test)
            if kc != "bool":
                raise Unrecognised("if on a non-boolean")
            saved = (dict(self.env), list(self.mutated))
            then = self.block(s.body, ret)
            self.env, self.mutated = saved
            return f"if {c} then {then}\n  else {self.block(rest, ret)}"
        if isinstance(s, ast.For) and not s.orelse:
            it, kit = self.expr(s.iter)
            if kit not in ELEMS:
                raise Unrecognised(f"for over {kit}")
            ka, kb = ELEMS[kit]
            if not (isinstance(s.target, ast.Tuple) and len(s.target.elts) == 2 and isinstance(s.target.elts[0], ast.Name)):
                raise Unrecognised("for target is not a pair")
            acc = self.assigned(s.body)
            if not acc or any(n not in self.env for n in acc):
                raise Unrecognised("loop body assigns nothing / an uninitialised variable")
            before = [self.env[n] for n in acc]
            inner = Tr(self.env)
            inner.mutated = self.mutated
            a = s.target.elts[0].id
            inner.env[a] = (a, ka)
            second = s.target.elts[1]
            if isinstance(second, ast.Name):
                elpat = f"'({a}, {second.id})"
                inner.env[second.id] = (second.id, kb)
            elif kb == "cport" and isinstance(second, ast.Tuple) and len(second.elts) == 2 and all(isinstance(x, ast.Name) for x in second.elts):
                c1, c2 = (x.id for x in second.elts)
                elpat = f"'({a}, ({c1}, {c2}))"
                inner.env[c1] = (c1, "pos")
                inner.env[c2] = (c2, "pos")
            else:
                raise Unrecognised("for target shape")
            body = inner.block(s.body, lambda v: "(" + ", ".join(inner.env[n][0] for n in acc) + ")" if v is None else (_ for _ in ()).throw(Unrecognised("return in a loop")))
            pat = "(" + ", ".join(c for c, _ in before) + ")" if len(acc) > 1 else before[0][0]
            for n, (c, k) in zip(acc, before):
                self.bind(n, k)
            return (f"let '{pat} := fold_left (fun '{pat} {elpat} =>\n      {body}) {it} {pat} in\n  {self.block(rest, ret)}"
                    if len(acc) > 1 else
                    f"let {pat} := fold_left (fun {pat} {elpat} =>\n      {body}) {it} {pat} in\n  {self.block(rest, ret)}")
        raise Unrecognised(f"statement {ast.dump(s)[:100]}")


def translate(spec):
    tree = ast.parse((SRC / spec["file"]).read_text())
    fn = normalise(tree, spec.get("cls"), find_func(tree, spec.get("cls"), spec["func"]))
    env = {}
    args = []
    for f, k in spec.get("fields", {}).items():
        c = "self_" + f.lstrip("_").replace(".", "_")
        env["self." + f] = (c, k)
        args.append((c, k))
    if "strings" in spec:
        env["<strings>"] = spec["strings"]
    if "cls_kind" in spec:
        env["cls"] = ({"w": "(@nil (comp * list (port * list cport)))", "iw": "(@nil (comp * list (port * cport)))"}[spec["cls_kind"]], spec["cls_kind"])
    declared = [a.arg for a in fn.args.args if a.arg not in ("self", "cls")]
    if declared != list(spec.get("params", {})):
        raise Unrecognised(f"parameters are {declared}")
    for p, k in spec.get("params", {}).items():
        if k == "ignored":
            continue
        if k.startswith("strdict:"):
            env[p] = (p, "strdict")
            args.append((f"{p}_{k.split(':')[1]}", "pairs"))
        else:
            env[p] = (p, k)
            args.append((p, k))
    tr = Tr(env)
    body = fn.body
    if "extract" in spec:
        return spec["extract"](tr, fn, args, spec)
    if "given" in spec:
        # the first assignment to this local (real-time arithmetic, not translated) is taken as given: a parameter
        # the leading assignments of locals from real-time arithmetic (time_ns(), fields that are not modelled here) are not
        # translated: the one local the rest of the body uses is taken as given, a parameter
        name, kind = spec["given"]
        known = {"self." + f0 for f0 in spec.get("fields", {})}
        opaque, k0 = set(), 0
        for st in body:
            if isinstance(st, ast.Assign) and len(st.targets) == 1 and isinstance(st.targets[0], ast.Name) and (
                    any(isinstance(x, ast.Call) and isinstance(x.func, ast.Name) and x.func.id == "time_ns" for x in ast.walk(st.value))
                    or (_reads(st.value) & opaque) or any(r.startswith("self.") and r not in known for r in _reads(st.value))) \
                    and not (_reads(st.value) & known):
                opaque.add(st.targets[0].id)
                k0 += 1
            else:
                break
        body = body[k0:]
        used = sorted(x for x in opaque if _count_loads(body, x))
        if len(used) != 1:
            raise Unrecognised(f"the body uses {used or 'none'} of the locals computed from the clock: exactly one expected")
        tr.env[used[0]] = (name, kind)
        args.append((name, kind))
    if "until_await" in spec:
        # the part of an async method before (or after) its one await: the state it leaves, and the named locals
        idx = [i for i, st in enumerate(body) if any(isinstance(x, ast.Await) for x in ast.walk(st))]
        if len(idx) != 1:
            raise Unrecognised(f"{len(idx)} awaiting statements")
        if ast.unparse(body[idx[0]]) != spec["await_is"]:
            raise Unrecognised(f"the awaiting statement is {ast.unparse(body[idx[0]])!r}")
        if spec["until_await"] == "before":
            body = body[:idx[0]] + [ast.Return(value=ast.Tuple(elts=[ast.Name(id=x, ctx=ast.Load()) for x in spec["outputs"]], ctx=ast.Load()))]
        else:
            body = body[idx[0] + 1:]

    result_kind = []
    wrap = set()        # positions of a returned tuple where one return has None and another an integer: Optional[int]

    def ret(v):
        fields = [tr.env["self." + f][0] for f in tr.mutated]
        if v is None:
            parts = fields
        else:
            elts = v.elts if isinstance(v, ast.Tuple) else [v]
            tr_elts = [tr.expr(x) for x in elts]
            result_kind.append([k for _, k in tr_elts])
            strs = [f"(Some {x})" if (i in wrap and k == "Z") else x for i, (x, k) in enumerate(tr_elts)]
            parts = fields + ["(" + ", ".join(strs) + ")" if isinstance(v, ast.Tuple) else strs[0]]
        return "(" + ", ".join(parts) + ")" if len(parts) != 1 else parts[0]

    saved_env = dict(tr.env)
    tr.block(body, ret)                      # first pass: the kinds of what the returns hand back
    n = {len(k) for k in result_kind}
    if len(n) > 1:
        raise Unrecognised("returns of different shapes")
    for i in range(n.pop() if n else 0):
        ks = {k[i] for k in result_kind}
        if ks == {"none", "Z"}:
            wrap.add(i)
        elif len(ks) > 1 and not (ks <= {"set", "pairs", "dict"}):
            raise Unrecognised(f"returns of different kinds {ks}")
    tr.env, tr.mutated, result_kind[:] = saved_env, [], []
    term = tr.block(body, ret)
    # every return must hand back the same fields: the set of mutated fields is that of the whole function
    sig = " ".join(f"({c} : {COQ_TYPE[k]})" for c, k in args)
    comment = f"(* {spec['file']}: {(spec.get('cls') + '.') if spec.get('cls') else ''}{spec['func']}; returns ({', '.join(['self.' + f for f in tr.mutated] + (['result'] if result_kind else []))}) *)"
    return f"{comment}\nDefinition {spec['name']} {sig} :=\n  {term}.\n"


# ---------------------------------------------------------------- DeviceComponent.on_tick: the two dictionary expressions
def extract_device_inputs(tr, fn, args, spec):
    merge_e = None
    for n in ast.walk(fn):
        if isinstance(n, ast.Assign) and len(n.targets) == 1 and tr.name_of(n.targets[0]) == "self.device_inputs":
            if merge_e is not None:
                raise Unrecognised("self.device_inputs is assigned twice")
            merge_e = n.value
    if merge_e is None:
        raise Unrecognised("assignment to self.device_inputs not found")
    # ... and that is what the device is handed
    ok = any(isinstance(n, ast.Call) and ast.unparse(n.func) == "self.device.update" and len(n.args) == 2
             and ast.unparse(n.args[1]) == "self.device_inputs" for n in ast.walk(fn))
    if not ok:
        raise Unrecognised("self.device.update is not called with self.device_inputs")
    m, km = tr.expr(merge_e)
    if km != "dict":
        raise Unrecognised("unexpected kind")
    return ("(* core/components/device_component.py: DeviceComponent.on_tick -- the inputs handed to the device *)\n"
            f"Definition gen_device_inputs (self_device_inputs changes : list (positive * Z)) :=\n  {m}.\n")


def extract_out_changes(tr, fn, args, spec):
    comp_e = None
    for n in ast.walk(fn):
        if isinstance(n, ast.DictComp):
            if comp_e is not None:
                raise Unrecognised("several dict comprehensions")
            comp_e = n
    if comp_e is None:
        raise Unrecognised("output comprehension not found")
    # the comprehension ranges over device_update.outputs
    it = comp_e.generators[0].iter
    if not (isinstance(it, ast.Call) and isinstance(it.func, ast.Attribute) and it.func.attr == "items"
            and ast.unparse(it.func.value) == "device_update.outputs"):
        raise Unrecognised("the comprehension does not range over device_update.outputs.items()")
    # it is what is sent (out_changes = Changes(Map(<comprehension>)); self.output(time, out_changes, ...))
    sent = [n for n in ast.walk(fn) if isinstance(n, ast.Assign) and len(n.targets) == 1 and tr.name_of(n.targets[0]) == "out_changes"]
    if len(sent) != 1 or ast.unparse(sent[0].value) != f"Changes(Map({ast.unparse(comp_e)}))":
        raise Unrecognised("out_changes is not Changes(Map(<the comprehension>))")
    if not any(isinstance(n, ast.Call) and ast.unparse(n.func) == "self.output" and len(n.args) == 3 and ast.unparse(n.args[1]) == "out_changes"
               for n in ast.walk(fn)):
        raise Unrecognised("self.output is not called with out_changes")
    # and last_outputs becomes device_update.outputs afterwards
    ok = any(isinstance(n, ast.Assign) and len(n.targets) == 1 and tr.name_of(n.targets[0]) == "self.last_outputs"
             and ast.unparse(n.value) == "device_update.outputs" for n in ast.walk(fn))
    if not ok:
        raise Unrecognised("self.last_outputs is not set to device_update.outputs")
    comp_e.generators[0].iter = ast.Call(func=ast.Attribute(value=ast.Name(id="outputs", ctx=ast.Load()), attr="items", ctx=ast.Load()), args=[], keywords=[])
    tr.env["outputs"] = ("outputs", "dict")
    c, kc = tr.expr(comp_e)
    if kc != "dict":
        raise Unrecognised("unexpected kind")
    return ("(* core/components/device_component.py: DeviceComponent.on_tick -- the changes reported *)\n"
            f"Definition gen_out_changes (self_last_outputs outputs : list (positive * Z)) :=\n  {c}.\n")


SPECS = [
    dict(section="first_wakeups", file="core/management/schedulers/base.py", cls="BaseScheduler", func="get_first_wakeups",
         name="gen_get_first_wakeups", fields={"wakeups": "dict"}, params={}),
    dict(section="add_wakeup", file="core/management/schedulers/base.py", cls="BaseScheduler", func="add_wakeup",
         name="gen_add_wakeup", fields={"wakeups": "dict"}, params={"component": "pos", "when": "Z"}),
    dict(section="device_inputs", file="core/components/device_component.py", cls="DeviceComponent", func="on_tick",
         name="gen_device_inputs", fields={"device_inputs": "dict", "last_outputs": "dict"}, params={"time": "ignored", "changes": "dict"},
         extract=extract_device_inputs),
    dict(section="out_changes", file="core/components/device_component.py", cls="DeviceComponent", func="on_tick",
         name="gen_out_changes", fields={"device_inputs": "dict", "last_outputs": "dict"}, params={"time": "ignored", "changes": "dict"},
         extract=extract_out_changes),
    dict(section="from_inverse_wiring", file="core/management/event_router.py", cls="Wiring", func="from_inverse_wiring",
         name="gen_from_inverse_wiring", cls_kind="w", params={"inverse_wiring": "iw"}),
    dict(section="from_wiring", file="core/management/event_router.py", cls="InverseWiring", func="from_wiring",
         name="gen_from_wiring", cls_kind="iw", params={"wiring": "w"}),
    dict(section="route", file="core/management/event_router.py", cls="EventRouter", func="route",
         name="gen_route", fields={"wiring": "w"}, params={"source": "pos", "changes": "dict"}),
    dict(section="nested_prologue", file="core/management/schedulers/nested.py", cls="NestedScheduler", func="on_tick",
         name="gen_nested_prologue",
         fields={"wakeups": "dict", "interrupts": "set", "_initial_tick_done": "bool", "ticker.components": "set",
                 "input_changes": "dict", "output_changes": "dict"},
         params={"time": "Z", "changes": "dict"}, strings={"external": "ext_id", "expose": "exp_id"},
         until_await="before", await_is="await self.ticker(time, root_components)", outputs=["root_components"]),
    dict(section="nested_epilogue", file="core/management/schedulers/nested.py", cls="NestedScheduler", func="on_tick",
         name="gen_nested_epilogue",
         fields={"wakeups": "dict", "interrupts": "set", "_initial_tick_done": "bool", "ticker.components": "set",
                 "input_changes": "dict", "output_changes": "dict"},
         params={"time": "Z", "changes": "dict"}, strings={"external": "ext_id", "expose": "exp_id"},
         until_await="after", await_is="await self.ticker(time, root_components)"),
    dict(section="schedule_interrupt", file="core/management/schedulers/master.py", cls="MasterScheduler", func="schedule_interrupt",
         name="gen_schedule_interrupt", fields={"wakeups": "dict"}, params={"source": "pos"}, given=("when", "Z")),
    dict(section="iobox_write", file="devices/iobox.py", cls="IoBoxDevice", func="write", name="gen_iobox_write",
         fields={"_memory": "dict", "_change_buffer": "pairs"}, params={"addr": "pos", "value": "Z"}),
    dict(section="iobox_read", file="devices/iobox.py", cls="IoBoxDevice", func="read", name="gen_iobox_read",
         fields={"_memory": "dict", "_change_buffer": "pairs"}, params={"addr": "pos"}),
    dict(section="iobox_update", file="devices/iobox.py", cls="IoBoxDevice", func="update", name="gen_iobox_update",
         fields={"_memory": "dict", "_change_buffer": "pairs"}, params={"time": "ignored", "inputs": "strdict:updates"}),
]


def main():
    parts = ["(* GENERATED by harness/gen_funs.py from the tickit sources -- do not edit *)",
             "From TV Require Import Base Model.PyLib Model.Wiring Model.Component Model.Sim.", "Open Scope Z_scope.", ""]
    notes = []
    done = {}     # generated name -> text
    failed = {}   # generated name -> why
    for spec in SPECS:
        try:
            done[spec["name"]] = (spec, translate(spec))
        except (Unrecognised, SyntaxError, OSError) as e:
            failed[spec["name"]] = str(e)[:200]
    # a definition that calls a function which was not translated is not emitted either (the file must compile: what is
    # lost is the tie of the functions concerned, not that of every function)
    import re
    changed = True
    while changed:
        changed = False
        for name, (spec, text) in list(done.items()):
            missing = sorted(set(re.findall(r"\bgen_[A-Za-z0-9_]+", text)) - set(done))
            if missing:
                failed[name] = "calls " + ", ".join(missing) + " which was not translated"
                del done[name]
                changed = True
    for spec in SPECS:
        if spec["name"] in done:
            parts.append(done[spec["name"]][1])
            notes.append(f"(* section {spec['section']}: translated *)")
        else:
            notes.append(f"(* section {spec['section']}: NOT translated -- {failed[spec['name']]} *)")
    text = "\n".join(parts[:3] + notes + parts[3:]) + "\n"
    OUT.parent.mkdir(parents=True, exist_ok=True)
    if not OUT.exists() or OUT.read_text() != text:
        OUT.write_text(text)
    return notes


if __name__ == "__main__":
    for n in main():
        print(n)
