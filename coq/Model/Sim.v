(* Big-step, synchronous model of a whole (nested) tickit simulation:
   MasterScheduler / NestedScheduler / SystemComponent / DeviceComponent composed, with the
   components of each scheduler processed in a topological order of its wiring (C08 shows
   the order does not matter).  Definitions only.

   Levels: level 1 is the master's wiring; a system component names the level it contains.
   Component ids are globally unique; ids 1 and 2 are the pseudo-components "external" and
   "expose" of every nested level.  Devices are an arbitrary function [devf]. *)
From TV Require Import Base Model.Wiring Model.Ticker Model.Component.

Definition ext_id : comp := 1%positive.
Definition exp_id : comp := 2%positive.

Inductive ckind := KDev | KSys (lv : positive).
Record level := {
  l_order : list (comp * ckind);     (* the real components, upstream first *)
  l_conns : list conn                (* wires, incl. those from ext_id and into exp_id *)
}.
Definition config := list (positive * level).

(* a device: n-th update (from 1), time, cumulative inputs -> reported outputs, call_at *)
Definition devfun := comp -> Z -> Z -> values -> values * option Z.

Record sstate := {
  s_dc : list (comp * dcstate);             (* DeviceComponent state *)
  s_n : list (comp * Z);                    (* how often each device was updated *)
  s_wake : list (positive * list (comp * Z)); (* scheduler.wakeups per level *)
  s_int : list (positive * list comp);      (* NestedScheduler.interrupts per level *)
  s_ticked : list positive;                 (* nested levels that had their first tick *)
  s_log : list (positive * Z * list comp)   (* every tick: scheduler level, time, roots *)
}.
Definition s_init : sstate := {| s_dc := []; s_n := []; s_wake := []; s_int := []; s_ticked := []; s_log := [] |}.

Definition obs := (comp * Z * values)%type.   (* device c was updated at time with inputs *)

Definition wake_of (s : sstate) (lv : positive) : list (comp * Z) := get_d lv (s_wake s).
Definition int_of (s : sstate) (lv : positive) : list comp := get_d lv (s_int s).
Definition set_wake (s : sstate) (lv : positive) (w : list (comp * Z)) : sstate :=
  {| s_dc := s_dc s; s_n := s_n s; s_wake := upd lv w (s_wake s); s_int := s_int s; s_ticked := s_ticked s;
     s_log := s_log s |}.
Definition set_int (s : sstate) (lv : positive) (i : list comp) : sstate :=
  {| s_dc := s_dc s; s_n := s_n s; s_wake := s_wake s; s_int := upd lv i (s_int s); s_ticked := s_ticked s;
     s_log := s_log s |}.
Definition mark_ticked (s : sstate) (lv : positive) : sstate :=
  {| s_dc := s_dc s; s_n := s_n s; s_wake := s_wake s; s_int := s_int s;
     s_ticked := if memb lv (s_ticked s) then s_ticked s else lv :: s_ticked s; s_log := s_log s |}.
Definition log_tick (s : sstate) (lv : positive) (t : Z) (roots : list comp) : sstate :=
  {| s_dc := s_dc s; s_n := s_n s; s_wake := s_wake s; s_int := s_int s; s_ticked := s_ticked s;
     s_log := s_log s ++ [(lv, t, roots)] |}.

Definition min_wake (w : list (comp * Z)) : option Z :=
  fold_left (fun m (e : comp * Z) => match m with None => Some (snd e) | Some x => Some (Z.min x (snd e)) end) w None.

Section Sim.
Variable cfg : config.
Variable devf : devfun.

Definition level_of (lv : positive) : level :=
  match lookup lv cfg with Some l => l | None => {| l_order := []; l_conns := [] |} end.

(* DeviceComponent.on_tick with the device function *)
Definition dev_update (s : sstate) (c : comp) (time : Z) (chg : values) : sstate * values * option Z * obs :=
  let st := match lookup c (s_dc s) with Some x => x | None => dc_init end in
  let n := (match lookup c (s_n s) with Some x => x | None => 0%Z end + 1)%Z in
  let inputs := merge (d_inputs st) chg in
  let '(outs, call_at) := devf c n time inputs in
  let ch := diff_outputs (d_last st) outs in
  ({| s_dc := upd c {| d_inputs := inputs; d_last := outs |} (s_dc s); s_n := upd c n (s_n s);
      s_wake := s_wake s; s_int := s_int s; s_ticked := s_ticked s; s_log := s_log s |},
   ch, call_at, (c, time, inputs)).

Record tacc := {
  ta_s : sstate;
  ta_in : list (comp * values);   (* Ticker.inputs *)
  ta_touched : list comp;         (* members of the tick's extent seen so far *)
  ta_out : values;                (* NestedScheduler.output_changes *)
  ta_obs : list obs
}.

Definition nonempty {A} (l : list A) : bool := match l with [] => false | _ => true end.

Definition in_extent (conns : list conn) (roots touched : list comp) (c : comp) : bool :=
  memb c roots || existsb (fun k : conn => Pos.eqb (in_comp k) c && memb (out_comp k) touched) conns.

(* one tick of level lv; [on_tick_inner] handles system components (one nesting level down) *)
Definition tick_step (on_tick_inner : positive -> Z -> values -> sstate -> sstate * values * option Z * list obs)
           (lv : positive) (conns : list conn) (time : Z) (roots : list comp) (ext_changes : values)
           (a : tacc) (ck : comp * ckind) : tacc :=
  let c := fst ck in
  if in_extent conns roots (ta_touched a) c then
    let inp := get_d c (ta_in a) in
    let touched := ta_touched a ++ [c] in
    if nonempty inp || memb c roots then
      if Pos.eqb c ext_id then
        {| ta_s := ta_s a; ta_in := accumulate (ta_in a) (route conns c ext_changes);
           ta_touched := touched; ta_out := ta_out a; ta_obs := ta_obs a |}
      else if Pos.eqb c exp_id then
        {| ta_s := ta_s a; ta_in := ta_in a; ta_touched := touched; ta_out := inp; ta_obs := ta_obs a |}
      else
        let '(s1, ch, call_at, ob) :=
          match snd ck with
          | KDev => let '(s1, ch, ca, o) := dev_update (ta_s a) c time inp in (s1, ch, ca, [o])
          | KSys lv' => on_tick_inner lv' time inp (ta_s a)
          end in
        let s2 := match call_at with
                  | Some w => set_wake s1 lv (upd c w (wake_of s1 lv))
                  | None => s1
                  end in
        {| ta_s := s2; ta_in := accumulate (ta_in a) (route conns c ch);
           ta_touched := touched; ta_out := ta_out a; ta_obs := ta_obs a ++ ob |}
    else
      {| ta_s := ta_s a; ta_in := ta_in a; ta_touched := touched; ta_out := ta_out a; ta_obs := ta_obs a |}
  else a.

Definition all_of (l : level) : list (comp * ckind) :=
  (ext_id, KDev) :: l_order l ++ [(exp_id, KDev)].

Definition tick_with (inner : positive -> Z -> values -> sstate -> sstate * values * option Z * list obs)
           (lv : positive) (time : Z) (roots : list comp) (ext_changes : values) (s : sstate)
  : sstate * values * list obs :=
  let l := level_of lv in
  let a := fold_left (tick_step inner lv (l_conns l) time roots ext_changes) (all_of l)
                     {| ta_s := s; ta_in := []; ta_touched := []; ta_out := []; ta_obs := [] |} in
  (ta_s a, ta_out a, ta_obs a).

(* NestedScheduler.on_tick (+ SystemComponent.on_tick around it); fuel = nesting depth left *)
Fixpoint on_tick_level (fuel : nat) (lv : positive) (time : Z) (changes : values) (s : sstate)
  : sstate * values * option Z * list obs :=
  match fuel with
  | O => (s, [], None, [])
  | S f =>
      let l := level_of lv in
      let wk := wake_of s lv in
      let due := map fst (filter (fun e : comp * Z => Z.leb (snd e) time) wk) in
      let first := negb (memb lv (s_ticked s)) in
      let roots := int_of s lv ++ due ++ [ext_id] ++
                   (if first then map fst (l_order l) ++ [exp_id] else []) in
      let s1 := mark_ticked (set_int (set_wake s lv (filter (fun e : comp * Z => negb (Z.leb (snd e) time)) wk)) lv []) lv in
      let '(s2, out, ob) := tick_with (on_tick_level f) lv time roots changes (log_tick s1 lv time roots) in
      (s2, out, min_wake (wake_of s2 lv), ob)
  end.

Definition tick_level (fuel : nat) := tick_with (on_tick_level fuel).

(* ---------- the master scheduler in virtual real time (ticks cost no real time) *)
Record mstate := {
  m_s : sstate;
  m_tprev : Z;        (* simulation time of the last tick *)
  m_real : Z;         (* real time (ns) at which it ended *)
  m_now : Z;          (* real time of the last event processed *)
  m_obs : list obs;
  m_ticks : list (Z * Z)   (* master ticks: simulation time, real time at which it ran *)
}.

(* speed = num/den; all divisions are exact for the inputs the harness generates *)
Variable num den : Z.

Definition top : positive := 1%positive.

Definition first_wakeups (w : list (comp * Z)) : option (Z * list comp) :=
  match min_wake w with
  | None => None
  | Some m => Some (m, map fst (filter (fun e : comp * Z => Z.eqb (snd e) m) w))
  end.

(* real time at which the tick for simulation time [when] is due *)
Definition deadline (m : mstate) (when : Z) : Z :=
  (m_real m + Z.max 0 (((when - m_tprev m) * den + num - 1) / num))%Z.

(* simulation time corresponding to real time r *)
Definition stamp (m : mstate) (r : Z) : Z := (m_tprev m + (r - m_real m) * num / den)%Z.

Definition do_tick (fuel : nat) (m : mstate) (when : Z) (roots : list comp) (real : Z) : mstate :=
  let s1 := set_wake (m_s m) top (filter (fun e : comp * Z => negb (memb (fst e) roots)) (wake_of (m_s m) top)) in
  let '(s2, _, ob) := tick_level fuel top when roots [] (log_tick s1 top when roots) in
  let r := Z.max real (m_now m) in
  {| m_s := s2; m_tprev := when; m_real := r; m_now := r; m_obs := m_obs m ++ ob; m_ticks := m_ticks m ++ [(when, r)] |}.

(* an interrupt raised at real time r by device c whose enclosing systems (outermost first,
   as (level, system component)) are [path]; the device lives in level [lvc] *)
Definition raise_interrupt (m : mstate) (r : Z) (c : comp) (lvc : positive) (path : list (positive * comp)) : mstate :=
  let s := m_s m in
  let tgt := match path with [] => c | (_, sys0) :: _ => sys0 end in
  let st := match lookup tgt (wake_of s top) with Some w => Z.min (stamp m r) w | None => stamp m r end in
  match path with
  | [] => {| m_s := set_wake s top (upd c st (wake_of s top)); m_tprev := m_tprev m; m_real := m_real m;
             m_now := r; m_obs := m_obs m; m_ticks := m_ticks m |}
  | (_, sys0) :: _ =>
      (* the device is queued in its own level, every enclosing inner system in the level
         around it, and the outermost system is woken at the master *)
      let s1 := set_int s lvc (if memb c (int_of s lvc) then int_of s lvc else int_of s lvc ++ [c]) in
      let s2 := fold_left (fun s' (e : positive * comp) =>
                             if Pos.eqb (fst e) top then s'
                             else set_int s' (fst e) (if memb (snd e) (int_of s' (fst e)) then int_of s' (fst e)
                                                       else int_of s' (fst e) ++ [snd e]))
                          path s1 in
      {| m_s := set_wake s2 top (upd sys0 st (wake_of s2 top)); m_tprev := m_tprev m; m_real := m_real m;
         m_now := r; m_obs := m_obs m; m_ticks := m_ticks m |}
  end.

Definition stimulus := (Z * comp * positive * list (positive * comp))%type.

(* run until real time t_end: serve due wakeups and stimuli in real-time order *)
Fixpoint master_loop (steps : nat) (fuel : nat) (m : mstate) (stim : list stimulus) (t_end : Z) : mstate :=
  match steps with
  | O => m
  | S k =>
      let fw := first_wakeups (wake_of (m_s m) top) in
      let dl := match fw with Some (when, _) => Some (deadline m when) | None => None end in
      match stim with
      | (r, c, lvc, path) :: rest =>
          match dl with
          | Some d =>
              (* a stimulus at an instant already reached (raised together with the previous one) has
                 happened before the master can act on the wakeup of that instant *)
              if Z.ltb r d || Z.leb r (m_now m) then
                if Z.leb r t_end then master_loop k fuel (raise_interrupt m r c lvc path) rest t_end else m
              else if Z.leb d t_end then
                match fw with
                | Some (when, roots) => master_loop k fuel (do_tick fuel m when roots d) stim t_end
                | None => m
                end
              else m
          | None => if Z.leb r t_end then master_loop k fuel (raise_interrupt m r c lvc path) rest t_end else m
          end
      | [] =>
          match fw, dl with
          | Some (when, roots), Some d =>
              if Z.leb d t_end then master_loop k fuel (do_tick fuel m when roots d) [] t_end else m
          | _, _ => m
          end
      end
  end.

(* [pre]: top-level components whose interrupt was published before the scheduler came up: it is
   replayed during set-up, i.e. they have a wakeup at the initial time before the initial tick *)
Definition simulate_full (fuel steps : nat) (initial : Z) (pre : list comp) (stim : list stimulus) (t_end : Z) : mstate :=
  let l := level_of top in
  let roots := map fst (l_order l) in
  let s0 := set_wake s_init top (fold_left (fun w c => upd c initial w) pre []) in
  let '(s1, _, ob) := tick_level fuel top initial roots [] (log_tick s0 top initial roots) in
  master_loop steps fuel {| m_s := s1; m_tprev := initial; m_real := 0; m_now := 0; m_obs := ob;
                            m_ticks := [(initial, 0%Z)] |} stim t_end.

Definition simulate (fuel steps : nat) (initial : Z) (stim : list stimulus) (t_end : Z) : list obs :=
  m_obs (simulate_full fuel steps initial [] stim t_end).
End Sim.
