(* C02 -- a tick updates exactly the roots and the components whose inputs changed.
   Property theorems only. *)
From TV Require Import Base Model.Wiring Model.Ticker Model.Component Model.Sim
  Proofs.WiringP Proofs.TickerP Proofs.ComponentP Proofs.ExtentP Model.PyLib Gen.SourceFuns Proofs.GenOutChangesP.

(* Every dispatch in every run of a tick, under any answer order, is
   - an update (Input) exactly when the component is a root or at least one of its wired input
     ports was reported changed by an upstream answer of this tick, carrying exactly those
     changes and the tick's time;
   - a pass-over (Skip) otherwise.                                   [action_ok]            *)
Theorem C02_tick : forall conns comps t roots ext st tr,
  single_source conns -> Run conns comps t roots ext st tr -> wf_answers tr ->
  forall l1 a l2, tr = l1 ++ EDispatch a :: l2 -> action_ok conns t roots l1 a.
Proof.
  intros conns comps t roots ext st tr Hss HR Hwf. apply disp_ok_split.
  eapply run_disp_ok; eassumption.
Qed.

(* components not downstream of a root are not touched at all; participants are dispatched
   at most once, and exactly once by the time the tick has finished *)
Theorem C02_untouched : forall conns comps t roots ext st tr,
  Run conns comps t roots ext st tr ->
  forall c, dispatched tr c -> exists r, In r roots /\ reach conns r c.
Proof.
  intros conns comps t roots ext st tr HR c Hd.
  assert (HI := run_inv conns comps t roots ext st tr HR).
  destruct (run_ext conns comps t roots ext st tr HR) as [st0 [Hs E]].
  apply (start_tick_spec conns t roots st0 Hs). rewrite <- E. apply (i_disp_ext _ _ _ _ _ _ HI). exact Hd.
Qed.

Theorem C02_all_participants_dispatched_once : forall conns comps t roots ext st tr,
  Run conns comps t roots ext st tr -> todo st = [] ->
  NoDup (disp_comps tr) /\ forall c, In c ext -> In c (disp_comps tr).
Proof.
  intros conns comps t roots ext st tr HR He. split; [apply (run_once conns comps t roots ext st tr HR)|].
  intros c Hc. apply dispatched_In. apply (run_finished conns comps t roots ext st tr HR He c Hc).
Qed.

(* an output port counts as changed exactly when its value differs from what the device
   reported at its previous update (a port absent last time counts as different) *)
Theorem C02_diff : forall last outs k v,
  In (k, v) (diff_outputs last outs) <-> In (k, v) outs /\ lookup k last <> Some v.
Proof. exact diff_outputs_spec. Qed.

(* "previous update" really is the previous one, along any history: the state kept between
   updates is the full previous report *)
Theorem C02_diff_history : forall st chg outs,
  d_last (fst (fst (on_tick st chg outs))) = outs /\
  snd (on_tick st chg outs) = diff_outputs (d_last st) outs.
Proof. intros. split; reflexivity. Qed.

(* the same on the whole-simulation model, at every nesting level: the extent bookkeeping of a tick
   never decides anything by itself -- a tick is the fold of [step'], in which a component (device,
   system simulation or pseudo component) is processed exactly when it is a root or a change has
   been routed to it in this tick, and is not touched otherwise *)
Theorem C02_sim_update_iff_root_or_changed : forall cfg devf inner lv time roots ext s,
  let a := fold_left (step' devf inner lv (l_conns (level_of cfg lv)) time roots ext) (all_of (level_of cfg lv))
                     {| co_s := s; co_in := []; co_out := []; co_obs := [] |} in
  tick_with cfg devf inner lv time roots ext s = (co_s a, co_out a, co_obs a).
Proof. exact tick_with_core. Qed.

Theorem C02_sim_untouched : forall devf inner lv conns time roots ext a ck,
  nonempty (get_d (fst ck) (co_in a)) || memb (fst ck) roots = false ->
  step' devf inner lv conns time roots ext a ck = a.
Proof.
  intros devf inner lv conns time roots ext a ck H. unfold step'. cbv zeta.
  match goal with |- (if ?b then _ else _) = _ => replace b with false by (symmetry; exact H) end. reflexivity.
Qed.

Example C02_example :
  run_dc dc_init [([], [(1%positive, 5%Z)]); ([], []); ([], [(1%positive, 5%Z)]); ([], [(1%positive, 5%Z)])]
  = [([], [(1%positive, 5%Z)]); ([], []); ([], [(1%positive, 5%Z)]); ([], [])].
Proof. vm_compute. reflexivity. Qed.

(* the tie to the source: [diff_outputs] IS the dictionary comprehension of DeviceComponent.on_tick -- the left-hand
   side is regenerated from /repo by the function translator (harness/gen_funs.py) on every run *)
Theorem C02_change_filter_is_source : forall last outs : values, gen_out_changes last outs = diff_outputs last outs.
Proof. exact out_changes_is_source. Qed.
