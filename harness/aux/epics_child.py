"""child process: EPICS adapters set up concurrently on the real softioc builder (the IOC start is stubbed)"""
import asyncio, json, os, sys, tempfile
import tickit.adapters.epics as epics
from tickit.adapters.epics import EpicsAdapter
from tickit.adapters.io.epics_io import EpicsIo
from softioc import builder

from softioc import softioc

spec = json.loads(sys.argv[1])      # [[name, has_db_file], ...]; has_db_file: false | true (a file of its own) | "shared" (one file for all such)
started = []
epics._build_and_run_ioc = lambda: started.append(1)
out = {}
loaded = []                         # what was loaded into the IOC from database files: (substitutions, record lines)
_real_load = softioc.dbLoadDatabase


def _load(path, *a, **k):
    loaded.append([k.get("substitutions"), sorted(l.strip() for l in open(path) if l.lstrip().startswith("record"))])
    return _real_load(path, *a, **k)


softioc.dbLoadDatabase = _load

class A(EpicsAdapter):
    def __init__(self, name):
        super().__init__(); self.name_ = name
    def on_db_load(self):
        r = builder.aIn("VALUE")
        out[self.name_] = r.name

async def main():
    ios = []
    shared = None
    for name, has_db in spec:
        db = None
        if has_db == "shared" and shared is not None:
            db = shared
        elif has_db:
            f = tempfile.NamedTemporaryFile("w", suffix=".db", delete=False)
            f.write('record(ai, "$(device):FROMDB") {\n  field(DTYP, "Soft Channel")\n  field(VAL, "1")\n}\n'); f.close(); db = f.name
            if has_db == "shared":
                shared = db
        ios.append((EpicsIo(name, db), A(name)))
    async def ri(): pass
    res = await asyncio.gather(*[io.setup(a, ri) for io, a in ios], return_exceptions=True)
    return [repr(r) for r in res if isinstance(r, Exception)]
errs = asyncio.run(main())
print(json.dumps(dict(records=out, started=len(started), errors=errs, loaded=sorted(loaded, key=repr))))
