(* C03 through system boundaries at any depth: along the wiring of the flat result of [inline_all]
   every wire carries its source's latest report in the state the NESTED run reaches.  Each inlining
   step keeps the set of devices of the whole simulation and relates every device's state on both
   sides ([drel]); the flat end has the invariant (Proofs/LatestP.v, Proofs/InlineLatestP.v). *)
From TV Require Import Base Model.Wiring Model.Ticker Model.Component Model.Sim Model.SimTime Model.Inline Model.NSim
  Proofs.WiringP Proofs.SimP Proofs.NonInterfP Proofs.FrameP Proofs.AgreeP Proofs.LatestP Proofs.EqvP Proofs.WakeWfP Proofs.ParDevP
  Proofs.EqvCongP Proofs.FuelP Proofs.InlineP Proofs.InlineLoopP Proofs.InlineScopeP Proofs.InlineAllP Proofs.InlineLatestP.
Open Scope Z_scope.

(* same last report, inputs equal as dictionaries *)
Definition wrel (s s' : sstate) (z : comp) : Prop :=
  d_last (dcs s z) = d_last (dcs s' z) /\ eqv (d_inputs (dcs s z)) (d_inputs (dcs s' z)).

Lemma wrel_trans s1 s2 s3 z : wrel s1 s2 z -> wrel s2 s3 z -> wrel s1 s3 z.
Proof. intros [A1 A2] [B1 B2]. split; [congruence | eapply eqv_trans; eassumption]. Qed.
Lemma wrel_refl s z : wrel s s z.
Proof. split; [reflexivity | intros q; reflexivity]. Qed.
Lemma drel_wrel s s' z : drel s s' z -> wrel s s' z.
Proof. intros [A [B _]]. split; assumption. Qed.

Section Step.
Variable cfg : config.
Variable c : comp.
Variable lvc : positive.
Variables pre inn post : list comp.
Hypothesis Hsh : shape cfg c lvc pre inn post.
Variable f : nat.
Hypothesis Hsib : sib_ok cfg f c lvc pre inn post.
Notation cfgF := (inline cfg c lvc).

(* the devices of the whole simulation, in update order, are the same before and after the step *)
Lemma devices_inline : devices_below cfgF (S (S f)) top = devices_below cfg (S (S f)) top.
Proof.
  change (devices_below cfgF (S (S f)) top) with
    (flat_map (fun ck : comp * ckind => match snd ck with KDev => [fst ck] | KSys lv' => devices_below cfgF (S f) lv' end) (l_order (level_of cfgF top))).
  change (devices_below cfg (S (S f)) top) with
    (flat_map (fun ck : comp * ckind => match snd ck with KDev => [fst ck] | KSys lv' => devices_below cfg (S f) lv' end) (l_order (level_of cfg top))).
  rewrite (inline_top_order _ _ _ _ _ _ Hsh), (sh_top _ _ _ _ _ _ Hsh).
  rewrite !flat_map_app. cbn [flat_map snd].
  assert (Hout : forall l, (forall x, In x l -> In x (pre ++ post)) ->
            flat_map (fun ck : comp * ckind => match snd ck with KDev => [fst ck] | KSys lv' => devices_below cfgF (S f) lv' end) (map (dk cfg) l) =
            flat_map (fun ck : comp * ckind => match snd ck with KDev => [fst ck] | KSys lv' => devices_below cfg (S f) lv' end) (map (dk cfg) l)).
  { intros l Hl. apply flat_map_ext_in'. intros [x k] Hi. cbn [snd fst]. destruct k as [|ly]; [reflexivity|].
    apply in_map_iff in Hi. destruct Hi as [x0 [E Hx]]. unfold dk in E. inversion E; subst x0.
    assert (Hs : issys cfg f lvc pre inn post x ly (S f)) by (left; split; [apply Hl; exact Hx | split; [assumption | reflexivity]]).
    destruct (Hsib x ly (S f) Hs) as [Htop _].
    apply (proj2 (below_eq cfg cfgF (S f) ly (same_below_inline cfg c lvc (S f) ly Htop))). }
  rewrite (Hout pre), (Hout post); [|intros x Hx; apply in_app_iff; right; exact Hx | intros x Hx; apply in_app_iff; left; exact Hx].
  f_equal. f_equal.
  change (devices_below cfg (S f) lvc) with
    (flat_map (fun ck : comp * ckind => match snd ck with KDev => [fst ck] | KSys lv' => devices_below cfg f lv' end) (l_order (level_of cfg lvc))).
  rewrite (sh_in _ _ _ _ _ _ Hsh).
  apply flat_map_ext_in'. intros [x k] Hi. cbn [snd fst]. destruct k as [|ly]; [reflexivity|].
  apply in_map_iff in Hi. destruct Hi as [x0 [E Hx]]. unfold dki in E. inversion E; subst x0.
  assert (Hs : issys cfg f lvc pre inn post x ly f) by (right; split; [exact Hx | split; [assumption | reflexivity]]).
  destruct (Hsib x ly f Hs) as [Htop [_ [_ [_ Hdeep]]]]. specialize (Hdeep eq_refl).
  destruct (below_fuel cfg f ly Hdeep) as [EL ED].
  assert (Htop' : ~ In top (levels_below cfg (S f) ly)) by (rewrite EL; exact Htop).
  rewrite (proj2 (below_eq cfg cfgF (S f) ly (same_below_inline cfg c lvc (S f) ly Htop'))). exact ED.
Qed.

(* the relation between two ticks relates every device of the whole simulation *)
Lemma B_all_devices sN sF : B cfg c lvc pre inn post f sN sF ->
  forall z, In z (devices_below cfg (S (S f)) top) -> drel sN sF z.
Proof.
  intros HB z Hz.
  change (devices_below cfg (S (S f)) top) with
    (flat_map (fun ck : comp * ckind => match snd ck with KDev => [fst ck] | KSys lv' => devices_below cfg (S f) lv' end) (l_order (level_of cfg top))) in Hz.
  rewrite (sh_top _ _ _ _ _ _ Hsh) in Hz. apply in_flat_map in Hz. destruct Hz as [[x k] [Hx Hz]]. cbn [snd fst] in Hz.
  apply in_app_iff in Hx. destruct Hx as [Hx|[Hx|Hx]].
  - apply in_map_iff in Hx. destruct Hx as [x0 [E Hx]]. unfold dk in E. inversion E; subst x0.
    assert (Ho : In x (pre ++ post)) by (apply in_app_iff; left; exact Hx).
    destruct k as [|ly].
    + destruct Hz as [E2|[]]. subst z. apply (b_dev _ _ _ _ _ _ _ _ _ HB). apply in_outs_all. exact Ho.
    + apply (proj1 (b_sub _ _ _ _ _ _ _ _ _ HB x ly (S f) (or_introl (conj Ho (conj H1 eq_refl)))) z Hz).
  - inversion Hx; subst x k.
    change (devices_below cfg (S f) lvc) with
      (flat_map (fun ck : comp * ckind => match snd ck with KDev => [fst ck] | KSys lv' => devices_below cfg f lv' end) (l_order (level_of cfg lvc))) in Hz.
    rewrite (sh_in _ _ _ _ _ _ Hsh) in Hz. apply in_flat_map in Hz. destruct Hz as [[y k] [Hy Hz]]. cbn [snd fst] in Hz.
    apply in_map_iff in Hy. destruct Hy as [y0 [E Hy]]. unfold dki in E. inversion E; subst y0.
    destruct k as [|ly].
    + destruct Hz as [E2|[]]. subst z. apply (b_dev _ _ _ _ _ _ _ _ _ HB). apply in_inn_all. exact Hy.
    + apply (proj1 (b_sub _ _ _ _ _ _ _ _ _ HB y ly f (or_intror (conj Hy (conj H1 eq_refl)))) z Hz).
  - apply in_map_iff in Hx. destruct Hx as [x0 [E Hx]]. unfold dk in E. inversion E; subst x0.
    assert (Ho : In x (pre ++ post)) by (apply in_app_iff; right; exact Hx).
    destruct k as [|ly].
    + destruct Hz as [E2|[]]. subst z. apply (b_dev _ _ _ _ _ _ _ _ _ HB). apply in_outs_all. exact Ho.
    + apply (proj1 (b_sub _ _ _ _ _ _ _ _ _ HB x ly (S f) (or_introl (conj Ho (conj H1 eq_refl)))) z Hz).
Qed.
End Step.

Section All.
Variable devf : devfun.
Hypothesis Hnd : forall d k t i, NoDup (keys (fst (devf d k t i))).
Hypothesis Hext : forall d k t i i', NoDup (keys i) -> NoDup (keys i') -> eqv i i' -> devf d k t i = devf d k t i'.
Variable f : nat.

(* every device of the whole simulation is in related states at the end of the nested run and at the
   end of the run of the flat result *)
Theorem inline_all_devices n initial horizon : forall k cfg, scope_all k (S f) [] cfg = true ->
  devices_below (inline_all k cfg) (S (S f)) top = devices_below cfg (S (S f)) top /\
  forall z, In z (devices_below cfg (S (S f)) top) ->
    wrel (fst (fst (sim_run cfg devf n (S f) initial horizon))) (fst (fst (sim_run (inline_all k cfg) devf n (S f) initial horizon))) z.
Proof.
  induction k as [|k IH]; intros cfg H.
  - cbn [inline_all]. split; [reflexivity|]. intros z _. apply wrel_refl.
  - cbn [inline_all]. cbn [scope_all] in H.
    destruct (first_sys (l_order (level_of cfg top))) as [[c lvc]|] eqn:Ef; [|split; [reflexivity | intros z _; apply wrel_refl]].
    destruct (shape_at cfg (S f) c) as [[[[lvc' pre] inn] post]|] eqn:Es; [|discriminate].
    apply andb_true_iff in H. destruct H as [E H]. apply andb_true_iff in E. destruct E as [E _]. apply Pos.eqb_eq in E. subst lvc'.
    destruct (shape_at_sound cfg f c lvc pre inn post Es) as [Hsh Hsib].
    pose proof (run_inline cfg c lvc pre inn post Hsh devf Hnd Hext f Hsib n initial horizon) as A.
    destruct (IH (inline cfg c lvc) H) as [ED IHd].
    pose proof (devices_inline cfg c lvc pre inn post Hsh f Hsib) as ED1.
    split; [rewrite ED; exact ED1|].
    intros z Hz.
    destruct (sim_run cfg devf n (S f) initial horizon) as [[s0 o0] d0].
    destruct (sim_run (inline cfg c lvc) devf n (S f) initial horizon) as [[s1 o1] d1].
    cbn [fst] in *. destruct A as [HB _].
    pose proof (B_all_devices cfg c lvc pre inn post Hsh f s0 s1 HB z Hz) as D1.
    eapply wrel_trans; [apply drel_wrel; exact D1|]. apply IHd. rewrite ED1. exact Hz.
Qed.

Theorem nested_latest_any_depth n initial horizon k cfg :
  scope_all k (S f) [] cfg = true ->
  flat_wf (level_of (inline_all k cfg) top) ->
  LATEST (l_conns (level_of (inline_all k cfg) top)) (fst (fst (sim_run cfg devf n (S f) initial horizon))).
Proof.
  intros Hs Hwf.
  destruct (inline_all_devices n initial horizon k cfg Hs) as [ED HD].
  pose proof (sim_run_latest (inline_all k cfg) devf (S f) Hwf Hnd n initial horizon) as HL.
  assert (Hnames : forall z, In z (map fst (l_order (level_of (inline_all k cfg) top))) -> In z (devices_below cfg (S (S f)) top)).
  { intros z Hz. rewrite <- ED.
    change (devices_below (inline_all k cfg) (S (S f)) top) with
      (flat_map (fun ck : comp * ckind => match snd ck with KDev => [fst ck] | KSys lv' => devices_below (inline_all k cfg) (S f) lv' end)
                (l_order (level_of (inline_all k cfg) top))).
    apply in_map_iff in Hz. destruct Hz as [[x kd] [E Hx]]. cbn [fst] in E. subst x.
    apply in_flat_map. exists (z, kd). split; [exact Hx|].
    pose proof (inline_all_flat k (S f) [] cfg Hs (z, kd) Hx) as Ek. cbn [snd] in Ek. subst kd. left. reflexivity. }
  intros u p d q Hk v Hv.
  destruct Hwf as [_ [_ [_ [Hends _]]]]. destruct (Hends u p d q Hk) as [Hu Hd].
  destruct (HD u (Hnames u Hu)) as [Elast _].
  destruct (HD d (Hnames d Hd)) as [_ Einp].
  rewrite Einp. apply (HL u p d q Hk). rewrite <- Elast. exact Hv.
Qed.

(* ---------- the same on scripts of master ticks and interrupts of the top-level devices in ys *)
Theorem inline_all_devices_script initial script ys : (forall y w, In (IStim y w) script -> In y ys) ->
  forall k cfg, scope_all k (S f) ys cfg = true ->
  devices_below (inline_all k cfg) (S (S f)) top = devices_below cfg (S (S f)) top /\
  forall z, In z (devices_below cfg (S (S f)) top) ->
    wrel (fst (sim_script_from_start cfg devf (S f) initial script)) (fst (sim_script_from_start (inline_all k cfg) devf (S f) initial script)) z.
Proof.
  intros Hys. induction k as [|k IH]; intros cfg H.
  - cbn [inline_all]. split; [reflexivity|]. intros z _. apply wrel_refl.
  - cbn [inline_all]. cbn [scope_all] in H.
    destruct (first_sys (l_order (level_of cfg top))) as [[c lvc]|] eqn:Ef; [|split; [reflexivity | intros z _; apply wrel_refl]].
    destruct (shape_at cfg (S f) c) as [[[[lvc' pre] inn] post]|] eqn:Es; [|discriminate].
    apply andb_true_iff in H. destruct H as [E H]. apply andb_true_iff in E. destruct E as [E Hin]. apply Pos.eqb_eq in E. subst lvc'.
    destruct (shape_at_sound cfg f c lvc pre inn post Es) as [Hsh Hsib].
    assert (Hok : outer_script pre post script).
    { intros y w Hi. apply memb_In. apply (proj1 (forallb_forall _ _) Hin y). apply (Hys y w Hi). }
    pose proof (script_run_inline cfg c lvc pre inn post Hsh devf Hnd Hext f Hsib initial script Hok) as A.
    destruct (IH (inline cfg c lvc) H) as [ED IHd].
    pose proof (devices_inline cfg c lvc pre inn post Hsh f Hsib) as ED1.
    split; [rewrite ED; exact ED1|].
    intros z Hz.
    destruct (sim_script_from_start cfg devf (S f) initial script) as [s0 o0].
    destruct (sim_script_from_start (inline cfg c lvc) devf (S f) initial script) as [s1 o1].
    cbn [fst] in *. destruct A as [HB _].
    pose proof (B_all_devices cfg c lvc pre inn post Hsh f s0 s1 HB z Hz) as D1.
    eapply wrel_trans; [apply drel_wrel; exact D1|]. apply IHd. rewrite ED1. exact Hz.
Qed.

Theorem nested_latest_any_depth_script initial script ys k cfg :
  (forall y w, In (IStim y w) script -> In y ys) ->
  (forall y, In y ys -> y <> ext_id /\ y <> exp_id) ->
  scope_all k (S f) ys cfg = true ->
  flat_wf (level_of (inline_all k cfg) top) ->
  LATEST (l_conns (level_of (inline_all k cfg) top)) (fst (sim_script_from_start cfg devf (S f) initial script)).
Proof.
  intros Hys Hreal Hs Hwf.
  destruct (inline_all_devices_script initial script ys Hys k cfg Hs) as [ED HD].
  assert (Hok : forall c w, In (IStim c w) script -> c <> ext_id /\ c <> exp_id) by (intros c w Hi; apply Hreal; apply (Hys c w Hi)).
  pose proof (sim_script_from_start_latest (inline_all k cfg) devf (S f) Hwf Hnd initial script Hok) as HL.
  assert (Hnames : forall z, In z (map fst (l_order (level_of (inline_all k cfg) top))) -> In z (devices_below cfg (S (S f)) top)).
  { intros z Hz. rewrite <- ED.
    change (devices_below (inline_all k cfg) (S (S f)) top) with
      (flat_map (fun ck : comp * ckind => match snd ck with KDev => [fst ck] | KSys lv' => devices_below (inline_all k cfg) (S f) lv' end)
                (l_order (level_of (inline_all k cfg) top))).
    apply in_map_iff in Hz. destruct Hz as [[x kd] [E Hx]]. cbn [fst] in E. subst x.
    apply in_flat_map. exists (z, kd). split; [exact Hx|].
    pose proof (inline_all_flat k (S f) ys cfg Hs (z, kd) Hx) as Ek. cbn [snd] in Ek. subst kd. left. reflexivity. }
  intros u p d q Hk v Hv.
  destruct Hwf as [_ [_ [_ [Hends _]]]]. destruct (Hends u p d q Hk) as [Hu Hd].
  destruct (HD u (Hnames u Hu)) as [Elast _].
  destruct (HD d (Hnames d Hd)) as [_ Einp].
  rewrite Einp. apply (HL u p d q Hk). rewrite <- Elast. exact Hv.
Qed.
End All.
