(* Nested schedule independence with interrupts of devices at any depth: scripts of master ticks and interrupts
   (Model/Interrupts.v [xitem]: the device, its level, the enclosing system simulations, the stamp) under any schedule
   of all levels.  An interrupt changes the bookkeeping of the schedulers only ([stim_at]: queued in its own nested
   scheduler, every enclosing system in the one around it, the outermost woken at the master), which preserves the
   relation of Proofs/NDetP.v; the ticks are those of Proofs/NScheduleP.v. *)
From TV Require Import Base Model.Wiring Model.Ticker Model.Component Model.Sim Model.SimTime Model.NSim Model.Interrupts Model.NNSim
  Proofs.WiringP Proofs.TickerP Proofs.SimP Proofs.NonInterfP Proofs.FrameP Proofs.EqvP Proofs.ParDevP Proofs.ScheduleP
  Proofs.InlineLoopP Proofs.NScheduleP Proofs.NDetP.
Open Scope Z_scope.

Section NX.
Variable cfg : config.
Variable devf : devfun.

Inductive XNRun (f : nat) : list xitem -> sstate -> list obs -> sstate -> list obs -> Prop :=
| XN_nil s ob : XNRun f [] s ob s ob
| XN_stim c lvc path w r s ob s' ob' : XNRun f r (stim_at s c lvc path w) ob s' ob' -> XNRun f (XStim c lvc path w :: r) s ob s' ob'
| XN_idle r s ob s' ob' :
    first_wakeups (wake_of s top) = None -> XNRun f r s ob s' ob' -> XNRun f (XTick :: r) s ob s' ob'
| XN_tick r s ob when roots s2 o s' ob' :
    first_wakeups (wake_of s top) = Some (when, roots) ->
    mtick cfg devf f (set_wake s top (filter (fun e : comp * Z => negb (memb (fst e) roots)) (wake_of s top))) when roots s2 o ->
    XNRun f r s2 (ob ++ o) s' ob' -> XNRun f (XTick :: r) s ob s' ob'.

Definition xnrun (f : nat) (initial : Z) (script : list xitem) (s' : sstate) (ob' : list obs) : Prop :=
  exists s1 o1, mtick cfg devf f (set_wake s_init top []) initial (map fst (l_order (level_of cfg top))) s1 o1 /\ XNRun f script s1 o1 s' ob'.

(* ---------- the executable scheduler computes such runs *)
Lemma mtick_exec_sound pick steps f s when roots s2 o :
  mtick_exec cfg devf pick steps f s when roots = Some (s2, o) -> mtick cfg devf f s when roots s2 o.
Proof.
  unfold mtick_exec.
  destruct (level_exec cfg devf pick (nt_exec cfg devf pick steps f) steps top when roots [] _) as [[[tr s3] o3]|] eqn:E; [|discriminate].
  intros H. inversion H; subst s3 o3.
  destruct (level_exec_sound cfg devf pick _ (NT cfg devf f) steps top when roots [] _ tr s2 o (nt_exec_sound cfg devf pick steps f) E) as [ext [st [HR Ht]]].
  exists ext, st, tr. split; [exact HR | exact Ht].
Qed.

Theorem xnrun_exec_sound pick steps f : forall script s ob s' ob',
  xnrun_exec cfg devf pick steps f script s ob = Some (s', ob') -> XNRun f script s ob s' ob'.
Proof.
  induction script as [|[|c lvc path w] r IH]; intros s ob s' ob' H; cbn [xnrun_exec] in H.
  - inversion H; subst. constructor.
  - destruct (first_wakeups (wake_of s top)) as [[when roots]|] eqn:Ef.
    + destruct (mtick_exec cfg devf pick steps f _ when roots) as [[s2 o]|] eqn:E; [|discriminate].
      eapply XN_tick; [exact Ef | apply (mtick_exec_sound _ _ _ _ _ _ _ _ E) | apply IH; exact H].
    + apply XN_idle; [exact Ef | apply IH; exact H].
  - apply XN_stim. apply IH. exact H.
Qed.

Theorem xnrun_from_start_sound pick steps f initial script s' ob' :
  xnrun_from_start cfg devf pick steps f initial script = Some (s', ob') -> xnrun f initial script s' ob'.
Proof.
  unfold xnrun_from_start. destruct (mtick_exec cfg devf pick steps f _ initial _) as [[s1 o1]|] eqn:E; [|discriminate].
  intros H. exists s1, o1. split; [apply (mtick_exec_sound _ _ _ _ _ _ _ _ E) | apply (xnrun_exec_sound pick steps f script s1 o1 s' ob' H)].
Qed.

(* ---------- an interrupt preserves the relation *)
Lemma NSR_set_int D L sA sB l iA iB : (In l L -> iA = iB) -> NSR D L sA sB -> NSR D L (set_int sA l iA) (set_int sB l iB).
Proof.
  intros Hi [HD HL]. split; [intros d Hd; exact (HD d Hd)|].
  intros l0 Hl0. destruct (HL l0 Hl0) as [W [Ei Et]]. split; [exact W|]. split; [|exact Et].
  unfold int_of, set_int. cbn [s_int]. destruct (Pos.eq_dec l0 l) as [->|Hne].
  - rewrite !get_d_upd_same. apply Hi. exact Hl0.
  - rewrite !get_d_upd_other by exact Hne. exact Ei.
Qed.

Lemma NSR_queue D L sA sB l c : NSR D L sA sB ->
  NSR D L (set_int sA l (if memb c (int_of sA l) then int_of sA l else int_of sA l ++ [c]))
          (set_int sB l (if memb c (int_of sB l) then int_of sB l else int_of sB l ++ [c])).
Proof.
  intros H. apply NSR_set_int; [|exact H]. intros Hl. destruct H as [_ HL]. destruct (HL l Hl) as [_ [Ei _]]. rewrite Ei. reflexivity.
Qed.

Lemma stim_at_NSR D L sA sB c lvc path w : In top L -> NSR D L sA sB -> NSR D L (stim_at sA c lvc path w) (stim_at sB c lvc path w).
Proof.
  intros Htop H. unfold stim_at.
  assert (Wtop : forall tA tB, NSR D L tA tB -> weq (wake_of tA top) (wake_of tB top)) by (intros tA tB [_ HL]; apply (HL top Htop)).
  destruct path as [|[l0 sys0] rest].
  - pose proof (Wtop _ _ H) as [Na [Nb Hlk]]. rewrite (Hlk c). apply NSR_set_wake; [exact H|]. apply weq_upd. split; [exact Na | split; [exact Nb | exact Hlk]].
  - set (qf := fun (s' : sstate) (e : positive * comp) =>
                 if Pos.eqb (fst e) top then s'
                 else set_int s' (fst e) (if memb (snd e) (int_of s' (fst e)) then int_of s' (fst e) else int_of s' (fst e) ++ [snd e])).
    assert (Hfold : forall p tA tB, NSR D L tA tB -> NSR D L (fold_left qf p tA) (fold_left qf p tB) /\
                                    wake_of (fold_left qf p tA) top = wake_of tA top /\ wake_of (fold_left qf p tB) top = wake_of tB top).
    { induction p as [|e p IH]; intros tA tB Ht; cbn [fold_left]; [split; [exact Ht | split; reflexivity]|].
      assert (Hq : NSR D L (qf tA e) (qf tB e)) by (unfold qf; destruct (Pos.eqb (fst e) top); [exact Ht | apply NSR_queue; exact Ht]).
      destruct (IH _ _ Hq) as [I1 [I2 I3]]. split; [exact I1|]. split.
      - rewrite I2. unfold qf. destruct (Pos.eqb (fst e) top); reflexivity.
      - rewrite I3. unfold qf. destruct (Pos.eqb (fst e) top); reflexivity. }
    pose proof (NSR_queue D L sA sB lvc c H) as H1.
    destruct (Hfold ((l0, sys0) :: rest) _ _ H1) as [H2 [WA WB]].
    pose proof (Wtop _ _ H) as [Na [Nb Hlk]]. rewrite (Hlk sys0).
    apply NSR_set_wake; [exact H2|]. apply weq_upd. exact (Wtop _ _ H2).
Qed.

(* ---------- whole runs with interrupts at any depth, under any two schedules of all levels *)
Hypothesis Hdev_nd : forall c n t i, NoDup (keys (fst (devf c n t i))).
Hypothesis Hdev_ext : forall c n t i i', NoDup (keys i) -> NoDup (keys i') -> eqv i i' -> devf c n t i = devf c n t i'.

Notation NSRt f := (NSR (devices_below cfg (S f) top) (levels_below cfg (S f) top)).

Theorem xnested_schedule_independent f : subtree_ok cfg (S f) top -> forall script sA obA sA' obA',
  XNRun f script sA obA sA' obA' -> forall sB obB sB' obB', XNRun f script sB obB sB' obB' ->
  NSRt f sA sB -> (forall d, obs_rel (dev_obs d obA) (dev_obs d obB)) ->
  NSRt f sA' sB' /\ forall d, obs_rel (dev_obs d obA') (dev_obs d obB').
Proof.
  intros Hok.
  assert (Wtop : forall sA sB, NSRt f sA sB -> weq (wake_of sA top) (wake_of sB top)).
  { intros sA sB [_ HL]. apply (HL top (or_introl eq_refl)). }
  induction 1 as [sA obA | c lvc path w r sA obA sA' obA' HA IH | r sA obA sA' obA' EA HA IH
                  | r sA obA when rootsA s2A oA sA' obA' EA TA HA IH]; intros sB obB sB' obB' HB HS HO.
  - inversion HB as [s0 ob0 | c0 l0 p0 w0 r0 s0 ob0 s0' ob0' HB' | r0 s0 ob0 s0' ob0' EB HB' | r0 s0 ob0 when0 roots0 s20 o0 s0' ob0' EB TB HB']; subst. split; assumption.
  - inversion HB as [s0 ob0 | c0 l0 p0 w0 r0 s0 ob0 s0' ob0' HB' | r0 s0 ob0 s0' ob0' EB HB' | r0 s0 ob0 when0 roots0 s20 o0 s0' ob0' EB TB HB']; subst. apply (IH _ _ _ _ HB'); [|exact HO].
    apply stim_at_NSR; [left; reflexivity | exact HS].
  - pose proof (weq_first _ _ (Wtop _ _ HS)) as F. rewrite EA in F. inversion HB as [s0 ob0 | c0 l0 p0 w0 r0 s0 ob0 s0' ob0' HB' | r0 s0 ob0 s0' ob0' EB HB' | r0 s0 ob0 when0 roots0 s20 o0 s0' ob0' EB TB HB']; subst.
    + apply (IH _ _ _ _ HB' HS HO).
    + rewrite EB in F. destruct F.
  - pose proof (weq_first _ _ (Wtop _ _ HS)) as F. rewrite EA in F. inversion HB as [s0 ob0 | c0 l0 p0 w0 r0 s0 ob0 s0' ob0' HB' | r0 s0 ob0 s0' ob0' EB HB' | r0 s0 ob0 when0 roots0 s20 o0 s0' ob0' EB TB HB']; subst.
    + rewrite EB in F. destruct F.
    + rewrite EB in F. destruct F as [Ew Hr]. subst when0.
      destruct (mtick_det cfg devf Hdev_nd Hdev_ext f _ _ _ _ _ _ _ _ _ Hok (NSR_set_wake _ _ sA sB top _ _ HS (weq_filter _ _ rootsA roots0 (Wtop _ _ HS) Hr)) Hr TA TB) as [HS2 HO2].
      apply (IH _ _ _ _ HB' HS2). intros d. rewrite !dev_obs_app. apply obs_rel_app; [apply HO | apply HO2].
Qed.

Theorem xnrun_deterministic f initial script sA obA sB obB : subtree_ok cfg (S f) top ->
  xnrun f initial script sA obA -> xnrun f initial script sB obB ->
  NSRt f sA sB /\ forall d, obs_rel (dev_obs d obA) (dev_obs d obB).
Proof.
  intros Hok [s1A [o1A [TA RA]]] [s1B [o1B [TB RB]]].
  destruct (mtick_det cfg devf Hdev_nd Hdev_ext f _ _ _ _ _ _ _ _ _ Hok (NSR_init _ _) (fun c => iff_refl _) TA TB) as [HS HO].
  apply (xnested_schedule_independent f Hok script s1A o1A sA obA RA s1B o1B sB obB RB HS HO).
Qed.
End NX.
