"""C03 -- devices see exactly the latest upstream values along the declared wiring.
(a) whole simulations (flat, nested to depth 3) compared with Model/Sim.v; Coq oracle latest_ok (81) on the flattened wiring;
(b) the step-exhaustive interrupt injection sweep of C07 (an interrupt of every device at every event-loop step, i.e. also
    while a tick -- of the master or of a system simulation -- is running), judged by the same oracle: nothing a tick has
    produced may be lost or left stale because an interrupt arrived in the middle of it."""
import slevel
import sprops
from common import run_shards
from props import c07

PID = "C03"


def inj_part(ck, tier, rng):
    icases, _ = c07.s_part(ck, tier, rng)
    iterms = [slevel.render_sim_case(c["cfg"], c["devs"], (1, 1), c.get("initial", 0), [], 1_300_000_003, c["run"]) for c in icases]
    ibad = run_shards(PID + "_i", sprops.HEADER, "sim_case", "oracle_c03", iterms, shard_size=60)
    ck.coverage.update(injection_sweep_runs=len(icases), injection_sweep_stale_or_lost=len(ibad))
    for i in sorted(ibad):
        c = icases[i]
        ck.report(sprops.REASONS[81] + "-after-a-mid-tick-interrupt",
                  f"interrupt of device c{c['device']} injected at loop step {c['step']} ({c['name']}): a later update is handed a value "
                  "which is not the latest one its source reported",
                  dict(kind="injection", initial=c.get("initial", 0), cfg={str(k): v for k, v in c["cfg"].items()}, devs={str(k): v for k, v in c["devs"].items()},
                       device=c["device"], step=c["step"], inj=c["inj"], codes=ibad[i],
                       updates=[(cc, t, sorted(i2.items())) for (cc, t, i2) in c["run"]["trace"]][-14:]))
        break


def slow_part(ck, tier, rng):
    """devices that take real (wall-clock) time to compute: two slow sources updated in one tick feed a mixer, flat and across a
    system boundary -- whatever a tick does about long computations, the mixer is handed the latest value of both"""
    EXT, EXP = 1, 2
    shapes = [({1: dict(order=[(3, "dev"), (4, "dev"), (5, "dev")], conns=[(3, 1, 5, 1), (4, 1, 5, 2), (3, 2, 5, 3)])},
               {3: (31, 300_000_000, 1), 4: (32, 300_000_000, 1), 5: (33, 1_000_000_000, 0)}),
              ({1: dict(order=[(3, "dev"), (4, 2), (8, "dev")], conns=[(3, 1, 8, 1), (4, 1, 8, 2), (3, 1, 4, 1)]),
                2: dict(order=[(5, "dev"), (6, "dev"), (7, "dev")], conns=[(EXT, 1, 5, 1), (5, 1, 7, 1), (6, 1, 7, 2), (7, 1, EXP, 1)])},
               {3: (34, 300_000_000, 1), 5: (35, 300_000_000, 1), 6: (36, 300_000_000, 1), 7: (37, 1_000_000_000, 0), 8: (38, 1_000_000_000, 0)})]
    cases, terms = [], []
    for cfg, devs in shapes:
        for slow in ([3, 4], [3], [5, 6], [4], [6]):
            slow = [d for d in slow if d in devs]
            if not slow:
                continue
            slevel.SLOW.clear()
            slevel.SLOW.update({d: 0.012 for d in slow})
            try:
                r = slevel.run_internal(cfg, devs, (1, 1), 0, [], 1_000_000_003)
            finally:
                slevel.SLOW.clear()
            cases.append(dict(cfg=cfg, devs=devs, slow=slow, run=r))
            terms.append(slevel.render_sim_case(cfg, devs, (1, 1), 0, [], 1_000_000_003, r))
    bad = run_shards(PID + "_slow", sprops.HEADER, "sim_case", "check_sim_all", terms, shard_size=12)
    ck.coverage.update(runs_with_devices_that_take_real_time=len(cases), of_them_disagreeing=len(bad))
    for i in sorted(bad):
        c = cases[i]
        ck.report("values-differ-when-devices-take-real-time-to-compute",
                  f"devices {c['slow']} take 12 ms of real time per update: the run differs from the model (codes {bad[i]})",
                  dict(kind="slow", cfg={str(k): v for k, v in c["cfg"].items()}, devs={str(k): list(v) for k, v in c["devs"].items()}, slow=c["slow"], codes=bad[i],
                       updates=[(cc, t, sorted(i2.items())) for (cc, t, i2) in c["run"]["trace"]][:24]))
        break


def both_parts(ck, tier, rng):
    inj_part(ck, tier, rng)
    slow_part(ck, tier, rng)


def main(tier, seed):
    return sprops.main_S(PID, tier, seed, {81}, "Props.C03",
                         ["Model/Sim.v", "Oracle/SimCheck.v", "Oracle/SimOracle.v", "Model/Wiring.v", "Model/Ticker.v", "Model/Component.v", "Proofs/WiringP.v", "Proofs/TickerP.v", "Proofs/SimP.v", "Proofs/FlattenP.v", "Proofs/NonInterfP.v", "Proofs/LatestP.v", "Model/SimTime.v", "Model/Inline.v", "Proofs/EqvP.v", "Proofs/WakeWfP.v", "Proofs/InlineP.v", "Proofs/InlineLoopP.v", "Proofs/InlineScopeP.v", "Proofs/InlineLatestP.v", "Proofs/FrameP.v", "Proofs/ExtentP.v", "Proofs/EqvCongP.v", "Proofs/ParDevP.v", "Proofs/AgreeP.v", "Proofs/FuelP.v", "Proofs/InlineAllP.v", "Proofs/InlineAllLatestP.v",
                          "Model/NSim.v", "Model/NNSim.v", "Proofs/Confluence3P.v", "Proofs/NScheduleP.v", "Proofs/NDetP.v", "Proofs/NDetScopeP.v", "Proofs/SimNTP.v", "Model/PyLib.v", "Gen/SourceFuns.v", "Proofs/GenDeviceInputsP.v", "Props/C03.v"],
                         "values along the wiring", "nested", extra=both_parts)


def replay(rp):
    if rp.get("kind") == "slow":
        cfg = {int(k): dict(order=[(c, kk) for c, kk in v["order"]], conns=[tuple(x) for x in v["conns"]]) for k, v in rp["cfg"].items()}
        devs = {int(k): tuple(v) for k, v in rp["devs"].items()}
        slevel.SLOW.clear()
        slevel.SLOW.update({d: 0.012 for d in rp["slow"]})
        try:
            r = slevel.run_internal(cfg, devs, (1, 1), 0, [], 1_000_000_003)
        finally:
            slevel.SLOW.clear()
        bad = run_shards("replay", sprops.HEADER, "sim_case", "check_sim_all", [slevel.render_sim_case(cfg, devs, (1, 1), 0, [], 1_000_000_003, r)])
        print("slow devices:", rp["slow"], "updates:", [(c, t, sorted(i.items())) for (c, t, i) in r["trace"]][:24])
        print("codes:", bad.get(0, []))
        return 1 if bad else 0
    if rp.get("kind") == "injection":
        cfg = {int(k): dict(order=[(c, kk) for c, kk in v["order"]], conns=[tuple(x) for x in v["conns"]]) for k, v in rp["cfg"].items()}
        devs = {int(k): tuple(v) for k, v in rp["devs"].items()}
        r = slevel.run_internal(cfg, devs, (1, 1), rp.get("initial", 0), [], 1_300_000_003, inject=(rp["step"], rp["device"]))
        bad = run_shards("replay", sprops.HEADER, "sim_case", "oracle_c03", [slevel.render_sim_case(cfg, devs, (1, 1), rp.get("initial", 0), [], 1_300_000_003, r)])
        print("interrupt of device", rp["device"], "injected at loop step", rp["step"])
        print("updates (device, time, inputs):", [(c, t, sorted(i.items())) for (c, t, i) in r["trace"]][-14:])
        print("codes:", bad.get(0, []))
        return 1 if bad else 0
    return sprops.replay_S(rp)
