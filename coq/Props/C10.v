(* C10 -- unconnected parts of a simulation never influence each other.
   Proved here, for every configuration and history:
   (1) topics: two components never share a topic, and no input topic is an output topic -- with the
       prefix / suffixes extracted from the current source (Gen/SourceConsts.v); the bus delivers per
       topic (C15), so messages of one component are never seen by another's handler;
   (2) frame: updating a device touches the state of that device only, and a component outside the
       extent of a tick (not a root, nothing upstream of it touched) is not touched at all;
   (3) whole ticks: a tick of a flat level and the same tick of the level extended by a disconnected
       part X (any number of components with wires among themselves only, any behaviour, roots of
       the tick or not, placed anywhere in the order) give every old device the same observation,
       leave the same state, callbacks and outputs for everything outside X.
   PARTIAL: equality of every old device's full observation sequence between a run and the run
   extended by a disconnected part (with its own callbacks, adapters, nested systems) is decided per
   pair of runs of the real schedulers (code 91) and, for adapters / EPICS records, on the real
   adapter classes; it is not a theorem over multi-tick master histories.  Property theorems only. *)
From TV Require Import Base Gen.SourceConsts Model.Topics Model.Wiring Model.Ticker Model.Component Model.Sim
  Proofs.TopicsP Proofs.SimP Proofs.FlattenP Proofs.NonInterfP.
Open Scope Z_scope.

Theorem C10_topics_disjoint : forall a b,
  (input_topic a = input_topic b -> a = b) /\
  (output_topic a = output_topic b -> a = b) /\
  input_topic a <> output_topic b.
Proof.
  intros a b. split; [apply input_topic_inj | split; [apply output_topic_inj|]].
  apply in_out_disjoint. exact consts_ok_now.
Qed.

Theorem C10_update_frame : forall devf s c time chg c',
  c' <> c ->
  let '(s', _, _, _) := dev_update devf s c time chg in
  lookup c' (s_dc s') = lookup c' (s_dc s) /\ lookup c' (s_n s') = lookup c' (s_n s) /\
  s_wake s' = s_wake s /\ s_int s' = s_int s.
Proof. intros devf. apply (dev_update_frame devf). Qed.

Theorem C10_outside_extent_untouched : forall devf inner lv conns time roots ext a ck,
  in_extent conns roots (ta_touched a) (fst ck) = false ->
  tick_step devf inner lv conns time roots ext a ck = a.
Proof. intros devf. apply (tick_step_outside devf). Qed.

(* [srel isX lv s s']: the two simulation states agree on every component outside X (device
   component state, update counters, pending callbacks of scheduler lv) *)
Theorem C10_tick_noninterference : forall cfg cfg' devf inner (isX : comp -> bool) lv time roots roots' ext s s',
  let l := level_of cfg lv in
  let l' := level_of cfg' lv in
  l_order l = filter (fun ck : comp * ckind => negb (isX (fst ck))) (l_order l') ->
  l_conns l = filter (oldc isX) (l_conns l') ->
  (forall ck, In ck (l_order l') -> snd ck = KDev) ->
  (forall k, In k (l_conns l') -> isX (out_comp k) = isX (in_comp k)) ->
  isX ext_id = false -> isX exp_id = false ->
  (forall c, isX c = false -> memb c roots' = memb c roots) ->
  srel isX lv s s' ->
  let '(s1, out, ob) := tick_with cfg devf inner lv time roots ext s in
  let '(s1', out', ob') := tick_with cfg' devf inner lv time roots' ext s' in
  srel isX lv s1 s1' /\ out' = out /\ filter (notX isX) ob' = ob.
Proof. exact tick_noninterference. Qed.

(* non-vacuity: a chain 3 -> 4 extended by the disconnected pair 7 -> 8, both 3 and 7 roots *)
Example C10_example :
  let dev : devfun := fun c n t inp => ([(1%positive, Zpos c + n)], None) in
  let l := {| l_order := [(3%positive, KDev); (4%positive, KDev)]; l_conns := [(3, 1, 4, 1)%positive] |} in
  let l' := {| l_order := [(7%positive, KDev); (3%positive, KDev); (8%positive, KDev); (4%positive, KDev)];
               l_conns := [(7, 1, 8, 1); (3, 1, 4, 1)]%positive |} in
  let '(_, _, ob) := tick_with [(1%positive, l)] dev (fun _ _ _ s => (s, [], None, [])) 1 5 [3%positive] [] s_init in
  let '(_, _, ob') := tick_with [(1%positive, l')] dev (fun _ _ _ s => (s, [], None, [])) 1 5 [7%positive; 3%positive] [] s_init in
  filter (notX (fun c => Pos.leb 7 c)) ob' = ob /\ length ob = 2%nat /\ length ob' = 4%nat.
Proof. vm_compute. repeat split; reflexivity. Qed.
