(* Model of src/tickit/core/management/ticker.py (class Ticker) over the flat connection
   relation of Model/Wiring.v.  Definitions only. *)
From TV Require Import Base Model.Wiring.

Definition changes := list (port * Z).

(* what the ticker hands to update_component / skip_component *)
Inductive action :=
| Upd (c : comp) (t : Z) (ch : changes)    (* Input(target, time, changes) *)
| Skp (c : comp) (t : Z).                  (* Skip(source, time, {}) *)
Definition act_comp (a : action) : comp := match a with Upd c _ _ => c | Skp c _ => c end.
Definition act_time (a : action) : Z := match a with Upd _ t _ => t | Skp _ t => t end.

Record tstate := {
  tt : Z;                              (* self.time *)
  troots : list comp;                  (* self.roots *)
  tin : list (comp * changes);         (* self.inputs *)
  todo : list (comp * bool)            (* self.to_update: component -> has a task *)
}.

Section T.
Variable conns : list conn.
Variable comps : list comp.            (* EventRouter.components *)

Definition pending (st : tstate) : list comp := keys (todo st).

(* required_dependencies(component) is empty *)
Definition ready (st : tstate) (c : comp) : bool :=
  negb (existsb (fun u => memb u (pending st)) (preds conns c)).

Definition mk_action (st : tstate) (c : comp) : action :=
  match get_d c (tin st) with
  | [] => if memb c (troots st) then Upd c (tt st) [] else Skp c (tt st)
  | ch => Upd c (tt st) ch
  end.

(* schedule_possible_updates; None = the KeyError raised for a component that is not in
   the wiring (inverse_component_tree has no entry for it) *)
Definition schedule (st : tstate) : option (tstate * list action) :=
  if forallb (fun cd : comp * bool => snd cd || memb (fst cd) comps) (todo st) then
    let acts := flat_map (fun cd : comp * bool =>
                            if snd cd then [] else if ready st (fst cd) then [mk_action st (fst cd)] else [])
                         (todo st) in
    let todo' := map (fun cd : comp * bool => (fst cd, snd cd || ready st (fst cd))) (todo st) in
    Some ({| tt := tt st; troots := troots st; tin := tin st; todo := todo' |}, acts)
  else None.

(* the union of dependants(root) over the roots, in dict-insertion order *)
Fixpoint extent (roots : list comp) (acc : list comp) : option (list comp) :=
  match roots with
  | [] => Some acc
  | r :: rest =>
      match dependants conns r with
      | Some d => extent rest (acc ++ filter (fun c => negb (memb c acc)) d)
      | None => None
      end
  end.

Definition start_tick (t : Z) (roots : list comp) : option tstate :=
  match extent roots [] with
  | Some e => Some {| tt := t; troots := roots; tin := []; todo := map (fun c => (c, false)) e |}
  | None => None
  end.

(* self.inputs[component].update(change) for every routed component *)
Definition accumulate (m : list (comp * changes)) (routed : list (comp * changes)) : list (comp * changes) :=
  fold_left (fun m (e : comp * changes) => upd (fst e) (merge (get_d (fst e) m) (snd e)) m) routed m.

Inductive presult :=
| PErr                                  (* an assertion of propagate failed, or KeyError *)
| POk (st : tstate) (acts : list action) (finished : bool).

(* propagate(output) *)
Definition propagate (st : tstate) (src : comp) (t : Z) (ch : changes) : presult :=
  if memb src (pending st) && Z.eqb t (tt st) then
    let st1 := {| tt := tt st; troots := troots st;
                  tin := accumulate (tin st) (route conns src ch);
                  todo := remove_key src (todo st) |} in
    match schedule st1 with
    | Some (st2, acts) => POk st2 acts (match todo st2 with [] => true | _ => false end)
    | None => PErr
    end
  else PErr.
End T.

(* ---------- executable multi-tick run, compared with the implementation *)
Definition changes_eqb (a b : changes) : bool :=
  forallb (fun kv : port * Z => opt_eqb Z.eqb (lookup (fst kv) b) (Some (snd kv))) a &&
  forallb (fun kv : port * Z => opt_eqb Z.eqb (lookup (fst kv) a) (Some (snd kv))) b.
Definition action_eqb (a b : action) : bool :=
  match a, b with
  | Upd c t ch, Upd c' t' ch' => Pos.eqb c c' && Z.eqb t t' && changes_eqb ch ch'
  | Skp c t, Skp c' t' => Pos.eqb c c' && Z.eqb t t'
  | _, _ => false
  end.
Definition actions_eqb (a b : list action) : bool :=
  Nat.eqb (length a) (length b) &&
  forallb (fun x => existsb (action_eqb x) b) a && forallb (fun y => existsb (action_eqb y) a) b.

(* an answer handed to propagate, and what was observed right after it *)
Inductive obs := OErr | OOk (acts : list action) (finished : bool).
Definition answer := (comp * Z * changes * obs)%type.
(* one tick: time, roots, the dispatches observed right after the start (None = raised),
   then the answers *)
Definition tick := (Z * list comp * option (list action) * list answer)%type.
Definition case := (list conn * list comp * list tick)%type.

Fixpoint run_answers (conns : list conn) (comps : list comp) (st : tstate) (ans : list answer) : list Z :=
  match ans with
  | [] => []
  | (c, t, ch, o) :: rest =>
      match propagate conns comps st c t ch, o with
      | PErr, OErr => run_answers conns comps st rest
      | POk st' acts fin, OOk acts' fin' =>
          (if actions_eqb acts acts' then [] else [2%Z]) ++
          (if Bool.eqb fin fin' then [] else [3%Z]) ++ run_answers conns comps st' rest
      | _, _ => [4%Z]
      end
  end.

(* reason codes: 1 dispatches at tick start differ, 2 dispatches after an answer differ,
   3 finished flag differs, 4 error/non-error differs, 5 model could not start the tick *)
Definition run_tick (conns : list conn) (comps : list comp) (tk : tick) : list Z :=
  let '(t, roots, o0, ans) := tk in
  match start_tick conns t roots with
  | None => [5%Z]
  | Some st0 =>
      match schedule conns comps st0, o0 with
      | None, None => []
      | Some (st1, acts), Some acts' =>
          (if actions_eqb acts acts' then [] else [1%Z]) ++ run_answers conns comps st1 ans
      | _, _ => [4%Z]
      end
  end.

Definition check (c : case) : list Z :=
  let '(conns, comps, ticks) := c in flat_map (run_tick conns comps) ticks.

(* ---------- traces of one tick: what the ticker dispatched and what the components answered *)
Inductive ev := EDispatch (a : action) | EAnswer (c : comp) (ch : changes).
