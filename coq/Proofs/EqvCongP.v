(* The whole-simulation model respects dictionary equality: association lists stand for Python
   dicts, and nothing the model computes depends on the order of their entries.  Two runs of a nested
   tick from states whose device inputs are equal as dictionaries, on inputs equal as dictionaries,
   produce outputs equal as dictionaries, the same callback, related observations and related states. *)
From TV Require Import Base Model.Wiring Model.Ticker Model.Component Model.Sim
  Proofs.WiringP Proofs.TickerP Proofs.SimP Proofs.NonInterfP Proofs.FrameP Proofs.AgreeP Proofs.LatestP Proofs.ExtentP Proofs.EqvP Proofs.ParDevP.
Open Scope Z_scope.

Definition SR (D : list comp) (L : list positive) (s s' : sstate) : Prop :=
  (forall z, In z D -> drel s s' z) /\
  (forall l, In l L -> wake_of s' l = wake_of s l /\ int_of s' l = int_of s l /\ memb l (s_ticked s') = memb l (s_ticked s)).

Lemma SR_mono D D' L L' s s' :
  (forall c, In c D' -> In c D) -> (forall l, In l L' -> In l L) -> SR D L s s' -> SR D' L' s s'.
Proof. intros HD HL [A B]. split; [intros c Hc; apply A; apply HD; exact Hc | intros l Hl; apply B; apply HL; exact Hl]. Qed.

Lemma dcs_of_lookup s s2 c : lookup c (s_dc s2) = lookup c (s_dc s) -> dcs s2 c = dcs s c.
Proof. intros H. unfold dcs. rewrite H. reflexivity. Qed.

(* related inside a sub-footprint after both sides ran there, untouched outside it *)
Lemma SR_combine D L D' L' s s' s2 s2' ob ob' :
  SR D L s s' -> SR D' L' s2 s2' -> framed D' L' s s2 ob -> framed D' L' s' s2' ob' ->
  SR D L s2 s2'.
Proof.
  intros [A B] [A2 B2] [F1 [G1 _]] [F1' [G1' _]]. split.
  - intros c Hc. destruct (in_dec Pos.eq_dec c D') as [Hi|Hn]; [apply A2; exact Hi|].
    destruct (F1 c Hn) as [X Y]. destruct (F1' c Hn) as [X' Y']. specialize (A c Hc). unfold drel in *.
    rewrite (dcs_of_lookup s s2 c X), (dcs_of_lookup s' s2' c X'), Y, Y'. exact A.
  - intros l Hl. destruct (in_dec Pos.eq_dec l L') as [Hi|Hn]; [apply B2; exact Hi|].
    destruct (G1 l Hn) as [X [Y Z]]. destruct (G1' l Hn) as [X' [Y' Z']]. destruct (B l Hl) as [P [Q R]]. repeat split; congruence.
Qed.

Lemma route_eqv conns x (ch ch' : values) y q :
  single_source conns -> NoDup (keys ch) -> NoDup (keys ch') -> eqv ch ch' ->
  lookup2r (route conns x ch) y q = lookup2r (route conns x ch') y q.
Proof.
  intros S H H' E.
  destruct (lookup2r (route conns x ch) y q) as [v|] eqn:E1.
  - apply (route_exact conns x ch y q v S H) in E1. destruct E1 as [p [Hl Hk]]. symmetry.
    apply (route_exact conns x ch' y q v S H'). exists p. split; [rewrite <- (E p); exact Hl | exact Hk].
  - destruct (lookup2r (route conns x ch') y q) as [v|] eqn:E2; [|reflexivity]. exfalso.
    apply (route_exact conns x ch' y q v S H') in E2. destruct E2 as [p [Hl Hk]].
    assert (E3 : lookup2r (route conns x ch) y q = Some v) by (apply (route_exact conns x ch y q v S H); exists p; split; [rewrite (E p); exact Hl | exact Hk]).
    congruence.
Qed.

Section Cong.
Variable cfg : config.
Variable devf : devfun.
Hypothesis Hdev_nd : forall c n t i, NoDup (keys (fst (devf c n t i))).
Hypothesis Hdev_ext : forall c n t i i', NoDup (keys i) -> NoDup (keys i') -> eqv i i' -> devf c n t i = devf c n t i'.

(* the two accumulators of a tick *)
Record CR (D : list comp) (L : list positive) (a a' : core) : Prop := {
  cr_s : SR D L (co_s a) (co_s a');
  cr_pd : forall x q, pd a' x q = pd a x q;
  cr_ok : in_ok (co_in a);
  cr_ok' : in_ok (co_in a');
  cr_out : eqv (co_out a) (co_out a');
  cr_outnd : NoDup (keys (co_out a)) /\ NoDup (keys (co_out a'));
  cr_obs : obs_rel (co_obs a) (co_obs a')
}.

Definition inner_eqv (D : list comp) (L : list positive)
  (inner inner' : positive -> Z -> values -> sstate -> sstate * values * option Z * list obs) (lv' : positive) : Prop :=
  forall t chg chg' s s', SR D L s s' -> eqv chg chg' -> NoDup (keys chg) -> NoDup (keys chg') ->
    let '(s2, o, ca, ob) := inner lv' t chg s in
    let '(s2', o', ca', ob') := inner' lv' t chg' s' in
    eqv o o' /\ NoDup (keys o) /\ NoDup (keys o') /\ ca' = ca /\ obs_rel ob ob' /\ SR D L s2 s2'.

Lemma eqv_of_pd' a a' y : (forall q, pd a' y q = pd a y q) -> eqv (get_d y (co_in a)) (get_d y (co_in a')).
Proof. intros H q. rewrite <- !pd_get_d. symmetry. apply H. Qed.

Lemma SR_set_wake D L s s' lv w : In lv L -> SR D L s s' -> SR D L (set_wake s lv w) (set_wake s' lv w).
Proof.
  intros Hlv [A B]. split; [exact A|]. intros l Hl. destruct (B l Hl) as [X [Y Z]]. split; [|split; [exact Y | exact Z]].
  destruct (Pos.eq_dec l lv) as [E|Hne]; [subst l; rewrite !wake_of_set_wake; reflexivity|].
  rewrite !wake_of_set_wake_other by exact Hne. exact X.
Qed.

Lemma step_cong D L inner inner' lv conns time roots ext ext' a a' c k :
  single_source conns -> In lv L ->
  (c <> ext_id -> c <> exp_id -> k = KDev -> In c D) ->
  (forall lv', k = KSys lv' -> inner_eqv D L inner inner' lv') ->
  eqv ext ext' -> NoDup (keys ext) -> NoDup (keys ext') ->
  CR D L a a' ->
  CR D L (step' devf inner lv conns time roots ext a (c, k)) (step' devf inner' lv conns time roots ext' a' (c, k)).
Proof.
  intros Hss Hlv Hdev Hsys Hext Hnd Hnd' HR. destruct HR as [Hs Hpd Hok Hok' Hout Houtnd Hobs].
  assert (HR : CR D L a a') by (constructor; assumption).
  assert (Hinp : eqv (get_d c (co_in a)) (get_d c (co_in a'))) by (apply eqv_of_pd'; intros q; apply Hpd).
  destruct k as [|lv'].
  2: { (* a system simulation *)
    unfold step'. cbn [fst snd]. rewrite <- (nonempty_eqv _ _ Hinp).
    destruct (nonempty (get_d c (co_in a)) || memb c roots); [|exact HR].
    destruct (Pos.eqb_spec c ext_id) as [Ee|He].
    { constructor; cbn [co_s co_in co_out co_obs]; try assumption.
      - intros x q. unfold pd. cbn [co_in]. rewrite !accumulate_lookup by apply route_WFd. fold (pd a' x q). fold (pd a x q). rewrite (Hpd x q).
        rewrite (route_eqv conns c ext ext' x q Hss Hnd Hnd' Hext). reflexivity.
      - apply in_ok_accumulate. exact Hok.
      - apply in_ok_accumulate. exact Hok'. }
    destruct (Pos.eqb_spec c exp_id) as [Ex|Hx].
    { constructor; cbn [co_s co_in co_out co_obs]; try assumption. split; [apply Hok | apply Hok']. }
    pose proof (Hsys lv' eq_refl time (get_d c (co_in a)) (get_d c (co_in a')) (co_s a) (co_s a') Hs Hinp (Hok c) (Hok' c)) as Hi.
    destruct (inner lv' time (get_d c (co_in a)) (co_s a)) as [[[s1 ch] ca] ob1].
    destruct (inner' lv' time (get_d c (co_in a')) (co_s a')) as [[[s1' ch'] ca'] ob1'].
    destruct Hi as [Ech [Nch [Nch' [Eca [Eob Hs1]]]]]. subst ca'.
    constructor; cbn [co_s co_in co_out co_obs]; try assumption.
    - destruct ca as [w|]; [|exact Hs1]. rewrite (proj1 (proj2 Hs1 lv Hlv)). apply SR_set_wake; assumption.
    - intros x q. unfold pd. cbn [co_in]. rewrite !accumulate_lookup by apply route_WFd. fold (pd a' x q). fold (pd a x q). rewrite (Hpd x q).
      rewrite (route_eqv conns c ch ch' x q Hss Nch Nch' Ech). reflexivity.
    - apply in_ok_accumulate. exact Hok.
    - apply in_ok_accumulate. exact Hok'.
    - apply obs_rel_app; assumption. }
  (* a device or a pseudo component *)
  destruct (Pos.eq_dec c ext_id) as [Ee|He].
  { subst c. unfold step'. cbn [fst snd]. rewrite <- (nonempty_eqv _ _ Hinp).
    destruct (nonempty (get_d ext_id (co_in a)) || memb ext_id roots); [|exact HR]. rewrite Pos.eqb_refl.
    constructor; cbn [co_s co_in co_out co_obs]; try assumption.
    - intros x q. unfold pd. cbn [co_in]. rewrite !accumulate_lookup by apply route_WFd. fold (pd a' x q). fold (pd a x q). rewrite (Hpd x q).
      rewrite (route_eqv conns ext_id ext ext' x q Hss Hnd Hnd' Hext). reflexivity.
    - apply in_ok_accumulate. exact Hok.
    - apply in_ok_accumulate. exact Hok'. }
  destruct (Pos.eq_dec c exp_id) as [Ex|Hx].
  { subst c. unfold step'. cbn [fst snd]. rewrite <- (nonempty_eqv _ _ Hinp).
    destruct (nonempty (get_d exp_id (co_in a)) || memb exp_id roots); [|exact HR].
    destruct (Pos.eqb_spec exp_id ext_id) as [E|_]; [discriminate|]. rewrite Pos.eqb_refl.
    constructor; cbn [co_s co_in co_out co_obs]; try assumption. split; [apply Hok | apply Hok']. }
  specialize (Hdev He Hx eq_refl).
  destruct (par_dev devf Hdev_nd Hdev_ext time inner inner' lv lv conns conns roots roots ext ext' a a' c He Hx
              (proj1 Hs c Hdev) Hinp (Hok c) (Hok' c) eq_refl) as [[EN EF]|[ch [ca [iN [iF [Hch [Hieq [HeN [HeF Hdx]]]]]]]]].
  - rewrite EN, EF. exact HR.
  - assert (PN := pd_after time lv conns a _ c ch ca iN HeN). assert (PF := pd_after time lv conns a' _ c ch ca iF HeF).
    constructor.
    + split.
      * intros z Hz. destruct (Pos.eq_dec z c) as [E|Hne]; [subst z; exact Hdx|].
        unfold drel. rewrite (de_other _ _ _ _ _ _ _ _ _ HeN z Hne), (de_other _ _ _ _ _ _ _ _ _ HeF z Hne),
          (de_cnt_other _ _ _ _ _ _ _ _ _ HeN z Hne), (de_cnt_other _ _ _ _ _ _ _ _ _ HeF z Hne). apply (proj1 Hs z Hz).
      * intros l Hl. destruct (proj2 Hs l Hl) as [X [Y Z]]. unfold int_of. rewrite (de_int _ _ _ _ _ _ _ _ _ HeN), (de_int _ _ _ _ _ _ _ _ _ HeF),
          (de_ticked _ _ _ _ _ _ _ _ _ HeN), (de_ticked _ _ _ _ _ _ _ _ _ HeF). split; [|split; [exact Y | exact Z]].
        destruct (Pos.eq_dec l lv) as [E|Hne].
        -- subst l. rewrite (de_wake _ _ _ _ _ _ _ _ _ HeN), (de_wake _ _ _ _ _ _ _ _ _ HeF), X. reflexivity.
        -- rewrite (de_wake_other _ _ _ _ _ _ _ _ _ HeN l Hne), (de_wake_other _ _ _ _ _ _ _ _ _ HeF l Hne). exact X.
    + intros x q. rewrite PN, PF, (Hpd x q). reflexivity.
    + rewrite (de_in _ _ _ _ _ _ _ _ _ HeN). apply in_ok_accumulate. exact Hok.
    + rewrite (de_in _ _ _ _ _ _ _ _ _ HeF). apply in_ok_accumulate. exact Hok'.
    + rewrite (de_out _ _ _ _ _ _ _ _ _ HeN), (de_out _ _ _ _ _ _ _ _ _ HeF). exact Hout.
    + rewrite (de_out _ _ _ _ _ _ _ _ _ HeN), (de_out _ _ _ _ _ _ _ _ _ HeF). exact Houtnd.
    + rewrite (de_obs _ _ _ _ _ _ _ _ _ HeN), (de_obs _ _ _ _ _ _ _ _ _ HeF). apply obs_rel_app; [exact Hobs|].
      constructor; [|constructor]. split; [reflexivity | exact Hieq].
Qed.

Lemma fold_cong D L inner inner' lv conns time roots ext ext' : forall l a a',
  single_source conns -> In lv L ->
  (forall c k, In (c, k) l -> c <> ext_id -> c <> exp_id -> k = KDev -> In c D) ->
  (forall c lv', In (c, KSys lv') l -> inner_eqv D L inner inner' lv') ->
  eqv ext ext' -> NoDup (keys ext) -> NoDup (keys ext') ->
  CR D L a a' ->
  CR D L (fold_left (step' devf inner lv conns time roots ext) l a) (fold_left (step' devf inner' lv conns time roots ext') l a').
Proof.
  induction l as [|[c k] r IH]; intros a a' Hss Hlv Hdev Hsys He Hn Hn' HR; [exact HR|]. cbn [fold_left].
  apply IH; try assumption; [intros c0 k0 Hi; apply Hdev; right; exact Hi | intros c0 lv0 Hi; apply (Hsys c0 lv0); right; exact Hi|].
  apply step_cong; try assumption.
  - intros Hce Hcx Ek. apply (Hdev c k); [left; reflexivity | assumption..].
  - intros lv' Ek. subst k. apply (Hsys c lv'). left. reflexivity.
Qed.

Lemma SR_prologue D L s s' lv w roots time : In lv L -> SR D L s s' ->
  SR D L (log_tick (mark_ticked (set_int (set_wake s lv w) lv []) lv) lv time roots)
         (log_tick (mark_ticked (set_int (set_wake s' lv w) lv []) lv) lv time roots).
Proof.
  intros Hlv [A B]. split; [exact A|]. intros l Hl. destruct (B l Hl) as [X [Y Z]].
  destruct (Pos.eq_dec l lv) as [E|Hne].
  - subst l. split; [|split].
    + change (wake_of (log_tick (mark_ticked (set_int (set_wake ?x lv w) lv []) lv) lv time roots) lv) with (wake_of (set_wake x lv w) lv).
      rewrite !wake_of_set_wake. reflexivity.
    + unfold int_of, log_tick, mark_ticked, set_int, set_wake. cbn [s_int]. rewrite !get_d_upd_same. reflexivity.
    + unfold log_tick, mark_ticked, set_int, set_wake. cbn [s_ticked]. rewrite Z.
      destruct (memb lv (s_ticked s)) eqn:Em; [rewrite Z, Em; reflexivity|]. cbn [memb existsb]. rewrite Pos.eqb_refl. reflexivity.
  - split; [|split].
    + change (wake_of (log_tick (mark_ticked (set_int (set_wake ?x lv w) lv []) lv) lv time roots) l) with (wake_of (set_wake x lv w) l).
      rewrite !wake_of_set_wake_other by exact Hne. exact X.
    + unfold int_of, log_tick, mark_ticked, set_int, set_wake. cbn [s_int]. rewrite !get_d_upd_other by exact Hne. exact Y.
    + unfold log_tick, mark_ticked, set_int, set_wake. cbn [s_ticked].
      destruct (B lv Hlv) as [_ [_ Zlv]]. rewrite Zlv.
      destruct (memb lv (s_ticked s)); [exact Z|]. cbn [memb existsb]. destruct (Pos.eqb_spec l lv); [contradiction|]. exact Z.
Qed.

(* a nested tick respects dictionary equality -- also between two configurations that coincide on the subtree *)
Theorem on_tick_level_eqv2 cfg' : forall f lv, same_below cfg cfg' f lv ->
  (forall l, In l (levels_below cfg f lv) -> single_source (l_conns (level_of cfg l))) ->
  inner_eqv (devices_below cfg f lv) (levels_below cfg f lv) (on_tick_level cfg devf f) (on_tick_level cfg' devf f) lv.
Proof.
  induction f as [|f IH]; intros lv Hsb Hss_all time chg chg' s s' Hsr Hch Hn Hn'.
  - cbn [on_tick_level]. split; [intros q; reflexivity|]. split; [constructor|]. split; [constructor|]. split; [reflexivity|]. split; [constructor | exact Hsr].
  - destruct Hsb as [Elv Hsub].
    set (D := devices_below cfg (S f) lv). set (L := levels_below cfg (S f) lv).
    assert (Hlv : In lv L) by (left; reflexivity).
    destruct (proj2 Hsr lv Hlv) as [Ew [Ei Et]].
    cbn [on_tick_level]. rewrite Elv, Ew, Ei, Et.
    set (roots := int_of s lv ++ _).
    set (wrest := filter _ (wake_of s lv)).
    pose proof (SR_prologue D L s s' lv wrest roots time Hlv Hsr) as H1.
    rewrite !tick_with_core. rewrite Elv.
    set (a0 := {| co_s := log_tick (mark_ticked (set_int (set_wake s lv wrest) lv []) lv) lv time roots; co_in := []; co_out := []; co_obs := [] |}).
    set (a0' := {| co_s := log_tick (mark_ticked (set_int (set_wake s' lv wrest) lv []) lv) lv time roots; co_in := []; co_out := []; co_obs := [] |}).
    assert (HR0 : CR D L a0 a0').
    { constructor; cbn [a0 a0' co_s co_in co_out co_obs]; [exact H1 | reflexivity | intros z; cbn; constructor | intros z; cbn; constructor
                                                         | intros q; reflexivity | split; constructor | constructor]. }
    assert (HF' : CR D L (fold_left (step' devf (on_tick_level cfg devf f) lv (l_conns (level_of cfg lv)) time roots chg) (all_of (level_of cfg lv)) a0)
                         (fold_left (step' devf (on_tick_level cfg' devf f) lv (l_conns (level_of cfg lv)) time roots chg') (all_of (level_of cfg lv)) a0')).
    { apply fold_cong; try assumption; [apply Hss_all; left; reflexivity | |].
      - intros c k Hi He Hx Ek. subst k. unfold all_of in Hi. destruct Hi as [E|Hi]; [inversion E; subst; contradiction|].
        apply in_app_iff in Hi. destruct Hi as [Hi|[E|[]]]; [apply in_devices_below_dev; exact Hi | inversion E; subst; contradiction].
      - intros c lv' Hi. unfold all_of in Hi. destruct Hi as [E|Hi]; [discriminate|].
        apply in_app_iff in Hi. destruct Hi as [Hi|[E|[]]]; [|discriminate].
        intros t c1 c1' s0 s0' Hsr0 Hc1 Hn1 Hn1'.
        assert (HsubD : forall x, In x (devices_below cfg f lv') -> In x D) by (intros x Hx; eapply devices_below_sub; eassumption).
        assert (HsubL : forall x, In x (levels_below cfg f lv') -> In x L) by (intros x Hx; eapply levels_below_sub; eassumption).
        pose proof (IH lv' (Hsub c lv' Hi) (fun l Hl => Hss_all l (HsubL l Hl)) t c1 c1' s0 s0' (SR_mono D _ L _ s0 s0' HsubD HsubL Hsr0) Hc1 Hn1 Hn1') as Hih.
        pose proof (on_tick_level_framed cfg devf f lv' t c1 s0) as Hf1.
        pose proof (on_tick_level_framed cfg' devf f lv' t c1' s0') as Hf2.
        destruct (below_eq cfg cfg' f lv' (Hsub c lv' Hi)) as [EL ED]. rewrite EL, ED in Hf2.
        destruct (on_tick_level cfg devf f lv' t c1 s0) as [[[s2 o] ca] ob].
        destruct (on_tick_level cfg' devf f lv' t c1' s0') as [[[s2' o'] ca'] ob'].
        destruct Hih as [Eo [No [No' [Eca [Eob Hsr2]]]]]. repeat (split; [assumption|]).
        apply (SR_combine D L _ _ s0 s0' s2 s2' ob ob' Hsr0 Hsr2 Hf1 Hf2). }
    destruct HF' as [Fs Fpd Fok Fok' Fout Foutnd Fobs]. cbn [fst snd].
    split; [exact Fout|]. split; [apply Foutnd|]. split; [apply Foutnd|].
    split; [rewrite (proj1 (proj2 Fs lv Hlv)); reflexivity|]. split; [exact Fobs | exact Fs].
Qed.

Lemma same_below_refl : forall f lv, same_below cfg cfg f lv.
Proof. induction f as [|f IH]; intros lv; [exact I|]. split; [reflexivity | intros c lv' _; apply IH]. Qed.

Theorem on_tick_level_eqv : (forall lv, single_source (l_conns (level_of cfg lv))) -> forall f lv,
  inner_eqv (devices_below cfg f lv) (levels_below cfg f lv) (on_tick_level cfg devf f) (on_tick_level cfg devf f) lv.
Proof. intros Hss f lv. apply on_tick_level_eqv2; [apply same_below_refl | intros l _; apply Hss]. Qed.
End Cong.
