import tprops

PID = "C01"


def main(tier, seed):
    return tprops.main_T(PID, tier, seed, {11, 12, 16, 17, 18}, "Props.C01",
                         ["Model/Ticker.v", "Oracle/TickerOracle.v", "Proofs/TickerP.v", "Props/C01.v"],
                         "glitch-free update order")


replay = tprops.replay_T
