"""A controllable message bus implementing tickit's StateConsumer / StateProducer contract the way a
broker backend does (cf. state_interfaces/kafka.py): produce() only appends to the topic log; every
consumer receives, per topic, the whole log in order (replay from the beginning on subscribe), handles
one message at a time, and the order in which different consumers / different topics of one consumer
advance is chosen by a seeded policy.  Deliveries take event-loop steps but no (virtual) time, so
stamps of interrupts do not depend on the schedule."""
import asyncio
import collections


class CBus:
    def __init__(self, rng, policy="random", hold=None, p_idle=0.2, ack=None, per_topic=False, concurrent=False):
        # per_topic: the topics of one consumer advance independently (a handler per topic: one message at a time per
        # topic, but a consumer may be handling messages of several of its topics at once)
        # ack: produce() returns only some event-loop steps after the message has been appended (a broker's
        # acknowledgement): by then the message may have been delivered and handled, and answers to it may be on their way
        # concurrent: a handler is started for every message as it is delivered (in log order per topic), whether or not the
        # consumer's previous handler has returned -- e.g. while that one still waits for the acknowledgement of what it sent
        self.rng, self.policy, self.hold, self.p_idle, self.ack, self.per_topic = rng, policy, hold, p_idle, ack, per_topic
        self.concurrent = concurrent
        self.log = collections.defaultdict(list)         # topic -> messages
        self.consumers = []
        self.wake = None
        self.pump_task = None
        self.delivered = 0
        self.choices = 0          # scheduling decisions with more than one candidate
        self.max_pending = 0
        self.errors = []
        self.events = []          # every delivery in the order it happened: ("deliver", topic, message); harness/slevel.py adds tick marks

    # -- contract
    def _ensure_pump(self):
        if self.pump_task is None:
            self.wake = asyncio.Event()
            self.pump_task = asyncio.get_event_loop().create_task(self._pump())
        self.wake.set()

    def subscribe(self, cons, topics):
        for t in topics:
            if t not in cons.cursor:
                cons.cursor[t] = 0          # replay from the beginning
        self._ensure_pump()

    def produce(self, topic, value):
        self.events.append(("produce", topic, value))
        self.log[topic].append(value)
        self._ensure_pump()

    # -- scheduling
    def _candidates(self):
        out = []
        for c in self.consumers:
            if c.busy and not self.per_topic and not self.concurrent:
                continue
            for t, k in c.cursor.items():
                if k < len(self.log[t]) and (t not in c.busy_topics or self.concurrent):
                    out.append((c, t))
        return out

    def _choose(self, cands):
        if len(cands) > 1:
            self.choices += 1
        if self.policy == "fifo":
            return cands[0]
        if self.policy == "lifo":
            return cands[-1]
        if self.policy == "hold" and self.hold is not None:
            # deliveries matching the predicate are deferred for as long as anything else can run
            others = [x for x in cands if not self.hold(x[0], x[1], self.log[x[1]][x[0].cursor[x[1]]])]
            if others:
                return self.rng.choice(others)
        return self.rng.choice(cands)

    async def _run(self, cons, msg, topic=None):
        try:
            self.events.append(("deliver", topic, msg))      # the moment the handler starts (handlers start in the order of delivery)
            await cons.callback(msg)
        except asyncio.CancelledError:
            raise
        except Exception as e:  # noqa  -- a handler that raises kills only itself, as a consumer task would
            import traceback
            self.errors.append(repr(e) + " :: " + " | ".join(l.strip() for l in traceback.format_exc().splitlines()[-7:]))
        finally:
            cons.busy = False
            cons.busy_topics.discard(topic)
            self.wake.set()

    async def _pump(self):
        while True:
            cands = self._candidates()
            if not cands:
                self.wake.clear()
                await self.wake.wait()
                continue
            self.max_pending = max(self.max_pending, len(cands))
            if self.policy != "fifo" and self.rng.random() < self.p_idle:
                await asyncio.sleep(0)       # latency: let running handlers advance first
                cands = self._candidates()
                if not cands:
                    continue
            c, t = self._choose(cands)
            msg = self.log[t][c.cursor[t]]
            c.cursor[t] += 1
            c.busy = True
            if self.per_topic:
                c.busy_topics.add(t)
            self.delivered += 1
            asyncio.get_event_loop().create_task(self._run(c, msg, t))
            await asyncio.sleep(0)


def make_interface(bus):
    class CConsumer:
        def __init__(self, callback):
            self.callback, self.cursor, self.busy, self.busy_topics = callback, {}, False, set()
            bus.consumers.append(self)

        async def subscribe(self, topics):
            bus.subscribe(self, list(topics))

    class CProducer:
        def __init__(self):
            pass

        async def produce(self, topic, value):
            bus.produce(topic, value)
            if bus.ack is not None:
                for _ in range(bus.rng.choice(bus.ack)):
                    await asyncio.sleep(0)

    return CConsumer, CProducer
