From TV Require Import Base.
Example C17_placeholder : True. Proof. exact I. Qed.
