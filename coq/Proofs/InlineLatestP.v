(* C03 through a system boundary: in the nested run every wire of the resolved (inlined) wiring
   carries its source's latest report -- the flat run has that invariant (Proofs/LatestP.v) and the
   nested run is in lockstep with it (Proofs/InlineLoopP.v). *)
From TV Require Import Base Model.Wiring Model.Ticker Model.Component Model.Sim Model.SimTime Model.Inline Model.NSim
  Proofs.WiringP Proofs.SimP Proofs.NonInterfP Proofs.LatestP Proofs.EqvP Proofs.WakeWfP Proofs.ParDevP Proofs.InlineP Proofs.InlineLoopP
  Oracle.SimCheck Proofs.InlineScopeP.
Open Scope Z_scope.

Section FlatRun.
Variable cfg : config.
Variable devf : devfun.
Variable fuel : nat.
Hypothesis Hwf : flat_wf (level_of cfg top).
Hypothesis Hdev : forall c n t i, NoDup (keys (fst (devf c n t i))).
Let conns := l_conns (level_of cfg top).

Definition real_keys_s (s : sstate) : Prop := forall e, In e (wake_of s top) -> fst e <> ext_id /\ fst e <> exp_id.

Lemma sim_loop_latest horizon : forall n s ob, LATEST conns s -> real_keys_s s ->
  LATEST conns (fst (fst (sim_loop cfg devf n fuel horizon s ob))).
Proof.
  induction n as [|n IH]; intros s ob HL HK; [exact HL|]. cbn [sim_loop].
  destruct (first_wakeups (wake_of s top)) as [[when roots]|] eqn:Ef; [|exact HL].
  destruct (Z.leb when horizon); [|exact HL].
  set (m := {| m_s := s; m_tprev := 0; m_real := 0; m_now := 0; m_obs := ob; m_ticks := [] |}).
  pose proof (do_tick_latest cfg devf fuel Hwf Hdev m when roots 0 HL HK (first_wakeups_roots _ _ _ Ef)) as H.
  unfold do_tick in H. cbn [m m_s] in H.
  destruct (tick_level cfg devf fuel top when roots [] _) as [[s2 out] o]. cbn [m_s] in H. destruct H as [H1 H2].
  apply IH; [exact H1 | exact H2].
Qed.

Theorem sim_run_latest n initial horizon : LATEST conns (fst (fst (sim_run cfg devf n fuel initial horizon))).
Proof.
  unfold sim_run. unfold tick_level.
  set (roots := map fst (l_order (level_of cfg top))).
  set (s0 := log_tick (set_wake s_init top []) top initial roots).
  assert (Hr : ~ In ext_id roots /\ ~ In exp_id roots).
  { destruct Hwf as [_ [_ [_ [_ [_ Hreal]]]]]. split; intros Hi; destruct (Hreal _ Hi) as [H1 H2]; congruence. }
  pose proof (tick_latest cfg devf (on_tick_level cfg devf fuel) top initial roots [] s0 Hwf Hdev (proj1 Hr) (proj2 Hr)) as HT.
  pose proof (tick_wake_keys cfg devf (on_tick_level cfg devf fuel) top initial roots [] s0 (proj1 Hwf)) as HW.
  destruct (tick_with cfg devf (on_tick_level cfg devf fuel) top initial roots [] s0) as [[s1 out] ob].
  assert (H0 : LATEST conns s0) by (intros u p c q _ v H; cbn in H; discriminate).
  apply sim_loop_latest; [apply (proj1 (HT H0))|].
  intros e He. destruct (HW e He) as [Hin|Hre]; [|exact Hre].
  unfold s0 in Hin. change (wake_of (log_tick ?x top initial roots) top) with (wake_of x top) in Hin.
  rewrite wake_of_set_wake in Hin. destruct Hin.
Qed.

(* the same on scripts of master ticks and interrupts of listed devices *)
Lemma sim_script_latest : forall script s ob,
  (forall c w, In (IStim c w) script -> c <> ext_id /\ c <> exp_id) ->
  LATEST conns s -> real_keys_s s -> LATEST conns (fst (sim_script cfg devf fuel script s ob)).
Proof.
  induction script as [|[|c w] r IH]; intros s ob Hok HL HK; cbn [sim_script]; [exact HL| |].
  - assert (Hok' : forall c w, In (IStim c w) r -> c <> ext_id /\ c <> exp_id) by (intros c w Hi; apply (Hok c w); right; exact Hi).
    destruct (first_wakeups (wake_of s top)) as [[when roots]|] eqn:Ef; [|apply IH; assumption].
    set (m := {| m_s := s; m_tprev := 0; m_real := 0; m_now := 0; m_obs := ob; m_ticks := [] |}).
    pose proof (do_tick_latest cfg devf fuel Hwf Hdev m when roots 0 HL HK (first_wakeups_roots _ _ _ Ef)) as H.
    unfold do_tick in H. cbn [m m_s] in H.
    destruct (tick_level cfg devf fuel top when roots [] _) as [[s2 out] o]. cbn [m_s] in H. destruct H as [H1 H2].
    apply IH; assumption.
  - assert (Hok' : forall c w, In (IStim c w) r -> c <> ext_id /\ c <> exp_id) by (intros c' w' Hi; apply (Hok c' w'); right; exact Hi).
    apply IH; [exact Hok' | exact HL |].
    intros [k v] He. unfold NSim.stim in He. rewrite wake_of_set_wake in He. apply In_upd_cases in He.
    destruct He as [[E _]|He]; [subst k; cbn [fst]; apply (Hok c w); left; reflexivity | apply (HK (k, v)); exact He].
Qed.

Theorem sim_script_from_start_latest initial script :
  (forall c w, In (IStim c w) script -> c <> ext_id /\ c <> exp_id) ->
  LATEST conns (fst (sim_script_from_start cfg devf fuel initial script)).
Proof.
  intros Hok. unfold sim_script_from_start. unfold tick_level.
  set (roots := map fst (l_order (level_of cfg top))).
  set (s0 := log_tick (set_wake s_init top []) top initial roots).
  assert (Hr : ~ In ext_id roots /\ ~ In exp_id roots).
  { destruct Hwf as [_ [_ [_ [_ [_ Hreal]]]]]. split; intros Hi; destruct (Hreal _ Hi) as [H1 H2]; congruence. }
  pose proof (tick_latest cfg devf (on_tick_level cfg devf fuel) top initial roots [] s0 Hwf Hdev (proj1 Hr) (proj2 Hr)) as HT.
  pose proof (tick_wake_keys cfg devf (on_tick_level cfg devf fuel) top initial roots [] s0 (proj1 Hwf)) as HW.
  destruct (tick_with cfg devf (on_tick_level cfg devf fuel) top initial roots [] s0) as [[s1 out] ob].
  assert (H0 : LATEST conns s0) by (intros u p c q _ v H; cbn in H; discriminate).
  apply sim_script_latest; [exact Hok | apply (proj1 (HT H0))|].
  intros e He. destruct (HW e He) as [Hin|Hre]; [|exact Hre].
  unfold s0 in Hin. change (wake_of (log_tick ?x top initial roots) top) with (wake_of x top) in Hin.
  rewrite wake_of_set_wake in Hin. destruct Hin.
Qed.
End FlatRun.

(* the nested run: along the resolved wiring [Cf] (top-level wires that avoid the system, wires
   into the system composed with the wires from its external ports, wires from inner devices to
   exposed ports composed with the wires out of the system, inner wires) *)
Theorem nested_latest cfg c lvc pre inn post devf f n initial horizon :
  shape cfg c lvc pre inn post ->
  flat_wf (level_of (inline cfg c lvc) top) ->
  (forall d k t i, NoDup (keys (fst (devf d k t i)))) ->
  (forall d k t i i', NoDup (keys i) -> NoDup (keys i') -> eqv i i' -> devf d k t i = devf d k t i') ->
  LATEST (Cf cfg c lvc) (fst (fst (sim_run cfg devf n (S f) initial horizon))).
Proof.
  intros Hsh Hwf Hnd Hext.
  assert (Hsib : sib_ok cfg f c lvc pre inn post).
  { destruct Hwf as [Hk _]. rewrite (inline_top_order _ _ _ _ _ _ Hsh) in Hk. apply sib_ok_devices.
    - intros y Hy.
      assert (Hi : In (dk cfg y) (map (dk cfg) pre ++ map (dki cfg lvc) inn ++ map (dk cfg) post)).
      { apply in_app_iff in Hy. apply in_app_iff. destruct Hy as [Hy|Hy]; [left | right; apply in_app_iff; right]; apply in_map; exact Hy. }
      exact (Hk _ Hi).
    - intros y Hy.
      assert (Hi : In (dki cfg lvc y) (map (dk cfg) pre ++ map (dki cfg lvc) inn ++ map (dk cfg) post)).
      { apply in_app_iff. right. apply in_app_iff. left. apply in_map. exact Hy. }
      exact (Hk _ Hi). }
  pose proof (run_inline cfg c lvc pre inn post Hsh devf Hnd Hext f Hsib n initial horizon) as HB.
  pose proof (sim_run_latest (inline cfg c lvc) devf (S f) Hwf Hnd n initial horizon) as HL.
  rewrite (inline_top_conns cfg c lvc) in HL.
  destruct (sim_run cfg devf n (S f) initial horizon) as [[sN obN] dN].
  destruct (sim_run (inline cfg c lvc) devf n (S f) initial horizon) as [[sF obF] dF]. cbn [fst] in *.
  destruct HB as [HB _].
  intros u p d q Hk v Hv.
  destruct (Cf_ends cfg c lvc pre inn post Hsh u p d q Hk) as [Hu Hd].
  destruct (b_dev _ _ _ _ _ _ _ _ _ HB u Hu) as [Elast _].
  destruct (b_dev _ _ _ _ _ _ _ _ _ HB d Hd) as [_ [Einp _]].
  rewrite Einp. apply (HL u p d q Hk). rewrite <- Elast. exact Hv.
Qed.

(* ---------- the decision procedure for [flat_wf] *)
Lemma prefix_before_split names : NoDup names -> forall l1 c l2, names = l1 ++ c :: l2 -> prefix_before c names = l1.
Proof.
  intros Hnd l1. revert names Hnd. induction l1 as [|x l1 IH]; intros names Hnd c l2 E; subst names; cbn [app prefix_before].
  - rewrite Pos.eqb_refl. reflexivity.
  - inversion Hnd as [|? ? Hni Hnd']; subst. destruct (Pos.eqb_spec x c) as [Ex|_].
    + exfalso. apply Hni. subst x. apply in_app_iff. right. left. reflexivity.
    + f_equal. apply (IH _ Hnd' c l2 eq_refl).
Qed.

Lemma flat_wfb_sound l : flat_wfb l = true -> flat_wf l.
Proof.
  unfold flat_wfb. intros H.
  repeat (apply andb_true_iff in H; let K := fresh "K" in destruct H as [H K]).
  assert (Hnd : NoDup (map fst (l_order l))) by (apply nodupb_NoDup; exact K2).
  split; [|split; [exact Hnd|split; [apply single_sourceb_sound; exact K1|split; [|split]]]].
  - intros [x k] Hi. pose proof (proj1 (forallb_forall _ _) H _ Hi) as Hk. unfold is_dev in Hk. cbn [snd] in *. destruct k; [reflexivity | discriminate].
  - intros u p c q Hi. pose proof (proj1 (forallb_forall _ _) K0 _ Hi) as Hk. cbv beta iota in Hk.
    apply andb_true_iff in Hk. destruct Hk as [Hk _]. apply andb_true_iff in Hk. destruct Hk as [Hu Hc]. split; apply memb_In; assumption.
  - intros l1 c l2 E u p q Hi. pose proof (proj1 (forallb_forall _ _) K0 _ Hi) as Hk. cbv beta iota in Hk.
    apply andb_true_iff in Hk. destruct Hk as [_ Hb]. rewrite (prefix_before_split _ Hnd l1 c l2 E) in Hb. apply memb_In. exact Hb.
  - intros c Hc. pose proof (proj1 (forallb_forall _ _) K _ Hc) as Hk. cbv beta in Hk. apply andb_true_iff in Hk. destruct Hk as [H1 H2].
    split; intros E; subst c; [rewrite Pos.eqb_refl in H1 | rewrite Pos.eqb_refl in H2]; discriminate.
Qed.
