"""C20 -- the IoBox device behaves as a memory.
Correspondence: the real IoBoxDevice (and two more fed from the very list object of its update output, one
of them with adapter writes of its own pending) is
driven with operation sequences; results and final memories are compared, inside Coq, with
Model/IoBox.v (`check`), about which Props/C20.v proves the property for all histories."""
import itertools
import json
import random

from common import Check, P, Zr, L, T, O, run_shards

PID = "C20"
HEADER = "From TV Require Import Base Model.IoBox."


def run_impl(ops):
    from tickit.devices.iobox import IoBoxDevice

    # b2 and b3 are both fed from b1's update output -- the very list object b1 handed out, as the
    # in-process bus does on a fan-out; b2 also has a pending adapter write of its own (address 99)
    b1, b2, b3 = IoBoxDevice(), IoBoxDevice(), IoBoxDevice()
    out = []
    shared_ok = True
    for o in ops:
        if o[0] == "W":
            b1.write(o[1], o[2])
            out.append(("RW",))
        elif o[0] == "R":
            try:
                out.append(("RR", ("v", b1.read(o[1]))))
            except KeyError:
                out.append(("RR", None))
        else:
            given = list(map(tuple, o[1])) if o[1] is not None else None
            u = b1.update(0, {"updates": given} if given is not None else {})
            if given is not None and given != list(map(tuple, o[1])):
                shared_ok = False                 # the device changed the list it was given
            handed = u.outputs["updates"]
            ups = list(handed)
            out.append(("RU", ups))
            assert u.call_at is None
            b2.write(99, len(out))
            b2.update(0, {"updates": handed})
            b3.update(0, {"updates": handed})
            if list(handed) != ups:
                shared_ok = False                 # a consumer changed the output it was fed from
    m2 = [(a, v) for a, v in b2._memory.items() if a != 99]
    m3 = list(b3._memory.items())
    if m2 != m3 or not shared_ok:
        m3 = m3 + [(98, -1)]                      # makes the chained-box comparison in Coq fail (code 3)
    return out, list(b1._memory.items()), m3


NONE = -777_777      # the Python value None as a stored value: a value like any other, not "nothing stored"


def zv(v):
    return Zr(NONE if v is None else v)


def ws(l):
    return L(T(P(a), zv(v)) for a, v in l)


def render(ops, obs):
    res, m1, m2 = obs
    # the model's memory holds at most one entry per write of the history: a memory with more entries differs from it whatever
    # they are, and is cut just beyond that bound so that an implementation that leaks state from one box (or one history)
    # into another yields a comparison, not a term Coq cannot read
    bound = sum(1 if o[0] == "W" else len(o[1] or []) if o[0] == "U" else 0 for o in ops) + 2
    m1, m2 = m1[:bound], m2[:bound + 1]
    res = [r if r[0] != "RU" else ("RU", r[1][:bound]) for r in res]
    rops = L(
        f"W {P(o[1])} {zv(o[2])}" if o[0] == "W" else (f"R {P(o[1])}" if o[0] == "R" else f"U {ws(o[1] or [])}")
        for o in ops
    )
    rres = L("RW" if r[0] == "RW" else (("RR None" if r[1] is None else f"RR (Some {zv(r[1][1])})") if r[0] == "RR" else f"RU {ws(r[1])}") for r in res)
    return T(rops, rres, T(ws(m1), ws(m2)))


def nontrivial(ops):
    """several writes to one address between two updates"""
    seen = set()
    for o in ops:
        if o[0] == "W":
            if o[1] in seen:
                return True
            seen.add(o[1])
        elif o[0] == "U":
            for a, _ in (o[1] or []):
                if a in seen:
                    return True
            ins = [a for a, _ in (o[1] or [])]
            if len(ins) != len(set(ins)):
                return True
            seen = set()
    return False


def alphabet():
    A, V = (1, 2), (0, 1)
    al = [("W", a, v) for a in A for v in V] + [("R", a) for a in A] + [("U", None), ("U", [])]
    al += [("U", [(a, v)]) for a in A for v in V]
    return al


def gen_cases(tier, rng):
    cases = []
    corpus = [
        [("W", 1, 10), ("W", 1, 20), ("U", None), ("R", 1)],
        [("W", 1, 10), ("U", [(1, 5)]), ("R", 1)],
        [("U", [(1, 1), (1, 2), (2, 3)]), ("R", 1), ("R", 2), ("R", 3)],
        [("W", 1, None), ("U", None), ("R", 1)],
        [("W", 1, 4), ("U", [(1, None)]), ("R", 1), ("W", 1, 0), ("R", 1), ("U", None), ("R", 1)],
    ]
    cases += corpus
    # a block load: thousands of adapter writes before one update (nothing pending may be forgotten), then reads
    nblock = 3000 if tier == "quick" else 20000
    # (addresses from 1000 on: 98 and 99 are the harness's own marks on the chained boxes)
    cases.append([("W", 1000 + (k % 600), k) for k in range(nblock)] + [("U", [(1601, 7)])] + [("R", a) for a in (1000, 1001, 1300, 1599, 1601, 1602)])
    al = alphabet()
    maxlen = 4 if tier == "quick" else 5
    exhaustive = 0
    for n in range(1, maxlen + 1):
        for seq in itertools.product(al, repeat=n):
            cases.append(list(seq))
            exhaustive += 1
    nrand = 3000 if tier == "quick" else 40000
    for _ in range(nrand):
        ops = []
        for _ in range(rng.randint(1, 40 if rng.random() < 0.2 else 10)):
            x = rng.random()
            if x < 0.45:
                ops.append(("W", rng.randint(1, 4), None if rng.random() < 0.08 else rng.randint(-3, 9)))
            elif x < 0.65:
                ops.append(("R", rng.randint(1, 5)))
            else:
                ops.append(("U", None if rng.random() < 0.3 else
                            [(rng.randint(1, 4), None if rng.random() < 0.08 else rng.randint(-3, 9)) for _ in range(rng.randint(0, 3))]))
        cases.append(ops)
    return cases, exhaustive, maxlen


REASONS = {1: "result-differs-from-model", 2: "final-memory-differs", 3: "chained-box-differs"}


def evaluate(cases):
    obs = [run_impl(c) for c in cases]
    terms = [render(c, o) for c, o in zip(cases, obs)]
    bad = run_shards(PID, HEADER, "case", "check", terms, shard_size=1500)
    return obs, bad


def shrink(ops, code):
    """delta-debug the op list while the same reason code persists (long histories: by halves first, and at most 150
    evaluations in all -- what is left is reported as it is)"""
    cur = list(ops)
    budget = [80]

    def still_bad(cand):
        budget[0] -= 1
        _, bad = evaluate([cand])
        return 0 in bad and code in bad[0]
    chunk = len(cur) // 2
    while chunk >= 8 and budget[0] > 0:
        i, progressed = 0, False
        while i < len(cur) and budget[0] > 0:
            cand = cur[:i] + cur[i + chunk:]
            if cand and still_bad(cand):
                cur, progressed = cand, True
            else:
                i += chunk
        if not progressed:
            chunk //= 2
    changed = len(cur) <= 40
    while changed and budget[0] > 0:
        changed = False
        for i in range(len(cur)):
            cand = cur[:i] + cur[i + 1:]
            if not cand:
                continue
            if budget[0] <= 0:
                break
            if still_bad(cand):
                cur, changed = cand, True
                break
    return cur


def main(tier, seed):
    ck = Check(PID, tier, seed, "Props.C20", ["Model/IoBox.v", "Proofs/IoBoxP.v", "Model/PyLib.v", "Gen/SourceFuns.v", "Proofs/GenIoBoxP.v", "Props/C20.v"])
    ck.build_and_audit()
    rng = random.Random(seed)
    cases, nex, maxlen = gen_cases(tier, rng)
    ck.rule = (f"all operation sequences of length <= {maxlen} over the alphabet write(2 addr x 2 val), read(2 addr), "
               f"update(no input | [] | one input write) enumerated exhaustively ({nex}), plus seeded random sequences "
               "to 40 operations over 4 addresses; non-trivial = several writes to one address between two updates")
    obs, bad = evaluate(cases)
    for c in cases:
        ck.count(json.dumps(c), nontrivial(c))
    ck.sample(dict(ops=cases[0], observed=obs[0][0], memory=obs[0][1], chained_memory=obs[0][2]))
    ck.sample(dict(ops=cases[-1], observed=obs[-1][0], memory=obs[-1][1], chained_memory=obs[-1][2]))
    ck.coverage.update(exhaustive=True, exhaustive_cases=nex, disagreements=len(bad),
                       op_kinds={k: sum(1 for c in cases for o in c if o[0] == k) for k in "WRU"})
    done = set()
    for i in sorted(bad):
        code = bad[i][0]
        if code in done:
            continue
        done.add(code)
        small = shrink(cases[i], code)
        o = run_impl(small)
        ck.report(REASONS[code], f"IoBoxDevice disagrees with the memory model/property on {small}",
                  dict(ops=small, observed=o[0], memory=o[1], chained_memory=o[2], codes=bad[i]))
    return ck.finish()


def replay(rp):
    ops = [tuple(o) if o[0] != "U" else ("U", None if o[1] is None else [tuple(w) for w in o[1]]) for o in rp["ops"]]
    obs, bad = evaluate([ops])
    print("ops:", ops)
    print("observed:", obs[0])
    print("codes:", bad.get(0, []))
    return 1 if bad else 0
