(* The hand-written model function IS the translation of the tickit function it models (see Proofs/GenWakeupsP.v).
   This file: Wiring.from_inverse_wiring and InverseWiring.from_wiring of event_router.py (Model/Wiring.v
   [from_inverse], [from_wiring]; the nested default dictionaries are read through [touch], [add_target], [set_source]). *)
From TV Require Import Base Model.PyLib Model.Wiring Gen.SourceFuns.

Lemma fold_left_ext2 {A B} (f g : A -> B -> A) : (forall a b, f a b = g a b) -> forall l a, fold_left f l a = fold_left g l a.
Proof. intros H l. induction l as [|b r IH]; intros a; cbn [fold_left]; [reflexivity|]. rewrite H. apply IH. Qed.

Theorem from_inverse_wiring_is_source (iw : iwiring) : gen_from_inverse_wiring iw = from_inverse iw.
Proof.
  unfold gen_from_inverse_wiring, from_inverse. cbv zeta.
  apply fold_left_ext2. intros w [in_dev in_ios]. cbn [fst snd].
  apply fold_left_ext2. intros w' [in_io [out_dev out_io]]. reflexivity.
Qed.

Theorem from_wiring_is_source (w : wiring) : gen_from_wiring w = from_wiring w.
Proof.
  unfold gen_from_wiring, from_wiring. cbv zeta.
  apply fold_left_ext2. intros iw [out_dev out_ids]. cbn [fst snd].
  apply fold_left_ext2. intros iw' [out_io ports]. cbn [fst snd].
  apply fold_left_ext2. intros iw'' [in_dev in_io]. reflexivity.
Qed.

(* ---------- EventRouter.route: the model routes along the flat connection list of the wiring; the source walks
   wiring[source][port] -- the same thing for a wiring whose dictionaries have unique keys *)
Lemma fold_left_flat_map {A B C} (f : A -> C -> A) (g : B -> list C) : forall l a,
  fold_left f (flat_map g l) a = fold_left (fun a x => fold_left f (g x) a) l a.
Proof. induction l as [|x r IH]; intros a; cbn [flat_map fold_left]; [reflexivity|]. rewrite fold_left_app. apply IH. Qed.

Section Route.
Variable src : comp.
Variable p : port.
Variable v : Z.
Let F := fun (routed : list (comp * list (port * Z))) (t : cport) =>
  upd (fst t) (upd (snd t) v (get_d (fst t) routed)) routed.
Let G := fun (routed : list (comp * list (port * Z))) (k : conn) =>
  let '(oc, op, ic, ip) := k in
  if Pos.eqb oc src && Pos.eqb op p then upd ic (upd ip v (get_d ic routed)) routed else routed.

Lemma route_targets oc op (tg : list cport) : forall r,
  fold_left G (map (fun t : cport => (oc, op, fst t, snd t)) tg) r =
  if Pos.eqb oc src && Pos.eqb op p then fold_left F tg r else r.
Proof.
  destruct (Pos.eqb oc src && Pos.eqb op p) eqn:E.
  - induction tg as [|t tg IH]; intros r; cbn [map fold_left]; [reflexivity|].
    rewrite IH. f_equal. unfold G, F. rewrite E. reflexivity.
  - induction tg as [|t tg IH]; intros r; cbn [map fold_left]; [reflexivity|].
    rewrite <- (IH r) at 2. f_equal. unfold G. rewrite E. reflexivity.
Qed.

Lemma route_outs oc (outs : list (port * list cport)) : NoDup (keys outs) -> forall r,
  fold_left G (flat_map (fun o : port * list cport => map (fun t : cport => (oc, fst o, fst t, snd t)) (snd o)) outs) r =
  if Pos.eqb oc src then fold_left F (get_d p outs) r else r.
Proof.
  intros Hnd. induction outs as [|[op tg] rest IH]; intros r; cbn [flat_map].
  - destruct (Pos.eqb oc src); reflexivity.
  - inversion Hnd as [|? ? Hni Hnd']; subst. rewrite fold_left_app, route_targets. cbn [fst snd].
    rewrite (IH Hnd'). unfold get_d. cbn [lookup]. destruct (Pos.eqb oc src); cbn [andb]; [|reflexivity].
    rewrite (Pos.eqb_sym op p). destruct (Pos.eqb_spec p op) as [E|Hne]; [|reflexivity].
    subst op. assert (Hl : lookup p rest = None).
    { destruct (lookup p rest) eqn:El; [|reflexivity]. exfalso. apply Hni. apply lookup_In in El. apply in_map_iff. exists (p, l). split; [reflexivity | exact El]. }
    rewrite Hl. reflexivity.
Qed.

Lemma route_wiring (w : wiring) : NoDup (keys w) -> (forall e, In e w -> NoDup (keys (snd e))) -> forall r,
  fold_left G (conns_w w) r = fold_left F (get_d p (get_d src w)) r.
Proof.
  intros Hnd Hin. unfold conns_w. induction w as [|[oc outs] rest IH]; intros r; cbn [flat_map]; [reflexivity|].
  inversion Hnd as [|? ? Hni Hnd']; subst. rewrite fold_left_app. cbn [fst snd].
  rewrite (route_outs oc outs (Hin (oc, outs) (or_introl eq_refl))).
  rewrite (IH Hnd' (fun e He => Hin e (or_intror He))).
  assert (Eg : get_d src ((oc, outs) :: rest) = if Pos.eqb src oc then outs else get_d src rest)
    by (unfold get_d; cbn [lookup]; destruct (Pos.eqb src oc); reflexivity).
  rewrite Eg, (Pos.eqb_sym oc src). destruct (Pos.eqb_spec src oc) as [E|Hne]; [|reflexivity].
  subst oc. assert (Hl : get_d src rest = []).
  { unfold get_d. destruct (lookup src rest) eqn:El; [|reflexivity]. exfalso. apply Hni. apply lookup_In in El. apply in_map_iff. exists (src, l). split; [reflexivity | exact El]. }
  rewrite Hl. reflexivity.
Qed.
End Route.

Theorem route_is_source (w : wiring) (src : comp) (changes : list (port * Z)) :
  NoDup (keys w) -> (forall e, In e w -> NoDup (keys (snd e))) ->
  gen_route w src changes = route (conns_w w) src changes.
Proof.
  intros Hnd Hin. unfold gen_route, route. cbv zeta.
  apply fold_left_ext2. intros r [out_id out_val]. cbn [fst snd].
  transitivity (fold_left (fun (routed : list (comp * list (port * Z))) (t : cport) =>
                             upd (fst t) (upd (snd t) out_val (get_d (fst t) routed)) routed) (get_d out_id (get_d src w)) r);
    [apply fold_left_ext2; intros a [x y]; reflexivity|].
  transitivity (fold_left (fun (routed : list (comp * list (port * Z))) (k : conn) =>
                             let '(oc, op, ic, ip) := k in
                             if Pos.eqb oc src && Pos.eqb op out_id then upd ic (upd ip out_val (get_d ic routed)) routed else routed)
                          (conns_w w) r);
    [symmetry; apply (route_wiring src out_id out_val w Hnd Hin r) | apply fold_left_ext2; intros r' [[[oc op] ic] ip]; reflexivity].
Qed.
