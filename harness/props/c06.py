"""C06 -- callbacks are honoured exactly, merged when simultaneous, never invented.
Whole simulations against Model/Sim.v with the callback oracles (65 honoured, 66 not invented, 67 every update has a
cause); in addition the step-exhaustive interrupt injection sweep of C07 (an interrupt of every device at every
event-loop step of a window, also in the middle of master and nested ticks) is judged by the callback oracle alone:
whatever the interrupt does, every callback a device asked for is still served -- up to the end of the run."""
import slevel
import sprops
from common import run_shards
from props import c07

PID = "C06"


def injection_part(ck, tier, rng):
    icases, _ = c07.s_part(ck, tier, rng)
    iterms = [slevel.render_sim_case(c["cfg"], c["devs"], (1, 1), c.get("initial", 0), [], 1_300_000_003, c["run"]) for c in icases]
    ibad = run_shards(PID + "_i", sprops.HEADER, "sim_case", "oracle_c06", iterms, shard_size=60)
    ck.coverage["injection_sweep_runs_judged_by_the_callback_oracle"] = len(icases)
    for i in sorted(ibad):
        c = icases[i]
        ck.report(sprops.REASONS[65], f"interrupt of device c{c['device']} injected at loop step {c['step']} ({c['name']}): a callback "
                  "requested by a device is not served afterwards",
                  dict(kind="injection", initial=c.get("initial", 0), cfg={str(k): v for k, v in c["cfg"].items()}, devs={str(k): v for k, v in c["devs"].items()},
                       device=c["device"], step=c["step"], inj=c["inj"], ticklog=c["run"]["ticklog"][-12:], codes=ibad[i],
                       observed={str(k): [t for t, _ in v] for k, v in c["run"]["per"].items()}))
        break


def alert_sweep_part(ck, tier, rng):
    """a one-shot callback inside a system simulation and an interrupt of the same / a neighbouring inner device raised at every
    event-loop step around the instant the callback falls due -- on the recording bus, every step of the schedulers replayed in
    the alert protocol (Oracle/AlertReplay.v): the nested scheduler must take a due wakeup out of its table when it serves it
    (else the system simulation asks for a callback the protocol does not: 31) and leave the others alone"""
    import cbus
    EXT, EXP = 1, 2
    configs = [({1: dict(order=[(3, 2)], conns=[]), 2: dict(order=[(4, "dev"), (5, "dev")], conns=[(4, 1, 5, 1)])},
                {4: (7, 300_000_000, 2), 5: (7, 300_000_000, 0)}),
               ({1: dict(order=[(3, "dev"), (4, 2)], conns=[(3, 1, 4, 1)]),
                 2: dict(order=[(5, "dev"), (6, "dev")], conns=[(EXT, 1, 5, 1), (5, 1, EXP, 1)])},
                {3: (9, 300_000_000, 1), 5: (9, 300_000_000, 0), 6: (9, 300_000_000, 2)})]
    t_end = 700_000_003
    cases, terms = [], []
    for cfg, devs in configs:
        base = slevel.run_internal(cfg, devs, (1, 1), 0, [], t_end, bus=cbus.CBus(rng, "fifo"))
        nsteps = base["steps"] or 200
        for d in [x for x in slevel.devices_of(cfg) if slevel.path_of(cfg, x)[1]]:
            for k in range(1, nsteps, 1 if tier == "thorough" else 2):
                r = slevel.run_internal(cfg, devs, (1, 1), 0, [], t_end, inject=(k, d), bus=cbus.CBus(rng, "fifo"))
                if not r["inj"] or not r["inj"]["started"] or r["alert"] is None or r["inj"]["real"] >= t_end:
                    continue          # (an interrupt raised at the very end of the run is cut off before its tick is over)
                cases.append(dict(cfg=cfg, devs=devs, device=d, step=k, run=r))
                terms.append(slevel.render_alert(cfg, 0, r["alert"]))
    bad = run_shards(PID + "_alert", c07.ALERT_HEADER, "alert_case", "check_alert_case", terms, shard_size=40)
    ck.coverage.update(alert_sweep_runs=len(cases), alert_sweep_disagreements=len(bad))
    for i in sorted(bad):
        c = cases[i]
        code = bad[i][0]
        ck.report("nested-callback-bookkeeping-leaves-the-alert-protocol",
                  f"interrupt of device c{c['device']} injected at loop step {c['step']}: {c07.ALERT_REASONS.get(code, code)}",
                  dict(kind="alert_sweep", cfg={str(k): v for k, v in c["cfg"].items()}, devs={str(k): list(v) for k, v in c["devs"].items()},
                       device=c["device"], step=c["step"], codes=bad[i],
                       events_around=[list(map(str, e)) for e in c["run"]["alert"][max(0, (bad[i][1] if len(bad[i]) > 1 else 0) - 12):(bad[i][1] if len(bad[i]) > 1 else 0) + 2]],
                       broken="correspondence Model/Alert.v vs the real schedulers; C06_nested_callback_is_source"), no_input=(code != 31))
        break


def both_parts(ck, tier, rng):
    injection_part(ck, tier, rng)
    alert_sweep_part(ck, tier, rng)


def main(tier, seed):
    return sprops.main_S(PID, tier, seed, {65, 66, 67}, "Props.C06",
                         ["Model/Sim.v", "Model/Master.v", "Oracle/SimCheck.v", "Oracle/SimOracle.v", "Proofs/MasterP.v", "Model/PyLib.v", "Gen/SourceFuns.v", "Proofs/GenWakeupsP.v", "Proofs/GenNestedEpilogueP.v", "Model/Alert.v", "Oracle/AlertReplay.v", "Proofs/AlertP.v", "Proofs/AlertReplayP.v", "Props/C06.v"],
                         "callbacks", "callbacks", extra=both_parts)


def replay(rp):
    if rp.get("kind") == "alert_sweep":
        import cbus
        import random
        cfg = {int(k): dict(order=[(c, kk) for c, kk in v["order"]], conns=[tuple(x) for x in v["conns"]]) for k, v in rp["cfg"].items()}
        devs = {int(k): tuple(v) for k, v in rp["devs"].items()}
        r = slevel.run_internal(cfg, devs, (1, 1), 0, [], 700_000_003, inject=(rp["step"], rp["device"]), bus=cbus.CBus(random.Random(0), "fifo"))
        bad = run_shards("replay", c07.ALERT_HEADER, "alert_case", "check_alert_case", [slevel.render_alert(cfg, 0, r["alert"])])
        codes = bad.get(0, [])
        if len(codes) > 1:
            for j, e in enumerate(r["alert"][max(0, codes[1] - 12):codes[1] + 2]):
                print("  ", max(0, codes[1] - 12) + j, e)
        print("interrupt of device", rp["device"], "at step", rp["step"], "codes:", codes)
        return 1 if bad else 0
    if rp.get("kind") == "injection":
        cfg = {int(k): dict(order=[(c, kk) for c, kk in v["order"]], conns=[tuple(x) for x in v["conns"]]) for k, v in rp["cfg"].items()}
        devs = {int(k): tuple(v) for k, v in rp["devs"].items()}
        r = slevel.run_internal(cfg, devs, (1, 1), rp.get("initial", 0), [], 1_300_000_003, inject=(rp["step"], rp["device"]))
        bad = run_shards("replay", sprops.HEADER, "sim_case", "oracle_c06", [slevel.render_sim_case(cfg, devs, (1, 1), rp.get("initial", 0), [], 1_300_000_003, r)])
        print("injection", rp["device"], "at step", rp["step"], "updates:", {k: [t for t, _ in v] for k, v in r["per"].items()})
        print("codes:", bad.get(0, []))
        return 1 if bad else 0
    return sprops.replay_S(rp)
