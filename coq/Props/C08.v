(* C08 -- results do not depend on message timing.  Ticker level: for deterministic
   components the dispatch (kind and changes) of every component of a tick is the same under
   every order in which the components answer.  Property theorems only. *)
From TV Require Import Base Model.Wiring Model.Ticker Proofs.WiringP Proofs.TickerP.

(* two arbitrary runs of the same tick (same wiring, time, roots), possibly incomplete and
   under different answer orders, whose answers are given by one deterministic function of
   what each component was handed: any component dispatched in both is dispatched
   identically (same kind, same time, same changes as a map) *)
Theorem C08_ticker_confluent :
  forall conns comps t roots (rank : comp -> nat) (dev : comp -> changes -> changes),
    single_source conns ->
    (forall k, In k conns -> (rank (out_comp k) < rank (in_comp k))%nat) ->
    (forall c x y, ch_equiv x y -> dev c x = dev c y) ->
    (forall c x, NoDup (keys (dev c x))) ->
    forall ext1 st1 tr1 ext2 st2 tr2,
      Run conns comps t roots ext1 st1 tr1 -> Run conns comps t roots ext2 st2 tr2 ->
      answers_by dev tr1 -> answers_by dev tr2 ->
      forall a1 a2, In (EDispatch a1) tr1 -> In (EDispatch a2) tr2 ->
      act_comp a1 = act_comp a2 -> action_equiv a1 a2.
Proof.
  intros conns comps t roots rank dev Hss Hrank Hext Hwf ext1 st1 tr1 ext2 st2 tr2.
  apply (confluent conns comps t roots Hss rank Hrank dev Hext Hwf).
Qed.

(* the two runs also involve the same participants, and a finished run has dispatched all of
   them: so complete runs dispatch exactly the same set of components *)
Theorem C08_same_participants : forall conns comps t roots ext1 st1 tr1 ext2 st2 tr2,
  Run conns comps t roots ext1 st1 tr1 -> Run conns comps t roots ext2 st2 tr2 ->
  todo st1 = [] -> todo st2 = [] ->
  forall c, dispatched tr1 c <-> dispatched tr2 c.
Proof.
  intros conns comps t roots ext1 st1 tr1 ext2 st2 tr2 R1 R2 E1 E2 c.
  destruct (run_ext conns comps t roots ext1 st1 tr1 R1) as [s1 [S1 X1]].
  destruct (run_ext conns comps t roots ext2 st2 tr2 R2) as [s2 [S2 X2]].
  rewrite S1 in S2. inversion S2; subst s2. subst.
  assert (I1 := run_inv conns comps t roots _ st1 tr1 R1). assert (I2 := run_inv conns comps t roots _ st2 tr2 R2).
  split; intros H.
  - apply (run_finished conns comps t roots _ st2 tr2 R2 E2). apply (i_disp_ext _ _ _ _ _ _ I1). exact H.
  - apply (run_finished conns comps t roots _ st1 tr1 R1 E1). apply (i_disp_ext _ _ _ _ _ _ I2). exact H.
Qed.

Example C08_placeholder_nonvacuous : acyclic [(1, 1, 2, 1); (1, 1, 3, 1); (2, 1, 4, 1); (3, 1, 4, 2)]%positive.
Proof.
  exists (fun c => Pos.to_nat c). intros k Hk. simpl in Hk.
  repeat (destruct Hk as [<-|Hk]; [simpl; lia|]). destruct Hk.
Qed.
