From TV Require Import Base.
Example C13_placeholder : True. Proof. exact I. Qed.
