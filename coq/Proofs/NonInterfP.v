(* Non-interference of a disconnected part within one tick of a flat level (C10). *)
From TV Require Import Base Model.Wiring Model.Ticker Model.Component Model.Sim Proofs.SimP.
Open Scope Z_scope.

Lemma get_d_upd_same {A} k (v : list A) l : get_d k (upd k v l) = v.
Proof. unfold get_d. rewrite lookup_upd_same. reflexivity. Qed.
Lemma get_d_upd_other {A} k k2 (v : list A) l : k2 <> k -> get_d k2 (upd k v l) = get_d k2 l.
Proof. intros H. unfold get_d. rewrite lookup_upd_other by exact H. reflexivity. Qed.

Lemma fold_left_filter_id {A B} (f : A -> B -> A) (g : B -> bool) l :
  (forall a k, In k l -> g k = false -> f a k = a) ->
  forall a, fold_left f l a = fold_left f (filter g l) a.
Proof.
  induction l as [|k r IH]; intros H a; [reflexivity|]. cbn [fold_left filter].
  destruct (g k) eqn:E.
  - cbn [fold_left]. apply IH. intros a0 k0 Hk. apply H. right. exact Hk.
  - rewrite (H a k (or_introl eq_refl) E). apply IH. intros a0 k0 Hk. apply H. right. exact Hk.
Qed.

Lemma existsb_filter_rel {B} (f' f : B -> bool) (g : B -> bool) l :
  (forall k, In k l -> f' k = g k && f k) -> existsb f' l = existsb f (filter g l).
Proof.
  induction l as [|k r IH]; intros H; [reflexivity|]. cbn [existsb filter].
  rewrite (H k (or_introl eq_refl)), IH by (intros k0 Hk; apply H; right; exact Hk).
  destruct (g k); reflexivity.
Qed.

(* route only looks at the wires leaving src *)
Lemma route_filter (conns' : list conn) (g : conn -> bool) src (ch : values) :
  (forall k, In k conns' -> out_comp k = src -> g k = true) ->
  route conns' src ch = route (filter g conns') src ch.
Proof.
  intros H. unfold route.
  assert (Hin : forall (c : port * Z) routed,
             fold_left (fun routed0 (k : conn) => let '(oc, op, ic, ip) := k in
                          if Pos.eqb oc src && Pos.eqb op (fst c) then upd ic (upd ip (snd c) (get_d ic routed0)) routed0 else routed0)
                       conns' routed =
             fold_left (fun routed0 (k : conn) => let '(oc, op, ic, ip) := k in
                          if Pos.eqb oc src && Pos.eqb op (fst c) then upd ic (upd ip (snd c) (get_d ic routed0)) routed0 else routed0)
                       (filter g conns') routed).
  { intros c routed. apply fold_left_filter_id. intros a [[[oc op] ic] ip] Hk Hg.
    destruct (Pos.eqb_spec oc src) as [E|Hne]; [|reflexivity].
    rewrite (H _ Hk E) in Hg. discriminate. }
  match goal with |- fold_left ?F ch ?a = fold_left ?G ch ?a => generalize a end.
  induction ch as [|c r IH]; intros acc; [reflexivity|].
  cbn [fold_left]. rewrite Hin. apply IH.
Qed.

(* the components a routed change reaches are wired to its source *)
Lemma route_keys (conns : list conn) src (ch : values) ic :
  In ic (keys (route conns src ch)) -> exists k, In k conns /\ out_comp k = src /\ in_comp k = ic.
Proof.
  unfold route.
  assert (Hgen : forall ch acc, (In ic (keys acc) -> exists k, In k conns /\ out_comp k = src /\ in_comp k = ic) ->
     In ic (keys (fold_left (fun routed (c : port * Z) =>
               fold_left (fun routed0 (k : conn) => let '(oc, op, ic0, ip) := k in
                          if Pos.eqb oc src && Pos.eqb op (fst c) then upd ic0 (upd ip (snd c) (get_d ic0 routed0)) routed0 else routed0)
                       conns routed) ch acc)) -> exists k, In k conns /\ out_comp k = src /\ in_comp k = ic).
  { induction ch0 as [|c r IH]; intros acc Hacc; [exact Hacc|]. cbn [fold_left]. apply IH.
    assert (Hi : forall l acc0, (forall k, In k l -> In k conns) ->
               (In ic (keys acc0) -> exists k, In k conns /\ out_comp k = src /\ in_comp k = ic) ->
               In ic (keys (fold_left (fun routed0 (k : conn) => let '(oc, op, ic0, ip) := k in
                          if Pos.eqb oc src && Pos.eqb op (fst c) then upd ic0 (upd ip (snd c) (get_d ic0 routed0)) routed0 else routed0) l acc0)) ->
               exists k, In k conns /\ out_comp k = src /\ in_comp k = ic).
    { induction l as [|[[[oc op] ic0] ip] l IHl]; intros acc0 Hsub Ha; [exact Ha|]. cbn [fold_left].
      apply IHl; [intros k Hk; apply Hsub; right; exact Hk|].
      destruct (Pos.eqb_spec oc src) as [E|Hne]; cbn [andb]; [|exact Ha].
      destruct (Pos.eqb op (fst c)); [|exact Ha].
      intros Hin. apply in_keys_upd in Hin. destruct Hin as [E2|Hin]; [|apply Ha; exact Hin].
      exists (oc, op, ic0, ip). split; [apply Hsub; left; reflexivity|]. split; [exact E | symmetry; exact E2]. }
    apply Hi; [auto | exact Hacc]. }
  apply Hgen. intros [].
Qed.

Lemma accumulate_rel (P : comp -> Prop) r : forall m m',
  (forall c, P c -> get_d c m' = get_d c m) ->
  forall c, P c -> get_d c (accumulate m' r) = get_d c (accumulate m r).
Proof.
  unfold accumulate. induction r as [|[k d] r IH]; intros m m' H c Hc; cbn [fold_left]; [apply H; exact Hc|].
  apply IH; [|exact Hc]. intros c0 Hc0. cbn [fst snd].
  destruct (Pos.eqb_spec c0 k) as [E|Hne].
  - rewrite E, !get_d_upd_same. f_equal. apply H. rewrite <- E. exact Hc0.
  - rewrite !get_d_upd_other by exact Hne. apply H. exact Hc0.
Qed.

Lemma accumulate_other r : forall (m : list (comp * changes)) c, ~ In c (keys r) -> get_d c (accumulate m r) = get_d c m.
Proof.
  unfold accumulate. induction r as [|[k d] r IH]; intros m c Hc; cbn [fold_left]; [reflexivity|].
  cbn [keys map fst] in Hc. rewrite IH by (intros Hi; apply Hc; right; exact Hi).
  cbn [fst snd]. apply get_d_upd_other. intros E. apply Hc. left. symmetry. exact E.
Qed.

Lemma memb_app c l1 l2 : memb c (l1 ++ l2) = memb c l1 || memb c l2.
Proof. unfold memb. apply existsb_app. Qed.

Lemma wake_of_set_wake s lv w : wake_of (set_wake s lv w) lv = w.
Proof. unfold wake_of, set_wake. cbn [s_wake]. apply get_d_upd_same. Qed.

Lemma filter_upd_keep {A} (g : positive -> bool) k (v : A) l :
  g k = true ->
  filter (fun e : positive * A => g (fst e)) (upd k v l) = upd k v (filter (fun e : positive * A => g (fst e)) l).
Proof.
  intros Hk. induction l as [|[k' v'] r IH]; cbn [upd filter fst].
  - rewrite Hk. reflexivity.
  - destruct (Pos.eqb_spec k k') as [E|Hne].
    + subst k'. cbn [filter fst]. rewrite Hk. cbn [upd]. rewrite Pos.eqb_refl. reflexivity.
    + cbn [filter fst]. destruct (g k') eqn:Ek'.
      * cbn [upd]. destruct (Pos.eqb_spec k k'); [contradiction|]. rewrite IH. reflexivity.
      * exact IH.
Qed.

Lemma filter_upd_drop {A} (g : positive -> bool) k (v : A) l :
  g k = false ->
  filter (fun e : positive * A => g (fst e)) (upd k v l) = filter (fun e : positive * A => g (fst e)) l.
Proof.
  intros Hk. induction l as [|[k' v'] r IH]; cbn [upd filter fst].
  - rewrite Hk. reflexivity.
  - destruct (Pos.eqb_spec k k') as [E|Hne].
    + subst k'. cbn [filter fst]. rewrite Hk. reflexivity.
    + cbn [filter fst]. rewrite IH. reflexivity.
Qed.

Section NI.
Variable devf : devfun.
Variable inner inner' : positive -> Z -> values -> sstate -> sstate * values * option Z * list obs.
Variable isX : comp -> bool.          (* the added, disconnected part *)
Variable lv : positive.
Variable conns' : list conn.          (* wires of the extended level *)
Definition oldc (k : conn) : bool := negb (isX (in_comp k)).
Definition cs0 : list conn := filter oldc conns'.      (* wires of the base level *)
Hypothesis Hsep : forall k, In k conns' -> isX (out_comp k) = isX (in_comp k).
Hypothesis Hext : isX ext_id = false.
Hypothesis Hexp : isX exp_id = false.
Variable time : Z.
Variable roots roots' : list comp.
Hypothesis Hroots : forall c, isX c = false -> memb c roots' = memb c roots.
Variable ext : values.

Definition notX (o : obs) : bool := negb (isX (obs_comp o)).

Definition srel (s s' : sstate) : Prop :=
  (forall c, isX c = false -> lookup c (s_dc s') = lookup c (s_dc s)) /\
  (forall c, isX c = false -> lookup c (s_n s') = lookup c (s_n s)) /\
  filter (fun e : comp * Z => negb (isX (fst e))) (wake_of s' lv) = wake_of s lv.

Definition arel (a a' : tacc) : Prop :=
  srel (ta_s a) (ta_s a') /\
  (forall c, isX c = false -> get_d c (ta_in a') = get_d c (ta_in a)) /\
  (forall c, isX c = false -> memb c (ta_touched a') = memb c (ta_touched a)) /\
  ta_out a' = ta_out a /\
  filter notX (ta_obs a') = ta_obs a.

Lemma route_old c (ch : values) : isX c = false -> route conns' c ch = route cs0 c ch.
Proof.
  intros Hc. unfold cs0. apply route_filter. intros k Hk E. unfold oldc.
  rewrite <- (Hsep k Hk), E, Hc. reflexivity.
Qed.

Lemma route_new_keys c (ch : values) c0 : isX c = true -> isX c0 = false -> ~ In c0 (keys (route conns' c ch)).
Proof.
  intros Hc Hc0 Hin. apply route_keys in Hin. destruct Hin as [k [Hk [E1 E2]]].
  pose proof (Hsep k Hk) as H. rewrite E1, E2, Hc, Hc0 in H. discriminate.
Qed.

Lemma extent_old a a' c : isX c = false -> arel a a' ->
  in_extent conns' roots' (ta_touched a') c = in_extent cs0 roots (ta_touched a) c.
Proof.
  intros Hc [_ [_ [Ht _]]]. unfold in_extent. rewrite (Hroots c Hc). f_equal.
  unfold cs0. apply existsb_filter_rel. intros k Hk. unfold oldc.
  destruct (Pos.eqb_spec (in_comp k) c) as [E|Hne]; cbn [andb].
  - assert (Hi : isX (in_comp k) = false) by (rewrite E; exact Hc).
    rewrite Hi. cbn [negb andb]. apply Ht. rewrite (Hsep k Hk). exact Hi.
  - rewrite andb_false_r. reflexivity.
Qed.

Lemma touched_rel a a' c :
  (forall c0, isX c0 = false -> memb c0 (ta_touched a') = memb c0 (ta_touched a)) ->
  forall c0, isX c0 = false -> memb c0 (ta_touched a' ++ [c]) = memb c0 (ta_touched a ++ [c]).
Proof. intros H c0 Hc0. rewrite !memb_app, (H c0 Hc0). reflexivity. Qed.

Lemma step_old a a' c : isX c = false -> arel a a' ->
  arel (tick_step devf inner lv cs0 time roots ext a (c, KDev))
       (tick_step devf inner' lv conns' time roots' ext a' (c, KDev)).
Proof.
  intros Hc Hrel. unfold tick_step. cbn [fst snd].
  rewrite (extent_old a a' c Hc Hrel).
  destruct (in_extent cs0 roots (ta_touched a) c); [|exact Hrel].
  destruct Hrel as [Hs [Hin [Ht [Ho Hob]]]].
  rewrite (Hin c Hc), (Hroots c Hc).
  destruct (nonempty (get_d c (ta_in a)) || memb c roots).
  - destruct (Pos.eqb c ext_id).
    + split; [exact Hs|]. split; [|split; [apply touched_rel; exact Ht | split; [exact Ho | exact Hob]]].
      cbn [ta_in]. rewrite (route_old c ext Hc). apply accumulate_rel. exact Hin.
    + destruct (Pos.eqb c exp_id).
      * split; [exact Hs|]. split; [exact Hin|]. split; [apply touched_rel; exact Ht|]. split; [reflexivity | exact Hob].
      * destruct Hs as [Hdc [Hn Hw]].
        unfold dev_update. rewrite (Hdc c Hc), (Hn c Hc).
        set (st := match lookup c (s_dc (ta_s a)) with Some x => x | None => dc_init end).
        set (n := match lookup c (s_n (ta_s a)) with Some x => x | None => 0 end + 1).
        destruct (devf c n time (merge (d_inputs st) (get_d c (ta_in a)))) as [outs ca].
        assert (Hs1 : srel
          {| s_dc := upd c {| d_inputs := merge (d_inputs st) (get_d c (ta_in a)); d_last := outs |} (s_dc (ta_s a));
             s_n := upd c n (s_n (ta_s a)); s_wake := s_wake (ta_s a); s_int := s_int (ta_s a);
             s_ticked := s_ticked (ta_s a); s_log := s_log (ta_s a) |}
          {| s_dc := upd c {| d_inputs := merge (d_inputs st) (get_d c (ta_in a)); d_last := outs |} (s_dc (ta_s a'));
             s_n := upd c n (s_n (ta_s a')); s_wake := s_wake (ta_s a'); s_int := s_int (ta_s a');
             s_ticked := s_ticked (ta_s a'); s_log := s_log (ta_s a') |}).
        { split; [|split].
          - intros c0 Hc0. cbn [s_dc]. rewrite !lookup_upd. destruct (Pos.eqb c0 c); [reflexivity | apply Hdc; exact Hc0].
          - intros c0 Hc0. cbn [s_n]. rewrite !lookup_upd. destruct (Pos.eqb c0 c); [reflexivity | apply Hn; exact Hc0].
          - exact Hw. }
        assert (Hrest : forall s2 s2', srel s2 s2' ->
           arel {| ta_s := s2; ta_in := accumulate (ta_in a) (route cs0 c (diff_outputs (d_last st) outs));
                   ta_touched := ta_touched a ++ [c]; ta_out := ta_out a;
                   ta_obs := ta_obs a ++ [(c, time, merge (d_inputs st) (get_d c (ta_in a)))] |}
                {| ta_s := s2'; ta_in := accumulate (ta_in a') (route conns' c (diff_outputs (d_last st) outs));
                   ta_touched := ta_touched a' ++ [c]; ta_out := ta_out a';
                   ta_obs := ta_obs a' ++ [(c, time, merge (d_inputs st) (get_d c (ta_in a)))] |}).
        { intros s2 s2' H2. split; [exact H2|]. split; [|split; [apply touched_rel; exact Ht | split; [exact Ho|]]].
          - cbn [ta_in]. rewrite (route_old c _ Hc). apply accumulate_rel. exact Hin.
          - cbn [ta_obs]. rewrite filter_app, Hob. cbn [filter]. unfold notX at 1. unfold obs_comp. cbn [fst]. rewrite Hc. reflexivity. }
        destruct ca as [w|]; [|apply Hrest; exact Hs1].
        apply Hrest. destruct Hs1 as [H1 [H2 H3]]. split; [exact H1|]. split; [exact H2|].
        rewrite !wake_of_set_wake. rewrite (filter_upd_keep (fun k => negb (isX k))) by (rewrite Hc; reflexivity).
        f_equal. exact H3.
  - split; [exact Hs|]. split; [exact Hin|]. split; [apply touched_rel; exact Ht|]. split; [exact Ho | exact Hob].
Qed.

(* a component of the added part: whatever it does, the relation is kept *)
Lemma step_new a a' c : isX c = true -> arel a a' ->
  arel a (tick_step devf inner' lv conns' time roots' ext a' (c, KDev)).
Proof.
  intros Hc Hrel. unfold tick_step. cbn [fst snd].
  destruct (in_extent conns' roots' (ta_touched a') c); [|exact Hrel].
  destruct Hrel as [Hs [Hin [Ht [Ho Hob]]]].
  assert (Htn : forall c0, isX c0 = false -> memb c0 (ta_touched a' ++ [c]) = memb c0 (ta_touched a)).
  { intros c0 Hc0. rewrite memb_app, (Ht c0 Hc0). cbn [memb existsb].
    destruct (Pos.eqb_spec c0 c) as [E|_]; [rewrite E, Hc in Hc0; discriminate|]. rewrite !orb_false_r. reflexivity. }
  destruct (nonempty (get_d c (ta_in a')) || memb c roots').
  - destruct (Pos.eqb_spec c ext_id) as [E|_]; [rewrite E, Hext in Hc; discriminate|].
    destruct (Pos.eqb_spec c exp_id) as [E|_]; [rewrite E, Hexp in Hc; discriminate|].
    destruct Hs as [Hdc [Hn Hw]].
    unfold dev_update.
    set (st := match lookup c (s_dc (ta_s a')) with Some x => x | None => dc_init end).
    set (n := match lookup c (s_n (ta_s a')) with Some x => x | None => 0 end + 1).
    destruct (devf c n time (merge (d_inputs st) (get_d c (ta_in a')))) as [outs ca].
    assert (Hne : forall c0, isX c0 = false -> c0 <> c) by (intros c0 Hc0 E; rewrite E, Hc in Hc0; discriminate).
    assert (Hs1 : srel (ta_s a)
          {| s_dc := upd c {| d_inputs := merge (d_inputs st) (get_d c (ta_in a')); d_last := outs |} (s_dc (ta_s a'));
             s_n := upd c n (s_n (ta_s a')); s_wake := s_wake (ta_s a'); s_int := s_int (ta_s a');
             s_ticked := s_ticked (ta_s a'); s_log := s_log (ta_s a') |}).
    { split; [|split].
      - intros c0 Hc0. cbn [s_dc]. rewrite lookup_upd_other by (apply Hne; exact Hc0). apply Hdc; exact Hc0.
      - intros c0 Hc0. cbn [s_n]. rewrite lookup_upd_other by (apply Hne; exact Hc0). apply Hn; exact Hc0.
      - exact Hw. }
    assert (Hrest : forall s2', srel (ta_s a) s2' ->
           arel a
                {| ta_s := s2'; ta_in := accumulate (ta_in a') (route conns' c (diff_outputs (d_last st) outs));
                   ta_touched := ta_touched a' ++ [c]; ta_out := ta_out a';
                   ta_obs := ta_obs a' ++ [(c, time, merge (d_inputs st) (get_d c (ta_in a')))] |}).
    { intros s2' H2. split; [exact H2|]. split; [|split; [exact Htn | split; [exact Ho|]]].
      - intros c0 Hc0. cbn [ta_in]. rewrite accumulate_other by (apply route_new_keys; assumption). apply Hin. exact Hc0.
      - cbn [ta_obs]. rewrite filter_app, Hob. cbn [filter]. unfold notX at 1. unfold obs_comp. cbn [fst]. rewrite Hc.
        cbn [negb]. apply app_nil_r. }
    destruct ca as [w|]; [|apply Hrest; exact Hs1].
    apply Hrest. destruct Hs1 as [H1 [H2 H3]]. split; [exact H1|]. split; [exact H2|].
    rewrite wake_of_set_wake. rewrite (filter_upd_drop (fun k => negb (isX k))) by (rewrite Hc; reflexivity). exact H3.
  - split; [exact Hs|]. split; [exact Hin|]. split; [exact Htn|]. split; [exact Ho | exact Hob].
Qed.

Lemma filter_all_false {A} (f : A -> bool) l : (forall x, In x l -> f x = false) -> filter f l = [].
Proof.
  induction l as [|x r IH]; intros H; [reflexivity|]. cbn [filter]. rewrite (H x (or_introl eq_refl)).
  apply IH. intros y Hy. apply H. right. exact Hy.
Qed.

(* a system simulation of the added part: whatever happens inside stays inside *)
Definition xframed (s s2 : sstate) (ob : list obs) : Prop :=
  (forall c, isX c = false -> lookup c (s_dc s2) = lookup c (s_dc s) /\ lookup c (s_n s2) = lookup c (s_n s)) /\
  wake_of s2 lv = wake_of s lv /\ (forall o, In o ob -> isX (obs_comp o) = true).

Definition okkind (ck : comp * ckind) : Prop :=
  match snd ck with
  | KDev => True
  | KSys lv' => isX (fst ck) = true /\
                forall t chg s, let '(s2, _, _, ob) := inner' lv' t chg s in xframed s s2 ob
  end.

Lemma step_new_sys a a' c lv' : isX c = true ->
  (forall t chg s, let '(s2, _, _, ob) := inner' lv' t chg s in xframed s s2 ob) ->
  arel a a' ->
  arel a (tick_step devf inner' lv conns' time roots' ext a' (c, KSys lv')).
Proof.
  intros Hc Hfr Hrel. unfold tick_step. cbn [fst snd].
  destruct (in_extent conns' roots' (ta_touched a') c); [|exact Hrel].
  destruct Hrel as [Hs [Hin [Ht [Ho Hob]]]].
  assert (Htn : forall c0, isX c0 = false -> memb c0 (ta_touched a' ++ [c]) = memb c0 (ta_touched a)).
  { intros c0 Hc0. rewrite memb_app, (Ht c0 Hc0). cbn [memb existsb].
    destruct (Pos.eqb_spec c0 c) as [E|_]; [rewrite E, Hc in Hc0; discriminate|]. rewrite !orb_false_r. reflexivity. }
  destruct (nonempty (get_d c (ta_in a')) || memb c roots').
  - destruct (Pos.eqb_spec c ext_id) as [E|_]; [rewrite E, Hext in Hc; discriminate|].
    destruct (Pos.eqb_spec c exp_id) as [E|_]; [rewrite E, Hexp in Hc; discriminate|].
    specialize (Hfr time (get_d c (ta_in a')) (ta_s a')).
    destruct (inner' lv' time (get_d c (ta_in a')) (ta_s a')) as [[[s1 ch] ca] ob1].
    destruct Hfr as [Hdcn [Hwk Hox]]. destruct Hs as [Hdc [Hn Hw]].
    assert (Hs1 : srel (ta_s a) s1).
    { split; [|split].
      - intros c0 Hc0. rewrite (proj1 (Hdcn c0 Hc0)). apply Hdc. exact Hc0.
      - intros c0 Hc0. rewrite (proj2 (Hdcn c0 Hc0)). apply Hn. exact Hc0.
      - rewrite Hwk. exact Hw. }
    assert (Hrest : forall s2', srel (ta_s a) s2' ->
           arel a {| ta_s := s2'; ta_in := accumulate (ta_in a') (route conns' c ch);
                     ta_touched := ta_touched a' ++ [c]; ta_out := ta_out a'; ta_obs := ta_obs a' ++ ob1 |}).
    { intros s2' H2. split; [exact H2|]. split; [|split; [exact Htn | split; [exact Ho|]]].
      - intros c0 Hc0. cbn [ta_in]. rewrite accumulate_other by (apply route_new_keys; assumption). apply Hin. exact Hc0.
      - cbn [ta_obs]. rewrite filter_app, Hob. rewrite (filter_all_false notX ob1); [apply app_nil_r|].
        intros o Hoi. unfold notX. rewrite (Hox o Hoi). reflexivity. }
    destruct ca as [w|]; [|apply Hrest; exact Hs1].
    apply Hrest. destruct Hs1 as [H1 [H2 H3]]. split; [exact H1|]. split; [exact H2|].
    rewrite wake_of_set_wake. rewrite (filter_upd_drop (fun k => negb (isX k))) by (rewrite Hc; reflexivity). exact H3.
  - split; [exact Hs|]. split; [exact Hin|]. split; [exact Htn|]. split; [exact Ho | exact Hob].
Qed.

(* the components of the extended level, processed in any order that keeps the base order *)
Lemma fold_rel order' : (forall ck, In ck order' -> okkind ck) ->
  forall a a', arel a a' ->
  arel (fold_left (tick_step devf inner lv cs0 time roots ext) (filter (fun ck : comp * ckind => negb (isX (fst ck))) order') a)
       (fold_left (tick_step devf inner' lv conns' time roots' ext) order' a').
Proof.
  induction order' as [|[c k] r IH]; intros Hk a a' Hrel; [exact Hrel|].
  pose proof (Hk (c, k) (or_introl eq_refl)) as Hck. unfold okkind in Hck. cbn [fst snd] in Hck.
  cbn [fold_left filter fst]. destruct k as [|lv'].
  - destruct (isX c) eqn:Ec; cbn [negb].
    + apply IH; [intros ck H; apply Hk; right; exact H|]. apply step_new; assumption.
    + cbn [fold_left]. apply IH; [intros ck H; apply Hk; right; exact H|]. apply step_old; assumption.
  - destruct Hck as [Ec Hfr]. rewrite Ec. cbn [negb].
    apply IH; [intros ck H; apply Hk; right; exact H|]. apply step_new_sys; assumption.
Qed.
End NI.

(* one whole tick of a flat level and of the level extended by a disconnected part *)
Theorem tick_noninterference cfg cfg' devf inner inner' (isX : comp -> bool) lv time roots roots' ext s s' :
  let l := level_of cfg lv in
  let l' := level_of cfg' lv in
  l_order l = filter (fun ck : comp * ckind => negb (isX (fst ck))) (l_order l') ->
  l_conns l = filter (oldc isX) (l_conns l') ->
  (forall ck, In ck (l_order l') -> okkind inner' isX lv ck) ->
  (forall k, In k (l_conns l') -> isX (out_comp k) = isX (in_comp k)) ->
  isX ext_id = false -> isX exp_id = false ->
  (forall c, isX c = false -> memb c roots' = memb c roots) ->
  srel isX lv s s' ->
  let '(s1, out, ob) := tick_with cfg devf inner lv time roots ext s in
  let '(s1', out', ob') := tick_with cfg' devf inner' lv time roots' ext s' in
  srel isX lv s1 s1' /\ out' = out /\ filter (notX isX) ob' = ob.
Proof.
  intros l l' Hord Hcon Hk Hsep Hext Hexp Hroots Hs. unfold tick_with. fold l. fold l'.
  assert (Hall : all_of l = filter (fun ck : comp * ckind => negb (isX (fst ck))) (all_of l')).
  { unfold all_of. cbn [filter fst]. rewrite Hext. cbn [negb]. rewrite filter_app. cbn [filter fst].
    rewrite Hexp. cbn [negb]. rewrite Hord. reflexivity. }
  rewrite Hall, Hcon.
  assert (Hk' : forall ck, In ck (all_of l') -> okkind inner' isX lv ck).
  { unfold all_of. intros ck [E|Hi]; [subst ck; exact I|]. apply in_app_iff in Hi.
    destruct Hi as [Hi|[E|[]]]; [apply Hk; exact Hi | subst ck; exact I]. }
  pose proof (fold_rel devf inner inner' isX lv (l_conns l') Hsep Hext Hexp time roots roots' Hroots ext (all_of l') Hk'
                {| ta_s := s; ta_in := []; ta_touched := []; ta_out := []; ta_obs := [] |}
                {| ta_s := s'; ta_in := []; ta_touched := []; ta_out := []; ta_obs := [] |}) as H.
  unfold cs0 in H.
  destruct H as [H1 [_ [_ [H4 H5]]]].
  - split; [exact Hs|]. split; [reflexivity|]. split; [reflexivity|]. split; reflexivity.
  - auto.
Qed.
