(* C07 -- every interrupt is served promptly whenever it arrives.
   Message-level model of the master scheduler.  What the model cannot exhibit: interleavings
   finer than a handler (a delivery while callbacks are still queued) and real OS timers -- those
   are explored by the step-injection sweep of the correspondence run.  For interrupts raised
   inside nested systems the nested scheduler queues the component and raises on behalf of the
   system (Model/Sim.v [raise_interrupt]); the system's Output then asks to be called back at once.
   NESTED, AT ANY DEPTH, AT ANY MOMENT ([C07_no_interrupt_lost_at_any_depth], [C07_master_keeps_a_wakeup_for_it]): the alert
   protocol of Model/Alert.v -- per scheduler the wakeup table, the pending interrupts, the messages in flight to it
   (per-source FIFO), the running tick -- with the steps of the code (a device raises an interrupt at any moment; the
   master / a nested scheduler is handed one; ticks start; components are handed their Input, passed over, answer; a
   system simulation whose tick has ended asks to be called back at once when an interrupt is pending inside, at its earliest
   inner wakeup otherwise) in ANY interleaving: in every reachable state in which nothing is running and nothing is in
   flight, a device that has raised an interrupt and has not been updated since is queued in its scheduler, every system
   simulation around it is queued in (or has a wakeup by hi in) the scheduler around it, and the outermost one has a
   wakeup at the master no later than hi, the latest simulation time the master has used.  The invariant (Proofs/AlertP.v)
   is "what a system simulation is going to get (after the messages in flight have been delivered in their order) is no
   later than what its inside needs"; it covers the race repaired by 3a4bf5c (the callback of the system's Output
   replacing the wakeup an interrupt has just left) and the callbacks of nested systems.  TIE: the harness records what
   the real schedulers and components do on the delaying bus with interrupts racing with running ticks and
   Oracle/AlertReplay.v replays it step by step ([C07_replayed_run_is_a_run_of_the_protocol]).
   Property theorems only. *)
From TV Require Import Base Gen.SourceConsts Model.Wiring Model.Ticker Model.Component Model.Sim Model.Master Model.WakeFlag
  Proofs.MasterP Proofs.WakeFlagP Model.PyLib Gen.SourceFuns Proofs.GenInterruptP
  Model.Alert Proofs.AlertP Oracle.AlertReplay Proofs.AlertReplayP.
Open Scope Z_scope.

(* not lost: in any phase once the scheduler has started, the interrupt gives the component a
   wakeup no later than the simulation time corresponding to its arrival -- and never later than a
   wakeup that was already pending for it *)
Theorem C07_not_lost : forall conns comps initial num den m r c m' outs,
  step conns comps initial num den m r (IInterrupt c) = (m', outs) -> mp m <> PInit -> mp m <> PStopped ->
  exists w, lookup c (mw m') = Some w /\ w <= stamp num den m r /\
            (forall w0, lookup c (mw m) = Some w0 -> w <= w0).
Proof. intros conns comps initial num den m r c m' outs. apply interrupt_owed. Qed.

(* prompt: if no tick is running, the sleep the scheduler arms ends now -- it does not wait for
   any other callback *)
Theorem C07_prompt_when_idle : forall conns comps initial num den,
  0 < num -> 0 < den -> forall m r c m' outs,
  step conns comps initial num den m r (IInterrupt c) = (m', outs) -> ma_r m <= r ->
  (mp m = PIdle \/ exists w0 r0 d0, mp m = PSleep w0 r0 d0) ->
  exists when roots, mp m' = PSleep when roots r /\ outs = [OArm r] /\ when <= stamp num den m r.
Proof. intros conns comps initial num den Hn Hd m r c m' outs. apply interrupt_prompt_when_idle; assumption. Qed.

(* whenever the scheduler plans a sleep (after a tick, after any interrupt) it never sleeps past
   the due time of ANY pending wakeup: a pending interrupt is delayed by tick processing only *)
Theorem C07_never_sleeps_past_pending : forall num den, 0 < num -> 0 < den ->
  forall m r c w m' outs, plan num den m r = (m', outs) -> In (c, w) (mw m) ->
  exists when roots d, mp m' = PSleep when roots d /\ outs = [OArm d] /\ when <= w /\
                       d <= Z.max r (due_real num den m w).
Proof.
  intros num den Hn Hd m r c w m' outs Hp Hin.
  destruct (plan_never_sleeps_past num den Hn Hd m r c w m' outs Hp Hin) as [when [roots [d [H1 [H2 [H3 [_ H5]]]]]]].
  exists when, roots, d. auto.
Qed.

(* a wakeup stamped during a tick is already due when that tick ends (its due time, measured from
   the end of the PREVIOUS tick, is the arrival time of the interrupt) *)
Theorem C07_due_at_once : forall num den, 0 < num -> 0 < den -> forall m r, ma_r m <= r ->
  due_real num den m (stamp num den m r) <= r.
Proof. intros num den Hn Hd m r Hr. apply stamp_due; assumption. Qed.

(* the tick that serves it has the component among its roots (C06), and starts after the interrupt.
   Example: interrupt at real time 10 during a tick that lasts from 0 to 20: served at 30 = 10 + the
   duration of the tick in progress, although a callback for simulation time 1000 is pending *)
(* the scheduler stays alive to serve the next interrupt: Model/Master.v abstracts the new_wakeup
   flag of MasterScheduler._do_tick away; Model/WakeFlag.v models it.  [master_idle_clears] is
   extracted from the current source (whose _do_tick is checked to have the modelled statement
   skeleton).  For every set of pending callbacks and every history of added wakeups, sleep ends
   (with or without the flag waiter having completed) and finished ticks, the assertion of
   _do_tick never fails. *)
Theorem C07_master_never_dies : forall wk h,
  w_pc (wrun master_idle_clears (winit master_idle_clears wk) h) <> WFailed.
Proof. exact never_fails. Qed.

(* the pinned loop (idle branch does not clear the flag): an interrupt that coincides with the end
   of the sleep for the only pending callback kills the scheduler *)
Theorem C07_pinned_loop_refuted :
  w_pc (wrun false (winit false [(3%positive, 300)]) [EAdd 3%positive 300; EResume false; ETickDone]) = WFailed.
Proof. exact fails_without_clear. Qed.

Example C07_nonvacuous :
  let '(m1, _) := step [] [3%positive; 4%positive] 0 1 1 (m_init 0) 0 IStart in
  let '(m2, _) := step [] [3%positive; 4%positive] 0 1 1 m1 0 (IOutput 3%positive 0 [] (Some 1000)) in
  let '(m3, o3) := step [] [3%positive; 4%positive] 0 1 1 m2 10 (IInterrupt 4%positive) in
  let '(m4, o4) := step [] [3%positive; 4%positive] 0 1 1 m3 20 (IOutput 4%positive 0 [] None) in
  let '(m5, o5) := step [] [3%positive; 4%positive] 0 1 1 m4 30 ITimer in
  o3 = [] /\ o4 = [OTickEnd 0; OArm 30] /\ o5 = [OTickStart 10 [4%positive]; OAct (Upd 4%positive 10 [])].
Proof. vm_compute. repeat split; reflexivity. Qed.

(* the tie to the source: what an interrupt leaves in the wakeup table of the master machine IS what the end of
   MasterScheduler.schedule_interrupt does with the stamp -- `add_wakeup(source, min(when, wakeups.get(source, when)))` --
   regenerated from /repo by the function translator (harness/gen_funs.py) on every run.  (The stamp itself is real-time
   float arithmetic: modelled over the rationals and compared per run, C12.) *)
Theorem C07_interrupt_bookkeeping_is_source : forall num den (m : master) (r : Z) (c : comp),
  gen_schedule_interrupt (mw m) c (stamp num den m r) = interrupt_wake num den m r c.
Proof. exact interrupt_wake_is_source. Qed.

(* ---------- nested, at any depth, whenever it arrives (Model/Alert.v) *)
Theorem C07_no_interrupt_lost_at_any_depth : forall cfg tops initial s,
  tree_okb cfg = true -> AReachFrom cfg (a_boot tops initial) s -> quiescent s ->
  forall lv d, In (lv, d) (a_owed s) -> lookup d (l_order (level_of cfg lv)) = Some KDev -> Anc cfg lv ->
  served_now s lv d /\ Chain cfg s lv.
Proof.
  intros cfg tops initial s Hok HR Hq lv d Hi Hk Ha. destruct (tree_okb_sound cfg Hok) as [H1 [H2 H3]].
  destruct (alert_never_lost_from_boot cfg H1 H2 H3 tops initial s HR Hq lv d Hi Hk Ha) as [A [B _]]. split; assumption.
Qed.

Theorem C07_master_keeps_a_wakeup_for_it : forall cfg tops initial s,
  tree_okb cfg = true -> AReachFrom cfg (a_boot tops initial) s -> quiescent s ->
  forall lv d, In (lv, d) (a_owed s) -> lookup d (l_order (level_of cfg lv)) = Some KDev -> Anc cfg lv ->
  exists z v, lookup z (a_wake (getl s top)) = Some v /\ v <= a_hi s.
Proof.
  intros cfg tops initial s Hok HR Hq lv d Hi Hk Ha. destruct (tree_okb_sound cfg Hok) as [H1 [H2 H3]].
  destruct (alert_never_lost_from_boot cfg H1 H2 H3 tops initial s HR Hq lv d Hi Hk Ha) as [_ [_ C]]. exact C.
Qed.

(* the invariant itself, in every reachable state -- also while ticks run and messages are in flight *)
Theorem C07_alert_invariant : forall cfg tops initial s,
  tree_okb cfg = true -> AReachFrom cfg (a_boot tops initial) s ->
  (forall p x lv, child cfg p x lv -> a_tick (getl s lv) = None -> sat (a_hi s) (Serve cfg s p x) (Urg s lv)) /\
  (forall lv d, In (lv, d) (a_owed s) -> lookup d (l_order (level_of cfg lv)) = Some KDev -> sat (a_hi s) (Serve cfg s lv d) Now).
Proof.
  intros cfg tops initial s Hok HR. destruct (tree_okb_sound cfg Hok) as [H1 [H2 H3]].
  destruct (boot_inv cfg H3 tops initial) as [B1 B2]. destruct (reach_inv_from cfg H1 H2 H3 _ s B1 B2 HR) as [_ HL].
  split; [apply (al_link _ _ HL) | apply (al_owed _ _ HL)].
Qed.

(* what the replay of a recorded execution of the real schedulers accepts is a run of the protocol *)
Theorem C07_replayed_run_is_a_run_of_the_protocol : forall cfg tops initial evs s n,
  a_replay cfg evs (a_boot tops initial) O = inl (s, n) -> AReachFrom cfg (a_boot tops initial) s.
Proof. intros cfg tops initial evs s n H. apply (a_replay_from cfg evs _ _ O s n (ARF_refl cfg _) H). Qed.

(* non-vacuity: device 5 inside system simulation 4 (level 2) inside system simulation 3 (level 3 ... ) raises an interrupt
   while the initial tick is running; the run goes on until nothing is running or in flight with the interrupt still
   unserved: it is queued at every level and the master holds a wakeup for the outermost system simulation *)
Definition al_cfg : config :=
  [(1%positive, {| l_order := [(3%positive, KSys 2%positive); (9%positive, KDev)]; l_conns := [] |});
   (2%positive, {| l_order := [(4%positive, KSys 3%positive)]; l_conns := [] |});
   (3%positive, {| l_order := [(5%positive, KDev)]; l_conns := [] |})].
Definition al_events : list aevent :=
  [EMTick 0 [3; 9]%positive [3; 9]%positive;
   EInSys 1%positive 3%positive 2%positive [4]%positive [4]%positive; EInSys 2%positive 4%positive 3%positive [5]%positive [5]%positive;
   EInDev 3%positive 5%positive None;                         (* device 5 is updated ... *)
   ERaise 3%positive 5%positive;                              (* ... and raises an interrupt while the ticks are still running *)
   EInDev 1%positive 9%positive (Some 700);
   EOut 3%positive 5%positive None;                           (* its Output, then its Interrupt, reach the scheduler of level 3 *)
   EIntNested 2%positive 4%positive 3%positive 5%positive;
   EDone 2%positive 4%positive 3%positive (Some 0);           (* system 4 asks to be called back at once *)
   EIntNested 1%positive 3%positive 2%positive 4%positive;    (* the interrupt system 4 raised reaches level 2, then its Output *)
   EOut 2%positive 4%positive (Some 0);
   EDone 1%positive 3%positive 2%positive (Some 0);
   EIntTop 3%positive 5;                                      (* the master stamps the interrupt of system 3 with 5 ... *)
   EOut 1%positive 3%positive (Some 0);                       (* ... and then handles its Output: call back at 0 *)
   EOut 1%positive 9%positive (Some 700); EMDone].

Example C07_alert_example :
  tree_okb al_cfg = true /\
  match a_replay al_cfg al_events (a_boot [3; 9]%positive 0) O with
  | inl (s, _) => quiescentb s = true /\ a_owed s = [(3%positive, 5%positive)] /\
                  lookup 3%positive (a_wake (getl s top)) = Some 0 /\ a_hi s = 5 /\
                  a_ints (getl s 3%positive) = [5%positive] /\ a_ints (getl s 2%positive) = [4%positive]
  | inr _ => False
  end.
Proof. vm_compute. repeat split; reflexivity. Qed.
