(* Base.v -- Python-like dictionaries (insertion ordered association lists),
   sets as lists, and the small utilities shared by all models. Definitions and
   their basic lemmas only. *)
From Coq Require Export List ZArith PArith Bool Lia.
Export ListNotations.
Open Scope bool_scope.

Definition memb (c : positive) (l : list positive) : bool := existsb (Pos.eqb c) l.

Lemma memb_In c l : memb c l = true <-> In c l.
Proof.
  unfold memb. rewrite existsb_exists. split.
  - intros [x [Hx He]]. apply Pos.eqb_eq in He. subst. exact Hx.
  - intros H. exists c. split; [exact H | apply Pos.eqb_refl].
Qed.

Lemma memb_false c l : memb c l = false <-> ~ In c l.
Proof.
  rewrite <- memb_In. destruct (memb c l); split; intros H; congruence.
Qed.

Section Dict.
Context {A : Type}.

(* Python dict: [upd] replaces in place when the key exists, appends otherwise,
   so the list order is Python's iteration (insertion) order. *)
Fixpoint lookup (k : positive) (l : list (positive * A)) : option A :=
  match l with
  | [] => None
  | (k', v) :: t => if Pos.eqb k k' then Some v else lookup k t
  end.

Fixpoint upd (k : positive) (v : A) (l : list (positive * A)) : list (positive * A) :=
  match l with
  | [] => [(k, v)]
  | (k', v') :: t => if Pos.eqb k k' then (k, v) :: t else (k', v') :: upd k v t
  end.

Fixpoint remove_key (k : positive) (l : list (positive * A)) : list (positive * A) :=
  match l with
  | [] => []
  | (k', v') :: t => if Pos.eqb k k' then remove_key k t else (k', v') :: remove_key k t
  end.

Definition keys (l : list (positive * A)) : list positive := map fst l.

(* dict.update(other) / {**l, **other} *)
Definition merge (l other : list (positive * A)) : list (positive * A) :=
  fold_left (fun m kv => upd (fst kv) (snd kv) m) other l.

Lemma lookup_upd_same k v l : lookup k (upd k v l) = Some v.
Proof.
  induction l as [|[k' v'] t IH]; simpl.
  - rewrite Pos.eqb_refl. reflexivity.
  - destruct (Pos.eqb k k') eqn:E; simpl.
    + rewrite Pos.eqb_refl. reflexivity.
    + rewrite E. exact IH.
Qed.

Lemma lookup_upd_other k k2 v l : k2 <> k -> lookup k2 (upd k v l) = lookup k2 l.
Proof.
  intros Hn. induction l as [|[k' v'] t IH]; simpl.
  - destruct (Pos.eqb_spec k2 k); [contradiction | reflexivity].
  - destruct (Pos.eqb_spec k k'); simpl.
    + subst. destruct (Pos.eqb_spec k2 k'); [contradiction | reflexivity].
    + destruct (Pos.eqb_spec k2 k'); [reflexivity | exact IH].
Qed.

Lemma lookup_upd k k2 v l :
  lookup k2 (upd k v l) = if Pos.eqb k2 k then Some v else lookup k2 l.
Proof.
  destruct (Pos.eqb_spec k2 k).
  - subst. apply lookup_upd_same.
  - apply lookup_upd_other. assumption.
Qed.

Lemma keys_upd_in k v l : In k (keys l) -> keys (upd k v l) = keys l.
Proof.
  induction l as [|[k' v'] t IH]; simpl; intros H; [contradiction|].
  destruct (Pos.eqb_spec k k'); simpl.
  - subst. reflexivity.
  - f_equal. apply IH. destruct H; [congruence | assumption].
Qed.

Lemma keys_upd_notin k v l : ~ In k (keys l) -> keys (upd k v l) = keys l ++ [k].
Proof.
  induction l as [|[k' v'] t IH]; simpl; intros H; [reflexivity|].
  destruct (Pos.eqb_spec k k'); simpl.
  - subst. exfalso. apply H. left. reflexivity.
  - f_equal. apply IH. intros Hin. apply H. right. assumption.
Qed.

Lemma in_keys_upd k k2 v l : In k2 (keys (upd k v l)) <-> k2 = k \/ In k2 (keys l).
Proof.
  induction l as [|[k' v'] t IH]; simpl.
  - intuition.
  - destruct (Pos.eqb_spec k k'); simpl.
    + subst. intuition.
    + rewrite IH. intuition.
Qed.

Lemma lookup_None_keys k l : lookup k l = None <-> ~ In k (keys l).
Proof.
  induction l as [|[k' v'] t IH]; simpl.
  - intuition.
  - destruct (Pos.eqb_spec k k').
    + subst. split; [discriminate | intros H; exfalso; apply H; left; reflexivity].
    + rewrite IH. intuition.
Qed.

Lemma lookup_Some_keys k l v : lookup k l = Some v -> In k (keys l).
Proof.
  intros H. destruct (in_dec Pos.eq_dec k (keys l)) as [Hi|Hn]; [exact Hi|].
  apply lookup_None_keys in Hn. congruence.
Qed.

Lemma lookup_In k l v : lookup k l = Some v -> In (k, v) l.
Proof.
  induction l as [|[k' v'] t IH]; simpl; [discriminate|].
  destruct (Pos.eqb_spec k k').
  - intros H. inversion H. subst. left. reflexivity.
  - intros H. right. apply IH. exact H.
Qed.

Lemma NoDup_keys_upd k v l : NoDup (keys l) -> NoDup (keys (upd k v l)).
Proof.
  intros H. destruct (in_dec Pos.eq_dec k (keys l)) as [Hi|Hn].
  - rewrite keys_upd_in; assumption.
  - rewrite keys_upd_notin by assumption.
    clear - H Hn. induction (keys l) as [|x t IH]; simpl.
    + constructor; [intros [] | constructor].
    + inversion H; subst. constructor.
      * rewrite in_app_iff. simpl. intros [Hx|[Hx|[]]]; [contradiction|].
        subst. apply Hn. left. reflexivity.
      * apply IH; [assumption|]. intros Hi. apply Hn. right. assumption.
Qed.

Lemma lookup_remove_same k l : lookup k (remove_key k l) = None.
Proof.
  induction l as [|[k' v'] t IH]; simpl; [reflexivity|].
  destruct (Pos.eqb k k') eqn:E; simpl; [exact IH | rewrite E; exact IH].
Qed.

Lemma lookup_remove_other k k2 l : k2 <> k -> lookup k2 (remove_key k l) = lookup k2 l.
Proof.
  intros Hn. induction l as [|[k' v'] t IH]; simpl; [reflexivity|].
  destruct (Pos.eqb_spec k k'); simpl.
  - subst. destruct (Pos.eqb_spec k2 k'); [contradiction | exact IH].
  - destruct (Pos.eqb_spec k2 k'); [reflexivity | exact IH].
Qed.

End Dict.

(* the last value written to [a] in a list of writes, if any *)
Fixpoint last_write {A} (a : positive) (ws : list (positive * A)) : option A :=
  match ws with
  | [] => None
  | (a', v) :: t =>
      match last_write a t with
      | Some x => Some x
      | None => if Pos.eqb a a' then Some v else None
      end
  end.

Lemma lookup_merge_last {A} (l other : list (positive * A)) k :
  lookup k (merge l other) =
  match last_write k other with Some v => Some v | None => lookup k l end.
Proof.
  unfold merge. revert l. induction other as [|[k' v'] t IH]; intros l; simpl.
  - reflexivity.
  - rewrite IH. destruct (last_write k t); [reflexivity|].
    rewrite lookup_upd. destruct (Pos.eqb k k'); reflexivity.
Qed.

(* generic helpers for the generated case files *)
Fixpoint run_cases {A} (f : A -> list Z) (n : Z) (l : list A) : list (Z * list Z) :=
  match l with
  | [] => []
  | x :: t =>
      match f x with
      | [] => run_cases f (n + 1)%Z t
      | r => (n, r) :: run_cases f (n + 1)%Z t
      end
  end.

Definition opt_eqb {A} (e : A -> A -> bool) (x y : option A) : bool :=
  match x, y with
  | None, None => true
  | Some a, Some b => e a b
  | _, _ => false
  end.

Fixpoint list_eqb {A} (e : A -> A -> bool) (x y : list A) : bool :=
  match x, y with
  | [], [] => true
  | a :: s, b :: t => e a b && list_eqb e s t
  | _, _ => false
  end.

Definition pair_eqb {A B} (ea : A -> A -> bool) (eb : B -> B -> bool) (x y : A * B) : bool :=
  ea (fst x) (fst y) && eb (snd x) (snd y).

Lemma list_eqb_eq {A} (e : A -> A -> bool) :
  (forall a b, e a b = true -> a = b) ->
  forall x y, list_eqb e x y = true -> x = y.
Proof.
  intros He x. induction x as [|a s IH]; intros [|b t]; simpl; try discriminate; auto.
  intros H. apply andb_true_iff in H. destruct H as [H1 H2].
  f_equal; [apply He; assumption | apply IH; assumption].
Qed.

Lemma list_eqb_refl {A} (e : A -> A -> bool) :
  (forall a, e a a = true) -> forall x, list_eqb e x x = true.
Proof.
  intros He x. induction x as [|a s IH]; simpl; [reflexivity|].
  rewrite He, IH. reflexivity.
Qed.

(* insertion sort on positives, used only to canonicalise sets before comparing *)
Fixpoint insert_pos (x : positive) (l : list positive) : list positive :=
  match l with
  | [] => [x]
  | y :: t => match Pos.compare x y with
              | Lt => x :: y :: t
              | Eq => y :: t
              | Gt => y :: insert_pos x t
              end
  end.
Definition sort_pos (l : list positive) : list positive := fold_right insert_pos [] l.

Lemma insert_pos_In x y l : In y (insert_pos x l) <-> y = x \/ In y l.
Proof.
  induction l as [|z t IH]; simpl.
  - intuition.
  - destruct (Pos.compare_spec x z); simpl.
    + subst. intuition.
    + intuition.
    + rewrite IH. intuition.
Qed.

Lemma sort_pos_In y l : In y (sort_pos l) <-> In y l.
Proof.
  induction l as [|x t IH]; simpl; [reflexivity|].
  rewrite insert_pos_In, IH. intuition.
Qed.
