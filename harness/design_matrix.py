"""Copies seeded/MATRIX.md into DESIGN.md between the MATRIX markers."""
import re
d = open("/verif/DESIGN.md").read()
m = open("/verif/seeded/MATRIX.md").read()
d = re.sub(r"<!-- MATRIX:BEGIN -->.*?<!-- MATRIX:END -->", "<!-- MATRIX:BEGIN -->\n" + m.replace("\\", "\\\\") + "<!-- MATRIX:END -->", d, flags=re.S)
open("/verif/DESIGN.md", "w").write(d)
