(* The master scheduler in simulation time only: the sequence of ticks it performs when no
   interrupt arrives, up to a simulation-time horizon -- what Model/Sim.v [master_loop] does
   with real time left out (real time only decides when a tick happens, never which).
   [Oracle/SimCheck.v] compares it with [master_loop] on every generated case without stimuli.
   Definitions only. *)
From TV Require Import Base Model.Wiring Model.Ticker Model.Component Model.Sim.
Open Scope Z_scope.

Section ST.
Variable cfg : config.
Variable devf : devfun.

(* result: final state, observations, and whether the run is complete (nothing pending up to the
   horizon) rather than out of steps *)
Fixpoint sim_loop (n fuel : nat) (horizon : Z) (s : sstate) (ob : list obs) : sstate * list obs * bool :=
  match n with
  | O => (s, ob, false)
  | S k =>
      match first_wakeups (wake_of s top) with
      | None => (s, ob, true)
      | Some (when, roots) =>
          if Z.leb when horizon then
            let s1 := set_wake s top (filter (fun e : comp * Z => negb (memb (fst e) roots)) (wake_of s top)) in
            let '(s2, _, o) := tick_level cfg devf fuel top when roots [] (log_tick s1 top when roots) in
            sim_loop k fuel horizon s2 (ob ++ o)
          else (s, ob, true)
      end
  end.

(* initial tick, then the loop *)
Definition sim_run (n fuel : nat) (initial horizon : Z) : sstate * list obs * bool :=
  let roots := map fst (l_order (level_of cfg top)) in
  let s0 := set_wake s_init top [] in
  let '(s1, _, ob) := tick_level cfg devf fuel top initial roots [] (log_tick s0 top initial roots) in
  sim_loop n fuel horizon s1 ob.
End ST.
