(* Executable comparison of the whole-simulation model (Model/Sim.v) with observed runs of
   the real schedulers/components, using a family of table-driven devices mirrored by the
   Python harness (harness/slevel.py). *)
From TV Require Import Base Model.Wiring Model.Ticker Model.Component Model.Sim.
Open Scope Z_scope.

(* device parameters: seed, period, policy *)
Definition dev_table := list (comp * (Z * Z * Z)).

Definition hsh (seed c n p : Z) : Z := (seed * 7919 + c * 104729 + n * 1299709 + p * 15485863) mod 1000.

Definition none_value : Z := -777777.

Definition table_dev (tab : dev_table) : devfun :=
  fun c n time inputs =>
    match lookup c tab with
    | None => ([], None)
    | Some (seed, period, policy) =>
        let cz := Z.pos c in
        let insum := (fold_left (fun acc (kv : port * Z) => acc + Z.pos (fst kv) * 31 + snd kv) inputs 0) mod 9973 in
        (* now and then the value is Python's None (a value like any other, equal to itself only: the integer none_value) *)
        let nv := fun (p : positive) (v : Z) => if hsh seed cz n (Z.pos p + 20) mod 9 =? 0 then none_value else v in
        let outs := flat_map (fun p : positive =>
                      let x := hsh seed cz n (Z.pos p) mod 8 in
                      if x =? 0 then []
                      else if x <=? 3 then [(p, nv p (cz * 10 + Z.pos p))]
                      else [(p, nv p ((n * 1000 + cz * 10 + Z.pos p + insum * 7) mod 1000000))])
                    [1%positive; 2%positive] in
        let h2 := hsh seed cz n 7 in
        let call_at :=
          if policy =? 1 then Some (time + period)
          else if policy =? 2 then (if n =? 1 then Some (time + period) else None)
          else if policy =? 3 then (if h2 mod 5 <? 3 then Some (time + period * (1 + h2 mod 3)) else None)
          else if policy =? 4 then (if n mod 2 =? 1 then Some (time + 3 * period) else Some (time + period))
          else if policy =? 5 then (if n mod 2 =? 1 then Some time else Some (time + period))   (* re-evaluation at once *)
          else None in
        (outs, call_at)
    end.

Record sim_case := {
  sc_cfg : config;
  sc_devs : dev_table;
  sc_num : Z; sc_den : Z;
  sc_initial : Z;
  sc_pre : list comp;          (* interrupts published before the scheduler started *)
  sc_stim : list stimulus;
  sc_end : Z;
  sc_observed : list (comp * list (Z * values));  (* per device: (time, inputs) in order *)
  sc_trace : list obs;                             (* all device updates in the order they happened *)
  sc_ticklog : list (positive * Z * list comp);    (* every Ticker call: level, time, roots *)
  sc_mticks : list (Z * Z)                         (* master ticks: simulation time, real time *)
}.

Definition model_run (c : sim_case) : mstate :=
  simulate_full (sc_cfg c) (table_dev (sc_devs c)) (sc_num c) (sc_den c) 8 4000 (sc_initial c) (sc_pre c) (sc_stim c) (sc_end c).
Definition model_obs (c : sim_case) : list obs := m_obs (model_run c).

Definition obs_of (d : comp) (l : list obs) : list (Z * values) :=
  flat_map (fun o : obs => let '(c, t, i) := o in if Pos.eqb c d then [(t, i)] else []) l.

Definition seq_eqb (a b : list (Z * values)) : bool :=
  list_eqb (fun x y : Z * values => Z.eqb (fst x) (fst y) && values_eqb (snd x) (snd y)) a b.

(* reason codes: 51 a device's observation sequence differs from the model's;
   52 the model updated a device the implementation never reported (or vice versa) *)
Definition log_of_level (lv : positive) (l : list (positive * Z * list comp)) : list (Z * list comp) :=
  flat_map (fun e : positive * Z * list comp => let '(lv', t, r) := e in if Pos.eqb lv' lv then [(t, r)] else []) l.
Definition set_eqb_pos (a b : list comp) : bool :=
  forallb (fun x => memb x b) a && forallb (fun x => memb x a) b.
Definition ticklog_eqb (a b : list (Z * list comp)) : bool :=
  list_eqb (fun x y : Z * list comp => Z.eqb (fst x) (fst y) && set_eqb_pos (snd x) (snd y)) a b.

(* reason codes: 51 a device's observation sequence differs from the model's;
   52 the model updated a device the implementation never reported;
   53 the sequence of ticks (time, roots) of some scheduler differs from the model's;
   54 the real times of the master's ticks differ from the model's *)
Definition check_sim (c : sim_case) : list Z :=
  let mr := model_run c in
  let m := m_obs mr in
  (if forallb (fun dl : comp * list (Z * values) => seq_eqb (obs_of (fst dl) m) (snd dl)) (sc_observed c)
   then [] else [51]) ++
  (if forallb (fun o : obs => memb (fst (fst o)) (keys (sc_observed c))) m then [] else [52]) ++
  (if forallb (fun lv : positive =>
                 ticklog_eqb (log_of_level lv (s_log (m_s mr))) (log_of_level lv (sc_ticklog c)))
              (keys (sc_cfg c)) then [] else [53]) ++
  (if list_eqb (fun x y : Z * Z => Z.eqb (fst x) (fst y) && Z.eqb (snd x) (snd y)) (m_ticks mr) (sc_mticks c)
   then [] else [54]).
