(* Resource ledger of a running simulation (tasks, timers, wakeup entries) as a function of the
   configuration, and the small transition systems that produce it:
   - the master loop turn (master.py _do_tick): creates a sleep task and a new_wakeup waiter, one
     wins, the other is cancelled;
   - a system component's on_tick (system_component.py): creates the inner tick task and an error
     waiter, the tick finishes, the waiter is cancelled;
   - the TCP handler (tcp_io.py): one reply task per chunk, finished ones are dropped.
   Definitions only. *)
From TV Require Import Base Model.Wiring Model.Sim.
Open Scope Z_scope.

(* ---------- what is alive while the master sleeps, every device having one blocking adapter task *)
Fixpoint level_tasks (fuel : nat) (cfg : config) (lv : positive) : Z :=
  match fuel with
  | O => 0
  | S f =>
      fold_left (fun acc (ck : comp * ckind) =>
                   acc + match snd ck with
                         | KDev => 2                       (* run_forever waiting on the adapter task + that task *)
                         | KSys lv' => 1 + level_tasks f cfg lv'   (* its run_forever waiting on the inner ones *)
                         end) (l_order (level_of cfg lv)) 0
  end.

(* master task + its two waiters (sleep, new_wakeup) + the harness' driver + components *)
Definition expected_tasks (cfg : config) : Z := 1 + 2 + 1 + level_tasks 20 cfg 1%positive.
(* the master's sleep + the driver's own timer *)
Definition expected_timers : Z := 2.
Definition top_components (cfg : config) : Z := Z.of_nat (length (l_order (level_of cfg 1%positive))).

(* ---------- the loops as transition systems over "pending helper tasks" *)
Inductive lev :=
| LTurnStart          (* _do_tick creates the sleep task and the new_wakeup waiter *)
| LSleepWins          (* the sleep completes; the waiter is cancelled *)
| LWakeWins           (* a new wakeup arrives; the sleep is cancelled *)
| LSysTickStart       (* SystemComponent.on_tick creates the tick task and the error waiter *)
| LSysTickEnd         (* the tick task completes; the waiter is cancelled *)
| LChunk              (* a chunk arrives on the connection: finished reply tasks are dropped, a new one is created *)
| LReplyDone.         (* a reply task completes *)

Record ledger := { lg_master : Z; lg_system : Z; lg_tcp_live : Z; lg_tcp_retained : Z }.
Definition lg0 : ledger := {| lg_master := 0; lg_system := 0; lg_tcp_live := 0; lg_tcp_retained := 0 |}.

Definition lstep (l : ledger) (e : lev) : ledger :=
  match e with
  | LTurnStart => {| lg_master := lg_master l + 2; lg_system := lg_system l; lg_tcp_live := lg_tcp_live l; lg_tcp_retained := lg_tcp_retained l |}
  | LSleepWins | LWakeWins =>
      {| lg_master := lg_master l - 2; lg_system := lg_system l; lg_tcp_live := lg_tcp_live l; lg_tcp_retained := lg_tcp_retained l |}
  | LSysTickStart => {| lg_master := lg_master l; lg_system := lg_system l + 2; lg_tcp_live := lg_tcp_live l; lg_tcp_retained := lg_tcp_retained l |}
  | LSysTickEnd => {| lg_master := lg_master l; lg_system := lg_system l - 2; lg_tcp_live := lg_tcp_live l; lg_tcp_retained := lg_tcp_retained l |}
  | LChunk => {| lg_master := lg_master l; lg_system := lg_system l; lg_tcp_live := lg_tcp_live l + 1;
                 lg_tcp_retained := lg_tcp_live l + 1 |}
  | LReplyDone => {| lg_master := lg_master l; lg_system := lg_system l; lg_tcp_live := Z.max 0 (lg_tcp_live l - 1);
                     lg_tcp_retained := lg_tcp_retained l |}
  end.

(* well-bracketed event sequences: a turn / a system tick ends before the next one of the same
   loop starts (C04: ticks are serialised; the master loop is sequential) *)
Fixpoint bracketed (in_turn in_sys : bool) (evs : list lev) : bool :=
  match evs with
  | [] => true
  | LTurnStart :: r => negb in_turn && bracketed true in_sys r
  | (LSleepWins | LWakeWins) :: r => in_turn && bracketed false in_sys r
  | LSysTickStart :: r => negb in_sys && bracketed in_turn true r
  | LSysTickEnd :: r => in_sys && bracketed in_turn false r
  | _ :: r => bracketed in_turn in_sys r
  end.

(* ---------- comparison: counts observed after ~N, 2N, 4N ticks *)
Definition ledger_case := (config * list (Z * Z * Z * Z))%type.   (* ticks, tasks, timers, wakeups *)

(* 151 pending tasks differ from the ledger (hence also: grow with the run length);
   152 armed timers differ; 153 more wakeup entries than top-level components *)
Definition check_ledger (c : ledger_case) : list Z :=
  let '(cfg, counts) := c in
  (* while it sleeps the master holds its two waiter tasks; idle (no wakeup pending) it awaits new_wakeup itself *)
  (if forallb (fun x : Z * Z * Z * Z => let '(_, tasks, _, _) := x in
                 Z.eqb tasks (expected_tasks cfg) || Z.eqb tasks (expected_tasks cfg - 2)) counts then [] else [151]) ++
  (if forallb (fun x : Z * Z * Z * Z => let '(_, _, timers, _) := x in Z.leb timers expected_timers) counts then [] else [152]) ++
  (if forallb (fun x : Z * Z * Z * Z => let '(_, _, _, w) := x in Z.leb w (top_components cfg)) counts then [] else [153]).
