"""C10 -- unconnected parts of a simulation never influence each other."""
import asyncio
import json
import os
import random

import slevel
import sprops

PID = "C10"


def adapters_part(ck, tier, rng):
    """(1) every adapter is notified exactly once after each update of its own device, never for another
    device; (2) the shipped EpicsAdapter: after_update touches only the records linked through that adapter;
    (3) the shipped CommandAdapter / HttpAdapter / ZeroMqPushAdapter after_update have no effect on others."""
    from tickit.core.adapter import AdapterContainer

    notif = {}

    class ProbeAdapter:
        def __init__(self, dev, k):
            self.dev, self.k = dev, k

        def after_update(self):
            # how many updates of *its own* device have happened when it is notified
            n = sum(1 for (c, _, _) in slevel.TRACE if c == self.dev)
            notif.setdefault((self.dev, self.k), []).append(n)

    class EqualProbes(ProbeAdapter):
        """adapters that compare equal when they serve the same device (a dataclass adapter does): still two adapters"""
        def __eq__(self, other):
            return isinstance(other, ProbeAdapter) and other.dev == self.dev

        def __hash__(self):
            return hash(self.dev)

    class NoIo:
        async def setup(self, adapter, raise_interrupt):
            return

    for round_ in range({"quick": 25, "thorough": 300}[tier]):
        Probe = EqualProbes if round_ % 2 else ProbeAdapter
        cfg = slevel.gen_config(rng, depth=rng.choice([0, 1, 2]))
        devs = slevel.gen_devs(rng, cfg)
        notif.clear()
        ad = {d: (lambda d=d: [AdapterContainer(Probe(d, k), NoIo()) for k in range(2)]) for d in slevel.devices_of(cfg)}
        r = slevel.run_internal(cfg, devs, (1, 1), 0, sprops.gen_stim(rng, cfg, devs), 1_500_000_003, adapters=ad)
        ck.count("adapters:" + str(sorted(r["per"])) + str(len(r["trace"])), len(r["trace"]) > len(devs))
        for d in slevel.devices_of(cfg):
            n = len(r["per"].get(d, []))
            for k in range(2):
                got = notif.get((d, k), [])
                if got != list(range(1, n + 1)):
                    ck.report("adapter-not-notified-once-per-own-update",
                              f"adapter {k} of device c{d}: notified at own-update counts {got[:10]}, expected 1..{n}",
                              dict(kind="adapters", cfg={str(x): v for x, v in cfg.items()}, device=d, notifications=got, updates=n))
                    return
    # EPICS
    try:
        from tickit.adapters.epics import EpicsAdapter, InputRecord
    except Exception as e:   # softioc missing
        ck.assumptions.append("EpicsAdapter could not be imported: " + repr(e))
        return

    class E(EpicsAdapter):
        def on_db_load(self):
            pass

    logs = {"a": [], "b": []}
    a, b = E(), E()
    ra = InputRecord("A", lambda v: logs["a"].append(v), lambda: None)
    rb = InputRecord("B", lambda v: logs["b"].append(v), lambda: None)
    a.link_input_on_interrupt(ra, lambda: 1)
    b.link_input_on_interrupt(rb, lambda: 2)
    import contextlib, io
    with contextlib.redirect_stdout(io.StringIO()):
        for _ in range(3):
            a.after_update()
        b.after_update()
    ck.count("epics", True)
    if logs != {"a": [1, 1, 1], "b": [2]}:
        ck.report("epics-adapter-updates-records-of-another-adapter",
                  f"3 updates of device A and 1 of device B set record A {logs['a']} and record B {logs['b']}",
                  dict(kind="epics", logs=logs))


def epics_registry_part(ck, tier, rng):
    """the shipped EpicsIo + adapter registry (only the function that builds the real soft IOC is replaced):
    EPICS adapters at several nesting depths, with and without an extra, disconnected EPICS device; what a
    client could see of the other devices' records (served or not, values written) must not change, the IOC
    must start once, no adapter may fail"""
    try:
        import tickit.adapters.epics as epics
        from tickit.adapters.epics import EpicsAdapter, InputRecord
        from tickit.adapters.io.epics_io import EpicsIo
    except Exception as e:
        ck.assumptions.append("EPICS classes could not be imported: " + repr(e))
        return
    from tickit.core.adapter import AdapterContainer
    EXT, EXP = 1, 2

    class FakeIoc:
        def __init__(self):
            self.created, self.served, self.starts, self.written = [], None, 0, {}

        def start(self):
            self.starts += 1
            if self.served is None:
                self.served = set(self.created)

    def run(cfg, devs):
        ioc = FakeIoc()
        failed = {}

        class ValueAdapter(EpicsAdapter):
            def __init__(self, dev):
                super().__init__()
                self.dev = dev

            def on_db_load(self):
                pv = f"c{self.dev}:VALUE"
                ioc.created.append(pv)
                ioc.written[pv] = []
                self.link_input_on_interrupt(InputRecord(pv, ioc.written[pv].append, lambda: None),
                                             lambda: sum(1 for (c, _, _) in slevel.TRACE if c == self.dev))

            def after_update(self):
                for record, getter in self.interrupt_records.items():
                    record.set(getter())

        class SafeIo(EpicsIo):
            async def setup(self, adapter, raise_interrupt):
                try:
                    await super().setup(adapter, raise_interrupt)
                except Exception as e:  # noqa
                    failed[adapter.dev] = repr(e)

        orig = epics._build_and_run_ioc
        epics._build_and_run_ioc = ioc.start
        epics._REGISTERED_ADAPTER_IDS.clear()
        try:
            ad = {d: (lambda d=d: [AdapterContainer(ValueAdapter(d), SafeIo(f"c{d}"))]) for d in slevel.devices_of(cfg)}
            r = slevel.run_internal(cfg, devs, (1, 1), 0, [], 900_000_003, adapters=ad)
        finally:
            epics._build_and_run_ioc = orig
            epics._REGISTERED_ADAPTER_IDS.clear()
        return dict(served=sorted(ioc.served or []), starts=ioc.starts, written=ioc.written, failed=failed, error=r["error"])

    shapes = [
        {1: dict(order=[(3, 2)], conns=[]), 2: dict(order=[(4, "dev"), (5, 3)], conns=[]), 3: dict(order=[(6, "dev")], conns=[])},
        {1: dict(order=[(3, "dev"), (4, 2)], conns=[]), 2: dict(order=[(5, "dev")], conns=[])},
        {1: dict(order=[(3, 2), (6, 3)], conns=[]), 2: dict(order=[(4, "dev"), (5, "dev")], conns=[]), 3: dict(order=[(7, "dev")], conns=[])},
        {1: dict(order=[(3, "dev"), (4, "dev")], conns=[])},
    ]
    for cfg in shapes:
        devs = {d: (3, 200_000_000, 1) for d in slevel.devices_of(cfg)}
        base = run(cfg, devs)
        for pos in ("first", "last"):
            ext = {k: dict(order=list(v["order"]), conns=list(v["conns"])) for k, v in cfg.items()}
            if pos == "first":
                ext[1]["order"].insert(0, (100, "dev"))
            else:
                ext[1]["order"].append((100, "dev"))
            devs2 = dict(devs)
            devs2[100] = (3, 300_000_000, 1)
            e = run(ext, devs2)
            ck.count("epics_registry:" + str(cfg) + pos, True)
            ok = (not base["failed"] and not e["failed"] and base["starts"] == 1 and e["starts"] == 1 and not e["error"]
                  and all(pv in e["served"] and e["written"].get(pv) == base["written"][pv] for pv in base["served"])
                  and len(base["served"]) == len(devs))
            if not ok:
                ck.report("epics-records-depend-on-an-unrelated-adapter",
                          f"EPICS adapters at several depths; adding the disconnected device c100 ({pos}) changes what is served: "
                          f"base served {base['served']} starts {base['starts']} failed {base['failed']}; extended served {e['served']} "
                          f"starts {e['starts']} failed {e['failed']}",
                          dict(kind="epics_registry", cfg={str(k): v for k, v in cfg.items()}, position=pos, base=base, extended=e))
                return


def command_adapters_part(ck, tier, rng):
    """an adapter on one device must answer the same whether or not an adapter of another device -- of the same class, of
    its parent class or of a subclass -- has been used before it (the shipped CommandAdapter, driven without a network)"""
    import asyncio

    from tickit.adapters.specifications import RegexCommand
    from tickit.adapters.tcp import CommandAdapter
    from tickit.utils.byte_format import ByteFormat

    def classes():
        class Readback(CommandAdapter):
            _byte_format = ByteFormat(b"%b")

            @RegexCommand(rb"R\?", False)
            async def read(self):
                return b"r"

        class Control(Readback):
            @RegexCommand(rb"W=(\d+)", True)
            async def write(self, value: int):
                return b"w%d" % value

        class Other(CommandAdapter):
            _byte_format = ByteFormat(b"%b")

            @RegexCommand(rb"W=(\d+)", False)
            async def write(self, value: int):
                return b"o%d" % value
        return dict(readback=Readback, control=Control, other=Other)

    async def ask(adapter, msgs):
        out = []
        for m in msgs:
            replies, interrupt = await adapter.handle(m)
            out.append(([r async for r in replies], interrupt))
        return out

    msgs = [b"R?", b"W=7", b"X"]
    for subject in ("control", "readback", "other"):
        alone = asyncio.run(ask(classes()[subject](), msgs))
        for first in ("readback", "control", "other"):
            cl = classes()
            warm = cl[first]()
            asyncio.run(ask(warm, msgs[:rng.randint(1, 3)]))
            got = asyncio.run(ask(cl[subject](), msgs))
            ck.count(f"command-adapters:{subject}:{first}", subject != first)
            if got != alone:
                ck.report("command-adapter-influenced-by-an-adapter-of-another-device",
                          f"a {subject} adapter answers {got} after a {first} adapter of another device has been used, {alone} on its own",
                          dict(kind="command_adapters", subject=subject, first=first, alone=str(alone), after=str(got)))
                return


def all_adapter_parts(ck, tier, rng):
    adapters_part(ck, tier, rng)
    command_adapters_part(ck, tier, rng)
    epics_registry_part(ck, tier, rng)


def topics_part(ck, tier, rng):
    """components never share a topic: searched on the real topic functions (the theorem C10_topics_disjoint rests on
    the constants the translator extracts; when it no longer recognises the source this finds the failing names)"""
    from props import c15
    hit = c15.topic_collision()
    if hit:
        ck.report("topics-of-distinct-components-collide", f"topic naming: {hit[2]} for component names {hit[0]!r} and {hit[1]!r}",
                  dict(property="C15", kind="topic", names=[hit[0], hit[1]], what=hit[2]))


def epics_builder_part(ck, tier, rng):
    """the shipped EpicsIo on the REAL softioc record builder (process-wide state, hence one child process per scenario;
    only the function that starts the IOC is replaced): the records an adapter creates carry its own device name and
    the IOC is started, whether or not another, unrelated EPICS device (with or without a database file) is set up
    at the same time"""
    import subprocess
    import sys
    from common import REPO, VERIF

    def child(spec):
        r = subprocess.run([sys.executable, str(VERIF / "harness" / "aux" / "epics_child.py"), json.dumps(spec)],
                           capture_output=True, text=True, timeout=120,
                           env=dict(os.environ, PYTHONPATH=str(REPO / "src"), PYTHONHASHSEED="0"))
        try:
            return json.loads(r.stdout.strip().splitlines()[-1])
        except Exception:  # noqa
            return dict(records={}, started=0, errors=["child failed: " + (r.stderr or r.stdout)[-300:]])

    scenarios = [([["AMP", True]], [["AMP", True], ["OTHER", False]]),
                 ([["AMP", False]], [["AMP", False], ["OTHER", True]]),
                 ([["AMP", True]], [["OTHER", True], ["AMP", True]]),
                 # several devices of one kind: the SAME database file (a template instantiated per device name)
                 ([["AMP", "shared"]], [["OTHER", "shared"], ["AMP", "shared"]]),
                 ([["AMP", "shared"]], [["AMP", "shared"], ["OTHER", "shared"], ["THIRD", "shared"]])]
    for base, ext in scenarios:
        rb, re_ = child(base), child(ext)
        ck.count("epics-builder:" + json.dumps(ext), True)
        ck.evaluations += 2
        mine = lambda r: [l for l in r.get("loaded", []) if l[0] == "device=AMP"]  # noqa: E731
        same = (rb["records"].get("AMP") == re_["records"].get("AMP") == "AMP:VALUE" and rb["started"] == re_["started"] == 1
                and not rb["errors"] and not re_["errors"] and mine(rb) == mine(re_) and len(mine(rb)) == (1 if base[0][1] else 0))
        if not same:
            ck.report("epics-device-affected-by-an-unrelated-epics-device",
                      f"EPICS device AMP alone: {rb}; with an unrelated EPICS device set up at the same time: {re_}",
                      dict(kind="epics-builder", base=base, extended=ext, alone=rb, together=re_))
            break
    ck.coverage["epics_builder_scenarios"] = len(scenarios)


def all_parts(ck, tier, rng):
    topics_part(ck, tier, rng)
    epics_builder_part(ck, tier, rng)
    return all_adapter_parts(ck, tier, rng)


def main(tier, seed):
    return sprops.main_pairs(PID, tier, seed, {91}, "Props.C10",
                             ["Model/Sim.v", "Oracle/SimCheck.v", "Oracle/SimOracle.v", "Model/Topics.v", "Proofs/TopicsP.v", "Proofs/SimP.v", "Proofs/FlattenP.v", "Model/SimTime.v", "Proofs/NonInterfP.v", "Proofs/FrameP.v", "Proofs/AgreeP.v", "Proofs/NonInterfNestedP.v", "Proofs/NonInterfLoopP.v", "Proofs/SimTimeP.v", "Model/NSim.v", "Proofs/NonInterfScriptP.v", "Props/C10.v"],
                             "non-interference of unconnected parts", "extend", extra_part=all_parts)


class _Collect:
    """stands in for a Check when a recorded adapter-level violation is replayed"""
    def __init__(self):
        self.hits, self.coverage, self.evaluations, self.nontrivial = [], {}, 0, set()

    def report(self, reason, what, replay, no_input=False):
        self.hits.append((reason, what))

    def count(self, key, nontrivial):
        pass

    def sample(self, x):
        pass


def replay(rp):
    if rp.get("kind") == "topic":
        from props import c15
        return c15.replay(rp)
    if rp.get("kind") == "epics-builder":
        ck = _Collect()
        epics_builder_part(ck, rp.get("tier", "quick"), random.Random(rp.get("seed", 0)))
        for reason, what in ck.hits:
            print(reason, "--", what)
        return 1 if ck.hits else 0
    if rp.get("kind") in ("adapters", "epics", "epics_registry", "command_adapters"):
        ck = _Collect()
        all_adapter_parts(ck, rp.get("tier", "quick"), random.Random(rp.get("seed", 0)))
        for reason, what in ck.hits:
            print(reason, "--", what)
        return 1 if any(r == rp.get("reason") for r, _ in ck.hits) else 0
    return sprops.replay_pair(rp)
