From TV Require Import Base.
Example C11_placeholder : True. Proof. exact I. Qed.
