"""C14 -- long runs use bounded scheduler resources.
Whole flat / nested simulations (every device with a blocking adapter task, periodic callbacks,
interrupts) run for N, 2N and 4N ticks on the internal bus and virtual time; at the end of each
run, with the master asleep, the harness counts the pending asyncio tasks, the armed timers and
the scheduler's wakeup entries and compares them -- exactly -- with the ledger of Model/Ledger.v
(a function of the configuration only).  The TCP handler is fed N, 2N, 4N chunks on one connection
and the reply tasks it retains are counted."""
import asyncio
import gc
import json
import random

import slevel
import sprops
from common import Check, P, Zr, L, T, O, B, run_shards

PID = "C14"
EXT, EXP = 1, 2
HEADER = "From TV Require Import Base Model.Wiring Model.Sim Model.Ledger."
REASONS = {151: "pending-tasks-differ-from-ledger-or-grow-with-run-length", 152: "armed-timers-grow-with-run-length",
           153: "wakeup-entries-exceed-components", 154: "tcp-handler-retains-reply-tasks",
           155: "finished-tasks-are-retained-and-grow-with-run-length", 156: "scheduler-bookkeeping-grows-with-run-length"}


def run_counting(cfg, devs, t_end, stim):
    from tickit.core.adapter import AdapterContainer

    class BlockingAdapter:
        def after_update(self):
            pass

    class BlockingIo:
        async def setup(self, adapter, raise_interrupt):
            adapter.raise_interrupt = raise_interrupt
            await asyncio.Event().wait()

    class InterruptingAdapter:
        """raises an interrupt from after_update on two updates out of three: the interrupt reaches the nested
        scheduler while the tick that updated the device is still running"""
        def __init__(self):
            self.n, self.raise_interrupt = 0, None

        def after_update(self):
            self.n += 1
            if self.n % 3 != 0 and self.raise_interrupt is not None:
                asyncio.get_event_loop().create_task(self.raise_interrupt())

    counts = {}

    def on_start(loop, sched):
        counts["loop"], counts["sched"] = loop, sched

    # measure inside the run, just before it is torn down: piggy-back on the stimulus mechanism
    import tickit.core.management.ticker as tk
    orig = slevel.run_internal

    async def measure():
        pass

    res = {}

    def hook_factory():
        def hook(lp):
            # at the very last instant of the run (virtual time reached t_end): count once
            if "done" not in res and lp.vt * 1e9 >= t_end - 2:
                res["done"] = True
                tasks = [t for t in asyncio.all_tasks(lp) if not t.done()]
                res["tasks"] = len(tasks)
                res["timers"] = len([h for h in lp._scheduled if not h._cancelled])
                res["wakeups"] = len(counts["sched"].wakeups)
                # ... and what is merely retained: Task objects that are still referenced from somewhere (finished ones
                # included), and the entries of every container the schedulers / tickers / components hold as attributes
                gc.collect()
                res["task_objects"] = sum(1 for o in gc.get_objects() if isinstance(o, asyncio.Task))
                res["bookkeeping"] = bookkeeping([counts["sched"]] + list(slevel.REG.values())) + cache_entries()
        return hook

    def on_start2(loop, sched):
        on_start(loop, sched)
        loop.step_hook = hook_factory()

    inner = [d for d in slevel.devices_of(cfg) if slevel.path_of(cfg, d)[1]]
    noisy = inner[:1]          # one device inside a system simulation interrupts in the middle of ticks
    r = slevel.run_internal(cfg, devs, (1, 1), 0, stim, t_end,
                            adapters={d: ((lambda: [AdapterContainer(InterruptingAdapter(), BlockingIo())]) if d in noisy else
                                          (lambda: [AdapterContainer(BlockingAdapter(), BlockingIo())]))
                                      for d in slevel.devices_of(cfg)}, on_start=on_start2)
    res["ticks"] = len(r["mticks"])
    res["error"] = r["error"] or (r["errors"][:1] or None)
    return res


def cache_entries():
    """entries held by memoising wrappers (functools.lru_cache / cache) on the functions and methods of tickit's modules"""
    import sys
    total, seen = 0, set()
    for name, mod in list(sys.modules.items()):
        if not name.startswith("tickit.") or mod is None:
            continue
        for obj in list(vars(mod).values()):
            cands = [obj] + (list(vars(obj).values()) if isinstance(obj, type) and getattr(obj, "__module__", "").startswith("tickit.") else [])
            for f in cands:
                f = getattr(f, "__func__", f)
                info = getattr(f, "cache_info", None)
                if callable(info) and id(f) not in seen:
                    seen.add(id(f))
                    try:
                        total += info().currsize
                    except Exception:  # noqa
                        pass
    return total


def bookkeeping(roots):
    """number of entries of the containers held (as attributes, one level of nesting) by the schedulers, their tickers and
    event routers, and the components"""
    import collections
    seen, todo, total = set(), list(roots), 0
    sized = (dict, list, set, frozenset, tuple, collections.deque)
    while todo:
        o = todo.pop()
        if id(o) in seen:
            continue
        seen.add(id(o))
        for name, v in list(getattr(o, "__dict__", {}).items()):
            if isinstance(v, sized):
                total += len(v)
                for x in (v.values() if isinstance(v, dict) else v):
                    if isinstance(x, sized):
                        total += len(x)
            elif type(v).__module__.startswith("tickit.") and not isinstance(v, type):
                todo.append(v)          # the ticker of a scheduler, the scheduler of a system simulation, the event router ...
    return total


def tcp_counts(n, streaming=False, watch=False, failing=False):
    """n chunks on one connection; how many reply tasks does the handler still hold?
    streaming: the connection starts with a never-ending on_connect readback (a long-lived reply task)"""
    from tickit.adapters.io.tcp_io import TcpIo
    from tickit.adapters.tcp import CommandAdapter
    from tickit.adapters.specifications import RegexCommand

    class A(CommandAdapter):
        @RegexCommand(rb"P", False)
        async def p(self):
            return b"ok"

        @RegexCommand(rb"F", False)
        async def f(self):
            async def broken():
                yield b"first"
                raise RuntimeError("reply stream fails while it is written")
            return broken()

        @RegexCommand(rb"W", False)
        async def w(self):
            async def readback():
                yield b"watching"
                await asyncio.Event().wait()     # a continuous readback answered to one command: never finishes
            return readback()

        async def on_connect(self):
            if streaming:
                yield b"hello"
                await asyncio.Event().wait()     # continuous readback: never finishes
            return

    out = {}

    class Reader:
        def __init__(self):
            self.k = 0

        async def read(self, size):
            for _ in range(4):
                await asyncio.sleep(0)
            self.k += 1
            if self.k > n:
                # before end-of-stream: look at what the handler retains
                cells = [c.cell_contents for c in (handle.__closure__ or ()) if isinstance(getattr(c, "cell_contents", None), list)]
                frame_lists = []
                out["retained_closure"] = max([len(c) for c in cells if all(isinstance(x, asyncio.Task) for x in c)] or [0])
                out["live_tasks"] = len([t for t in asyncio.all_tasks() if not t.done()])
                gc.collect()
                out["task_objects"] = sum(1 for o in gc.get_objects() if isinstance(o, asyncio.Task))
                measured.set()
                return b""
            return b"W" if (watch and self.k == 1) else (b"F" if failing else b"P")

    class Writer:
        def write(self, d):
            pass

        def is_closing(self):
            return False

        async def drain(self):
            return

        def get_extra_info(self, k):
            return None

    async def main():
        nonlocal handle, measured
        measured = asyncio.Event()
        a = A()

        async def ri():
            pass
        handle = TcpIo("h", 1)._generate_handle_function(a.on_connect, a.handle_message, ri, a.byte_format)
        t = asyncio.create_task(handle(Reader(), Writer()))
        # the streaming connection never ends by itself: wait until the measurement has been taken
        m = asyncio.create_task(measured.wait())
        await asyncio.wait([t, m], timeout=120, return_when=asyncio.FIRST_COMPLETED)
        await asyncio.sleep(0)
        t.cancel()
        m.cancel()
    handle = None
    measured = None
    loop = asyncio.new_event_loop()
    loop.set_exception_handler(lambda lp, ctx: None)     # reply tasks that fail are never awaited by the handler: no log noise
    try:
        asyncio.set_event_loop(loop)
        loop.run_until_complete(main())
    finally:
        asyncio.set_event_loop(None)
        loop.close()
    return out


def tcp_conn_counts(n, mode):
    """n connections one after the other on ONE TcpIo, each of a few messages, each ending the way `mode` says: "close"
    (end of data), "reset" (the read raises ConnectionResetError), "raise" (a command handler raises); how many Task
    objects are still alive afterwards?"""
    from tickit.adapters.io.tcp_io import TcpIo
    from tickit.adapters.tcp import CommandAdapter
    from tickit.adapters.specifications import RegexCommand

    class A(CommandAdapter):
        @RegexCommand(rb"P", False)
        async def p(self):
            return b"ok"

        @RegexCommand(rb"X", False)
        async def x(self):
            raise RuntimeError("handler fails")

    class Reader:
        def __init__(self):
            self.k = 0

        async def read(self, size):
            await asyncio.sleep(0)
            self.k += 1
            if self.k <= 2:
                return b"P"
            if mode == "reset":
                raise ConnectionResetError("connection reset by peer")
            if mode == "raise" and self.k == 3:
                return b"X"
            return b""

    class Writer:
        def write(self, d):
            pass

        def is_closing(self):
            return False

        def close(self):
            pass

        async def wait_closed(self):
            return

        async def drain(self):
            return

        def get_extra_info(self, k):
            return None

    out = {}

    async def main():
        a = A()

        async def ri():
            pass
        io = TcpIo("h", 1)
        handle = io._generate_handle_function(a.on_connect, a.handle_message, ri, a.byte_format)
        for _ in range(n):
            t = asyncio.create_task(handle(Reader(), Writer()))
            try:
                await asyncio.wait_for(asyncio.shield(t), timeout=5)
            except Exception:  # noqa  -- a connection that ends with an exception ends all the same
                pass
            for _ in range(3):
                await asyncio.sleep(0)
            del t
        gc.collect()
        out["task_objects"] = sum(1 for o in gc.get_objects() if isinstance(o, asyncio.Task))
        out["live_tasks"] = len([t for t in asyncio.all_tasks() if not t.done()])
        out["io"] = io          # (the io object lives as long as the server does)
    loop = asyncio.new_event_loop()
    loop.set_exception_handler(lambda lp, ctx: None)
    try:
        asyncio.set_event_loop(loop)
        loop.run_until_complete(main())
    finally:
        asyncio.set_event_loop(None)
        loop.close()
    out.pop("io", None)
    return out


def render(cfg, counts):
    return T(slevel.r_config(cfg), L(T(Zr(c["ticks"]), Zr(c["tasks"]), Zr(c["timers"]), Zr(c["wakeups"])) for c in counts))


def main(tier, seed):
    ck = Check(PID, tier, seed, "Props.C14", ["Model/Ledger.v", "Proofs/LedgerP.v", "Props/C14.v"])
    ck.build_and_audit()
    rng = random.Random(seed)
    slevel.MAX_WALL = 1200.0       # runs of thousands of ticks are this check's subject
    configs = [
        ({1: dict(order=[(3, "dev"), (4, "dev")], conns=[(3, 1, 4, 1)])}, {3: (3, 20_000_000, 1), 4: (3, 30_000_000, 1)}),
        ({1: dict(order=[(3, "dev"), (4, 2), (7, "dev")], conns=[(3, 1, 4, 1), (4, 1, 7, 1)]),
          2: dict(order=[(5, "dev"), (6, "dev")], conns=[(EXT, 1, 5, 1), (5, 1, 6, 1), (6, 1, EXP, 1)])},
         {3: (5, 20_000_000, 1), 5: (5, 30_000_000, 0), 6: (5, 50_000_000, 1), 7: (5, 30_000_000, 0)}),
        ({1: dict(order=[(3, 2), (8, "dev")], conns=[(3, 1, 8, 1)]),
          2: dict(order=[(4, "dev"), (5, 3)], conns=[(4, 1, 5, 1), (5, 1, EXP, 1)]),
          3: dict(order=[(6, "dev"), (7, "dev")], conns=[(EXT, 1, 6, 1), (7, 1, EXP, 1)])},
         {4: (9, 20_000_000, 1), 6: (9, 30_000_000, 0), 7: (9, 40_000_000, 1), 8: (9, 30_000_000, 0)}),
    ]
    # a callback that lies an hour ahead while interrupts keep cutting the master's sleep short
    configs.append(({1: dict(order=[(3, "dev"), (4, "dev")], conns=[(3, 1, 4, 1)])}, {3: (3, 3_600_000_000_000, 2), 4: (3, 30_000_000, 0)}))
    # a time-out an hour ahead that every interrupt of the device re-arms (its pending wakeup is replaced again and again
    # before it is ever due) next to a device with near periodic callbacks
    configs.append(({1: dict(order=[(3, "dev"), (4, "dev")], conns=[])}, {3: (3, 3_600_000_000_000, 1), 4: (3, 30_000_000, 1)}))
    # an inner device that asks to be re-evaluated at once on every other update (a callback at the time of the update itself)
    configs.append(({1: dict(order=[(3, "dev"), (4, 2), (7, "dev")], conns=[(3, 1, 4, 1), (4, 1, 7, 1)]),
                     2: dict(order=[(5, "dev"), (6, "dev")], conns=[(EXT, 1, 5, 1), (5, 1, 6, 1), (6, 1, EXP, 1)])},
                    {3: (5, 20_000_000, 1), 5: (5, 30_000_000, 5), 6: (5, 50_000_000, 5), 7: (5, 30_000_000, 0)}))
    # purely interrupt-driven: no component ever asks for a callback, the master idles between interrupts
    configs.append(({1: dict(order=[(3, "dev"), (4, "dev")], conns=[(3, 1, 4, 1)])}, {3: (3, 20_000_000, 0), 4: (3, 30_000_000, 0)}))
    for _ in range({"quick": 2, "thorough": 20}[tier]):
        cfg = slevel.gen_config(rng, depth=rng.choice([0, 1, 2]))
        devs = {c: (7, rng.choice([20_000_000, 30_000_000, 50_000_000]), rng.choice([1, 1, 4])) for c in slevel.devices_of(cfg)}
        configs.append((cfg, devs))
    N = {"quick": 60, "thorough": 1500}[tier]
    cases, terms = [], []
    for cfg, devs in configs:
        counts = []
        for mult in (1, 2, 4):
            t_end = N * mult * 10_000_000 + 3_000_003
            dl = slevel.devices_of(cfg)
            idle_only = all(p[2] == 0 or p[1] > 10 ** 12 for p in devs.values())
            stim = sorted((rng.randrange(1, N * mult) * 10_000_000 + 137 * (k + 1), rng.choice(dl))
                          for k in range(N * mult // (1 if idle_only else 6)))
            counts.append(run_counting(cfg, devs, t_end, stim))
        cases.append(dict(cfg=cfg, devs=devs, counts=counts))
        terms.append(render(cfg, counts))
    bad = run_shards(PID, HEADER, "ledger_case", "check_ledger", terms, shard_size=10)
    for i, c in enumerate(cases):
        ck.count(json.dumps(sprops.describe(dict(c, speed=(1, 1), initial=0, stim=[]))), slevel.depth_of(c["cfg"]) > 1)
        if any(x["error"] for x in c["counts"]):
            bad.setdefault(i, []).append(151)
        # retained but not pending: must not grow with the length of the run either
        cs = c["counts"]
        for key, code in (("task_objects", 155), ("bookkeeping", 156)):
            v = [x.get(key) for x in cs]
            if None not in v and v[2] > v[0] + 8 and v[2] > v[1] > v[0]:
                bad.setdefault(i, []).append(code)
    tcp = [tcp_counts(n) for n in (N, 2 * N, 4 * N)]
    tcp_s = [tcp_counts(n, streaming=True) for n in (N, 2 * N, 4 * N)]
    tcp_w = [tcp_counts(n, watch=True) for n in (N, 2 * N, 4 * N)]
    tcp_f = [tcp_counts(n, failing=True) for n in (N, 2 * N, 4 * N)]
    for mode in ("close", "reset", "raise"):
        tcc = [tcp_conn_counts(n, mode) for n in (N, 2 * N, 4 * N)]
        ck.evaluations += 3
        ck.coverage["tcp_connections_" + mode] = tcc
        if not (tcc[2]["task_objects"] <= tcc[0]["task_objects"] + 4 and tcc[2]["live_tasks"] <= tcc[0]["live_tasks"] + 4):
            ck.report(REASONS[154] + "-of-ended-connections",
                      f"TcpIo after N, 2N, 4N connections that each ended ({mode}): {[t['task_objects'] for t in tcc]} Task objects alive, "
                      f"{[t['live_tasks'] for t in tcc]} unfinished", dict(kind="tcp", counts=tcc, mode=mode))
    ck.count("tcp", True)
    ck.evaluations += 3 * len(cases) + 2
    ck.rule = (f"flat, nested and doubly nested configurations plus random ones, every device with a blocking adapter task and periodic "
               f"callbacks, one interrupt per ~6 ticks, run for about N, 2N, 4N ticks (N = {N}); pending tasks / armed timers / wakeup "
               "entries counted at the end with the master asleep and compared exactly with the Coq ledger; one TCP connection fed "
               "N, 2N, 4N chunks; non-trivial = nested configuration")
    ck.coverage.update(N=N, ticks=[[x["ticks"] for x in c["counts"]] for c in cases], tcp=tcp, disagreements=len(bad))
    ck.sample(dict(counts=cases[1]["counts"], tcp=tcp))
    done = set()
    for i in sorted(bad):
        for code in bad[i]:
            if code in done:
                continue
            done.add(code)
            c = cases[i]
            d = sprops.describe(dict(c, speed=(1, 1), initial=0, stim=[]))
            d.update(kind="counts", counts=c["counts"], codes=bad[i])
            ck.report(REASONS[code], f"resource counts over runs of N, 2N, 4N ticks (ticks, pending tasks, timers, Task objects alive, container entries): "
                                     f"{[(x['ticks'], x['tasks'], x['timers'], x.get('task_objects'), x.get('bookkeeping')) for x in c['counts']]}: {REASONS[code]}", d)
    for name, tc in (("", tcp), (" with a never-ending on_connect readback", tcp_s),
                     (" whose first command is answered by a never-ending readback", tcp_w),
                     (" every message of which is answered by a reply stream that raises", tcp_f)):
        if not (tc[2].get("task_objects", 10**9) <= tc[0].get("task_objects", 0) + 2 and tc[2].get("live_tasks", 10**9) <= tc[0].get("live_tasks", 0) + 2):
            ck.report(REASONS[154] + ("-streaming" if name else ""),
                      f"TCP handler after N, 2N, 4N chunks on one connection{name}: {[t.get('task_objects') for t in tc]} Task objects alive, "
                      f"{[t.get('live_tasks') for t in tc]} unfinished", dict(kind="tcp", counts=tc))
    return ck.finish()


def replay(rp):
    print(json.dumps(rp.get("counts"), indent=1))
    return 1
