"""Shared driver of the ticker-level checks (C01, C02, C08 and the ticker part of C03)."""
import itertools
import json
import random

import tlevel
from common import Check, run_shards

HEADER = "From TV Require Import Base Model.Wiring Model.Ticker Oracle.TickerOracle."

REASONS = {
    1: "dispatch-at-tick-start-differs-from-model", 2: "dispatch-after-answer-differs-from-model",
    3: "finished-flag-differs-from-model", 4: "error-behaviour-differs-from-model", 5: "model-could-not-start-tick",
    18: "tick-finished-without-dispatching-a-downstream-component",
    11: "dispatched-before-in-tick-upstream-answered", 12: "dispatched-twice-in-one-tick",
    13: "component-outside-the-roots-closure-touched", 14: "update-vs-skip-decision-wrong",
    15: "changes-handed-over-differ-from-routed-upstream-changes", 16: "tick-finished-flag-wrong",
    17: "dispatch-stamped-with-wrong-time", 21: "dispatch-depends-on-answer-order",
}
CORR = {1, 2, 3, 4, 5}


def small_wirings(ncomp):
    """all acyclic inverse wirings over ncomp components x 1 port (each input unwired or fed
    by a lower-numbered... any other component), as connection lists"""
    comps = list(range(1, ncomp + 1))
    srcs = [None] + comps
    for choice in itertools.product(srcs, repeat=ncomp):
        conns = [(s, 1, c, 1) for c, s in zip(comps, choice) if s is not None and s != c]
        if any(s == c for c, s in zip(comps, choice)):
            continue
        # acyclic?
        succ = {c: [k[2] for k in conns if k[0] == c] for c in comps}
        ok = True
        for c in comps:
            seen, st = set(), list(succ[c])
            while st:
                x = st.pop()
                if x == c:
                    ok = False
                    break
                if x not in seen:
                    seen.add(x)
                    st.extend(succ[x])
            if not ok:
                break
        if ok:
            yield conns, comps


def nonempty_subsets(xs):
    for n in range(1, len(xs) + 1):
        yield from itertools.combinations(xs, n)


def gen_groups(tier, rng, family):
    """returns list of (conns, comps, [observed run, ...]) -- each group = one tick history run
    under one or several answer orders"""
    groups = []
    stats = dict(exhaustive_histories=0, exhaustive_runs=0, random_runs=0, malformed_runs=0)
    # corpus: histories that defeat caches kept across ticks (different participant sets per tick)
    for name, conns in tlevel.shapes().items():
        comps = sorted({c for k in conns for c in (k[0], k[2])}) + [7]
        hist = [(0, comps), (10, [comps[1]]), (20, [comps[0], 7]), (30, [comps[0]])]
        runs = tlevel.enumerate_orders(conns, comps, hist, "all", limit=300 if tier == "quick" else 3000)
        groups.append((conns, comps, runs))
        stats["exhaustive_histories"] += 1
        stats["exhaustive_runs"] += len(runs)
    # exhaustive small scope: every acyclic wiring, every non-empty root set, every answer order
    nmax = 3 if tier == "quick" else 4
    for n in range(1, nmax + 1):
        for conns, comps in small_wirings(n):
            for roots in nonempty_subsets(comps):
                hist = [(0, comps), (5, list(roots))]
                runs = tlevel.enumerate_orders(conns, comps, hist, "all")
                groups.append((conns, comps, runs))
                stats["exhaustive_histories"] += 1
                stats["exhaustive_runs"] += len(runs)
    # random larger DAGs, several orders each
    for _ in range(150 if tier == "quick" else 2500):
        n = rng.randint(2, 12)
        conns, comps = tlevel.gen_dag(rng, n, rng.randint(1, 3), rng.choice([0.3, 0.5, 0.8]))
        nt = rng.randint(1, 5)
        hist = [(0, comps)] + [(10 * i, rng.sample(comps, rng.randint(1, min(3, n)))) for i in range(1, nt)]
        mode = rng.choice(["some", "all"])
        runs = []
        for pol in ("fifo", "lifo", "random", "random"):
            runs.append(tlevel.run_case(conns, comps, hist, tlevel.Choice(rng=rng, policy=pol), mode))
        groups.append((conns, comps, runs))
        stats["random_runs"] += len(runs)
    # malformed stream: foreign / duplicate / wrongly timed answers, unknown roots
    for _ in range(60 if tier == "quick" else 600):
        n = rng.randint(2, 6)
        conns, comps = tlevel.gen_dag(rng, n, 1, 0.6)
        hist = [(0, comps), (10, [rng.choice(comps)])]
        if rng.random() < 0.2:
            hist.append((20, [n + 5]))  # a root the wiring does not know
        mal = []
        for (t, roots) in hist:
            m = []
            for _ in range(rng.randint(0, 2)):
                kind = rng.random()
                c = rng.choice(comps + [n + 3])
                m.append((rng.randint(0, 3), c, t if kind < 0.6 else t + 1, {1: 5}))
            mal.append(sorted(m, key=lambda x: x[0]))
        runs = [tlevel.run_case(conns, comps, hist, tlevel.Choice(rng=rng, policy="random"), "all", mal)]
        groups.append((conns, comps, runs))
        stats["malformed_runs"] += 1
    return groups, stats


def render_group(g):
    from common import L, T
    conns, comps, runs = g
    ticks = []
    for obs in runs:
        ticks.append(tlevel.render_case(conns, comps, obs).rsplit(", [(", 1))
    # render as multi_case: (conns, comps, [ticks_run1; ticks_run2; ...])
    parts = []
    for obs in runs:
        full = tlevel.render_case(conns, comps, obs)
        # strip the leading "(conns, comps, " and trailing ")"
        prefix = T(tlevel.r_conns(conns), L(tlevel.P(c) for c in comps), "")[:-1]
        assert full.startswith(prefix), (full[:80], prefix[:80])
        parts.append(full[len(prefix):-1])
    return T(tlevel.r_conns(conns), L(tlevel.P(c) for c in comps), L(parts))


def is_nontrivial(g):
    conns, comps, runs = g
    return len(conns) >= 2 and any(len(ans) >= 3 for r in runs for (_, _, _, ans) in r)


def device_component_part(ck, tier, rng):
    """C02's second half: DeviceComponent reports a port iff its value differs from the previous report"""
    import clevel
    import itertools as it
    hs = []
    # exhaustive: one port, 4 updates, each: omit / value None / value 0 / value 1
    for seq in it.product(["omit", None, 0, 1], repeat=4 if tier == "quick" else 6):
        hs.append([({}, ({} if v == "omit" else {1: v}), None) for v in seq])
    for _ in range(400 if tier == "quick" else 5000):
        hs.append(clevel.gen_history(rng))
    # every other history with its updates in pairs at one instant
    runs = [clevel.run_dc(h, same_time=(i % 2 == 1)) for i, h in enumerate(hs)]
    terms = [clevel.render_dc(h, o, n) for h, (o, n) in zip(hs, runs)]
    bad = run_shards(ck.pid + "_dc", "From TV Require Import Base Model.Wiring Model.Component.", "dc_case", "check_dc",
                     terms, shard_size=500)
    for h in hs:
        ck.count("dc:" + json.dumps(h), clevel.nontrivial(h))
    ck.sample(dict(device_component_history=hs[-1], observed=runs[-1][0], adapter_notifications=runs[-1][1]))
    ck.coverage["device_component_histories"] = len(hs)
    names = {41: "device-inputs-differ-from-model", 42: "reported-changes-differ-from-model",
             43: "adapter-not-notified-once-per-update"}
    done = set()
    for i in sorted(bad):
        for code in bad[i]:
            if code not in done:
                done.add(code)
                ck.report(names[code], f"DeviceComponent.on_tick: {names[code]}",
                          dict(kind="device_component", history=hs[i], same_time=(i % 2 == 1), observed=runs[i][0], notifications=runs[i][1], codes=bad[i]))


def main_T(pid, tier, seed, prop_codes, prop_mod, serving_files, what, with_dc=False, extra=None):
    ck = Check(pid, tier, seed, prop_mod, serving_files)
    ck.build_and_audit()
    rng = random.Random(seed)
    if with_dc:
        device_component_part(ck, tier, rng)
    if extra is not None:
        extra(ck, tier, rng)
    groups, stats = gen_groups(tier, rng, pid)
    terms = [render_group(g) for g in groups]
    bad = run_shards(pid, HEADER, "multi_case", "check_multi", terms, shard_size=120)
    nruns = 0
    for g in groups:
        for r in g[2]:
            nruns += 1
        ck.count(json.dumps([g[0], g[1], [[t, list(rs)] for (t, rs, _, _) in g[2][0]]]), is_nontrivial(g))
    ck.evaluations += nruns - len(groups)
    ck.rule = ("real Ticker+EventRouter driven tick by tick, the harness answering for the components: every answer order of "
               "multi-tick histories on named shapes (chain, diamond, fan-in, fan-out, slow branch; participant sets differing "
               "between ticks), every acyclic 1-port wiring of <= %d components x every non-empty root set x every answer order, "
               "random DAGs to 12 components under FIFO/LIFO/random orders, and a malformed stream (foreign, duplicate, wrongly "
               "timed answers, unknown roots); evaluations = ticker runs, distinct = distinct (wiring, history) groups with >= 2 wires "
               "and >= 3 answers" % (3 if tier == "quick" else 4))
    ck.coverage.update(exhaustive=True, **stats, groups=len(groups), disagreements=len(bad))
    g = groups[len(groups) // 2]
    ck.sample(dict(conns=g[0], comps=g[1], first_run=g[2][0]))
    prop_hits = {i: [c for c in codes if c in prop_codes] for i, codes in bad.items()}
    done = set()
    for i in sorted(bad):
        for code in prop_hits[i]:
            if code in done:
                continue
            done.add(code)
            ck.report(REASONS[code], f"{what}: {REASONS[code]}",
                      dict(conns=groups[i][0], comps=groups[i][1], runs=groups[i][2], codes=bad[i]))
    if not done:
        corr = sorted({c for codes in bad.values() for c in codes if c not in prop_codes})
        if corr:
            i = min(bad)
            ck.report("correspondence-broken", f"ticker model and implementation disagree ({[REASONS[c] for c in corr]}) "
                      f"but no trace violating {pid} was found in the explored families",
                      dict(conns=groups[i][0], comps=groups[i][1], runs=groups[i][2], codes=bad[i],
                           broken="correspondence Model/Ticker.v vs ticker.py; theorems of " + prop_mod),
                      no_input=True)
    return ck.finish()


def replay_T(rp):
    from common import run_shards
    if rp.get("kind") == "device_component":
        import clevel
        h = [({int(k): v for k, v in c.items()}, {int(k): v for k, v in o.items()}, ca) for c, o, ca in rp["history"]]
        o, n = clevel.run_dc(h, same_time=rp.get("same_time", False))
        bad = run_shards("replay", "From TV Require Import Base Model.Wiring Model.Component.", "dc_case", "check_dc",
                         [clevel.render_dc(h, o, n)])
        print("history:", h)
        print("observed:", o, n, "codes:", bad.get(0, []))
        return 1 if bad else 0
    conns = [tuple(k) for k in rp["conns"]]
    comps = rp["comps"]
    runs = rp["runs"]
    # re-run the first recorded run's history under the recorded order is not possible in general
    # (orders are data-dependent); re-run all answer orders of the same history instead
    hist = [(t, roots) for (t, roots, _, _) in runs[0]]
    new = tlevel.enumerate_orders(conns, comps, hist, "all", limit=200)
    bad = run_shards("replay", HEADER, "multi_case", "check_multi", [render_group((conns, comps, new))])
    print("history:", hist, "conns:", conns)
    print("codes:", bad.get(0, []), [REASONS[c] for c in bad.get(0, [])])
    return 1 if bad else 0
