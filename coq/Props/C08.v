(* C08 -- results do not depend on message timing.
   (1) Ticker level: for deterministic components the dispatch (kind and changes) of every
       component of a tick is the same under every order in which the components answer
       ([C08_ticker_confluent], [C08_same_participants]).
   (2) Whole flat simulations ([C08_whole_simulation]): the master picks the earliest pending
       wakeups, every tick is ANY complete run of the ticker (components answer in any order the
       gate admits), every component answers what its DeviceComponent computes from its state,
       interrupts are applied between ticks.  Two such runs of the same script -- whatever the
       answer orders, tick after tick -- give every device the same sequence of (time, inputs),
       callbacks and interrupts included, and leave equivalent component states and wakeup tables.
       Schedules exist: [run_sched] executes any strategy, and the first-answers-first and
       last-answers-first strategies really produce different traces ([C08_schedules_example]).
   (3) ... and equal what the deterministic whole-simulation model computes
       ([C08_every_schedule_is_sim], [C08_sim_run_is_every_schedule]): Model/Sim.v folds the
       components of a level in its topological order; seen as a trace of the ticker that fold is
       one well-formed run, so by (2) every schedule gives every device exactly the observations
       of Model/Sim.v -- the model all whole-simulation theorems (C02, C03, C05, C09, C10) are
       stated on and every run of the real schedulers on the in-memory bus is compared with.
   (4) Nested simulations, any depth ([C08_nested_schedule_independent], [C08_nested_tick_schedule_independent]):
       every level -- the master's and every nested scheduler's -- runs its tick as ANY complete run of the ticker;
       a system simulation answers with the outcome of ANY such run of its own level, started in the state
       as it is when its turn comes.  Two runs of one script, whatever the answer orders at all levels tick
       after tick, give every device at every depth the same sequence of (time, inputs) and leave equivalent
       states (device states, wakeup tables, pending interrupts, per level).  By induction on the depth:
       confluence of the ticker for components whose answers are relations, footprints of the components of a
       level are disjoint, a component's answer depends only on its footprint (Proofs/NDetP.v).
       [C08_nested_schedule_independent_interrupts]: the same with interrupts of devices at any depth (the
       bookkeeping of Model/Sim.v [raise_interrupt]).
       [C08_nested_schedules_example]: two strategies, different global orders, a system inside a system.
   (5) ... and every nested schedule computes what Model/Sim.v computes ([C08_every_nested_schedule_is_sim],
       [C08_nested_tick_is_sim]): the fold of Model/Sim.v over a level, read as a trace of that level's ticker, has
       everything the comparison of two ticks of a level needs, so -- by the same induction on the depth -- every
       run of (4) ends like [on_tick_level] / [xsim_from_start], interrupts at any depth included (Proofs/SimNTP.v).
   (6) Below the ticker's answers: the MESSAGES of a level ([C08_message_level_is_sim]).  A component is handed its
       Input at one moment -- it computes then, in the state as it is then -- and its Output reaches the scheduler at a
       later one -- only then does the ticker see the answer and is the callback registered; the Inputs and Outputs of the
       components of a level are delivered in ANY order (several components computing before any answer is seen,
       answers overtaking one another), at every level and depth, interrupts at any depth between the ticks.  Every
       such run ends like Model/Sim.v: the footprint of a component is untouched between the two moments, so such
       a run of a level has everything the comparison of two ticks needs (Proofs/MsgLevelP.v).  The answer-order
       runs of (4) are among them ([C08_answer_order_runs_are_message_level]).
   (7) ALL the messages of ALL the schedulers of a nesting interleaved ([C08_interleaved_nesting_is_sim]).  In (6) the
       tick of a system simulation is one event of the enclosing level; here it is not: a system simulation that is
       handed its Input starts the tick of its own scheduler, every message of that scheduler -- and of the schedulers
       below it, to any depth -- is a step of its own, taken at any moment between the messages of the enclosing level
       and of the sibling system simulations, and when its tick has ended the system simulation's answer travels to the
       enclosing scheduler like any other (the tree of ticks in progress [hcfg], the step relation [HS] of
       Proofs/MsgTreeP.v).  Every such run ends like Model/Sim.v: seen from one system simulation everything outside
       its subtree is an environment that leaves its footprint alone, so by induction over the run it has a run of its
       own among environment steps, and a level has what the comparison of two ticks needs.  The runs of (6) are among
       them ([C08_message_level_runs_are_interleaved]); Model/HSim.v executes them under any strategy
       ([C08_interleaving_strategies_are_schedules], [C08_interleaved_example]: the tick of one system simulation
       interrupted by the messages of another).
       TIE: the harness records every delivery the delaying bus makes to the real schedulers and components and
       Oracle/HReplay.v replays them as moves of Model/HSim.v, checking that the model has that very message in
       flight (time, changes, callback); a real tick that replays IS a tick of (7)
       ([C08_replayed_real_tick_is_an_interleaved_tick]), so the theorem is about that very execution.
   PARTIAL: interrupts arrive between master ticks (an interrupt racing with a running tick is the master machine's
   subject, C04/C07); per-topic queues with latency and acknowledging brokers are explored on the delaying bus (codes
   21/22): in the theorems a message is delivered in one step and a sender does not wait for an acknowledgement.  Besides the theorems the schedule-explicit models are evaluated
   under two strategies against Model/Sim.v on every generated case (flat: Model/NSim.v, code 23; nested:
   Model/NNSim.v, code 24).
   Property theorems only. *)
From TV Require Import Base Model.Wiring Model.Ticker Model.Component Model.Sim Model.SimTime Model.Inline Model.NSim Oracle.SimCheck
  Proofs.WiringP Proofs.TickerP Proofs.SimP Proofs.EqvP Proofs.ParDevP Proofs.InlineP Proofs.InlineScopeP Proofs.InlineLatestP Proofs.ScheduleP Proofs.SimTraceP
  Model.Interrupts Model.NNSim Proofs.FrameP Proofs.NScheduleP Proofs.NDetP Proofs.NDetScopeP Proofs.NDetXP Proofs.SimNTP Proofs.MsgLevelP
  Model.HSim Proofs.MsgTreeP Proofs.HSimP Oracle.HReplay.

(* two arbitrary runs of the same tick (same wiring, time, roots), possibly incomplete and
   under different answer orders, whose answers are given by one deterministic function of
   what each component was handed: any component dispatched in both is dispatched
   identically (same kind, same time, same changes as a map) *)
Theorem C08_ticker_confluent :
  forall conns comps t roots (rank : comp -> nat) (dev : comp -> changes -> changes),
    single_source conns ->
    (forall k, In k conns -> (rank (out_comp k) < rank (in_comp k))%nat) ->
    (forall c x y, ch_equiv x y -> dev c x = dev c y) ->
    (forall c x, NoDup (keys (dev c x))) ->
    forall ext1 st1 tr1 ext2 st2 tr2,
      Run conns comps t roots ext1 st1 tr1 -> Run conns comps t roots ext2 st2 tr2 ->
      answers_by dev tr1 -> answers_by dev tr2 ->
      forall a1 a2, In (EDispatch a1) tr1 -> In (EDispatch a2) tr2 ->
      act_comp a1 = act_comp a2 -> action_equiv a1 a2.
Proof.
  intros conns comps t roots rank dev Hss Hrank Hext Hwf ext1 st1 tr1 ext2 st2 tr2.
  apply (confluent conns comps t roots Hss rank Hrank dev Hext Hwf).
Qed.

(* the two runs also involve the same participants, and a finished run has dispatched all of
   them: so complete runs dispatch exactly the same set of components *)
Theorem C08_same_participants : forall conns comps t roots ext1 st1 tr1 ext2 st2 tr2,
  Run conns comps t roots ext1 st1 tr1 -> Run conns comps t roots ext2 st2 tr2 ->
  todo st1 = [] -> todo st2 = [] ->
  forall c, dispatched tr1 c <-> dispatched tr2 c.
Proof.
  intros conns comps t roots ext1 st1 tr1 ext2 st2 tr2 R1 R2 E1 E2 c.
  destruct (run_ext conns comps t roots ext1 st1 tr1 R1) as [s1 [S1 X1]].
  destruct (run_ext conns comps t roots ext2 st2 tr2 R2) as [s2 [S2 X2]].
  rewrite S1 in S2. inversion S2; subst s2. subst.
  assert (I1 := run_inv conns comps t roots _ st1 tr1 R1). assert (I2 := run_inv conns comps t roots _ st2 tr2 R2).
  split; intros H.
  - apply (run_finished conns comps t roots _ st2 tr2 R2 E2). apply (i_disp_ext _ _ _ _ _ _ I1). exact H.
  - apply (run_finished conns comps t roots _ st1 tr1 R1 E1). apply (i_disp_ext _ _ _ _ _ _ I2). exact H.
Qed.

(* (2) whole simulations: any two schedules *)
Theorem C08_whole_simulation : forall conns comps (devf : devfun) (rank : comp -> nat),
  single_source conns ->
  (forall k, In k conns -> (rank (out_comp k) < rank (in_comp k))%nat) ->
  (forall c n t i, NoDup (keys (fst (devf c n t i)))) ->
  (forall c n t i i', NoDup (keys i) -> NoDup (keys i') -> eqv i i' -> devf c n t i = devf c n t i') ->
  forall initial script sA obA sB obB,
    nrun conns comps devf initial script sA obA -> nrun conns comps devf initial script sB obB ->
    (forall d, obs_rel (dev_obs d obA) (dev_obs d obB)) /\ SREL sA sB.
Proof.
  intros conns comps devf rank Hss Hrank Hnd Hext initial script sA obA sB obB HA HB.
  destruct (nrun_deterministic conns comps devf Hnd Hext Hss rank Hrank initial script sA obA sB obB HA HB) as [H1 H2].
  split; assumption.
Qed.

(* the table-driven devices of the harness are such devices *)
Theorem C08_whole_simulation_table : forall conns comps tab (rank : comp -> nat),
  single_source conns ->
  (forall k, In k conns -> (rank (out_comp k) < rank (in_comp k))%nat) ->
  forall initial script sA obA sB obB,
    nrun conns comps (table_dev tab) initial script sA obA -> nrun conns comps (table_dev tab) initial script sB obB ->
    forall d, obs_rel (dev_obs d obA) (dev_obs d obB).
Proof.
  intros conns comps tab rank Hss Hrank initial script sA obA sB obB HA HB.
  apply (C08_whole_simulation conns comps (table_dev tab) rank Hss Hrank (table_dev_nd tab) (table_dev_ext tab) initial script sA obA sB obB HA HB).
Qed.

(* (3) every schedule computes what Model/Sim.v computes.  [flat_wfb]: a level of devices listed in
   a topological order of its single-source wiring; stimuli on listed devices *)
Theorem C08_every_schedule_is_sim : forall cfg (devf : devfun) fuel initial script sA obA,
  flat_wfb (level_of cfg top) = true ->
  (forall c n t i, NoDup (keys (fst (devf c n t i)))) ->
  (forall c n t i i', NoDup (keys i) -> NoDup (keys i') -> eqv i i' -> devf c n t i = devf c n t i') ->
  (forall c w, In (IStim c w) script -> In c (map fst (l_order (level_of cfg top)))) ->
  nrun (l_conns (level_of cfg top)) (map fst (l_order (level_of cfg top))) devf initial script sA obA ->
  forall d, obs_rel (dev_obs d obA) (dev_obs d (snd (sim_script_from_start cfg devf fuel initial script))).
Proof.
  intros cfg devf fuel initial script sA obA Hwf Hnd Hext Hok HA d.
  pose proof (nrun_is_sim cfg devf fuel Hnd Hext (flat_wfb_sound _ Hwf) initial script sA obA Hok HA) as T.
  destruct (sim_script_from_start cfg devf fuel initial script) as [sS obS]. apply T.
Qed.

(* in particular the simulation-time master of Model/SimTime.v, on which the run theorems of C09 and
   C10 are stated: whatever it computes in n ticks up to a horizon is what every schedule of the same
   number of ticks gives every device *)
Theorem C08_sim_run_is_every_schedule : forall cfg (devf : devfun) fuel n initial horizon,
  flat_wfb (level_of cfg top) = true ->
  (forall c k t i, NoDup (keys (fst (devf c k t i)))) ->
  (forall c k t i i', NoDup (keys i) -> NoDup (keys i') -> eqv i i' -> devf c k t i = devf c k t i') ->
  exists k, forall sA obA,
    nrun (l_conns (level_of cfg top)) (map fst (l_order (level_of cfg top))) devf initial (repeat ITick k) sA obA ->
    forall d, obs_rel (dev_obs d obA) (dev_obs d (snd (fst (sim_run cfg devf n fuel initial horizon)))).
Proof.
  intros cfg devf fuel n initial horizon Hwf Hnd Hext.
  destruct (sim_run cfg devf n fuel initial horizon) as [[sS obS] fin] eqn:E.
  destruct (sim_run_is_every_schedule cfg devf fuel Hnd Hext (flat_wfb_sound _ Hwf) n initial horizon sS obS fin E) as [k Hk].
  exists k. intros sA obA HA. apply (Hk sA obA HA).
Qed.

(* every strategy that answers dispatched components one at a time yields such a run *)
Theorem C08_strategies_are_schedules : forall conns comps devf pick fuel initial script s ob,
  nrun_from_start conns comps devf pick fuel initial script = Some (s, ob) -> nrun conns comps devf initial script s ob.
Proof. intros. eapply nrun_from_start_sound. eassumption. Qed.

(* two different schedules of one simulation: 3 -> 4 -> 6, 3 -> 5 -> 7, callbacks on 3 and 5, an
   interrupt of 4; the global order of updates differs (6 before 7 / 7 before 6), 23 updates each *)
Definition ex_conns : list conn := [(3, 1, 4, 1); (4, 1, 6, 1); (3, 1, 5, 1); (5, 1, 7, 1)]%positive.
Definition ex_comps : list comp := [3; 4; 5; 6; 7]%positive.
Definition ex_tab : dev_table :=
  [(3%positive, (11, 300, 1)); (4%positive, (12, 700, 0)); (5%positive, (13, 500, 4)); (6%positive, (14, 400, 0)); (7%positive, (15, 400, 0))].
Definition ex_script := [ITick; ITick; IStim 4%positive 650; ITick; ITick; ITick; ITick].

Example C08_schedules_example :
  match nrun_from_start ex_conns ex_comps (table_dev ex_tab) pick_first 50 0 ex_script,
        nrun_from_start ex_conns ex_comps (table_dev ex_tab) pick_last 50 0 ex_script with
  | Some (_, obA), Some (_, obB) =>
      length obA = 23%nat /\ length obB = 23%nat /\
      firstn 5 (map obs_comp obA) = [3; 4; 5; 6; 7]%positive /\ firstn 5 (map obs_comp obB) = [3; 4; 5; 7; 6]%positive /\
      In (4%positive, 650) (map fst obA) /\
      (* the deterministic model on the same script: 23 updates as well, and it is in the theorem's scope *)
      (let cfg := [(1%positive, {| l_order := map (fun c => (c, KDev)) ex_comps; l_conns := ex_conns |})] in
       flat_wfb (level_of cfg top) = true /\
       length (snd (sim_script_from_start cfg (table_dev ex_tab) 8 0 ex_script)) = 23%nat)
  | _, _ => False
  end.
Proof. vm_compute. repeat split; try reflexivity. do 15 right. left. reflexivity. Qed.

Example C08_placeholder_nonvacuous : acyclic [(1, 1, 2, 1); (1, 1, 3, 1); (2, 1, 4, 1); (3, 1, 4, 2)]%positive.
Proof.
  exists (fun c => Pos.to_nat c). intros k Hk. simpl in Hk.
  repeat (destruct Hk as [<-|Hk]; [simpl; lia|]). destruct Hk.
Qed.

(* (4) nested simulations: any two schedules of all levels.  [subtree_okb cfg (S f) top]: within depth f below the
   master every level and device is named once and every level lists its components once, under real
   identifiers, in a topological order of its single-source wiring *)
Theorem C08_nested_schedule_independent : forall cfg (devf : devfun) f,
  subtree_okb cfg (S f) top = true ->
  (forall c n t i, NoDup (keys (fst (devf c n t i)))) ->
  (forall c n t i i', NoDup (keys i) -> NoDup (keys i') -> eqv i i' -> devf c n t i = devf c n t i') ->
  forall initial script sA obA sB obB,
    nnrun cfg devf f initial script sA obA -> nnrun cfg devf f initial script sB obB ->
    (forall d, obs_rel (dev_obs d obA) (dev_obs d obB)) /\
    NSR (devices_below cfg (S f) top) (levels_below cfg (S f) top) sA sB.
Proof.
  intros cfg devf f Hok Hnd Hext initial script sA obA sB obB HA HB.
  destruct (nnrun_deterministic cfg devf Hnd Hext f initial script sA obA sB obB (subtree_okb_sound _ _ _ Hok) HA HB) as [H1 H2].
  split; assumption.
Qed.

(* one tick of one system simulation (any depth f of nesting below it), handed equivalent input changes in
   equivalent states: equivalent output changes, the same callback, equivalent states, the same updates *)
Theorem C08_nested_tick_schedule_independent : forall cfg (devf : devfun) f lv,
  subtree_okb cfg f lv = true ->
  (forall c n t i, NoDup (keys (fst (devf c n t i)))) ->
  (forall c n t i i', NoDup (keys i) -> NoDup (keys i') -> eqv i i' -> devf c n t i = devf c n t i') ->
  forall time chgA chgB sA sB sA' sB' outA outB caA caB obA obB,
    NoDup (keys chgA) -> NoDup (keys chgB) -> eqv chgA chgB ->
    NSR (devices_below cfg f lv) (levels_below cfg f lv) sA sB ->
    NT cfg devf f lv time chgA sA sA' outA caA obA -> NT cfg devf f lv time chgB sB sB' outB caB obB ->
    eqv outA outB /\ caA = caB /\
    NSR (devices_below cfg f lv) (levels_below cfg f lv) sA' sB' /\
    (forall d, obs_rel (dev_obs d obA) (dev_obs d obB)).
Proof.
  intros cfg devf f lv Hok Hnd Hext time chgA chgB sA sB sA' sB' outA outB caA caB obA obB HnA HnB Hchg Hs HA HB.
  destruct (NT_det cfg devf Hnd Hext f lv (subtree_okb_sound _ _ _ Hok) time chgA chgB sA sB sA' sB' outA outB caA caB obA obB HnA HnB Hchg Hs HA HB)
    as [H1 [_ [_ [H2 [H3 H4]]]]].
  split; [exact H1|]. split; [exact H2|]. split; [exact H3 | exact H4].
Qed.

Theorem C08_nested_schedule_independent_table : forall cfg tab f,
  subtree_okb cfg (S f) top = true ->
  forall initial script sA obA sB obB,
    nnrun cfg (table_dev tab) f initial script sA obA -> nnrun cfg (table_dev tab) f initial script sB obB ->
    forall d, obs_rel (dev_obs d obA) (dev_obs d obB).
Proof.
  intros cfg tab f Hok initial script sA obA sB obB HA HB.
  apply (C08_nested_schedule_independent cfg (table_dev tab) f Hok (table_dev_nd tab) (table_dev_ext tab) initial script sA obA sB obB HA HB).
Qed.

(* every strategy that answers the dispatched components of every level one at a time yields such a run *)
Theorem C08_nested_strategies_are_schedules : forall cfg devf pick steps f initial script s ob,
  nnrun_from_start cfg devf pick steps f initial script = Some (s, ob) -> nnrun cfg devf f initial script s ob.
Proof. intros. eapply nnrun_from_start_sound. eassumption. Qed.

(* two schedules of one nested simulation: 3 feeds the system simulations 4 (devices 5, 6 in parallel, then 12) and 7
   (device 9, then the system simulation 10 with the unconnected devices 11, 13), both feed 8; callbacks at several
   depths and interrupts of 3 and 8.  The global orders of updates differ from the first tick on (system 4 before
   system 7 / 7 before 4, 5 before 6 / 6 before 5, 11 before 13 / 13 before 11); the same number of updates, and per device the observations of Model/Sim.v *)
Definition par_cfg : config :=
  [(1%positive, {| l_order := [(3%positive, KDev); (4%positive, KSys 2%positive); (7%positive, KSys 3%positive); (8%positive, KDev)];
                   l_conns := [(3, 1, 4, 1); (3, 2, 7, 1); (4, 1, 8, 1); (7, 1, 8, 2)]%positive |});
   (2%positive, {| l_order := [(5%positive, KDev); (6%positive, KDev); (12%positive, KDev)];
                   l_conns := [(1, 1, 5, 1); (1, 1, 6, 1); (5, 1, 12, 1); (6, 1, 12, 2); (12, 1, 2, 1)]%positive |});
   (3%positive, {| l_order := [(9%positive, KDev); (10%positive, KSys 4%positive)];
                   l_conns := [(1, 1, 9, 1); (9, 1, 10, 1); (10, 1, 2, 1)]%positive |});
   (4%positive, {| l_order := [(11%positive, KDev); (13%positive, KDev)]; l_conns := [(1, 1, 11, 1); (1, 1, 13, 1); (11, 1, 2, 1)]%positive |})].
Definition par_tab : dev_table :=
  [(3%positive, (11, 300, 1)); (5%positive, (12, 700, 1)); (6%positive, (13, 500, 4)); (8%positive, (14, 400, 0));
   (9%positive, (15, 600, 1)); (11%positive, (16, 900, 4)); (12%positive, (17, 400, 0)); (13%positive, (18, 350, 1))].
Definition par_script := [ITick; ITick; ITick; IStim 3%positive 650; ITick; ITick; IStim 8%positive 1000; ITick; ITick; ITick].

Example C08_nested_schedules_example :
  subtree_okb par_cfg 4 top = true /\
  match nnrun_from_start par_cfg (table_dev par_tab) pick_first 100 3 0 par_script,
        nnrun_from_start par_cfg (table_dev par_tab) pick_last 100 3 0 par_script with
  | Some (_, obA), Some (_, obB) =>
      firstn 8 (map obs_comp obA) = [3; 5; 6; 12; 9; 11; 13; 8]%positive /\
      firstn 8 (map obs_comp obB) = [3; 9; 13; 11; 6; 5; 12; 8]%positive /\
      length obA = length obB /\
      existsb (fun o : obs => Pos.eqb (obs_comp o) 3 && Z.eqb (snd (fst o)) 650) obA = true /\
      existsb (fun o : obs => Pos.eqb (obs_comp o) 8 && Z.eqb (snd (fst o)) 1000) obA = true /\
      (* every device: the same observations under both schedules, and those of Model/Sim.v *)
      forallb (fun d => seq_eqb (obs_of d obA) (obs_of d obB) &&
                        seq_eqb (obs_of d obA) (obs_of d (snd (sim_script_from_start par_cfg (table_dev par_tab) 4 0 par_script))))
              [3; 5; 6; 12; 9; 11; 13; 8]%positive = true
  | _, _ => False
  end.
Proof. vm_compute. repeat split; reflexivity. Qed.

(* ... with interrupts of devices at any depth between the ticks *)
Theorem C08_nested_schedule_independent_interrupts : forall cfg (devf : devfun) f,
  subtree_okb cfg (S f) top = true ->
  (forall c n t i, NoDup (keys (fst (devf c n t i)))) ->
  (forall c n t i i', NoDup (keys i) -> NoDup (keys i') -> eqv i i' -> devf c n t i = devf c n t i') ->
  forall initial script sA obA sB obB,
    xnrun cfg devf f initial script sA obA -> xnrun cfg devf f initial script sB obB ->
    (forall d, obs_rel (dev_obs d obA) (dev_obs d obB)) /\
    NSR (devices_below cfg (S f) top) (levels_below cfg (S f) top) sA sB.
Proof.
  intros cfg devf f Hok Hnd Hext initial script sA obA sB obB HA HB.
  destruct (xnrun_deterministic cfg devf Hnd Hext f initial script sA obA sB obB (subtree_okb_sound _ _ _ Hok) HA HB) as [H1 H2].
  split; assumption.
Qed.

Theorem C08_nested_strategies_are_schedules_interrupts : forall cfg devf pick steps f initial script s ob,
  xnrun_from_start cfg devf pick steps f initial script = Some (s, ob) -> xnrun cfg devf f initial script s ob.
Proof. intros. eapply xnrun_from_start_sound. eassumption. Qed.

(* the example above with an interrupt of device 13 (two system simulations deep, inside 10 inside 7) and one of 6 *)
Definition par_xscript :=
  [XTick; XTick; XTick; XStim 13%positive 4%positive [(1%positive, 7%positive); (3%positive, 10%positive)] 650; XTick; XTick;
   XStim 6%positive 2%positive [(1%positive, 4%positive)] 1000; XTick; XTick; XTick].

Example C08_nested_interrupts_example :
  match xnrun_from_start par_cfg (table_dev par_tab) pick_first 100 3 0 par_xscript,
        xnrun_from_start par_cfg (table_dev par_tab) pick_last 100 3 0 par_xscript with
  | Some (_, obA), Some (_, obB) =>
      length obA = length obB /\
      negb (list_eqb Pos.eqb (map obs_comp obA) (map obs_comp obB)) = true /\
      existsb (fun o : obs => Pos.eqb (obs_comp o) 13 && Z.eqb (snd (fst o)) 650) obA = true /\
      existsb (fun o : obs => Pos.eqb (obs_comp o) 6 && Z.eqb (snd (fst o)) 1000) obA = true /\
      forallb (fun d => seq_eqb (obs_of d obA) (obs_of d obB) &&
                        seq_eqb (obs_of d obA) (obs_of d (snd (xsim_from_start par_cfg (table_dev par_tab) 4 0 par_xscript))))
              [3; 5; 6; 12; 9; 11; 13; 8]%positive = true
  | _, _ => False
  end.
Proof. vm_compute. repeat split; reflexivity. Qed.

(* (5) every nested schedule computes what Model/Sim.v computes: whole runs with interrupts at any depth ... *)
Theorem C08_every_nested_schedule_is_sim : forall cfg (devf : devfun) f,
  subtree_okb cfg (S f) top = true ->
  (forall c n t i, NoDup (keys (fst (devf c n t i)))) ->
  (forall c n t i i', NoDup (keys i) -> NoDup (keys i') -> eqv i i' -> devf c n t i = devf c n t i') ->
  forall initial script sA obA,
    xnrun cfg devf f initial script sA obA ->
    (forall d, obs_rel (dev_obs d obA) (dev_obs d (snd (xsim_from_start cfg devf f initial script)))) /\
    NSR (devices_below cfg (S f) top) (levels_below cfg (S f) top) sA (fst (xsim_from_start cfg devf f initial script)).
Proof.
  intros cfg devf f Hok Hnd Hext initial script sA obA HA.
  destruct (xnrun_is_sim cfg devf Hnd Hext f initial script sA obA (subtree_okb_sound _ _ _ Hok) HA) as [H1 H2].
  split; assumption.
Qed.

(* ... and one tick of one system simulation: any schedule of all the levels below it ends like [on_tick_level] *)
Theorem C08_nested_tick_is_sim : forall cfg (devf : devfun) f lv,
  subtree_okb cfg f lv = true ->
  (forall c n t i, NoDup (keys (fst (devf c n t i)))) ->
  (forall c n t i i', NoDup (keys i) -> NoDup (keys i') -> eqv i i' -> devf c n t i = devf c n t i') ->
  forall time chgA chgB sA sB sA' outA caA obA,
    NoDup (keys chgA) -> NoDup (keys chgB) -> eqv chgA chgB ->
    NSR (devices_below cfg f lv) (levels_below cfg f lv) sA sB ->
    NT cfg devf f lv time chgA sA sA' outA caA obA ->
    let '(sB', outB, caB, obB) := on_tick_level cfg devf f lv time chgB sB in
    eqv outA outB /\ caA = caB /\
    NSR (devices_below cfg f lv) (levels_below cfg f lv) sA' sB' /\
    (forall d, obs_rel (dev_obs d obA) (dev_obs d obB)).
Proof.
  intros cfg devf f lv Hok Hnd Hext time chgA chgB sA sB sA' outA caA obA HnA HnB Hchg Hs HA.
  destruct (on_tick_level cfg devf f lv time chgB sB) as [[[sB' outB] caB] obB] eqn:E.
  destruct (NT_sim cfg devf Hnd Hext f lv (subtree_okb_sound _ _ _ Hok) time chgA chgB sA sB sA' sB' outA outB caA caB obA obB HnA HnB Hchg Hs HA E)
    as [H1 [_ [_ [H2 [H3 H4]]]]].
  split; [exact H1|]. split; [exact H2|]. split; [exact H3 | exact H4].
Qed.

(* non-vacuity: the two strategies of the examples above are such runs, so both end like Model/Sim.v *)
Example C08_every_nested_schedule_is_sim_example :
  subtree_okb par_cfg 4 top = true /\
  (exists sA obA, xnrun par_cfg (table_dev par_tab) 3 0 par_xscript sA obA) /\
  length (snd (xsim_from_start par_cfg (table_dev par_tab) 3 0 par_xscript)) = 46%nat.
Proof.
  split; [reflexivity|]. split; [|vm_compute; reflexivity].
  destruct (xnrun_from_start par_cfg (table_dev par_tab) pick_last 100 3 0 par_xscript) as [[sA obA]|] eqn:E; [|vm_compute in E; discriminate].
  exists sA, obA. apply (C08_nested_strategies_are_schedules_interrupts _ _ _ _ _ _ _ _ _ E).
Qed.

(* (6) message-level schedules: Inputs and Outputs of the components of every level delivered in any order *)
Theorem C08_message_level_is_sim : forall cfg (devf : devfun) f,
  subtree_okb cfg (S f) top = true ->
  (forall c n t i, NoDup (keys (fst (devf c n t i)))) ->
  (forall c n t i i', NoDup (keys i) -> NoDup (keys i') -> eqv i i' -> devf c n t i = devf c n t i') ->
  forall initial script sA obA,
    mxrun cfg devf f initial script sA obA ->
    (forall d, obs_rel (dev_obs d obA) (dev_obs d (snd (xsim_from_start cfg devf f initial script)))) /\
    NSR (devices_below cfg (S f) top) (levels_below cfg (S f) top) sA (fst (xsim_from_start cfg devf f initial script)).
Proof.
  intros cfg devf f Hok Hnd Hext initial script sA obA HA.
  destruct (mxrun_is_sim cfg devf Hnd Hext f initial script sA obA (subtree_okb_sound _ _ _ Hok) HA) as [H1 H2].
  split; assumption.
Qed.

(* ... of one tick of one system simulation *)
Theorem C08_message_level_tick_is_sim : forall cfg (devf : devfun) f lv,
  subtree_okb cfg f lv = true ->
  (forall c n t i, NoDup (keys (fst (devf c n t i)))) ->
  (forall c n t i i', NoDup (keys i) -> NoDup (keys i') -> eqv i i' -> devf c n t i = devf c n t i') ->
  forall time chgA chgB sA sB sA' outA caA obA,
    NoDup (keys chgA) -> NoDup (keys chgB) -> eqv chgA chgB ->
    NSR (devices_below cfg f lv) (levels_below cfg f lv) sA sB ->
    MNT cfg devf f lv time chgA sA sA' outA caA obA ->
    let '(sB', outB, caB, obB) := on_tick_level cfg devf f lv time chgB sB in
    eqv outA outB /\ caA = caB /\
    NSR (devices_below cfg f lv) (levels_below cfg f lv) sA' sB' /\
    (forall d, obs_rel (dev_obs d obA) (dev_obs d obB)).
Proof.
  intros cfg devf f lv Hok Hnd Hext time chgA chgB sA sB sA' outA caA obA HnA HnB Hchg Hs HA.
  destruct (on_tick_level cfg devf f lv time chgB sB) as [[[sB' outB] caB] obB] eqn:E.
  destruct (MNT_sim cfg devf Hnd Hext f lv (subtree_okb_sound _ _ _ Hok) time chgA chgB sA sB sA' sB' outA outB caA caB obA obB HnA HnB Hchg Hs HA E)
    as [H1 [_ [_ [H2 [H3 H4]]]]].
  split; [exact H1|]. split; [exact H2|]. split; [exact H3 | exact H4].
Qed.

Theorem C08_answer_order_runs_are_message_level : forall cfg (devf : devfun) f initial script s ob,
  xnrun cfg devf f initial script s ob -> mxrun cfg devf f initial script s ob.
Proof. intros. apply xnrun_mxrun. assumption. Qed.

(* non-vacuity: the runs of the example above are message-level runs *)
Example C08_message_level_example :
  exists sA obA, mxrun par_cfg (table_dev par_tab) 3 0 par_xscript sA obA.
Proof.
  destruct (xnrun_from_start par_cfg (table_dev par_tab) pick_last 100 3 0 par_xscript) as [[sA obA]|] eqn:E; [|vm_compute in E; discriminate].
  exists sA, obA. apply C08_answer_order_runs_are_message_level. apply (C08_nested_strategies_are_schedules_interrupts _ _ _ _ _ _ _ _ _ E).
Qed.

(* (7) all the messages of all the schedulers of the nesting interleaved: whole runs ... *)
Theorem C08_interleaved_nesting_is_sim : forall cfg (devf : devfun) f,
  subtree_okb cfg (S f) top = true ->
  (forall c n t i, NoDup (keys (fst (devf c n t i)))) ->
  (forall c n t i i', NoDup (keys i) -> NoDup (keys i') -> eqv i i' -> devf c n t i = devf c n t i') ->
  forall initial script sA obA,
    hxrun cfg devf f initial script sA obA ->
    (forall d, obs_rel (dev_obs d obA) (dev_obs d (snd (xsim_from_start cfg devf f initial script)))) /\
    NSR (devices_below cfg (S f) top) (levels_below cfg (S f) top) sA (fst (xsim_from_start cfg devf f initial script)).
Proof.
  intros cfg devf f Hok Hnd Hext initial script sA obA HA.
  destruct (hxrun_is_sim cfg devf Hnd Hext f initial script sA obA (subtree_okb_sound _ _ _ Hok) HA) as [H1 H2].
  split; assumption.
Qed.

(* ... hence any two of them agree (with one another and with every schedule of (2)-(6)) *)
Theorem C08_interleaved_nesting_schedule_independent : forall cfg (devf : devfun) f,
  subtree_okb cfg (S f) top = true ->
  (forall c n t i, NoDup (keys (fst (devf c n t i)))) ->
  (forall c n t i i', NoDup (keys i) -> NoDup (keys i') -> eqv i i' -> devf c n t i = devf c n t i') ->
  forall initial script sA obA sB obB,
    hxrun cfg devf f initial script sA obA -> hxrun cfg devf f initial script sB obB ->
    forall d, obs_rel (dev_obs d obA) (dev_obs d obB).
Proof.
  intros cfg devf f Hok Hnd Hext initial script sA obA sB obB HA HB d.
  destruct (C08_interleaved_nesting_is_sim cfg devf f Hok Hnd Hext initial script sA obA HA) as [H1 _].
  destruct (C08_interleaved_nesting_is_sim cfg devf f Hok Hnd Hext initial script sB obB HB) as [H2 _].
  eapply obs_rel_trans; [apply H1 | apply obs_rel_sym; apply H2].
Qed.

(* ... and one tick of one system simulation, the messages of all the schedulers of its subtree interleaved *)
Theorem C08_interleaved_tick_is_sim : forall cfg (devf : devfun) f lv,
  subtree_okb cfg f lv = true ->
  (forall c n t i, NoDup (keys (fst (devf c n t i)))) ->
  (forall c n t i i', NoDup (keys i) -> NoDup (keys i') -> eqv i i' -> devf c n t i = devf c n t i') ->
  forall time chgA chgB sA sB sA' outA caA obA,
    NoDup (keys chgA) -> NoDup (keys chgB) -> eqv chgA chgB ->
    NSR (devices_below cfg f lv) (levels_below cfg f lv) sA sB ->
    HNT cfg devf f lv time chgA sA sA' outA caA obA ->
    let '(sB', outB, caB, obB) := on_tick_level cfg devf f lv time chgB sB in
    eqv outA outB /\ caA = caB /\
    NSR (devices_below cfg f lv) (levels_below cfg f lv) sA' sB' /\
    (forall d, obs_rel (dev_obs d obA) (dev_obs d obB)).
Proof.
  intros cfg devf f lv Hok Hnd Hext time chgA chgB sA sB sA' outA caA obA HnA HnB Hchg Hs HA.
  destruct (on_tick_level cfg devf f lv time chgB sB) as [[[sB' outB] caB] obB] eqn:E.
  destruct (HNT_sim cfg devf Hnd Hext f lv (subtree_okb_sound _ _ _ Hok) time chgA chgB sA sB sA' sB' outA outB caA caB obA obB HnA HnB Hchg Hs HA E)
    as [H1 [_ [_ [H2 [H3 H4]]]]].
  split; [exact H1|]. split; [exact H2|]. split; [exact H3 | exact H4].
Qed.

Theorem C08_message_level_runs_are_interleaved : forall cfg (devf : devfun) f initial script s ob,
  mxrun cfg devf f initial script s ob -> hxrun cfg devf f initial script s ob.
Proof. intros. apply mxrun_hxrun. assumption. Qed.

(* every strategy that picks, step by step, one of the messages in flight anywhere in the nesting yields such a run *)
Theorem C08_interleaving_strategies_are_schedules : forall cfg devf pick n f initial script s ob,
  hxrun_from_start cfg devf pick n f initial script = Some (s, ob) -> hxrun cfg devf f initial script s ob.
Proof. intros. eapply hxrun_from_start_sound. eassumption. Qed.

(* the example of (4) with interrupts at depth, message by message: under the rotating strategy the tick of system
   simulation 4 (devices 6, 5, then 12) is interrupted by the messages of system simulation 7 (device 9, then the
   system simulation 10 with 13 and 11) -- an order no run of (4)-(6) has; per device the observations of Model/Sim.v *)
Example C08_interleaved_example :
  match hxrun_from_start par_cfg (table_dev par_tab) (hpick_rot 1) 2000 3 0 par_xscript,
        hxrun_from_start par_cfg (table_dev par_tab) hpick_last 2000 3 0 par_xscript with
  | Some (_, obA), Some (_, obB) =>
      firstn 8 (map obs_comp obA) = [3; 6; 5; 9; 12; 13; 11; 8]%positive /\
      firstn 8 (map obs_comp obB) = [3; 9; 13; 11; 6; 5; 12; 8]%positive /\
      length obA = length obB /\
      forallb (fun d => seq_eqb (obs_of d obA) (obs_of d obB) &&
                        seq_eqb (obs_of d obA) (obs_of d (snd (xsim_from_start par_cfg (table_dev par_tab) 4 0 par_xscript))))
              [3; 5; 6; 12; 9; 11; 13; 8]%positive = true
  | _, _ => False
  end.
Proof. vm_compute. repeat split; reflexivity. Qed.

Example C08_interleaved_runs_exist :
  exists sA obA, hxrun par_cfg (table_dev par_tab) 3 0 par_xscript sA obA.
Proof.
  destruct (hxrun_from_start par_cfg (table_dev par_tab) (hpick_rot 1) 2000 3 0 par_xscript) as [[sA obA]|] eqn:E; [|vm_compute in E; discriminate].
  exists sA, obA. apply (C08_interleaving_strategies_are_schedules _ _ _ _ _ _ _ _ _ E).
Qed.

(* a master tick of the real schedulers on the delaying bus whose recorded deliveries replay in the model (Oracle/HReplay.v:
   each delivery is a possible move and carries the message the model has in flight) is a tick of (7) *)
Theorem C08_replayed_real_tick_is_an_interleaved_tick : forall cfg devf f time n s roots msgs k' s' ob,
  htick_replay cfg devf f time n s roots msgs = RR_ok k' s' ob -> hmtick cfg devf f s time roots s' ob.
Proof. intros. eapply htick_replay_sound. eassumption. Qed.
