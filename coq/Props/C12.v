(* C12 -- simulation time is paced against real time by the configured speed.
   Speed = num/den (any positive rational), exact integer arithmetic; the code computes the same
   quantities in floats (modelled, not verified: the correspondence uses speeds and times for which
   the float computation is exact).  Property theorems only. *)
From TV Require Import Base Model.Wiring Model.Ticker Model.Master Proofs.MasterP.
From TV Require Model.Component Model.Sim Model.SimTime Proofs.SimTimeP.
Open Scope Z_scope.

(* never early: whenever the timer starts the tick for simulation time [when], real time has
   advanced by at least (when - t_prev)/speed since the previous tick ended -- whatever the
   processing of ticks costs, whatever else happened in between *)
Theorem C12_never_early : forall conns comps initial num den,
  0 < num -> 0 < den ->
  forall m now r m' o when roots,
    MInv initial num den m now -> now <= r -> env_ok m r ITimer ->
    step conns comps initial num den m r ITimer = (m', o) -> In (OTickStart when roots) o ->
    (when - ma_t m) * den <= (r - ma_r m) * num.
Proof.
  intros conns comps initial num den Hn Hd m now r m' o when roots HI Hr He Hs Hin.
  apply (timer_tick_spec conns comps initial num den Hn m now r m' o when roots HI Hr He Hs Hin).
Qed.

(* exactly then when processing takes no time: the sleep armed when a tick has just ended (real
   time r = end of tick) ends at end + ceil((when - t_prev)/speed), or at once if that is past *)
Theorem C12_exact : forall num den m r m' d,
  plan num den m r = (m', [OArm d]) ->
  exists when roots, first_wakeups (mw m) = Some (when, roots) /\ d = Z.max r (due_real num den m when).
Proof. intros num den m r m' d. apply plan_deadline. Qed.

(* an interrupt is stamped with the simulation time that corresponds to the real time of its
   arrival, rounded down to a whole nanosecond *)
Theorem C12_stamp : forall num den, 0 < num -> 0 < den -> forall m r, ma_r m <= r ->
  (stamp num den m r - ma_t m) * den <= (r - ma_r m) * num < (stamp num den m r - ma_t m + 1) * den.
Proof. intros num den Hn Hd m r Hr. apply stamp_bounds; assumption. Qed.

(* ... and such a stamp is already due: the scheduler need not wait for it *)
Theorem C12_stamp_due : forall num den, 0 < num -> 0 < den -> forall m r, ma_r m <= r ->
  due_real num den m (stamp num den m r) <= r.
Proof. intros num den Hn Hd m r Hr. apply stamp_due; assumption. Qed.

(* with negligible processing cost, simulation time = initial + speed x elapsed real time at
   every tick: one step of the telescoping sum, for speeds where the division is exact *)
Theorem C12_linear_step : forall num den m when,
  0 < num -> 0 < den -> ma_t m <= when -> ((when - ma_t m) * den) mod num = 0 ->
  (due_real num den m when - ma_r m) * num = (when - ma_t m) * den.
Proof.
  intros num den m when Hn Hd Hle Hmod. unfold due_real, cdiv.
  replace (ma_r m + ((when - ma_t m) * den + num - 1) / num - ma_r m) with (((when - ma_t m) * den + num - 1) / num) by lia.
  assert (H := Z.div_mod ((when - ma_t m) * den) num). rewrite Hmod in H.
  assert (H2 : ((when - ma_t m) * den + num - 1) / num = (when - ma_t m) * den / num).
  { set (x := (when - ma_t m) * den) in *. assert (Hx : x = num * (x / num)) by lia.
    rewrite Hx at 1. replace (num * (x / num) + num - 1) with ((x / num) * num + (num - 1)) by lia.
    rewrite Z.div_add_l by lia. rewrite (Z.div_small (num - 1) num) by lia. lia. }
  rewrite H2. lia.
Qed.

Example C12_nonvacuous : due_real 2 1 {| mp := PIdle; mw := []; ma_t := 100; ma_r := 1000; m_err := false |} 300 = 1100
                         /\ stamp 1 2 {| mp := PIdle; mw := []; ma_t := 100; ma_r := 1000; m_err := false |} 1007 = 103.
Proof. vm_compute. split; reflexivity. Qed.

(* whole simulations: without interrupts the speed only decides how FAR a run gets, never what the devices observe.
   Whatever the real-time master of Model/Sim.v does at any speed num/den in any number of steps up to any real time,
   for devices that never ask to be called back in the past, is what the master in simulation time (Model/SimTime.v, on
   which the run theorems of C09 and C10 are stated) does in some number j of ticks, under every horizon from the time
   of the last tick on: same final state, same updates in the same order with the same times and inputs *)
Theorem C12_speed_only_decides_how_far : forall (cfg : TV.Model.Sim.config) (devf : TV.Model.Sim.devfun),
  (forall c n t i w, snd (devf c n t i) = Some w -> t <= w) ->
  forall (fuel : nat) (initial t_end num den : Z) (steps : nat),
  let m := TV.Model.Sim.simulate_full cfg devf num den fuel steps initial [] [] t_end in
  exists j, forall h, TV.Model.Sim.m_tprev m <= h ->
    fst (TV.Model.SimTime.sim_run cfg devf j fuel initial h) = (TV.Model.Sim.m_s m, TV.Model.Sim.m_obs m).
Proof. exact TV.Proofs.SimTimeP.master_any_speed_is_sim_prefix. Qed.
