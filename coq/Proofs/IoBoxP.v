From TV Require Import Base Model.IoBox.

Lemma write_invisible b a v a' : read (write b a v) a' = read b a'.
Proof. reflexivity. Qed.

Lemma update_last_write b inputs a :
  read (fst (update b inputs)) a =
  match last_write a (inputs ++ buf b) with Some v => Some v | None => read b a end.
Proof. unfold update, read. simpl. apply lookup_merge_last. Qed.

Lemma update_output b inputs : snd (update b inputs) = inputs ++ buf b.
Proof. reflexivity. Qed.

Lemma update_clears b inputs : buf (fst (update b inputs)) = [].
Proof. reflexivity. Qed.

Lemma last_write_notin {A} a (ws : list (positive * A)) :
  ~ In a (map fst ws) -> last_write a ws = None.
Proof.
  induction ws as [|[a' v'] r IHr]; simpl; intros Hn; [reflexivity|].
  rewrite IHr by (intros H; apply Hn; right; exact H).
  destruct (Pos.eqb_spec a a'); [|reflexivity].
  subst. exfalso. apply Hn. left. reflexivity.
Qed.

Lemma never_written_fails ops a :
  (forall x v, In (W x v) ops -> x <> a) ->
  (forall i, In (U i) ops -> ~ In a (map fst i)) ->
  forall b b1, read b a = None -> ~ In a (map fst (buf b)) ->
  read (fst (run2 b b1 ops)) a = None.
Proof.
  induction ops as [|o t IH]; intros HW HU b b1 Hr Hb; simpl.
  - exact Hr.
  - assert (HW' : forall x v, In (W x v) t -> x <> a)
      by (intros x v Hi; eapply HW; right; exact Hi).
    assert (HU' : forall i, In (U i) t -> ~ In a (map fst i))
      by (intros i Hi; eapply HU; right; exact Hi).
    destruct o as [x v|x|i].
    + apply (IH HW' HU').
      * exact Hr.
      * simpl. rewrite map_app, in_app_iff. simpl. intros [H|[H|[]]]; [contradiction|].
        eapply HW; [left; reflexivity | exact H].
    + apply (IH HW' HU'); assumption.
    + change (read (fst (run2 (fst (update b i)) (fst (update b1 (snd (update b i)))) t)) a = None).
      apply (IH HW' HU').
      * rewrite update_last_write.
        rewrite last_write_notin; [exact Hr|].
        rewrite map_app, in_app_iff. intros [H|H]; [|contradiction].
        eapply HU; [left; reflexivity | exact H].
      * simpl. intros [].
Qed.

(* a second box with the same memory and nothing pending, fed the update's output,
   ends with the same memory -- and this is preserved along any history *)
Lemma echo_step b1 b2 i :
  mem b1 = mem b2 -> buf b2 = [] ->
  mem (fst (update b2 (snd (update b1 i)))) = mem (fst (update b1 i)) /\
  buf (fst (update b2 (snd (update b1 i)))) = [].
Proof.
  intros Hm Hb. unfold update. simpl. rewrite Hb, app_nil_r, Hm. split; reflexivity.
Qed.

Lemma echo_chain ops : forall b1 b2,
  mem b1 = mem b2 -> buf b2 = [] ->
  mem (fst (run2 b1 b2 ops)) = mem (snd (run2 b1 b2 ops)) /\ buf (snd (run2 b1 b2 ops)) = [].
Proof.
  induction ops as [|o t IH]; intros b1 b2 Hm Hb; simpl.
  - split; assumption.
  - destruct o as [x v|x|i].
    + apply IH; assumption.
    + apply IH; assumption.
    + change (mem (fst (run2 (fst (update b1 i)) (fst (update b2 (snd (update b1 i)))) t)) =
              mem (snd (run2 (fst (update b1 i)) (fst (update b2 (snd (update b1 i)))) t)) /\
              buf (snd (run2 (fst (update b1 i)) (fst (update b2 (snd (update b1 i)))) t)) = []).
      destruct (echo_step b1 b2 i Hm Hb) as [H1 H2].
      apply IH; [symmetry; assumption | assumption].
Qed.

(* the pinned behaviour violated last-write-wins: witness *)
Lemma lifo_refuted : exists b inputs a,
  read (fst (update_lifo b inputs)) a <>
  match last_write a (inputs ++ buf b) with Some v => Some v | None => read b a end.
Proof.
  exists (write (write empty_box 1%positive 10%Z) 1%positive 20%Z), [], 1%positive.
  vm_compute. discriminate.
Qed.

(* the executable run is the fold of the three operations *)
Lemma run_length ops : forall b, length (run b ops) = length ops.
Proof.
  induction ops as [|o t IH]; intros b; simpl; [reflexivity|].
  destruct o; simpl; rewrite IH; reflexivity.
Qed.
