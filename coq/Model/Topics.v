(* Model of src/tickit/utils/topic_naming.py over the constants extracted from the source
   (Gen/SourceConsts.v).  Names are lists of characters. *)
From TV Require Import Base Gen.SourceConsts.
From Coq Require Import String Ascii.

Definition name := list ascii.
Definition input_topic (c : name) : name := in_prefix ++ c ++ in_suffix.
Definition output_topic (c : name) : name := out_prefix ++ c ++ out_suffix.

Definition name_eqb : name -> name -> bool := list_eqb Ascii.eqb.

(* (name a, name b, input a, output a, input b, output b) as the implementation computed them *)
Definition topic_case := (name * name * name * name * name * name)%type.

(* 31: a topic differs from the model; 32: two distinct names share a topic, or an input
   topic equals an output topic (the property, on the implementation's own strings) *)
Definition check_topic (c : topic_case) : list Z :=
  let '(a, b, ia, oa, ib, ob) := c in
  (if name_eqb (input_topic a) ia && name_eqb (output_topic a) oa &&
      name_eqb (input_topic b) ib && name_eqb (output_topic b) ob then [] else [31%Z]) ++
  (if (name_eqb a b || negb (name_eqb ia ib || name_eqb oa ob))
      && negb (name_eqb ia ob) && negb (name_eqb oa ib) && negb (name_eqb ia oa) then [] else [32%Z]).
