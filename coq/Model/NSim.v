(* Whole flat simulations under a schedule chosen by a strategy: executable part of the model of
   Proofs/ScheduleP.v (there: the relation over ALL schedules and the theorems).  The master picks the
   earliest pending wakeups; the tick is run by Model/Ticker.v with the components answering one at a
   time in the order a strategy [pick] chooses among the dispatched ones; each answer is what the
   DeviceComponent (Model/Sim.v [dev_update]) computes from its state before the tick; interrupts
   are applied between ticks.  Definitions only. *)
From TV Require Import Base Model.Wiring Model.Ticker Model.Component Model.Sim.
Open Scope Z_scope.

Inductive item := ITick | IStim (c : comp) (w : Z).

Definition pick_first (l : list (comp * bool)) : option comp :=
  match filter (fun cd : comp * bool => snd cd) l with (c, _) :: _ => Some c | [] => None end.
Definition pick_last (l : list (comp * bool)) : option comp := pick_first (rev l).

Section NSim.
Variable conns : list conn.
Variable comps : list comp.       (* EventRouter.components *)
Variable devf : devfun.

(* what a DeviceComponent answers to Input(c, t, chg) in state s *)
Definition dev_of (s : sstate) (t : Z) (c : comp) (chg : changes) : changes :=
  snd (fst (fst (dev_update devf s c t chg))).

(* the answer to a dispatch: Output with the changes, or the empty answer to a Skip *)
Definition resp_of (dev : comp -> changes -> changes) (a : action) : changes :=
  match a with Upd c _ chg => dev c chg | Skp _ _ => [] end.

(* the Input messages of a trace *)
Definition upds (tr : list ev) : list (comp * changes) :=
  flat_map (fun e : ev => match e with EDispatch (Upd c _ chg) => [(c, chg)] | _ => [] end) tr.

(* a component handles its Input: new component state, callback recorded by the master *)
Definition apply_upd (t : Z) (acc : sstate * list obs) (e : comp * changes) : sstate * list obs :=
  let '(s1, _, ca, o) := dev_update devf (fst acc) (fst e) t (snd e) in
  (match ca with Some w => set_wake s1 top (upd (fst e) w (wake_of s1 top)) | None => s1 end, snd acc ++ [o]).

(* MasterScheduler.add_wakeup keeps the earlier of two wakeups of a component *)
Definition stim (s : sstate) (c : comp) (w : Z) : sstate :=
  set_wake s top (upd c (match lookup c (wake_of s top) with Some w0 => Z.min w w0 | None => w end) (wake_of s top)).

Definition find_dispatch (tr : list ev) (c : comp) : option action :=
  match filter (fun e : ev => match e with EDispatch a => Pos.eqb (act_comp a) c | _ => false end) tr with
  | EDispatch a :: _ => Some a
  | _ => None
  end.

Fixpoint run_sched (pick : list (comp * bool) -> option comp) (s : sstate) (t : Z) (fuel : nat) (st : tstate) (tr : list ev)
  : option (tstate * list ev) :=
  match fuel with
  | O => None
  | S f =>
      match todo st with
      | [] => Some (st, tr)
      | _ =>
          match pick (todo st) with
          | None => None
          | Some c =>
              if existsb (fun cd : comp * bool => Pos.eqb (fst cd) c && snd cd) (todo st) then
                match find_dispatch tr c with
                | None => None
                | Some a =>
                    let ch := resp_of (dev_of s t) a in
                    match propagate conns comps st c t ch with
                    | POk st' acts _ => run_sched pick s t f st' (tr ++ EAnswer c ch :: map EDispatch acts)
                    | PErr => None
                    end
                end
              else None
          end
      end
  end.


Definition ntick_exec (pick : list (comp * bool) -> option comp) (fuel : nat) (s : sstate) (t : Z) (roots : list comp)
  : option (sstate * list obs * list ev) :=
  match start_tick conns t roots with
  | None => None
  | Some st0 =>
      match schedule conns comps st0 with
      | None => None
      | Some (st1, acts) =>
          match run_sched pick s t fuel st1 (map EDispatch acts) with
          | Some (_, tr) => let '(s', ob) := fold_left (apply_upd t) (upds tr) (s, []) in Some (s', ob, tr)
          | None => None
          end
      end
  end.


Fixpoint nrun_exec (pick : list (comp * bool) -> option comp) (fuel : nat) (script : list item) (s : sstate) (ob : list obs)
  : option (sstate * list obs) :=
  match script with
  | [] => Some (s, ob)
  | IStim c w :: r => nrun_exec pick fuel r (stim s c w) ob
  | ITick :: r =>
      match first_wakeups (wake_of s top) with
      | None => nrun_exec pick fuel r s ob
      | Some (when, roots) =>
          match ntick_exec pick fuel (set_wake s top (filter (fun e : comp * Z => negb (memb (fst e) roots)) (wake_of s top))) when roots with
          | Some (s2, o, _) => nrun_exec pick fuel r s2 (ob ++ o)
          | None => None
          end
      end
  end.


Definition nrun_from_start (pick : list (comp * bool) -> option comp) (fuel : nat) (initial : Z) (script : list item)
  : option (sstate * list obs) :=
  match ntick_exec pick fuel (set_wake s_init top []) initial comps with
  | Some (s1, o1, _) => nrun_exec pick fuel script s1 o1
  | None => None
  end.


(* the same with the stimuli given by their time stamps and a horizon.  [now] is the time of the last
   event handled; a stimulus is applied before the next tick when it is stamped earlier than that
   tick, or not later than the last event (several interrupts at one instant are served by one
   tick) -- the rule of Model/Sim.v [master_loop] at speed 1 *)
Fixpoint nsim_timed (pick : list (comp * bool) -> option comp) (fuel n : nat) (stims : list (Z * comp)) (horizon now : Z)
                    (s : sstate) (ob : list obs) : option (sstate * list obs) :=
  match n with
  | O => Some (s, ob)
  | S k =>
      let next := first_wakeups (wake_of s top) in
      let tick_now :=
        match next with
        | Some (when, roots) =>
            if Z.leb when horizon then
              match ntick_exec pick fuel (set_wake s top (filter (fun e : comp * Z => negb (memb (fst e) roots)) (wake_of s top))) when roots with
              | Some (s2, o, _) => nsim_timed pick fuel k stims horizon (Z.max when now) s2 (ob ++ o)
              | None => None
              end
            else Some (s, ob)
        | None => Some (s, ob)
        end in
      match stims with
      | (r, c) :: rest =>
          if match next with Some (when, _) => Z.ltb r when || Z.leb r now | None => true end then
            if Z.leb r horizon then nsim_timed pick fuel k rest horizon (Z.max r now) (stim s c r) ob else tick_now
          else tick_now
      | [] => tick_now
      end
  end.

Definition nsim_timed_from_start (pick : list (comp * bool) -> option comp) (fuel n : nat) (initial : Z) (stims : list (Z * comp)) (horizon : Z)
  : option (sstate * list obs) :=
  match ntick_exec pick fuel (set_wake s_init top []) initial comps with
  | Some (s1, o1, _) => nsim_timed pick fuel n stims horizon initial s1 o1
  | None => None
  end.
End NSim.

(* ---------- the same scripts on the deterministic whole-simulation model (Model/Sim.v): ticks are
   [tick_level], i.e. the components folded in the order of the level *)
Section SimScript.
Variable cfg : config.
Variable devf : devfun.
Variable fuel : nat.

Fixpoint sim_script (script : list item) (s : sstate) (ob : list obs) : sstate * list obs :=
  match script with
  | [] => (s, ob)
  | IStim c w :: r => sim_script r (stim s c w) ob
  | ITick :: r =>
      match first_wakeups (wake_of s top) with
      | None => sim_script r s ob
      | Some (when, roots) =>
          let s1 := set_wake s top (filter (fun e : comp * Z => negb (memb (fst e) roots)) (wake_of s top)) in
          let '(s2, _, o) := tick_level cfg devf fuel top when roots [] (log_tick s1 top when roots) in
          sim_script r s2 (ob ++ o)
      end
  end.

Definition sim_script_from_start (initial : Z) (script : list item) : sstate * list obs :=
  let roots := map fst (l_order (level_of cfg top)) in
  let '(s1, _, ob) := tick_level cfg devf fuel top initial roots [] (log_tick (set_wake s_init top []) top initial roots) in
  sim_script script s1 ob.
End SimScript.
