"""Level T: drive a real tickit Ticker (with its real EventRouter) tick by tick, the harness
playing the components: it records every update_component / skip_component call and calls
propagate() with answers in a chosen order.  Renders the observed run as a Coq `Ticker.case`."""
import asyncio
import random

from common import P, Zr, L, T, O, B


def cn(k): return f"c{k}"
def pn(k): return f"p{k}"
def ci(s): return int(s[1:])


def build_iw(conns, comps):
    from tickit.core.management.event_router import InverseWiring
    from tickit.core.typedefs import ComponentPort

    d = {cn(c): {} for c in comps}
    for (oc, op, ic, ip) in conns:
        d.setdefault(cn(ic), {})[pn(ip)] = ComponentPort(cn(oc), pn(op))
    return InverseWiring(d)


def out_ports(conns, c):
    return sorted({op for (oc, op, _, _) in conns if oc == c})


def default_answer(conns, c, tickno, changes, mode):
    """deterministic answer of component c to an update with the given input changes"""
    ports = out_ports(conns, c) + [9]  # 9: a port nobody listens to
    r = random.Random(hash((c, tickno, mode)) & 0xFFFFFFF)
    base = sum((q * 31 + v) for q, v in sorted(changes.items())) % 9973
    out = {}
    for p in ports:
        x = r.random()
        if mode == "all" or x < 0.7:
            out[p] = (c * 1000003 + p * 1009 + tickno * 101 + base * 7) % 1000000
    return out


async def _drain():
    for _ in range(6):
        await asyncio.sleep(0)


class Choice:
    """order policy: choose(pending:list[int], depth)->index; records branching for enumeration"""
    def __init__(self, prefix=None, rng=None, policy="prefix"):
        self.prefix, self.rng, self.policy = list(prefix or []), rng, policy
        self.branch = []
        self.k = 0

    def choose(self, pending):
        n = len(pending)
        if self.policy == "prefix":
            i = self.prefix[self.k] if self.k < len(self.prefix) else 0
        elif self.policy == "fifo":
            i = 0
        elif self.policy == "lifo":
            i = n - 1
        else:
            i = self.rng.randrange(n)
        self.branch.append(n)
        self.k += 1
        return i


async def run_case_async(conns, comps, ticks, chooser, answer_mode="some", malformed=None):
    """ticks: list of (time, roots). Returns observed ticks:
       (time, roots, acts0|None, [(c, t, changes, ('err',)|('ok', acts, fin))])"""
    from tickit.core.management.ticker import Ticker
    from tickit.core.typedefs import Changes, Output, Skip
    from immutables import Map

    log = []

    async def upd(inp):
        log.append(("U", ci(inp.target), int(inp.time), {ci(k): v for k, v in inp.changes.items()}))

    async def skp(sk):
        assert len(sk.changes) == 0
        log.append(("S", ci(sk.source), int(sk.time)))

    ticker = Ticker(build_iw(conns, comps), upd, skp)
    out = []
    for tickno, (t, roots) in enumerate(ticks):
        log.clear()
        task = asyncio.create_task(ticker(t, {cn(r) for r in roots}))
        await _drain()
        if task.done() and task.exception() is not None:
            out.append((t, roots, None, []))
            break
        acts0 = list(log)
        log.clear()
        dispatched = {a[1]: a for a in acts0}
        pending = [a[1] for a in acts0]
        answers = []
        mal = list(malformed[tickno]) if malformed else []
        while pending or mal:
            if mal and (not pending or mal[0][0] <= len(answers)):
                _, c, tt, ch = mal.pop(0)
                a = None
            else:
                i = chooser.choose(sorted(pending))
                c = sorted(pending)[i]
                a = dispatched[c]
                tt = t
                ch = default_answer(conns, c, tickno, a[3], answer_mode) if a[0] == "U" else {}
            msg = (Skip(cn(c), tt, Changes(Map())) if (a is not None and a[0] == "S")
                   else Output(cn(c), tt, Changes(Map({pn(p): v for p, v in ch.items()})), None))
            try:
                await ticker.propagate(msg)
                fin = ticker.finished.is_set()
                await _drain()
                acts = list(log)
                log.clear()
                answers.append((c, tt, ch, ("ok", acts, fin)))
                if a is not None or c in pending:
                    if c in pending:
                        pending.remove(c)
                for x in acts:
                    dispatched[x[1]] = x
                    pending.append(x[1])
            except (AssertionError, KeyError):
                answers.append((c, tt, ch, ("err",)))
                log.clear()
                if a is not None and c in pending:
                    pending.remove(c)      # a legitimate answer was rejected: do not offer it again
            if len(answers) > 6 * (len(comps) + 4) + 3 * len(malformed[tickno] if malformed else []):
                break                      # the ticker keeps dispatching: recorded as it is, the tick never finishes
        await _drain()
        if not task.done():
            task.cancel()
            out.append((t, roots, acts0, answers))
            break
        out.append((t, roots, acts0, answers))
    return out


def run_case(conns, comps, ticks, chooser, answer_mode="some", malformed=None):
    return asyncio.run(run_case_async(conns, comps, ticks, chooser, answer_mode, malformed))


def r_changes(ch): return L(T(P(p), Zr(v)) for p, v in sorted(ch.items()))


def r_action(a):
    return f"Upd {P(a[1])} {Zr(a[2])} {r_changes(a[3])}" if a[0] == "U" else f"Skp {P(a[1])} {Zr(a[2])}"


def r_answer(x):
    c, t, ch, o = x
    ro = "OErr" if o[0] == "err" else f"(OOk {L(r_action(a) for a in o[1])} {B(o[2])})"
    return T(P(c), Zr(t), r_changes(ch), ro)


def r_conns(conns): return L(T(P(a), P(b), P(c), P(d)) for a, b, c, d in conns)


def render_case(conns, comps, observed):
    ticks = L(T(Zr(t), L(P(r) for r in roots), O(acts0, lambda a: L(r_action(x) for x in a)), L(r_answer(x) for x in ans))
              for (t, roots, acts0, ans) in observed)
    return T(r_conns(conns), L(P(c) for c in comps), ticks)


# ---------------------------------------------------------------- generators

def gen_dag(rng, n, nports=2, density=0.5, acyclic=True):
    order = list(range(1, n + 1))
    rng.shuffle(order)
    conns = []
    for idx, c in enumerate(order):
        for q in range(1, nports + 1):
            pool = order[:idx] if acyclic else [x for x in order if x != c]
            if pool and rng.random() < density:
                conns.append((rng.choice(pool), rng.randint(1, nports), c, q))
    return conns, sorted(order)


def shapes():
    """named wirings: chain, diamond, wide fan-in, fan-out, diamond with long slow branch"""
    return {
        "chain4": [(1, 1, 2, 1), (2, 1, 3, 1), (3, 1, 4, 1)],
        "diamond": [(1, 1, 2, 1), (1, 1, 3, 1), (2, 1, 4, 1), (3, 1, 4, 2)],
        "fanin": [(1, 1, 4, 1), (2, 1, 4, 2), (3, 1, 4, 3)],
        "fanout": [(1, 1, 2, 1), (1, 1, 3, 1), (1, 2, 4, 1)],
        "slowbranch": [(1, 1, 2, 1), (2, 1, 3, 1), (3, 1, 5, 1), (1, 1, 4, 1), (4, 1, 5, 2)],
        "xfan": [(1, 1, 3, 1), (2, 1, 3, 2), (3, 1, 4, 1), (3, 1, 5, 1), (1, 2, 5, 2)],
    }


def enumerate_orders(conns, comps, ticks, answer_mode="all", limit=5000):
    """all answer orders of the given tick history (stateless enumeration by re-execution)"""
    runs = []
    stack = [[]]
    while stack and len(runs) < limit:
        prefix = stack.pop()
        ch = Choice(prefix=prefix)
        obs = run_case(conns, comps, ticks, ch, answer_mode)
        runs.append(obs)
        for k in range(len(prefix), len(ch.branch)):
            for alt in range(1, ch.branch[k]):
                stack.append(prefix + [0] * (k - len(prefix)) + [alt])
    return runs
