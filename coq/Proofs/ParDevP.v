(* One device step on two sides (two runs whose states agree as dictionaries), and routing seen as
   "which value is pending on which port": shared by the inlining proof (Proofs/InlineP.v) and the
   dictionary-adequacy proof (Proofs/EqvCongP.v). *)
From TV Require Import Base Model.Wiring Model.Ticker Model.Component Model.Sim
  Proofs.WiringP Proofs.TickerP Proofs.ComponentP Proofs.SimP Proofs.FlattenP Proofs.NonInterfP
  Proofs.LatestP Proofs.ExtentP Proofs.FrameP Proofs.EqvP.
Open Scope Z_scope.

Definition dv (x : comp) : comp * ckind := (x, KDev).

(* ---------- one device step on both sides *)
Definition drel (sN sF : sstate) (z : comp) : Prop :=
  d_last (dcs sN z) = d_last (dcs sF z) /\ eqv (d_inputs (dcs sN z)) (d_inputs (dcs sF z)) /\
  lookup z (s_n sN) = lookup z (s_n sF) /\
  NoDup (keys (d_inputs (dcs sN z))) /\ NoDup (keys (d_inputs (dcs sF z))).

Definition pd (a : core) (y : comp) (q : port) : option Z := lookup2r (co_in a) y q.

Lemma pd_get_d a y q : pd a y q = lookup q (get_d y (co_in a)).
Proof. unfold pd. apply lookup2r_get_d. Qed.

Section ParDev.
Variable devf : devfun.
Hypothesis Hdev_nd : forall c n t i, NoDup (keys (fst (devf c n t i))).
Hypothesis Hdev_ext : forall c n t i i', NoDup (keys i) -> NoDup (keys i') -> eqv i i' -> devf c n t i = devf c n t i'.
Variable time : Z.

(* what a device step does, in the terms the simulation relation needs *)
Record dev_effect (lv : positive) (conns : list conn) (a a' : core) (x : comp) (ch : values) (ca : option Z) (inputs : values) : Prop := {
  de_in : co_in a' = accumulate (co_in a) (route conns x ch);
  de_out : co_out a' = co_out a;
  de_obs : co_obs a' = co_obs a ++ [(x, time, inputs)];
  de_inputs : inputs = merge (d_inputs (dcs (co_s a) x)) (get_d x (co_in a));
  de_self : d_inputs (dcs (co_s a') x) = inputs;
  de_other : forall z, z <> x -> dcs (co_s a') z = dcs (co_s a) z;
  de_cnt_other : forall z, z <> x -> lookup z (s_n (co_s a')) = lookup z (s_n (co_s a));
  de_wake : wake_of (co_s a') lv = match ca with Some w => upd x w (wake_of (co_s a) lv) | None => wake_of (co_s a) lv end;
  de_wake_other : forall l, l <> lv -> wake_of (co_s a') l = wake_of (co_s a) l;
  de_int : s_int (co_s a') = s_int (co_s a);
  de_ticked : s_ticked (co_s a') = s_ticked (co_s a)
}.

Lemma step'_dev inner lv conns roots ext a x : x <> ext_id -> x <> exp_id ->
  let a' := step' devf inner lv conns time roots ext a (x, KDev) in
  (nonempty (get_d x (co_in a)) || memb x roots = false /\ a' = a) \/
  (nonempty (get_d x (co_in a)) || memb x roots = true /\
   exists outs ca, let st := dcs (co_s a) x in
     let inputs := merge (d_inputs st) (get_d x (co_in a)) in
     devf x (match lookup x (s_n (co_s a)) with Some k => k | None => 0 end + 1) time inputs = (outs, ca) /\
     d_last (dcs (co_s a') x) = outs /\
     lookup x (s_n (co_s a')) = Some (match lookup x (s_n (co_s a)) with Some k => k | None => 0 end + 1) /\
     dev_effect lv conns a a' x (diff_outputs (d_last st) outs) ca inputs).
Proof.
  intros He Hx. cbv zeta. unfold step'. cbn [fst snd].
  destruct (nonempty (get_d x (co_in a)) || memb x roots); [right; split; [reflexivity|] | left; split; reflexivity].
  destruct (Pos.eqb_spec x ext_id); [contradiction|]. destruct (Pos.eqb_spec x exp_id); [contradiction|].
  unfold dev_update. fold (dcs (co_s a) x).
  destruct (devf x _ time (merge (d_inputs (dcs (co_s a) x)) (get_d x (co_in a)))) as [outs ca] eqn:Ed.
  exists outs, ca. split; [reflexivity|].
  assert (Hs : forall s2, s_dc s2 = upd x {| d_inputs := merge (d_inputs (dcs (co_s a) x)) (get_d x (co_in a)); d_last := outs |} (s_dc (co_s a)) ->
                dcs s2 x = {| d_inputs := merge (d_inputs (dcs (co_s a) x)) (get_d x (co_in a)); d_last := outs |} /\
                forall z, z <> x -> dcs s2 z = dcs (co_s a) z).
  { intros s2 E. split; [eapply dcs_upd_same; exact E | intros z Hz; eapply dcs_upd_other; eassumption]. }
  assert (Hwo : forall (s1 : sstate) w0 l, l <> lv -> wake_of (set_wake s1 lv w0) l = wake_of s1 l).
  { intros s1 w0 l Hl. unfold wake_of, set_wake. cbn [s_wake]. apply get_d_upd_other. exact Hl. }
  destruct ca as [w|]; cbn [co_s co_in co_out co_obs].
  - match goal with |- context [set_wake ?s1 lv ?w0] => destruct (Hs (set_wake s1 lv w0) eq_refl) as [Hs1 Hs2] end.
    split; [rewrite Hs1; reflexivity|]. split; [cbn [set_wake s_n]; apply lookup_upd_same|].
    constructor; cbn [co_s co_in co_out co_obs]; first
      [ reflexivity | rewrite Hs1; reflexivity | exact Hs2 | apply wake_of_set_wake
      | (intros z Hz; cbn [set_wake s_n]; apply lookup_upd_other; exact Hz)
      | (intros l Hl; rewrite Hwo by exact Hl; reflexivity) ].
  - match goal with |- context [d_last (dcs ?s2 x)] => destruct (Hs s2 eq_refl) as [Hs1 Hs2] end.
    split; [rewrite Hs1; reflexivity|]. split; [cbn [s_n]; apply lookup_upd_same|].
    constructor; cbn [co_s co_in co_out co_obs]; first
      [ reflexivity | rewrite Hs1; reflexivity | exact Hs2
      | (intros z Hz; cbn [s_n]; apply lookup_upd_other; exact Hz)
      | (intros l Hl; reflexivity) ].
Qed.

Lemma dev_fold_wake_keys inner lv conns roots ext k : forall l a,
  (forall x, In x l -> x <> ext_id /\ x <> exp_id) ->
  lookup k (wake_of (co_s a) lv) <> None ->
  lookup k (wake_of (co_s (fold_left (step' devf inner lv conns time roots ext) (map dv l) a)) lv) <> None.
Proof.
  induction l as [|x r IH]; intros a Hl Hk; [exact Hk|]. cbn [map fold_left]. apply IH; [intros y Hy; apply Hl; right; exact Hy|].
  destruct (Hl x (or_introl eq_refl)) as [He Hx].
  destruct (step'_dev inner lv conns roots ext a x He Hx) as [[_ E]|[_ [outs [ca [_ [_ [_ Hde]]]]]]]; unfold dv.
  - rewrite E. exact Hk.
  - rewrite (de_wake _ _ _ _ _ _ _ _ Hde). destruct ca as [w|]; [|exact Hk].
    rewrite lookup_upd. destruct (Pos.eqb k x); [discriminate | exact Hk].
Qed.

Lemma par_dev innN innF lvN lvF connsN connsF rootsN rootsF extN extF aN aF x :
  x <> ext_id -> x <> exp_id -> drel (co_s aN) (co_s aF) x ->
  eqv (get_d x (co_in aN)) (get_d x (co_in aF)) ->
  NoDup (keys (get_d x (co_in aN))) -> NoDup (keys (get_d x (co_in aF))) ->
  memb x rootsN = memb x rootsF ->
  let aN' := step' devf innN lvN connsN time rootsN extN aN (x, KDev) in
  let aF' := step' devf innF lvF connsF time rootsF extF aF (x, KDev) in
  (aN' = aN /\ aF' = aF) \/
  (exists ch ca inputsN inputsF, NoDup (keys ch) /\ eqv inputsN inputsF /\
     dev_effect lvN connsN aN aN' x ch ca inputsN /\ dev_effect lvF connsF aF aF' x ch ca inputsF /\
     drel (co_s aN') (co_s aF') x).
Proof.
  intros He Hx [Hl [Hi [Hc [HnI HnI']]]] Hin HnN HnF Hr. cbv zeta.
  destruct (step'_dev innN lvN connsN rootsN extN aN x He Hx) as [[EN HN]|[EN [outs [ca [HdN [HlN [HcN HeN]]]]]]];
  destruct (step'_dev innF lvF connsF rootsF extF aF x He Hx) as [[EF HF]|[EF [outs' [ca' [HdF [HlF [HcF HeF]]]]]]];
    rewrite (nonempty_eqv _ _ Hin), Hr in EN; try congruence.
  - left. split; assumption.
  - right. cbv zeta in HdN, HdF, HeN, HeF.
    assert (Hinp : eqv (merge (d_inputs (dcs (co_s aN) x)) (get_d x (co_in aN))) (merge (d_inputs (dcs (co_s aF) x)) (get_d x (co_in aF))))
      by (apply merge_eqv; assumption).
    assert (Hndo : NoDup (keys outs)).
    { match type of HdN with devf ?c0 ?n0 ?t0 ?i0 = _ => pose proof (Hdev_nd c0 n0 t0 i0) as Hq; rewrite HdN in Hq; exact Hq end. }
    rewrite Hc in HdN. rewrite (Hdev_ext _ _ _ _ _ (NoDup_keys_merge _ _ HnI) (NoDup_keys_merge _ _ HnI') Hinp) in HdN. rewrite HdN in HdF. injection HdF as E1 E2. rewrite <- E1 in HlF, HeF. rewrite <- E2 in HeF.
    rewrite <- Hl in HeF.
    exists (diff_outputs (d_last (dcs (co_s aN) x)) outs), ca, (merge (d_inputs (dcs (co_s aN) x)) (get_d x (co_in aN))),
           (merge (d_inputs (dcs (co_s aF) x)) (get_d x (co_in aF))).
    split; [apply NoDup_keys_filter; exact Hndo|]. split; [exact Hinp|]. split; [exact HeN|]. split; [exact HeF|].
    split; [rewrite HlN, HlF; reflexivity|]. split; [rewrite (de_self _ _ _ _ _ _ _ _ HeN), (de_self _ _ _ _ _ _ _ _ HeF); exact Hinp|].
    split; [rewrite HcN, HcF, Hc; reflexivity|].
    split; [rewrite (de_self _ _ _ _ _ _ _ _ HeN) | rewrite (de_self _ _ _ _ _ _ _ _ HeF)]; apply NoDup_keys_merge; assumption.
Qed.
End ParDev.

(* ---------- routing, at the level of "which value is pending on which port" *)
Lemma route_lookup_ext connsN connsF x (ch : values) yN qN yF qF :
  single_source connsN -> single_source connsF -> NoDup (keys ch) ->
  (forall p, In (x, p, yF, qF) connsF <-> In (x, p, yN, qN) connsN) ->
  lookup2r (route connsF x ch) yF qF = lookup2r (route connsN x ch) yN qN.
Proof.
  intros SN SF Hnd Hw.
  destruct (lookup2r (route connsF x ch) yF qF) as [v|] eqn:EF.
  - apply (route_exact connsF x ch yF qF v SF Hnd) in EF. destruct EF as [p [Hl Hk]]. symmetry.
    apply (route_exact connsN x ch yN qN v SN Hnd). exists p. split; [exact Hl | apply Hw; exact Hk].
  - destruct (lookup2r (route connsN x ch) yN qN) as [v|] eqn:EN; [|reflexivity]. exfalso.
    apply (route_exact connsN x ch yN qN v SN Hnd) in EN. destruct EN as [p [Hl Hk]].
    assert (EF' : lookup2r (route connsF x ch) yF qF = Some v) by (apply (route_exact connsF x ch yF qF v SF Hnd); exists p; split; [exact Hl | apply Hw; exact Hk]).
    congruence.
Qed.

Lemma route_lookup_none conns x (ch : values) y q :
  single_source conns -> NoDup (keys ch) -> (forall p, ~ In (x, p, y, q) conns) -> lookup2r (route conns x ch) y q = None.
Proof.
  intros S Hnd Hw. destruct (lookup2r (route conns x ch) y q) as [v|] eqn:E; [|reflexivity]. exfalso.
  apply (route_exact conns x ch y q v S Hnd) in E. destruct E as [p [_ Hk]]. apply (Hw p Hk).
Qed.

Lemma pd_after time lv conns a a' x ch ca inputs : dev_effect time lv conns a a' x ch ca inputs ->
  forall y q, pd a' y q = match lookup2r (route conns x ch) y q with Some v => Some v | None => pd a y q end.
Proof. intros H y q. unfold pd. rewrite (de_in _ _ _ _ _ _ _ _ _ H). apply accumulate_lookup. apply route_WFd. Qed.

Definition obs_rel (o o' : list obs) : Prop :=
  Forall2 (fun a b : obs => fst a = fst b /\ eqv (snd a) (snd b)) o o'.

Lemma obs_rel_app o1 o1' o2 o2' : obs_rel o1 o1' -> obs_rel o2 o2' -> obs_rel (o1 ++ o2) (o1' ++ o2').
Proof. intros H1 H2. apply Forall2_app; assumption. Qed.

Lemma wire_from_dec (conns : list conn) c y q : (forall o, ~ In (c, o, y, q) conns) \/ exists o, In (c, o, y, q) conns.
Proof.
  induction conns as [|[[[u p] y2] q2] r IHr]; [left; intros o []|].
  destruct IHr as [Hn|[o Ho]]; [|right; exists o; right; exact Ho].
  destruct (Pos.eq_dec u c) as [Eu|Nu]; destruct (Pos.eq_dec y2 y) as [Ey|Ny]; destruct (Pos.eq_dec q2 q) as [Eq|Nq];
    try (left; intros o [E|Hi]; [inversion E; congruence | apply (Hn o Hi)]).
  subst. right. exists p. left. reflexivity.
Qed.

