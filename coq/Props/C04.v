From TV Require Import Base.
Example C04_placeholder : True. Proof. exact I. Qed.
