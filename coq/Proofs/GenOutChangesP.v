(* The hand-written model function IS the translation of the tickit function it models: the definitions of
   Gen/SourceFuns.v -- regenerated from the sources of /repo on every run by harness/gen_funs.py -- are proved equal
   to the model functions the property theorems are about.  A change of a translated source function changes (or
   removes) the generated definition and breaks its equation here, whatever the sampled correspondence finds.
   This file: the changes DeviceComponent.on_tick reports. *)
From TV Require Import Base Model.PyLib Model.Wiring Model.Component Model.Sim Model.IoBox Gen.SourceFuns.
Open Scope Z_scope.

(* ---------- DeviceComponent.on_tick: the reported changes (Model/Component.v [diff_outputs]) *)
Theorem out_changes_is_source (last outs : values) : gen_out_changes last outs = diff_outputs last outs.
Proof.
  unfold gen_out_changes, diff_outputs, py_comp.
  rewrite (map_ext (fun '(k, v) => (k, v)) (fun x : port * Z => x)) by (intros [a b]; reflexivity). rewrite map_id.
  apply filter_ext. intros [k v]. cbn [fst snd]. unfold py_in_dict, py_eq_opt.
  destruct (lookup k last) as [x|]; cbn; [reflexivity | reflexivity].
Qed.

