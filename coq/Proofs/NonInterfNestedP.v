(* Non-interference of a disconnected part when the BASE itself contains system simulations:
   the tick-level relation of Proofs/NonInterfP.v extended by the state of the nested levels. *)
From TV Require Import Base Model.Wiring Model.Ticker Model.Component Model.Sim
  Proofs.WiringP Proofs.SimP Proofs.FlattenP Proofs.NonInterfP Proofs.FrameP Proofs.AgreeP.
Open Scope Z_scope.

Lemma filter_keep_all {A} (f : A -> bool) l : (forall x, In x l -> f x = true) -> filter f l = l.
Proof.
  induction l as [|x r IH]; intros H; [reflexivity|]. cbn [filter]. rewrite (H x (or_introl eq_refl)).
  rewrite IH by (intros y Hy; apply H; right; exact Hy). reflexivity.
Qed.

Section NN.
Variable devf : devfun.
Variable inner inner' : positive -> Z -> values -> sstate -> sstate * values * option Z * list obs.
Variable isX : comp -> bool.          (* components of the added part (at any depth) *)
Variable isXL : positive -> bool.     (* scheduler levels of the added part *)
Variable lv : positive.
Variable conns' : list conn.
Hypothesis Hsep : forall k, In k conns' -> isX (out_comp k) = isX (in_comp k).
Hypothesis Hext : isX ext_id = false.
Hypothesis Hexp : isX exp_id = false.
Variable time : Z.
Variable roots roots' : list comp.
Hypothesis Hroots : forall c, isX c = false -> memb c roots' = memb c roots.
Variable ext : values.

(* the nested schedulers of the base are in the same state *)
Definition lrel (s s' : sstate) : Prop :=
  forall l, isXL l = false -> l <> lv ->
    wake_of s' l = wake_of s l /\ int_of s' l = int_of s l /\ memb l (s_ticked s') = memb l (s_ticked s).

Definition arel2 (a a' : tacc) : Prop := arel isX lv a a' /\ lrel (ta_s a) (ta_s a').

Definition untouched (s s2 : sstate) : Prop :=
  forall l, isXL l = false -> l <> lv ->
    wake_of s2 l = wake_of s l /\ int_of s2 l = int_of s l /\ memb l (s_ticked s2) = memb l (s_ticked s).

Lemma lrel_untouched s s' s2 s2' : lrel s s' -> untouched s s2 -> untouched s' s2' -> lrel s2 s2'.
Proof.
  intros H U U' l Hl Hne. destruct (H l Hl Hne) as [A [B C]]. destruct (U l Hl Hne) as [A1 [B1 C1]].
  destruct (U' l Hl Hne) as [A2 [B2 C2]]. repeat split; congruence.
Qed.

Lemma untouched_refl s : untouched s s.
Proof. intros l _ _. repeat split; reflexivity. Qed.

(* a device step changes the wakeups of its own scheduler only *)
Lemma dev_step_untouched inn conns rts a c :
  untouched (ta_s a) (ta_s (tick_step devf inn lv conns time rts ext a (c, KDev))).
Proof.
  destruct (tick_step_framed devf [c] [lv] inn lv conns time rts ext a c KDev) as [ob1 [_ [_ [B _]]]];
    [left; reflexivity | intros; left; reflexivity | intros lv' E; discriminate|].
  intros l _ Hne. apply B. intros [E|[]]. apply Hne. symmetry. exact E.
Qed.

Lemma step_old2 a a' c : isX c = false -> arel2 a a' ->
  arel2 (tick_step devf inner lv (cs0 isX conns') time roots ext a (c, KDev))
        (tick_step devf inner' lv conns' time roots' ext a' (c, KDev)).
Proof.
  intros Hc [Ha Hl]. split; [apply step_old; assumption|].
  eapply lrel_untouched; [exact Hl | apply dev_step_untouched | apply dev_step_untouched].
Qed.

Lemma step_new2 a a' c : isX c = true -> arel2 a a' ->
  arel2 a (tick_step devf inner' lv conns' time roots' ext a' (c, KDev)).
Proof.
  intros Hc [Ha Hl]. split; [apply step_new; assumption|].
  eapply lrel_untouched; [exact Hl | apply untouched_refl | apply dev_step_untouched].
Qed.

(* a system simulation of the added part: framed by devices of X and levels of X *)
Definition xsys (lv' : positive) : Prop :=
  exists D' L', (forall d, In d D' -> isX d = true) /\ (forall l, In l L' -> isXL l = true) /\
    forall t chg s, let '(s2, _, _, ob) := inner' lv' t chg s in framed D' L' s s2 ob.

Hypothesis HXLtop : isXL lv = false.

Lemma step_new_sys2 a a' c lv' : isX c = true -> xsys lv' -> arel2 a a' ->
  arel2 a (tick_step devf inner' lv conns' time roots' ext a' (c, KSys lv')).
Proof.
  intros Hc [D' [L' [HD [HL Hfr]]]] [Ha Hl]. split.
  - apply step_new_sys; try assumption. intros t chg s. specialize (Hfr t chg s).
    destruct (inner' lv' t chg s) as [[[s2 o] ca] ob]. destruct Hfr as [A [B C]]. split; [|split].
    + intros c0 Hc0. apply A. intros Hi. rewrite (HD c0 Hi) in Hc0. discriminate.
    + apply (B lv). intros Hi. rewrite (HL lv Hi) in HXLtop. discriminate.
    + intros o0 Ho. apply HD. apply C. exact Ho.
  - eapply lrel_untouched; [exact Hl | apply untouched_refl|].
    destruct (tick_step_framed devf D' (lv :: L') inner' lv conns' time roots' ext a' c (KSys lv')) as [ob1 [_ [_ [B _]]]];
      [left; reflexivity | intros _ _ E; discriminate | |].
    + intros lv0 E t chg s. inversion E; subst lv0. specialize (Hfr t chg s).
      destruct (inner' lv' t chg s) as [[[s2 o] ca] ob]. eapply framed_mono; [| |exact Hfr]; [auto | intros l Hi; right; exact Hi].
    + intros l Hxl Hne. apply B. intros [E|Hi]; [apply Hne; symmetry; exact E | rewrite (HL l Hi) in Hxl; discriminate].
Qed.

(* a system simulation of the base: both runs tick it from agreeing states *)
Definition osys (lv' : positive) : Prop :=
  exists D' L', (forall d, In d D' -> isX d = false) /\ (forall l, In l L' -> isXL l = false /\ l <> lv) /\
    (forall t chg s, let '(s2, _, _, ob) := inner lv' t chg s in framed D' L' s s2 ob) /\
    (forall t chg s, let '(s2, _, _, ob) := inner' lv' t chg s in framed D' L' s s2 ob) /\
    inner_agrees D' L' inner inner' lv'.

Lemma step_old_sys2 a a' c lv' : isX c = false -> osys lv' -> arel2 a a' ->
  arel2 (tick_step devf inner lv (cs0 isX conns') time roots ext a (c, KSys lv'))
        (tick_step devf inner' lv conns' time roots' ext a' (c, KSys lv')).
Proof.
  intros Hc [D' [L' [HD [HL [Hf [Hf' Hag]]]]]] [Hrel Hl].
  unfold tick_step. cbn [fst snd].
  rewrite (extent_old isX lv conns' Hsep roots roots' Hroots a a' c Hc Hrel).
  destruct (in_extent (cs0 isX conns') roots (ta_touched a) c); [|split; assumption].
  destruct Hrel as [Hs [Hin [Ht [Ho Hob]]]].
  rewrite (Hin c Hc), (Hroots c Hc).
  destruct (nonempty (get_d c (ta_in a)) || memb c roots).
  2: { split; [|exact Hl]. split; [exact Hs|]. split; [exact Hin|]. split; [apply touched_rel; exact Ht|]. split; [exact Ho | exact Hob]. }
  destruct (Pos.eqb_spec c ext_id) as [E|_]; [subst c; split; [|exact Hl]; split; [exact Hs|]; split;
     [cbn [ta_in]; rewrite (route_old isX conns' Hsep ext_id ext Hc); apply accumulate_rel; exact Hin|]; split; [apply touched_rel; exact Ht|]; split; [exact Ho | exact Hob]|].
  destruct (Pos.eqb_spec c exp_id) as [E|_]; [split; [|exact Hl]; split; [exact Hs|]; split; [exact Hin|]; split; [apply touched_rel; exact Ht|]; split; [reflexivity | exact Hob]|].
  destruct Hs as [Hdc [Hn Hw]].
  assert (Hagree : agree D' L' (ta_s a) (ta_s a')).
  { split; [intros d Hd; split; [apply Hdc | apply Hn]; apply HD; exact Hd|].
    intros l Hi. destruct (HL l Hi) as [H1 H2]. apply (Hl l H1 H2). }
  specialize (Hag time (get_d c (ta_in a)) (ta_s a) (ta_s a') Hagree).
  specialize (Hf time (get_d c (ta_in a)) (ta_s a)). specialize (Hf' time (get_d c (ta_in a)) (ta_s a')).
  destruct (inner lv' time (get_d c (ta_in a)) (ta_s a)) as [[[s1 ch] ca] ob1].
  destruct (inner' lv' time (get_d c (ta_in a)) (ta_s a')) as [[[s1' ch'] ca'] ob1'].
  destruct Hag as [E1 [E2 [E3 [Adc Alv]]]]. subst ch' ca' ob1'.
  destruct Hf as [F1 [G1 O1]]. destruct Hf' as [F1' [G1' _]].
  assert (Hlvn : ~ In lv L') by (intros Hi; destruct (HL lv Hi) as [_ H2]; apply H2; reflexivity).
  assert (Hs1 : srel isX lv s1 s1').
  { split; [|split].
    - intros c0 Hc0. destruct (In_dec Pos.eq_dec c0 D') as [Hi|Hn0]; [apply (proj1 (Adc c0 Hi))|].
      rewrite (proj1 (F1' c0 Hn0)), (proj1 (F1 c0 Hn0)). apply Hdc. exact Hc0.
    - intros c0 Hc0. destruct (In_dec Pos.eq_dec c0 D') as [Hi|Hn0]; [apply (proj2 (Adc c0 Hi))|].
      rewrite (proj2 (F1' c0 Hn0)), (proj2 (F1 c0 Hn0)). apply Hn. exact Hc0.
    - rewrite (proj1 (G1' lv Hlvn)), (proj1 (G1 lv Hlvn)). exact Hw. }
  assert (Hl1 : lrel s1 s1').
  { intros l Hxl Hne. destruct (In_dec Pos.eq_dec l L') as [Hi|Hn0]; [apply (Alv l Hi)|].
    destruct (G1 l Hn0) as [X [Y Z]]. destruct (G1' l Hn0) as [X' [Y' Z']]. destruct (Hl l Hxl Hne) as [P [Q R]].
    repeat split; congruence. }
  assert (Hobs : filter (notX isX) ob1 = ob1).
  { apply filter_keep_all. intros o Hoi. unfold notX. rewrite (HD _ (O1 o Hoi)). reflexivity. }
  assert (Hrest : forall s2 s2', srel isX lv s2 s2' -> lrel s2 s2' ->
     arel2 {| ta_s := s2; ta_in := accumulate (ta_in a) (route (cs0 isX conns') c ch); ta_touched := ta_touched a ++ [c];
              ta_out := ta_out a; ta_obs := ta_obs a ++ ob1 |}
           {| ta_s := s2'; ta_in := accumulate (ta_in a') (route conns' c ch); ta_touched := ta_touched a' ++ [c];
              ta_out := ta_out a'; ta_obs := ta_obs a' ++ ob1 |}).
  { intros s2 s2' H2 H2l. split; [|exact H2l]. split; [exact H2|]. split; [|split; [apply touched_rel; exact Ht | split; [exact Ho|]]].
    - cbn [ta_in]. rewrite (route_old isX conns' Hsep c ch Hc). apply accumulate_rel. exact Hin.
    - cbn [ta_obs]. rewrite filter_app, Hob, Hobs. reflexivity. }
  destruct ca as [w|]; [|apply Hrest; assumption].
  apply Hrest.
  - destruct Hs1 as [H1 [H2 H3]]. split; [exact H1|]. split; [exact H2|].
    rewrite !wake_of_set_wake. rewrite (filter_upd_keep (fun k => negb (isX k))) by (rewrite Hc; reflexivity). f_equal. exact H3.
  - intros l Hxl Hne. destruct (Hl1 l Hxl Hne) as [P [Q R]]. split; [|split; [exact Q | exact R]].
    rewrite !wake_of_set_wake_other by exact Hne. exact P.
Qed.

Definition okkind2 (ck : comp * ckind) : Prop :=
  match snd ck with
  | KDev => True
  | KSys lv' => (isX (fst ck) = true /\ xsys lv') \/ (isX (fst ck) = false /\ osys lv')
  end.

Lemma fold_rel2 order' : (forall ck, In ck order' -> okkind2 ck) ->
  forall a a', arel2 a a' ->
  arel2 (fold_left (tick_step devf inner lv (cs0 isX conns') time roots ext) (filter (fun ck : comp * ckind => negb (isX (fst ck))) order') a)
        (fold_left (tick_step devf inner' lv conns' time roots' ext) order' a').
Proof.
  induction order' as [|[c k] r IH]; intros Hk a a' Hrel; [exact Hrel|].
  pose proof (Hk (c, k) (or_introl eq_refl)) as Hck. unfold okkind2 in Hck. cbn [fst snd] in Hck.
  assert (Hk' : forall ck, In ck r -> okkind2 ck) by (intros ck H; apply Hk; right; exact H).
  cbn [fold_left filter fst]. destruct k as [|lv'].
  - destruct (isX c) eqn:Ec; cbn [negb].
    + apply IH; [exact Hk'|]. apply step_new2; assumption.
    + cbn [fold_left]. apply IH; [exact Hk'|]. apply step_old2; assumption.
  - destruct Hck as [[Ec Hx]|[Ec Ho]]; rewrite Ec; cbn [negb].
    + apply IH; [exact Hk'|]. apply step_new_sys2; assumption.
    + cbn [fold_left]. apply IH; [exact Hk'|]. apply step_old_sys2; assumption.
Qed.
End NN.

Definition srel2 (isX : comp -> bool) (isXL : positive -> bool) (lv : positive) (s s' : sstate) : Prop :=
  srel isX lv s s' /\ lrel isXL lv s s'.

(* one whole tick of a level (devices and system simulations) and of the level extended by a
   disconnected part (devices and system simulations) *)
Theorem tick_noninterference2 cfg cfg' devf inner inner' (isX : comp -> bool) (isXL : positive -> bool) lv time roots roots' ext s s' :
  let l := level_of cfg lv in
  let l' := level_of cfg' lv in
  l_order l = filter (fun ck : comp * ckind => negb (isX (fst ck))) (l_order l') ->
  l_conns l = filter (oldc isX) (l_conns l') ->
  (forall ck, In ck (l_order l') -> okkind2 inner inner' isX isXL lv ck) ->
  (forall k, In k (l_conns l') -> isX (out_comp k) = isX (in_comp k)) ->
  isX ext_id = false -> isX exp_id = false -> isXL lv = false ->
  (forall c, isX c = false -> memb c roots' = memb c roots) ->
  srel2 isX isXL lv s s' ->
  let '(s1, out, ob) := tick_with cfg devf inner lv time roots ext s in
  let '(s1', out', ob') := tick_with cfg' devf inner' lv time roots' ext s' in
  srel2 isX isXL lv s1 s1' /\ out' = out /\ filter (notX isX) ob' = ob.
Proof.
  intros l l' Hord Hcon Hk Hsep Hext Hexp HXL Hroots [Hs Hl]. unfold tick_with. fold l. fold l'.
  assert (Hall : all_of l = filter (fun ck : comp * ckind => negb (isX (fst ck))) (all_of l')).
  { unfold all_of. cbn [filter fst]. rewrite Hext. cbn [negb]. rewrite filter_app. cbn [filter fst].
    rewrite Hexp. cbn [negb]. rewrite Hord. reflexivity. }
  rewrite Hall, Hcon.
  assert (Hk' : forall ck, In ck (all_of l') -> okkind2 inner inner' isX isXL lv ck).
  { unfold all_of. intros ck [E|Hi]; [subst ck; exact I|]. apply in_app_iff in Hi.
    destruct Hi as [Hi|[E|[]]]; [apply Hk; exact Hi | subst ck; exact I]. }
  pose proof (fold_rel2 devf inner inner' isX isXL lv (l_conns l') Hsep Hext Hexp time roots roots' Hroots ext HXL (all_of l') Hk'
                {| ta_s := s; ta_in := []; ta_touched := []; ta_out := []; ta_obs := [] |}
                {| ta_s := s'; ta_in := []; ta_touched := []; ta_out := []; ta_obs := [] |}) as H.
  unfold cs0 in H.
  destruct H as [[H1 [_ [_ [H4 H5]]]] H6].
  - split; [|exact Hl]. split; [exact Hs|]. split; [reflexivity|]. split; [reflexivity|]. split; reflexivity.
  - split; [split; assumption|]. auto.
Qed.
