(* C18 -- adapter messages reach exactly the matching command; interrupt iff declared.
   Decoding and regex matching are data (what each command makes of the message, computed by
   Python's codecs / re); the theorems are about the dispatch, interrupt and reply logic.
   Property theorems only. *)
From TV Require Import Base Model.Command Proofs.CommandP.

(* the handler that runs is that of the first command (in member order) whose pattern matches
   the whole message after that command's decoding, with the captured groups; commands for
   which decoding fails or the pattern does not match are passed over *)
Theorem C18_dispatch : forall m i args,
  handle m = HCommand i args <->
  nth_error m i = Some (Match args) /\
  forall j, (j < i)%nat -> forall p, nth_error m j = Some p -> is_match p = false.
Proof. exact handle_dispatch. Qed.

(* if no command matches -- including when the bytes cannot be decoded for some command -- no
   handler runs: the result is the unknown-command reply; and handle never raises *)
Theorem C18_unknown : forall m, handle m = HUnknown <-> forall p, In p m -> is_match p = false.
Proof. exact handle_unknown. Qed.

Theorem C18_total : forall m, handle m <> HRaise.
Proof. exact handle_never_raises. Qed.

(* exactly one handler invocation, followed by the interrupt iff the matched command is
   interrupting; no handler and no interrupt for an unknown message *)
Theorem C18_interrupt_after : forall cmds m,
  match handle m with
  | HCommand i args =>
      forall c, nth_error cmds i = Some c ->
      fst (fst (handle_message cmds m)) = EvHandler i args :: (if cmd_interrupt c then [EvInterrupt] else [])
  | HUnknown => fst (fst (handle_message cmds m)) = [] /\ snd (handle_message cmds m) = true
  | HRaise => False
  end.
Proof.
  intros cmds m. unfold handle_message. destruct (handle m) as [|i args|] eqn:E.
  - split; reflexivity.
  - intros c Hc. rewrite Hc. reflexivity.
  - exact (handle_never_raises m E).
Qed.

(* every reply other than the empty marker is written once, in order *)
Theorem C18_replies : forall replies,
  stream replies false = map EvWrite (flat_map (fun r => match r with Some x => [x] | None => [] end) replies).
Proof. exact stream_order. Qed.

(* a whole connection: the on_connect replies, then, chunk by chunk, the handler's effect, the
   interrupt, the replies -- by definition of [connection]; stated for reference *)
Theorem C18_connection : forall cmds onc chunks,
  connection cmds onc chunks =
  stream onc false ++
  flat_map (fun m => fst (fst (handle_message cmds m)) ++ stream (snd (fst (handle_message cmds m))) (snd (handle_message cmds m))) chunks.
Proof.
  intros. unfold connection. f_equal. apply flat_map_ext. intros m. destruct (handle_message cmds m) as [[e r] u]. reflexivity.
Qed.

(* what the pinned tree did is refuted: a text command placed before the others made handle
   raise on undecodable bytes instead of answering "unknown command" *)
Theorem C18_pinned_refuted : exists m, handle_pinned_from 0 m = HRaise /\ handle m = HUnknown.
Proof. exact pinned_refuted. Qed.

Example C18_example :
  connection [{| cmd_interrupt := true; cmd_replies := [Some 1%Z; None; Some 2%Z] |}; {| cmd_interrupt := false; cmd_replies := [Some 3%Z] |}]
             [Some 9%Z] [[NoMatch; Match [7%Z]]; [DecodeFails; NoMatch]; [Match []; Match []]]
  = [EvWrite 9%Z; EvHandler 1 [7%Z]; EvWrite 3%Z; EvWriteUnknown; EvHandler 0 []; EvInterrupt; EvWrite 1%Z; EvWrite 2%Z].
Proof. vm_compute. reflexivity. Qed.
