(* Model of src/tickit/adapters/io/zeromq_push_io.py (ZeroMqPushIo) and adapters/zmq.py
   (ZeroMqPushAdapter): an interleaving semantics of the queue-draining sender task plus any
   number of direct senders, with socket creation and drain completing at arbitrary later
   steps.  asyncio.Lock = holder + FIFO waiters, asyncio.Queue = FIFO list.  Definitions only. *)
From TV Require Import Base.

Definition msgid := Z.

(* where a sending thread is inside send_message / _ensure_socket *)
Inductive pc :=
| Idle                       (* between messages *)
| WantLock (m : msgid)       (* waiting for _socket_lock *)
| Creating (m : msgid)       (* holds the lock, awaiting the socket factory *)
| HasLock (m : msgid)        (* holds the lock, socket exists *)
| Writing (m : msgid)        (* lock released, about to socket.write *)
| Draining (m : msgid).      (* written, awaiting socket.drain() *)

Record thread := {
  t_queue_reader : bool;         (* the send_messages_forever task (takes from the adapter queue) *)
  t_nowrite : bool;              (* setup()'s own _ensure_socket(): no message is written *)
  t_todo : list msgid;           (* a direct sender's remaining messages *)
  t_pc : pc
}.

Record zstate := {
  z_threads : list thread;
  z_queue : list msgid;          (* adapter._message_queue *)
  z_lock : bool;                 (* _socket_lock held *)
  z_socket : bool;               (* self._socket is not None *)
  z_created : nat;               (* how many sockets the factory has produced *)
  z_writes : list msgid          (* socket.write calls, in order *)
}.

Definition set_thread (l : list thread) (i : nat) (t : thread) : list thread :=
  firstn i l ++ t :: skipn (S i) l.
Definition with_pc (t : thread) (p : pc) : thread :=
  {| t_queue_reader := t_queue_reader t; t_nowrite := t_nowrite t; t_todo := t_todo t; t_pc := p |}.

(* one step of thread i (None if it cannot move).  Suspension points that depend on the outside
   world -- factory and drain latency -- are ordinary steps that may be taken at any later time. *)
Definition step_thread (z : zstate) (i : nat) : option zstate :=
  match nth_error (z_threads z) i with
  | None => None
  | Some t =>
      let upd_t t' := set_thread (z_threads z) i t' in
      match t_pc t with
      | Idle =>
          if t_queue_reader t then
            match z_queue z with
            | m :: q => Some {| z_threads := upd_t (with_pc t (WantLock m)); z_queue := q; z_lock := z_lock z;
                                z_socket := z_socket z; z_created := z_created z; z_writes := z_writes z |}
            | [] => None
            end
          else
            match t_todo t with
            | m :: r => Some {| z_threads := upd_t {| t_queue_reader := false; t_nowrite := t_nowrite t; t_todo := r; t_pc := WantLock m |};
                                z_queue := z_queue z; z_lock := z_lock z; z_socket := z_socket z;
                                z_created := z_created z; z_writes := z_writes z |}
            | [] => None
            end
      | WantLock m =>
          if z_lock z then None
          else Some {| z_threads := upd_t (with_pc t (if z_socket z then HasLock m else Creating m));
                       z_queue := z_queue z; z_lock := true; z_socket := z_socket z;
                       z_created := z_created z; z_writes := z_writes z |}
      | Creating m =>    (* the factory returns *)
          Some {| z_threads := upd_t (with_pc t (HasLock m)); z_queue := z_queue z; z_lock := true;
                  z_socket := true; z_created := S (z_created z); z_writes := z_writes z |}
      | HasLock m =>     (* leaves `async with` *)
          Some {| z_threads := upd_t (with_pc t (if t_nowrite t then Idle else Writing m)); z_queue := z_queue z; z_lock := false;
                  z_socket := z_socket z; z_created := z_created z; z_writes := z_writes z |}
      | Writing m =>
          Some {| z_threads := upd_t (with_pc t (Draining m)); z_queue := z_queue z; z_lock := z_lock z;
                  z_socket := z_socket z; z_created := z_created z; z_writes := z_writes z ++ [m] |}
      | Draining m =>    (* drain() returns *)
          Some {| z_threads := upd_t (with_pc t Idle); z_queue := z_queue z; z_lock := z_lock z;
                  z_socket := z_socket z; z_created := z_created z; z_writes := z_writes z |}
      end
  end.

(* external actions: queueing a message on the adapter, starting a direct sender *)
Inductive zaction :=
| AStep (i : nat)
| AQueue (m : msgid)
| ASpawn (ms : list msgid)
| ASetup.                      (* setup() calls _ensure_socket() itself *)

Definition zstep (z : zstate) (a : zaction) : option zstate :=
  match a with
  | AStep i => step_thread z i
  | AQueue m => Some {| z_threads := z_threads z; z_queue := z_queue z ++ [m]; z_lock := z_lock z;
                        z_socket := z_socket z; z_created := z_created z; z_writes := z_writes z |}
  | ASpawn ms => Some {| z_threads := z_threads z ++ [{| t_queue_reader := false; t_nowrite := false; t_todo := ms; t_pc := Idle |}];
                         z_queue := z_queue z; z_lock := z_lock z; z_socket := z_socket z;
                         z_created := z_created z; z_writes := z_writes z |}
  | ASetup => Some {| z_threads := z_threads z ++ [{| t_queue_reader := false; t_nowrite := true; t_todo := [0%Z]; t_pc := Idle |}];
                      z_queue := z_queue z; z_lock := z_lock z; z_socket := z_socket z;
                      z_created := z_created z; z_writes := z_writes z |}
  end.

(* setup(): the io ensures the socket itself (a thread with one pseudo message that is not
   written: modelled by the first direct sender) then starts the queue reader *)
Definition z_init : zstate :=
  {| z_threads := [{| t_queue_reader := true; t_nowrite := false; t_todo := []; t_pc := Idle |}];
     z_queue := []; z_lock := false; z_socket := false; z_created := 0; z_writes := [] |}.

(* ---------- message parts and their serialisation rule *)
Inductive part :=
| PBytes (b : Z)            (* bytes: unchanged *)
| PStr (s : Z)              (* str *)
| PMap (d : Z)              (* dict *)
| PModel (d : Z)            (* pydantic BaseModel whose .dict() is d *)
| POther.                   (* anything else: TypeError *)

Inductive wire := WBytes (b : Z) | WJsonStr (s : Z) | WJsonMap (d : Z).

Definition serialize_part (p : part) : option wire :=
  match p with
  | PBytes b => Some (WBytes b)
  | PStr s => Some (WJsonStr s)
  | PMap d => Some (WJsonMap d)
  | PModel d => Some (WJsonMap d)
  | POther => None
  end.

(* ---------- comparison with the implementation *)
(* the queue reader's writes, each direct sender's writes (per thread, in order), how many
   sockets were created, and whether every write went to that one socket *)
Record zobs := {
  zo_queued : list msgid;            (* messages queued on the adapter, in order *)
  zo_direct : list (list msgid);     (* each direct sender's messages *)
  zo_writes : list msgid;            (* all socket.write calls in order *)
  zo_created : Z;
  zo_one_socket : bool;
  zo_actions : list zaction        (* the atomic steps of the implementation, in the order they happened *)
}.

(* trace validation: the implementation's steps are a run of the model ending with the same writes *)
Fixpoint replay (z : zstate) (l : list zaction) : option zstate :=
  match l with
  | [] => Some z
  | a :: r => match zstep z a with Some z' => replay z' r | None => None end
  end.

Fixpoint subseq_of (sub l : list msgid) : bool :=
  match sub, l with
  | [], _ => true
  | _, [] => false
  | x :: s, y :: r => if Z.eqb x y then subseq_of s r else subseq_of sub r
  end.
Fixpoint is_prefix (p l : list msgid) : bool :=
  match p, l with
  | [], _ => true
  | x :: s, y :: r => Z.eqb x y && is_prefix s r
  | _, [] => false
  end.
Definition count_of (x : msgid) (l : list msgid) : nat := length (filter (Z.eqb x) l).

(* also: 131 more (or less) than one socket / a write on another socket; 132 the queued messages are
   not written as a prefix of the queue order, each once; 133 a direct sequence is written out of
   order or a message is written twice *)
(* 130 the implementation's steps are not a run of the model (or end with other writes) *)
Definition check_zmq (o : zobs) : list Z :=
  (match replay z_init (zo_actions o) with
   | Some z => if list_eqb Z.eqb (z_writes z) (zo_writes o) && Z.eqb (Z.of_nat (z_created z)) (zo_created o) then [] else [130%Z]
   | None => [130%Z]
   end) ++
  (if (Z.eqb (zo_created o) 1 || (Z.eqb (zo_created o) 0 && match zo_writes o with [] => true | _ => false end))
      && zo_one_socket o then [] else [131%Z]) ++
  (let qw := filter (fun m => existsb (Z.eqb m) (zo_queued o)) (zo_writes o) in
   if is_prefix qw (zo_queued o) then [] else [132%Z]) ++
  (if forallb (fun ms => is_prefix (filter (fun m => existsb (Z.eqb m) ms) (zo_writes o)) ms) (zo_direct o)
      && forallb (fun m => Nat.leb (count_of m (zo_writes o)) 1) (zo_writes o) then [] else [133%Z]).
