(* No interrupt is lost, at any depth, whenever it arrives (Model/Alert.v).
   For a component c of level p let [Serve s p c] be when c is going to be updated next as things stand: [Now] if it is a
   root of p's running tick and has not been handed its Input yet, or is a system simulation whose tick is running, or
   (p nested) is queued in p's interrupts -- after the messages of c in flight to p's scheduler have been delivered, in
   their order (that is where per-source FIFO enters: [dr]); otherwise [At v] for its wakeup v in p's table (again after
   those messages), [Never] without one.  Let [Urg s lv] be what level lv needs: [Now] if an interrupt is pending in it,
   [At] its earliest wakeup otherwise.  The invariant ([IL]): for every system simulation x of p with level lv, whenever lv
   is not ticking,   Serve p x  <=  Urg lv   or   Serve p x <= At hi
   where hi is the latest simulation time the master has used.  With the same for the devices that have raised an
   interrupt ([IO]) it gives, in any state in which nothing is running and nothing is in flight: a device that has raised an
   interrupt and has not been updated since is queued in its scheduler (or, at the top level, has a wakeup no later than hi),
   every system simulation around it is queued in the scheduler around it or has a wakeup there no later than hi, and
   the outermost one has a wakeup at the master no later than hi ([alert_chain], [alert_never_lost]): the master cannot
   sleep past it, whatever happened in between -- ticks running at several levels, answers and interrupts overtaking one
   another, the callback of a system simulation replacing the wakeup an interrupt had just left. *)
From Coq Require Import Lia.
From TV Require Import Base Model.Wiring Model.Ticker Model.Component Model.Sim Model.Alert Proofs.WiringP Proofs.NonInterfLoopP.
Open Scope Z_scope.

(* ---------- the order of urgencies *)
Inductive ez := Now | At (v : Z) | Never.
Definition ez_le (a b : ez) : Prop :=
  match a, b with
  | Now, _ => True
  | _, Never => True
  | At x, At y => x <= y
  | _, _ => False
  end.
Definition ez_of (o : option Z) : ez := match o with Some v => At v | None => Never end.
Definition sat (hi : Z) (a b : ez) : Prop := ez_le a b \/ ez_le a (At hi).

Lemma ez_le_refl a : ez_le a a.
Proof. destruct a; cbn; auto. lia. Qed.
Lemma ez_le_trans a b c : ez_le a b -> ez_le b c -> ez_le a c.
Proof. destruct a, b, c; cbn; auto; try contradiction. lia. Qed.
Lemma sat_mono hi hi' a b : hi <= hi' -> sat hi a b -> sat hi' a b.
Proof. intros H [A|A]; [left; exact A | right; eapply ez_le_trans; [exact A | cbn; exact H]]. Qed.
Lemma sat_now hi b : sat hi Now b.
Proof. left. exact I. Qed.
Lemma sat_never hi a : sat hi a Never.
Proof. left. destruct a; exact I. Qed.
Lemma sat_trans_now hi a b : sat hi a b -> sat hi b Now -> sat hi a Now.
Proof.
  intros [A|A] [B|B]; try (right; exact A).
  - left. eapply ez_le_trans; eassumption.
  - right. eapply ez_le_trans; eassumption.
Qed.

(* ---------- levels of a state *)
Lemma getl_setl_same s lv x : getl (setl s lv x) lv = x.
Proof. unfold getl, setl. cbn [a_lv]. rewrite lookup_upd_same. reflexivity. Qed.
Lemma getl_setl_other s lv x l : l <> lv -> getl (setl s lv x) l = getl s l.
Proof. intros H. unfold getl, setl. cbn [a_lv]. rewrite lookup_upd_other by exact H. reflexivity. Qed.
Lemma getl_set_hi s h l : getl (set_hi s h) l = getl s l.
Proof. reflexivity. Qed.
Lemma getl_set_owed s o l : getl (set_owed s o) l = getl s l.
Proof. reflexivity. Qed.

(* ---------- the messages of one component in a queue, in order *)
Definition msgs_of (c : comp) (q : list (comp * amsg)) : list amsg :=
  flat_map (fun e : comp * amsg => if Pos.eqb (fst e) c then [snd e] else []) q.

Lemma msgs_of_app (c : comp) (q1 q2 : list (comp * amsg)) : msgs_of c (q1 ++ q2) = msgs_of c q1 ++ msgs_of c q2.
Proof. unfold msgs_of. apply flat_map_app. Qed.

Lemma msgs_of_none (c : comp) (q : list (comp * amsg)) : ~ In c (keys q) -> msgs_of c q = [].
Proof.
  induction q as [|[k m] r IH]; intros H; [reflexivity|]. cbn [msgs_of flat_map fst snd].
  destruct (Pos.eqb_spec k c) as [->|Hne]; [exfalso; apply H; left; reflexivity|].
  cbn [app]. apply IH. intros Hi. apply H. right. exact Hi.
Qed.

Lemma msgs_of_first (c : comp) (m : amsg) (q1 q2 : list (comp * amsg)) : ~ In c (keys q1) -> msgs_of c (q1 ++ (c, m) :: q2) = m :: msgs_of c (q1 ++ q2).
Proof.
  intros H. rewrite !msgs_of_app, (msgs_of_none c q1 H). cbn [msgs_of flat_map fst snd app]. rewrite Pos.eqb_refl. reflexivity.
Qed.

Lemma msgs_of_other (c c' : comp) (m : amsg) (q1 q2 : list (comp * amsg)) : c' <> c -> msgs_of c' (q1 ++ (c, m) :: q2) = msgs_of c' (q1 ++ q2).
Proof.
  intros H. rewrite !msgs_of_app. cbn [msgs_of flat_map fst snd]. destruct (Pos.eqb_spec c c') as [E|_]; [congruence | reflexivity].
Qed.

Lemma msgs_of_push (c c' : comp) (m : amsg) (q : list (comp * amsg)) : msgs_of c' (q ++ [(c, m)]) = msgs_of c' q ++ (if Pos.eqb c c' then [m] else []).
Proof. rewrite msgs_of_app. cbn [msgs_of flat_map fst snd]. rewrite app_nil_r. reflexivity. Qed.

(* ---------- what the bookkeeping of a component will be once its messages in flight have been delivered *)
Definition dr1 (sticky : bool) (b : bool * option Z) (m : amsg) : bool * option Z :=
  match m with
  | AInt => (true, snd b)
  | AOut (Some v) => (if sticky then fst b else false, Some v)
  | AOut None => b
  end.
Definition dr (sticky : bool) (ms : list amsg) (b : bool * option Z) : bool * option Z := fold_left (dr1 sticky) ms b.
Definition res (b : bool * option Z) : ez := if fst b then Now else ez_of (snd b).

Lemma dr_app sticky a b0 b : dr sticky (a ++ b0) b = dr sticky b0 (dr sticky a b).
Proof. unfold dr. apply fold_left_app. Qed.

(* at the master the wakeup left by an interrupt may be replaced by a later Output: whatever the base, either a later
   message decides, or none does *)
Lemma dr_top_res ms : forall b1 b2, res (dr false ms b1) = res (dr false ms b2) \/ (dr false ms b1 = b1 /\ dr false ms b2 = b2).
Proof.
  induction ms as [|m r IH]; intros b1 b2; [right; split; reflexivity|].
  change (dr false (m :: r) b1) with (dr false r (dr1 false b1 m)). change (dr false (m :: r) b2) with (dr false r (dr1 false b2 m)).
  destruct m as [|[v|]]; cbn [dr1].
  - left. destruct (IH (true, snd b1) (true, snd b2)) as [E|[E1 E2]]; [exact E | rewrite E1, E2; reflexivity].
  - left. reflexivity.
  - destruct (IH b1 b2) as [E|[E1 E2]]; [left; exact E | right; split; assumption].
Qed.

Lemma dr_push_none sticky ms b : dr sticky (ms ++ [AOut None]) b = dr sticky ms b.
Proof. rewrite dr_app. reflexivity. Qed.

Lemma NoDup_snoc {A} (l : list A) c : NoDup l -> ~ In c l -> NoDup (l ++ [c]).
Proof.
  induction l as [|x r IH]; intros H Hn; [constructor; [intros [] | constructor]|]. inversion H; subst. cbn [app]. constructor.
  - intros Hi. apply in_app_iff in Hi. destruct Hi as [Hi|[E|[]]]; [contradiction | subst; apply Hn; left; reflexivity].
  - apply IH; [assumption | intros Hi; apply Hn; right; exact Hi].
Qed.

Definition outs (q : list (comp * amsg)) : list comp :=
  flat_map (fun e : comp * amsg => match snd e with AOut _ => [fst e] | AInt => [] end) q.

Lemma outs_app a b : outs (a ++ b) = outs a ++ outs b.
Proof. unfold outs. apply flat_map_app. Qed.

Lemma in_outs c q : In c (outs q) <-> exists ca, In (c, AOut ca) q.
Proof.
  unfold outs. rewrite in_flat_map. split.
  - intros [[k m] [Hi Hm]]. destruct m as [|ca]; cbn in Hm; [destruct Hm|]. destruct Hm as [<-|[]]. exists ca. exact Hi.
  - intros [ca Hi]. exists (c, AOut ca). split; [exact Hi | left; reflexivity].
Qed.

Section AP.
Variable cfg : config.
(* the nesting is a tree: a level belongs to one system simulation, which lives in another level; the top level to none *)
Hypothesis Hown : forall p x lv p' x', child cfg p x lv -> child cfg p' x' lv -> p = p' /\ x = x'.
Hypothesis Hself : forall p x, ~ child cfg p x p.
Hypothesis Htop : forall p x, ~ child cfg p x top.

Definition rootpending (s : astate) (p : positive) (c : comp) : bool :=
  match a_tick (getl s p) with Some t => memb c (t_roots t) && negb (memb c (t_handed t)) | None => false end.
Definition ticking (s : astate) (p : positive) (c : comp) : bool :=
  match lookup c (l_order (level_of cfg p)) with
  | Some (KSys lv) => match a_tick (getl s lv) with Some _ => true | None => false end
  | _ => false
  end.
Definition base (L : lstate) (p : positive) (c : comp) : bool * option Z :=
  (if Pos.eqb p top then false else memb c (a_ints L), lookup c (a_wake L)).
Definition drained (L : lstate) (p : positive) (c : comp) : ez :=
  res (dr (negb (Pos.eqb p top)) (msgs_of c (a_q L)) (base L p c)).
Definition Serve (s : astate) (p : positive) (c : comp) : ez :=
  if rootpending s p c || ticking s p c then Now else drained (getl s p) p c.
Definition Urg (s : astate) (lv : positive) : ez :=
  match a_ints (getl s lv) with [] => ez_of (min_wake (a_wake (getl s lv))) | _ => Now end.

(* ---------- the shape of reachable states *)
Record AS (s : astate) : Prop := {
  as_par : forall p x lv t', child cfg p x lv -> a_tick (getl s lv) = Some t' ->
      exists t, a_tick (getl s p) = Some t /\ In x (t_handed t) /\ In x (t_todo t) /\ t_time t' = t_time t;
  as_q : forall p c ca, In (c, AOut ca) (a_q (getl s p)) ->
      exists t, a_tick (getl s p) = Some t /\ In c (t_todo t) /\ In c (t_handed t) /\
                forall lv, child cfg p c lv -> a_tick (getl s lv) = None;
  as_qu : forall p, NoDup (outs (a_q (getl s p)));
  as_roots : forall p t c, a_tick (getl s p) = Some t -> In c (t_roots t) -> ~ In c (t_handed t) -> In c (t_todo t);
  as_time : forall p t, a_tick (getl s p) = Some t -> t_time t <= a_hi s
}.

Lemma AS_init : AS {| a_lv := []; a_hi := 0; a_owed := [] |}.
Proof.
  constructor; unfold getl; cbn.
  - intros p x lv t' _ H. discriminate.
  - intros p c ca [].
  - intros p. constructor.
  - intros p t c H. discriminate.
  - intros p t H. discriminate.
Qed.

Ltac gl := repeat first [rewrite getl_set_hi | rewrite getl_set_owed | rewrite getl_setl_same | rewrite getl_setl_other by congruence].
Ltac gl_in H := repeat first [rewrite getl_set_hi in H | rewrite getl_set_owed in H | rewrite getl_setl_same in H | rewrite getl_setl_other in H by congruence].

Lemma child_fun p x lv lv' : child cfg p x lv -> child cfg p x lv' -> lv = lv'.
Proof. unfold child. intros A B. rewrite A in B. inversion B. reflexivity. Qed.

Lemma child_sys p x lv : child cfg p x lv -> is_sys cfg p x = true.
Proof. unfold child, is_sys. intros ->. reflexivity. Qed.

Lemma outs_mid_nodup q1 c ca q2 : NoDup (outs (q1 ++ (c, AOut ca) :: q2)) -> NoDup (outs (q1 ++ q2)) /\ ~ In c (outs (q1 ++ q2)).
Proof.
  rewrite !outs_app. cbn [outs flat_map snd fst app]. fold (outs q2). intros H. split; [apply NoDup_remove_1 in H | apply NoDup_remove_2 in H]; exact H.
Qed.

Lemma outs_mid_int q1 c q2 : outs (q1 ++ (c, AInt) :: q2) = outs (q1 ++ q2).
Proof. rewrite !outs_app. reflexivity. Qed.

Lemma in_mid_out (q1 q2 : list (comp * amsg)) c m c0 ca0 : In (c0, AOut ca0) (q1 ++ q2) -> In (c0, AOut ca0) (q1 ++ (c, m) :: q2).
Proof. rewrite !in_app_iff. intros [H|H]; [left; exact H | right; right; exact H]. Qed.

(* steps that start or end no tick and touch no Output in flight *)
Lemma AS_frame s s' : AS s ->
  (forall l, a_tick (getl s' l) = a_tick (getl s l)) ->
  (forall l c ca, In (c, AOut ca) (a_q (getl s' l)) -> In (c, AOut ca) (a_q (getl s l))) ->
  (forall l, NoDup (outs (a_q (getl s' l)))) -> a_hi s <= a_hi s' -> AS s'.
Proof.
  intros IH Ht Hq Hu Hh. constructor.
  - intros p x lv t' Hc H. rewrite Ht in H. destruct (as_par _ IH p x lv t' Hc H) as [t [A B]]. exists t. rewrite Ht. split; assumption.
  - intros p c ca Hi. apply Hq in Hi. destruct (as_q _ IH p c ca Hi) as [t [A [B [C D]]]]. exists t. rewrite Ht. split; [exact A|]. split; [exact B|].
    split; [exact C|]. intros lv Hc. rewrite Ht. apply D. exact Hc.
  - exact Hu.
  - intros p t c H. rewrite Ht in H. apply (as_roots _ IH p t c H).
  - intros p t H. rewrite Ht in H. pose proof (as_time _ IH p t H). lia.
Qed.

Lemma AS_raise s lv d : AS s -> AS (set_owed (setl s lv (q_push (getl s lv) d AInt)) ((lv, d) :: a_owed s)).
Proof.
  intros IH. apply (AS_frame s); [exact IH | | | | cbn; lia].
  - intros l. destruct (Pos.eq_dec l lv) as [->|Hne]; gl; reflexivity.
  - intros l c ca. destruct (Pos.eq_dec l lv) as [->|Hne]; gl; [|exact (fun h => h)]. cbn [q_push with_q a_q].
    intros Hi. apply in_app_iff in Hi. destruct Hi as [Hi|[Hi|[]]]; [exact Hi | discriminate].
  - intros l. destruct (Pos.eq_dec l lv) as [->|Hne]; gl; [|apply (as_qu _ IH)]. cbn [q_push with_q a_q].
    rewrite outs_app. cbn [outs flat_map snd]. rewrite app_nil_r. apply (as_qu _ IH).
Qed.

Lemma AS_int_top s q1 q2 c w : a_q (getl s top) = q1 ++ (c, AInt) :: q2 -> AS s ->
  AS (set_hi (setl s top (with_q (with_wake (getl s top) (int_wake w c (a_wake (getl s top)))) (q1 ++ q2))) (Z.max (a_hi s) w)).
Proof.
  intros Hq IH. apply (AS_frame s); [exact IH | | | | cbn; lia].
  - intros l. destruct (Pos.eq_dec l top) as [->|Hne]; gl; reflexivity.
  - intros l c0 ca. destruct (Pos.eq_dec l top) as [->|Hne]; gl; [|exact (fun h => h)]. cbn [with_q a_q]. rewrite Hq. apply in_mid_out.
  - intros l. destruct (Pos.eq_dec l top) as [->|Hne]; gl; [|apply (as_qu _ IH)]. cbn [with_q a_q].
    rewrite <- (outs_mid_int q1 c q2), <- Hq. apply (as_qu _ IH).
Qed.

Lemma AS_int_nested s p x lv q1 q2 c : lv <> p -> a_q (getl s lv) = q1 ++ (c, AInt) :: q2 -> AS s ->
  let s1 := setl s lv (with_q (with_ints (getl s lv) (add_int c (a_ints (getl s lv)))) (q1 ++ q2)) in
  AS (setl s1 p (q_push (getl s1 p) x AInt)).
Proof.
  intros Hne Hq IH s1. apply (AS_frame s); [exact IH | | | | cbn; lia].
  - intros l. destruct (Pos.eq_dec l p) as [->|Hp]; gl.
    + unfold s1. gl. reflexivity.
    + unfold s1. destruct (Pos.eq_dec l lv) as [->|Hl]; gl; reflexivity.
  - intros l c0 ca. destruct (Pos.eq_dec l p) as [->|Hp]; gl.
    + unfold s1. gl. cbn [q_push with_q a_q]. intros Hi. apply in_app_iff in Hi. destruct Hi as [Hi|[Hi|[]]]; [exact Hi | discriminate].
    + unfold s1. destruct (Pos.eq_dec l lv) as [->|Hl]; gl; [|exact (fun h => h)]. cbn [with_q a_q]. rewrite Hq. apply in_mid_out.
  - intros l. destruct (Pos.eq_dec l p) as [->|Hp]; gl.
    + unfold s1. gl. cbn [q_push with_q a_q]. rewrite outs_app. cbn [outs flat_map snd]. rewrite app_nil_r. apply (as_qu _ IH).
    + unfold s1. destruct (Pos.eq_dec l lv) as [->|Hl]; gl; [|apply (as_qu _ IH)]. cbn [with_q a_q].
      rewrite <- (outs_mid_int q1 c q2), <- Hq. apply (as_qu _ IH).
Qed.

Lemma AS_mtick s when roots todo : a_tick (getl s top) = None -> incl roots todo -> AS s ->
  AS (set_hi (setl s top (with_tick (with_wake (getl s top) (filter (fun e : comp * Z => negb (memb (fst e) roots)) (a_wake (getl s top))))
                                     (Some {| t_time := when; t_roots := roots; t_todo := todo; t_handed := [] |})))
             (Z.max (a_hi s) when)).
Proof.
  intros Hn Hincl IH. constructor.
  - intros p x lv t' Hc H. assert (Hlv : lv <> top) by (intros ->; exact (Htop p x Hc)). gl_in H.
    destruct (as_par _ IH p x lv t' Hc H) as [t [A B]]. assert (Hp : p <> top) by (intros ->; congruence). exists t. gl. split; assumption.
  - intros p c ca Hi. assert (Hi' : In (c, AOut ca) (a_q (getl s p))) by (destruct (Pos.eq_dec p top) as [->|Hp]; gl_in Hi; exact Hi).
    destruct (as_q _ IH p c ca Hi') as [t [A [B [C D]]]]. assert (Hp : p <> top) by (intros ->; congruence).
    exists t. gl. split; [exact A|]. split; [exact B|]. split; [exact C|]. intros lv Hc.
    assert (Hlv : lv <> top) by (intros ->; exact (Htop p c Hc)). gl. apply D. exact Hc.
  - intros p. destruct (Pos.eq_dec p top) as [->|Hp]; gl; apply (as_qu _ IH).
  - intros p t c H. destruct (Pos.eq_dec p top) as [->|Hp]; gl_in H.
    + cbn [with_tick a_tick] in H. inversion H; subst t. cbn [t_roots t_handed t_todo]. intros Hr _. apply Hincl. exact Hr.
    + apply (as_roots _ IH p t c H).
  - intros p t H. cbn [set_hi a_hi]. destruct (Pos.eq_dec p top) as [->|Hp]; gl_in H.
    + cbn [with_tick a_tick] in H. inversion H; subst t. cbn [t_time]. lia.
    + pose proof (as_time _ IH p t H). lia.
Qed.

(* a component of a running tick is handed its Input / is passed over: it joins [handed] and its answer joins the queue *)
Lemma AS_hand s lv t c ca owed : a_tick (getl s lv) = Some t -> In c (t_todo t) -> ~ In c (t_handed t) ->
  (forall l0, child cfg lv c l0 -> a_tick (getl s l0) = None) -> AS s ->
  AS (set_owed (setl s lv (q_push (with_tick (getl s lv) (Some (hand t c))) c (AOut ca))) owed).
Proof.
  intros Ht Hc Hnh Hidle IH. constructor.
  - intros p x l0 t' Hch H. gl_in H. destruct (Pos.eq_dec l0 lv) as [->|Hl]; gl_in H.
    + cbn [q_push with_q with_tick a_tick] in H. inversion H; subst t'.
      destruct (as_par _ IH p x lv t Hch Ht) as [tp [A [B [C D]]]]. assert (Hp : p <> lv) by (intros ->; exact (Hself _ _ Hch)).
      exists tp. gl. split; [exact A|]. split; [exact B|]. split; [exact C | exact D].
    + destruct (as_par _ IH p x l0 t' Hch H) as [tp [A [B [C D]]]]. destruct (Pos.eq_dec p lv) as [->|Hp]; gl.
      * rewrite Ht in A. inversion A; subst tp. exists (hand t c). cbn [q_push with_q with_tick a_tick]. split; [reflexivity|].
        split; [right; exact B|]. split; [exact C | exact D].
      * exists tp. split; [exact A|]. split; [exact B|]. split; [exact C | exact D].
  - intros p c0 ca0 Hi. gl_in Hi. destruct (Pos.eq_dec p lv) as [->|Hp]; gl_in Hi; gl.
    + cbn [q_push with_q with_tick a_tick a_q] in *. exists (hand t c). split; [reflexivity|]. apply in_app_iff in Hi. destruct Hi as [Hi|[Hi|[]]].
      * destruct (as_q _ IH lv c0 ca0 Hi) as [t0 [A [B [C D]]]]. rewrite Ht in A. inversion A; subst t0.
        split; [exact B|]. split; [right; exact C|]. intros l0 Hch. assert (l0 <> lv) by (intros ->; exact (Hself _ _ Hch)). gl. apply D. exact Hch.
      * inversion Hi; subst c0 ca0. split; [exact Hc|]. split; [left; reflexivity|]. intros l0 Hch.
        assert (l0 <> lv) by (intros ->; exact (Hself _ _ Hch)). gl. apply Hidle. exact Hch.
    + destruct (as_q _ IH p c0 ca0 Hi) as [t0 [A [B [C D]]]]. exists t0. split; [exact A|]. split; [exact B|]. split; [exact C|].
      intros l0 Hch. destruct (Pos.eq_dec l0 lv) as [->|Hl]; gl; [|apply D; exact Hch]. rewrite (D lv Hch) in Ht. discriminate.
  - intros p. gl. destruct (Pos.eq_dec p lv) as [->|Hp]; gl; [|apply (as_qu _ IH)]. cbn [q_push with_q a_q].
    rewrite outs_app. cbn [outs flat_map snd fst]. rewrite app_nil_r. apply NoDup_snoc; [apply (as_qu _ IH)|].
    intros Hy. apply in_outs in Hy. destruct Hy as [ca' Hy]. destruct (as_q _ IH lv c ca' Hy) as [t0 [A [_ [C _]]]].
    rewrite Ht in A. inversion A; subst t0. exact (Hnh C).
  - intros p t0 c0 H. gl_in H. destruct (Pos.eq_dec p lv) as [->|Hp]; gl_in H.
    + cbn [q_push with_q with_tick a_tick] in H. inversion H; subst t0. cbn [hand t_roots t_handed t_todo]. intros Hr Hn.
      apply (as_roots _ IH lv t c0 Ht Hr). intros Hi. apply Hn. right. exact Hi.
    + apply (as_roots _ IH p t0 c0 H).
  - intros p t0 H. gl_in H. cbn [set_owed a_hi setl]. destruct (Pos.eq_dec p lv) as [->|Hp]; gl_in H.
    + cbn [q_push with_q with_tick a_tick] in H. inversion H; subst t0. cbn [hand t_time]. apply (as_time _ IH lv t Ht).
    + apply (as_time _ IH p t0 H).
Qed.

Lemma AS_in_sys s p t x lv roots' todo' wk : a_tick (getl s p) = Some t -> In x (t_todo t) -> ~ In x (t_handed t) ->
  child cfg p x lv -> a_tick (getl s lv) = None -> incl roots' todo' -> AS s ->
  let s1 := setl s p (with_tick (getl s p) (Some (hand t x))) in
  AS (setl s1 lv (with_tick (with_ints (with_wake (getl s lv) wk) [])
                            (Some {| t_time := t_time t; t_roots := roots'; t_todo := todo'; t_handed := [] |}))).
Proof.
  intros Ht Hx Hnh Hch Hidle Hincl IH s1.
  assert (Hlp : lv <> p) by (intros ->; exact (Hself _ _ Hch)).
  assert (G : forall l, getl (setl s1 lv (with_tick (with_ints (with_wake (getl s lv) wk) [])
                                (Some {| t_time := t_time t; t_roots := roots'; t_todo := todo'; t_handed := [] |}))) l =
                        if Pos.eqb l lv then with_tick (with_ints (with_wake (getl s lv) wk) []) (Some {| t_time := t_time t; t_roots := roots'; t_todo := todo'; t_handed := [] |})
                        else if Pos.eqb l p then with_tick (getl s p) (Some (hand t x)) else getl s l).
  { intros l. destruct (Pos.eqb_spec l lv) as [->|Hl]; gl; [reflexivity|]. unfold s1. destruct (Pos.eqb_spec l p) as [->|Hp]; gl; reflexivity. }
  constructor.
  - intros p0 x0 l0 t' Hc0 H. rewrite G in H. rewrite (G p0).
    destruct (Pos.eqb_spec l0 lv) as [->|Hl0].
    + destruct (Hown _ _ _ _ _ Hc0 Hch) as [-> ->]. cbn [with_tick a_tick] in H. inversion H; subst t'.
      destruct (Pos.eqb_spec p lv) as [E|_]; [congruence|]. rewrite Pos.eqb_refl. cbn [with_tick a_tick].
      exists (hand t x). split; [reflexivity|]. split; [left; reflexivity|]. split; [exact Hx | reflexivity].
    + destruct (Pos.eqb_spec l0 p) as [->|Hl0p].
      * cbn [with_tick a_tick] in H. inversion H; subst t'.
        destruct (as_par _ IH p0 x0 p t Hc0 Ht) as [tp [A [B [C D]]]].
        destruct (Pos.eqb_spec p0 lv) as [->|_]; [congruence|]. destruct (Pos.eqb_spec p0 p) as [->|_]; [exfalso; exact (Hself _ _ Hc0)|].
        exists tp. split; [exact A|]. split; [exact B|]. split; [exact C | exact D].
      * destruct (as_par _ IH p0 x0 l0 t' Hc0 H) as [tp [A [B [C D]]]].
        destruct (Pos.eqb_spec p0 lv) as [->|_]; [congruence|]. destruct (Pos.eqb_spec p0 p) as [->|_].
        -- rewrite Ht in A. inversion A; subst tp. exists (hand t x). cbn [with_tick a_tick]. split; [reflexivity|]. split; [right; exact B|]. split; [exact C | exact D].
        -- exists tp. split; [exact A|]. split; [exact B|]. split; [exact C | exact D].
  - intros p0 c0 ca0 Hi. rewrite G in Hi. rewrite (G p0).
    assert (Hi' : In (c0, AOut ca0) (a_q (getl s p0))).
    { destruct (Pos.eqb_spec p0 lv) as [->|_]; [exact Hi|]. destruct (Pos.eqb_spec p0 p) as [->|_]; exact Hi. }
    destruct (as_q _ IH p0 c0 ca0 Hi') as [t0 [A [B [C D]]]].
    destruct (Pos.eqb_spec p0 lv) as [->|Hp0]; [congruence|]. destruct (Pos.eqb_spec p0 p) as [->|Hp0p].
    + rewrite Ht in A. inversion A; subst t0. exists (hand t x). cbn [with_tick a_tick]. split; [reflexivity|]. split; [exact B|]. split; [right; exact C|].
      intros l0 Hc0. rewrite G. destruct (Pos.eqb_spec l0 lv) as [->|_].
      * exfalso. destruct (Hown _ _ _ _ _ Hc0 Hch) as [_ ->]. exact (Hnh C).
      * destruct (Pos.eqb_spec l0 p) as [->|_]; [exfalso; exact (Hself _ _ Hc0) | apply D; exact Hc0].
    + exists t0. split; [exact A|]. split; [exact B|]. split; [exact C|]. intros l0 Hc0. rewrite G.
      destruct (Pos.eqb_spec l0 lv) as [->|_]; [exfalso; destruct (Hown _ _ _ _ _ Hc0 Hch) as [E _]; contradiction|].
      destruct (Pos.eqb_spec l0 p) as [->|_]; [rewrite (D p Hc0) in Ht; discriminate | apply D; exact Hc0].
  - intros p0. rewrite G. destruct (Pos.eqb_spec p0 lv) as [->|_]; [apply (as_qu _ IH)|]. destruct (Pos.eqb_spec p0 p) as [->|_]; apply (as_qu _ IH).
  - intros p0 t0 c0 H. rewrite G in H. destruct (Pos.eqb_spec p0 lv) as [->|_].
    + cbn [with_tick a_tick] in H. inversion H; subst t0. cbn [t_roots t_todo]. intros Hr _. apply Hincl. exact Hr.
    + destruct (Pos.eqb_spec p0 p) as [->|_]; [|apply (as_roots _ IH p0 t0 c0 H)].
      cbn [with_tick a_tick] in H. inversion H; subst t0. cbn [hand t_roots t_handed t_todo]. intros Hr Hn.
      apply (as_roots _ IH p t c0 Ht Hr). intros Hi. apply Hn. right. exact Hi.
  - intros p0 t0 H. rewrite G in H. cbn [setl a_hi]. unfold s1. cbn [setl a_hi]. destruct (Pos.eqb_spec p0 lv) as [->|_].
    + cbn [with_tick a_tick] in H. inversion H; subst t0. cbn [t_time]. apply (as_time _ IH p t Ht).
    + destruct (Pos.eqb_spec p0 p) as [->|_]; [|apply (as_time _ IH p0 t0 H)].
      cbn [with_tick a_tick] in H. inversion H; subst t0. cbn [hand t_time]. apply (as_time _ IH p t Ht).
Qed.

Lemma in_untodo t c x : In x (t_todo t) -> x <> c -> In x (t_todo (untodo t c)).
Proof. intros H Hne. cbn [untodo t_todo]. apply filter_In. split; [exact H|]. destruct (Pos.eqb_spec x c); [contradiction | reflexivity]. Qed.

Lemma AS_out s lv t q1 q2 c ca : a_tick (getl s lv) = Some t -> a_q (getl s lv) = q1 ++ (c, AOut ca) :: q2 -> AS s ->
  AS (setl s lv (with_q (with_wake (with_tick (getl s lv) (Some (untodo t c))) (out_wake ca c (a_wake (getl s lv)))) (q1 ++ q2))).
Proof.
  intros Ht Hq IH.
  assert (Hcin : In (c, AOut ca) (a_q (getl s lv))) by (rewrite Hq; apply in_app_iff; right; left; reflexivity).
  destruct (as_q _ IH lv c ca Hcin) as [t0 [A0 [Hctodo [Hchand Hcidle]]]]. rewrite Ht in A0. inversion A0; subst t0. clear A0.
  pose proof (as_qu _ IH lv) as Hu. rewrite Hq in Hu. destruct (outs_mid_nodup _ _ _ _ Hu) as [Hu1 Hu2].
  constructor.
  - intros p x l0 t' Hch H. destruct (Pos.eq_dec l0 lv) as [->|Hl]; gl_in H.
    + cbn [with_q with_wake with_tick a_tick] in H. inversion H; subst t'.
      destruct (as_par _ IH p x lv t Hch Ht) as [tp [A [B [C D]]]]. assert (Hp : p <> lv) by (intros ->; exact (Hself _ _ Hch)).
      exists tp. gl. split; [exact A|]. split; [exact B|]. split; [exact C | exact D].
    + destruct (as_par _ IH p x l0 t' Hch H) as [tp [A [B [C D]]]]. destruct (Pos.eq_dec p lv) as [->|Hp]; gl.
      * rewrite Ht in A. inversion A; subst tp. exists (untodo t c). cbn [with_q with_wake with_tick a_tick]. split; [reflexivity|].
        split; [exact B|]. split; [|exact D]. apply in_untodo; [exact C|]. intros ->. rewrite (Hcidle l0 Hch) in H. discriminate.
      * exists tp. split; [exact A|]. split; [exact B|]. split; [exact C | exact D].
  - intros p c0 ca0 Hi. destruct (Pos.eq_dec p lv) as [->|Hp]; gl_in Hi; gl.
    + cbn [with_q with_wake with_tick a_tick a_q] in *.
      assert (Hi' : In (c0, AOut ca0) (a_q (getl s lv))) by (rewrite Hq; apply in_mid_out; exact Hi).
      destruct (as_q _ IH lv c0 ca0 Hi') as [t0 [A [B [C D]]]]. rewrite Ht in A. inversion A; subst t0.
      exists (untodo t c). split; [reflexivity|]. split.
      * apply in_untodo; [exact B|]. intros ->. apply Hu2. apply in_outs. exists ca0. exact Hi.
      * split; [exact C|]. intros l0 Hch. assert (l0 <> lv) by (intros ->; exact (Hself _ _ Hch)). gl. apply D. exact Hch.
    + destruct (as_q _ IH p c0 ca0 Hi) as [t0 [A [B [C D]]]]. exists t0. split; [exact A|]. split; [exact B|]. split; [exact C|].
      intros l0 Hch. destruct (Pos.eq_dec l0 lv) as [->|Hl]; gl; [|apply D; exact Hch]. rewrite (D lv Hch) in Ht. discriminate.
  - intros p. destruct (Pos.eq_dec p lv) as [->|Hp]; gl; [exact Hu1 | apply (as_qu _ IH)].
  - intros p t0 c0 H. destruct (Pos.eq_dec p lv) as [->|Hp]; gl_in H; [|apply (as_roots _ IH p t0 c0 H)].
    cbn [with_q with_wake with_tick a_tick] in H. inversion H; subst t0. cbn [untodo t_roots t_handed]. intros Hr Hn.
    apply in_untodo; [apply (as_roots _ IH lv t c0 Ht Hr Hn)|]. intros ->. exact (Hn Hchand).
  - intros p t0 H. cbn [setl a_hi]. destruct (Pos.eq_dec p lv) as [->|Hp]; gl_in H; [|apply (as_time _ IH p t0 H)].
    cbn [with_q with_wake with_tick a_tick] in H. inversion H; subst t0. cbn [untodo t_time]. apply (as_time _ IH lv t Ht).
Qed.

Lemma AS_done s p x lv t ca : child cfg p x lv -> a_tick (getl s lv) = Some t -> t_todo t = [] -> AS s ->
  let s1 := setl s lv (with_tick (getl s lv) None) in
  AS (setl s1 p (q_push (getl s1 p) x (AOut ca))).
Proof.
  intros Hch Ht Htodo IH s1.
  assert (Hlp : lv <> p) by (intros ->; exact (Hself _ _ Hch)).
  destruct (as_par _ IH p x lv t Hch Ht) as [tp [Atp [Bx [Cx Dx]]]].
  assert (G : forall l, getl (setl s1 p (q_push (getl s1 p) x (AOut ca))) l =
                        if Pos.eqb l p then q_push (getl s p) x (AOut ca) else if Pos.eqb l lv then with_tick (getl s lv) None else getl s l).
  { intros l. destruct (Pos.eqb_spec l p) as [->|Hl]; gl.
    - unfold s1. gl. reflexivity.
    - unfold s1. destruct (Pos.eqb_spec l lv) as [->|Hl2]; gl; reflexivity. }
  assert (Hnolv : forall c0 ca0, ~ In (c0, AOut ca0) (a_q (getl s lv))).
  { intros c0 ca0 Hi. destruct (as_q _ IH lv c0 ca0 Hi) as [t0 [A [B _]]]. rewrite Ht in A. inversion A; subst t0. rewrite Htodo in B. destruct B. }
  constructor.
  - intros p0 x0 l0 t' Hc0 H. rewrite G in H. rewrite (G p0).
    destruct (Pos.eqb_spec l0 p) as [->|Hl0].
    + cbn [q_push with_q a_tick] in H. destruct (as_par _ IH p0 x0 p t' Hc0 H) as [t0 [A [B [C D]]]].
      destruct (Pos.eqb_spec p0 p) as [->|_]; [exfalso; exact (Hself _ _ Hc0)|].
      destruct (Pos.eqb_spec p0 lv) as [->|_]; [rewrite Ht in A; inversion A; subst t0; rewrite Htodo in C; destruct C|].
      exists t0. split; [exact A|]. split; [exact B|]. split; [exact C | exact D].
    + destruct (Pos.eqb_spec l0 lv) as [->|Hl0lv]; [cbn [with_tick a_tick] in H; discriminate|].
      destruct (as_par _ IH p0 x0 l0 t' Hc0 H) as [t0 [A [B [C D]]]].
      destruct (Pos.eqb_spec p0 p) as [->|_]; [exists t0; cbn [q_push with_q a_tick]; split; [exact A|]; split; [exact B|]; split; [exact C | exact D]|].
      destruct (Pos.eqb_spec p0 lv) as [->|_]; [rewrite Ht in A; inversion A; subst t0; rewrite Htodo in C; destruct C|].
      exists t0. split; [exact A|]. split; [exact B|]. split; [exact C | exact D].
  - intros p0 c0 ca0 Hi. rewrite G in Hi. rewrite (G p0). destruct (Pos.eqb_spec p0 p) as [->|Hp0].
    + cbn [q_push with_q a_q a_tick] in *. exists tp. split; [exact Atp|]. apply in_app_iff in Hi. destruct Hi as [Hi|[Hi|[]]].
      * destruct (as_q _ IH p c0 ca0 Hi) as [t0 [A [B [C D]]]]. rewrite Atp in A. inversion A; subst t0. split; [exact B|]. split; [exact C|].
        intros l0 Hc0. rewrite G. destruct (Pos.eqb_spec l0 p) as [->|_]; [exfalso; exact (Hself _ _ Hc0)|].
        destruct (Pos.eqb_spec l0 lv) as [->|_]; [reflexivity | apply D; exact Hc0].
      * inversion Hi; subst c0 ca0. split; [exact Cx|]. split; [exact Bx|]. intros l0 Hc0. rewrite (child_fun _ _ _ _ Hc0 Hch), G.
        destruct (Pos.eqb_spec lv p) as [E|_]; [congruence|]. rewrite Pos.eqb_refl. reflexivity.
    + destruct (Pos.eqb_spec p0 lv) as [->|Hp0lv]; [exfalso; exact (Hnolv c0 ca0 Hi)|].
      destruct (as_q _ IH p0 c0 ca0 Hi) as [t0 [A [B [C D]]]]. exists t0. split; [exact A|]. split; [exact B|]. split; [exact C|].
      intros l0 Hc0. rewrite G. destruct (Pos.eqb_spec l0 p) as [->|_]; [cbn [q_push with_q a_tick]; apply D; exact Hc0|].
      destruct (Pos.eqb_spec l0 lv) as [->|_]; [reflexivity | apply D; exact Hc0].
  - intros p0. rewrite G. destruct (Pos.eqb_spec p0 p) as [->|_].
    + cbn [q_push with_q a_q]. rewrite outs_app. cbn [outs flat_map snd fst]. rewrite app_nil_r. apply NoDup_snoc; [apply (as_qu _ IH)|].
      intros Hy. apply in_outs in Hy. destruct Hy as [ca' Hy]. destruct (as_q _ IH p x ca' Hy) as [_ [_ [_ [_ D]]]]. rewrite (D lv Hch) in Ht. discriminate.
    + destruct (Pos.eqb_spec p0 lv) as [->|_]; apply (as_qu _ IH).
  - intros p0 t0 c0 H. rewrite G in H. destruct (Pos.eqb_spec p0 p) as [->|_]; [cbn [q_push with_q a_tick] in H; apply (as_roots _ IH p t0 c0 H)|].
    destruct (Pos.eqb_spec p0 lv) as [->|_]; [cbn [with_tick a_tick] in H; discriminate | apply (as_roots _ IH p0 t0 c0 H)].
  - intros p0 t0 H. rewrite G in H. cbn [setl a_hi]. unfold s1. cbn [setl a_hi].
    destruct (Pos.eqb_spec p0 p) as [->|_]; [cbn [q_push with_q a_tick] in H; apply (as_time _ IH p t0 H)|].
    destruct (Pos.eqb_spec p0 lv) as [->|_]; [cbn [with_tick a_tick] in H; discriminate | apply (as_time _ IH p0 t0 H)].
Qed.

Lemma AS_mdone s t : a_tick (getl s top) = Some t -> t_todo t = [] -> AS s -> AS (setl s top (with_tick (getl s top) None)).
Proof.
  intros Ht Htodo IH. constructor.
  - intros p x l0 t' Hch H. assert (Hl : l0 <> top) by (intros ->; exact (Htop _ _ Hch)). gl_in H.
    destruct (as_par _ IH p x l0 t' Hch H) as [tp [A [B [C D]]]]. destruct (Pos.eq_dec p top) as [->|Hp]; gl.
    + rewrite Ht in A. inversion A; subst tp. rewrite Htodo in C. destruct C.
    + exists tp. split; [exact A|]. split; [exact B|]. split; [exact C | exact D].
  - intros p c0 ca0 Hi. destruct (Pos.eq_dec p top) as [->|Hp]; gl_in Hi; gl.
    + cbn [with_tick a_q] in Hi. destruct (as_q _ IH top c0 ca0 Hi) as [t0 [A [B _]]]. rewrite Ht in A. inversion A; subst t0. rewrite Htodo in B. destruct B.
    + destruct (as_q _ IH p c0 ca0 Hi) as [t0 [A [B [C D]]]]. exists t0. split; [exact A|]. split; [exact B|]. split; [exact C|].
      intros l0 Hch. assert (Hl : l0 <> top) by (intros ->; exact (Htop _ _ Hch)). gl. apply D. exact Hch.
  - intros p. destruct (Pos.eq_dec p top) as [->|Hp]; gl; apply (as_qu _ IH).
  - intros p t0 c0 H. destruct (Pos.eq_dec p top) as [->|Hp]; gl_in H; [cbn [with_tick a_tick] in H; discriminate | apply (as_roots _ IH p t0 c0 H)].
  - intros p t0 H. cbn [setl a_hi]. destruct (Pos.eq_dec p top) as [->|Hp]; gl_in H; [cbn [with_tick a_tick] in H; discriminate | apply (as_time _ IH p t0 H)].
Qed.

Theorem AS_step s s' : AS s -> AStep cfg s s' -> AS s'.
Proof.
  intros IH H.
  destruct H as [s lv d Hd | s q1 q2 c w Hq Hn | s p x lv q1 q2 c Hch Hlp Hlt Hq Hn | s when roots todo Hn Hincl
                | s lv t c ca Ht Hc Hnh Hsys | s p t x lv roots' todo' Ht Hx Hnh Hch Hlp Hlt Hidle Hi1 Hi2
                | s lv t c Ht Hc Hnh Hnr | s lv t q1 q2 c ca Ht Hq Hn Hc | s p x lv t Hch Hlp Hlt Ht Htodo | s t Ht Htodo].
  - apply AS_raise. exact IH.
  - apply AS_int_top; assumption.
  - apply AS_int_nested; assumption.
  - apply AS_mtick; assumption.
  - apply AS_hand; try assumption. intros l0 Hc0. apply child_sys in Hc0. congruence.
  - apply AS_in_sys; assumption.
  - assert (E : setl s lv (q_push (with_tick (getl s lv) (Some (hand t c))) c (AOut None)) =
                set_owed (setl s lv (q_push (with_tick (getl s lv) (Some (hand t c))) c (AOut None))) (a_owed s)) by reflexivity.
    rewrite E. apply AS_hand; try assumption. intros l0 Hc0.
    destruct (a_tick (getl s l0)) as [t'|] eqn:E0; [|reflexivity].
    destruct (as_par _ IH lv c l0 t' Hc0 E0) as [t0 [A [B _]]]. rewrite Ht in A. inversion A; subst t0. contradiction.
  - apply AS_out; assumption.
  - eapply AS_done; eassumption.
  - eapply AS_mdone; eassumption.
Qed.

(* ---------- the alert invariant *)
Record AL (s : astate) : Prop := {
  al_link : forall p x lv, child cfg p x lv -> a_tick (getl s lv) = None -> sat (a_hi s) (Serve s p x) (Urg s lv);
  al_owed : forall lv d, In (lv, d) (a_owed s) -> lookup d (l_order (level_of cfg lv)) = Some KDev -> sat (a_hi s) (Serve s lv d) Now
}.

Lemma AL_init : AL {| a_lv := []; a_hi := 0; a_owed := [] |}.
Proof.
  constructor.
  - intros p x lv _ _. unfold Urg, getl. cbn. apply sat_never.
  - intros lv d [].
Qed.

Lemma drained_congr L L' p c : a_ints L' = a_ints L -> lookup c (a_wake L') = lookup c (a_wake L) ->
  msgs_of c (a_q L') = msgs_of c (a_q L) -> drained L' p c = drained L p c.
Proof. intros A B C. unfold drained, base. rewrite A, B, C. reflexivity. Qed.

Lemma ticking_child s p x lv : child cfg p x lv -> ticking s p x = match a_tick (getl s lv) with Some _ => true | None => false end.
Proof. unfold child, ticking. intros ->. reflexivity. Qed.

Lemma ticking_dev s p c : is_sys cfg p c = false -> ticking s p c = false.
Proof. unfold is_sys, ticking. destruct (lookup c (l_order (level_of cfg p))) as [[|lv]|]; [reflexivity | discriminate | reflexivity]. Qed.

Lemma ticking_congr s s' p c : (forall lv, child cfg p c lv -> a_tick (getl s' lv) = a_tick (getl s lv)) -> ticking s' p c = ticking s p c.
Proof.
  intros H. unfold ticking. destruct (lookup c (l_order (level_of cfg p))) as [[|lv]|] eqn:E; try reflexivity. rewrite (H lv E). reflexivity.
Qed.

Lemma Serve_congr s s' p c : a_tick (getl s' p) = a_tick (getl s p) -> ticking s' p c = ticking s p c ->
  drained (getl s' p) p c = drained (getl s p) p c -> Serve s' p c = Serve s p c.
Proof. intros A B C. unfold Serve, rootpending. rewrite A, B, C. reflexivity. Qed.

Lemma Serve_same_level s s' p c : getl s' p = getl s p -> ticking s' p c = ticking s p c -> Serve s' p c = Serve s p c.
Proof. intros A B. apply Serve_congr; [rewrite A; reflexivity | exact B | rewrite A; reflexivity]. Qed.

Lemma Urg_congr s s' lv : a_ints (getl s' lv) = a_ints (getl s lv) -> a_wake (getl s' lv) = a_wake (getl s lv) -> Urg s' lv = Urg s lv.
Proof. intros A B. unfold Urg. rewrite A, B. reflexivity. Qed.

(* a component whose last message in flight is an Interrupt is served at once *)
Lemma drained_push_int L p c : drained (q_push L c AInt) p c = Now.
Proof.
  unfold drained, q_push. cbn [with_q a_q]. rewrite msgs_of_push, Pos.eqb_refl, dr_app. cbn [dr fold_left dr1]. reflexivity.
Qed.

Lemma drained_push_other L p c c' m : c <> c' -> drained (q_push L c m) p c' = drained L p c'.
Proof.
  intros H. unfold drained, q_push. cbn [with_q a_q]. rewrite msgs_of_push. destruct (Pos.eqb_spec c c') as [E|_]; [contradiction|].
  rewrite app_nil_r. reflexivity.
Qed.

Lemma drained_push_none L p c : drained (q_push L c (AOut None)) p c = drained L p c.
Proof.
  unfold drained, q_push. cbn [with_q a_q]. rewrite msgs_of_push, Pos.eqb_refl, dr_push_none. reflexivity.
Qed.

Lemma Serve_now_or s p c : Serve s p c = Now \/ Serve s p c = drained (getl s p) p c.
Proof. unfold Serve. destruct (rootpending s p c || ticking s p c); [left | right]; reflexivity. Qed.

Lemma Serve_ticks_same s s' p c : (forall l, a_tick (getl s' l) = a_tick (getl s l)) ->
  drained (getl s' p) p c = drained (getl s p) p c -> Serve s' p c = Serve s p c.
Proof. intros Ht Hd. apply Serve_congr; [apply Ht | apply ticking_congr; intros lv _; apply Ht | exact Hd]. Qed.

Lemma Serve_drained_now s p c : drained (getl s p) p c = Now -> Serve s p c = Now.
Proof. intros H. destruct (Serve_now_or s p c) as [E|E]; [exact E | rewrite E; exact H]. Qed.

Lemma AL_raise s lv0 d : lookup d (l_order (level_of cfg lv0)) = Some KDev -> AL s ->
  AL (set_owed (setl s lv0 (q_push (getl s lv0) d AInt)) ((lv0, d) :: a_owed s)).
Proof.
  intros Hd IH. set (s' := set_owed (setl s lv0 (q_push (getl s lv0) d AInt)) ((lv0, d) :: a_owed s)).
  assert (Ht : forall l, a_tick (getl s' l) = a_tick (getl s l)).
  { intros l. unfold s'. destruct (Pos.eq_dec l lv0) as [->|Hne]; gl; reflexivity. }
  assert (Hs : forall p c, (p, c) <> (lv0, d) -> Serve s' p c = Serve s p c).
  { intros p c Hne. apply Serve_ticks_same; [exact Ht|]. unfold s'. destruct (Pos.eq_dec p lv0) as [->|Hp]; gl; [|reflexivity].
    apply drained_push_other. intros ->. apply Hne. reflexivity. }
  assert (Hu : forall lv, Urg s' lv = Urg s lv).
  { intros lv. apply Urg_congr; unfold s'; (destruct (Pos.eq_dec lv lv0) as [->|Hne]; gl; reflexivity). }
  constructor.
  - intros p x lv Hch Hidle. rewrite Ht in Hidle. rewrite Hu, Hs; [apply (al_link _ IH p x lv Hch Hidle)|].
    intros E. inversion E; subst. unfold child in Hch. rewrite Hch in Hd. discriminate.
  - intros lv d0 Hi Hk. destruct (Pos.eq_dec lv lv0) as [->|Hl]; [destruct (Pos.eq_dec d0 d) as [->|Hdd]|].
    + replace (Serve s' lv0 d) with Now; [apply sat_now|]. symmetry. apply Serve_drained_now. unfold s'. gl. apply drained_push_int.
    + rewrite Hs by (intros E; inversion E; congruence). destruct Hi as [E|Hi]; [inversion E; congruence|]. apply (al_owed _ IH lv0 d0 Hi Hk).
    + rewrite Hs by (intros E; inversion E; congruence). destruct Hi as [E|Hi]; [inversion E; congruence|]. apply (al_owed _ IH lv d0 Hi Hk).
Qed.

Lemma lookup_int_wake_other w c c' wk : c' <> c -> lookup c' (int_wake w c wk) = lookup c' wk.
Proof. intros H. unfold int_wake. apply lookup_upd_other. exact H. Qed.

Lemma AL_int_top s q1 q2 c w : a_q (getl s top) = q1 ++ (c, AInt) :: q2 -> ~ In c (keys q1) -> AL s ->
  AL (set_hi (setl s top (with_q (with_wake (getl s top) (int_wake w c (a_wake (getl s top)))) (q1 ++ q2))) (Z.max (a_hi s) w)).
Proof.
  intros Hq Hn IH.
  set (s' := set_hi (setl s top (with_q (with_wake (getl s top) (int_wake w c (a_wake (getl s top)))) (q1 ++ q2))) (Z.max (a_hi s) w)).
  assert (Hhi : a_hi s <= a_hi s') by (unfold s'; cbn; lia).
  assert (Hw : w <= a_hi s') by (unfold s'; cbn; lia).
  assert (Ht : forall l, a_tick (getl s' l) = a_tick (getl s l)).
  { intros l. unfold s'. destruct (Pos.eq_dec l top) as [->|Hne]; gl; reflexivity. }
  assert (Hs : forall p c', (p, c') <> (top, c) -> Serve s' p c' = Serve s p c').
  { intros p c' Hne. apply Serve_ticks_same; [exact Ht|]. unfold s'. destruct (Pos.eq_dec p top) as [->|Hp]; gl; [|reflexivity].
    assert (Hc : c' <> c) by (intros ->; apply Hne; reflexivity).
    apply drained_congr; cbn [with_q with_wake a_ints a_wake a_q]; [reflexivity | apply lookup_int_wake_other; exact Hc|].
    rewrite Hq. symmetry. apply msgs_of_other. exact Hc. }
  assert (Hc : forall U, sat (a_hi s) (Serve s top c) U -> sat (a_hi s') (Serve s' top c) U).
  { intros U HU. unfold Serve in *.
    replace (rootpending s' top c) with (rootpending s top c) by (unfold rootpending; rewrite Ht; reflexivity).
    replace (ticking s' top c) with (ticking s top c) by (symmetry; apply ticking_congr; intros lv _; apply Ht).
    revert HU. destruct (rootpending s top c || ticking s top c); intros HU; [apply sat_now|].
    unfold s'. gl. unfold drained, base in *. cbn [with_q with_wake a_ints a_wake a_q]. rewrite Hq, (msgs_of_first c AInt q1 q2 Hn) in HU.
    rewrite Pos.eqb_refl in *. cbn [negb] in *. change (dr false (AInt :: msgs_of c (q1 ++ q2)) (false, lookup c (a_wake (getl s top))))
      with (dr false (msgs_of c (q1 ++ q2)) (true, lookup c (a_wake (getl s top)))) in HU.
    unfold int_wake. rewrite lookup_upd_same.
    set (m := match lookup c (a_wake (getl s top)) with Some w0 => Z.min w w0 | None => w end).
    destruct (dr_top_res (msgs_of c (q1 ++ q2)) (false, Some m) (true, lookup c (a_wake (getl s top)))) as [E|[E1 _]].
    - rewrite E. apply (sat_mono _ _ _ _ Hhi HU).
    - rewrite E1. right. cbn. unfold m. destruct (lookup c (a_wake (getl s top))); lia. }
  assert (Hu : forall lv, lv <> top -> Urg s' lv = Urg s lv).
  { intros lv Hne. apply Urg_congr; unfold s'; gl; reflexivity. }
  constructor.
  - intros p x lv Hch Hidle. rewrite Ht in Hidle. assert (Hlv : lv <> top) by (intros ->; exact (Htop _ _ Hch)). rewrite (Hu lv Hlv).
    pose proof (al_link _ IH p x lv Hch Hidle) as HL.
    destruct (Pos.eq_dec p top) as [->|Hp]; [destruct (Pos.eq_dec x c) as [->|Hx]|].
    + apply Hc. exact HL.
    + rewrite Hs by (intros E; inversion E; congruence). apply (sat_mono _ _ _ _ Hhi HL).
    + rewrite Hs by (intros E; inversion E; congruence). apply (sat_mono _ _ _ _ Hhi HL).
  - intros lv d Hi Hk. pose proof (al_owed _ IH lv d Hi Hk) as HL.
    destruct (Pos.eq_dec lv top) as [->|Hp]; [destruct (Pos.eq_dec d c) as [->|Hx]|].
    + apply Hc. exact HL.
    + rewrite Hs by (intros E; inversion E; congruence). apply (sat_mono _ _ _ _ Hhi HL).
    + rewrite Hs by (intros E; inversion E; congruence). apply (sat_mono _ _ _ _ Hhi HL).
Qed.

Lemma memb_add_int_same c l : memb c (add_int c l) = true.
Proof.
  unfold add_int. destruct (memb c l) eqn:E; [exact E|]. apply memb_In. apply in_app_iff. right. left. reflexivity.
Qed.
Lemma memb_add_int_other c c' l : c' <> c -> memb c' (add_int c l) = memb c' l.
Proof.
  intros H. unfold add_int. destruct (memb c l); [reflexivity|]. destruct (memb c' l) eqn:E.
  - apply memb_In. apply in_app_iff. left. apply memb_In. exact E.
  - apply memb_false. intros Hi. apply in_app_iff in Hi. destruct Hi as [Hi|[Hi|[]]]; [apply memb_false in E; contradiction | congruence].
Qed.
Lemma add_int_nonempty c l : add_int c l <> [].
Proof. unfold add_int. destruct (memb c l) eqn:E; [intros ->; discriminate | destruct l; discriminate]. Qed.

Lemma AL_int_nested s p x lv q1 q2 c : child cfg p x lv -> lv <> top ->
  a_q (getl s lv) = q1 ++ (c, AInt) :: q2 -> ~ In c (keys q1) -> AL s ->
  let s1 := setl s lv (with_q (with_ints (getl s lv) (add_int c (a_ints (getl s lv)))) (q1 ++ q2)) in
  AL (setl s1 p (q_push (getl s1 p) x AInt)).
Proof.
  intros Hch Hlt Hq Hn IH s1. set (s' := setl s1 p (q_push (getl s1 p) x AInt)).
  assert (Hlp : lv <> p) by (intros ->; exact (Hself _ _ Hch)).
  assert (G : forall l, getl s' l = if Pos.eqb l p then q_push (getl s p) x AInt
                                    else if Pos.eqb l lv then with_q (with_ints (getl s lv) (add_int c (a_ints (getl s lv)))) (q1 ++ q2) else getl s l).
  { intros l. unfold s'. destruct (Pos.eqb_spec l p) as [->|Hl]; gl; [unfold s1; gl; reflexivity|].
    unfold s1. destruct (Pos.eqb_spec l lv) as [->|Hl2]; gl; reflexivity. }
  assert (Ht : forall l, a_tick (getl s' l) = a_tick (getl s l)).
  { intros l. rewrite G. destruct (Pos.eqb_spec l p) as [->|_]; [reflexivity|]. destruct (Pos.eqb_spec l lv) as [->|_]; reflexivity. }
  assert (Hs : forall p0 c0, (p0, c0) <> (p, x) -> Serve s' p0 c0 = Serve s p0 c0).
  { intros p0 c0 Hne. apply Serve_ticks_same; [exact Ht|]. rewrite G.
    destruct (Pos.eqb_spec p0 p) as [->|Hp0]; [apply drained_push_other; intros ->; apply Hne; reflexivity|].
    destruct (Pos.eqb_spec p0 lv) as [->|Hp0lv]; [|reflexivity].
    unfold drained, base. cbn [with_q with_ints a_ints a_wake a_q]. destruct (Pos.eqb_spec lv top) as [E|_]; [contradiction|]. cbn [negb].
    destruct (Pos.eq_dec c0 c) as [->|Hc0].
    - rewrite Hq, (msgs_of_first c AInt q1 q2 Hn), memb_add_int_same. reflexivity.
    - rewrite Hq, (msgs_of_other c c0 AInt q1 q2 Hc0), (memb_add_int_other c c0 _ Hc0). reflexivity. }
  assert (Hx : Serve s' p x = Now).
  { apply Serve_drained_now. rewrite G, Pos.eqb_refl. apply drained_push_int. }
  assert (Hu : forall l, l <> lv -> Urg s' l = Urg s l).
  { intros l Hl. apply Urg_congr; rewrite G; (destruct (Pos.eqb_spec l p) as [->|_]; [reflexivity|]); (destruct (Pos.eqb_spec l lv) as [->|_]; [contradiction | reflexivity]). }
  constructor.
  - intros p0 x0 l0 Hc0 Hidle. rewrite Ht in Hidle. destruct (Pos.eq_dec l0 lv) as [->|Hl0].
    + destruct (Hown _ _ _ _ _ Hc0 Hch) as [-> ->]. rewrite Hx. apply sat_now.
    + rewrite (Hu l0 Hl0), Hs; [apply (al_link _ IH p0 x0 l0 Hc0 Hidle)|].
      intros E. inversion E; subst. apply Hl0. apply (child_fun _ _ _ _ Hc0 Hch).
  - intros l d Hi Hk. rewrite Hs; [apply (al_owed _ IH l d Hi Hk)|]. intros E. inversion E; subst. unfold child in Hch. rewrite Hch in Hk. discriminate.
Qed.

Lemma lookup_filter_keep {A} (f : positive * A -> bool) c (l : list (positive * A)) :
  (forall v, f (c, v) = true) -> lookup c (filter f l) = lookup c l.
Proof.
  intros H. induction l as [|[k v] r IH]; [reflexivity|]. cbn [filter lookup]. destruct (Pos.eqb_spec c k) as [->|Hne].
  - rewrite H. cbn [lookup]. rewrite Pos.eqb_refl. reflexivity.
  - destruct (f (k, v)); [cbn [lookup]; destruct (Pos.eqb_spec c k); [contradiction | exact IH] | exact IH].
Qed.

Lemma AL_mtick s when roots todo : a_tick (getl s top) = None -> AL s ->
  AL (set_hi (setl s top (with_tick (with_wake (getl s top) (filter (fun e : comp * Z => negb (memb (fst e) roots)) (a_wake (getl s top))))
                                     (Some {| t_time := when; t_roots := roots; t_todo := todo; t_handed := [] |})))
             (Z.max (a_hi s) when)).
Proof.
  intros Hn IH.
  set (s' := set_hi (setl s top (with_tick (with_wake (getl s top) (filter (fun e : comp * Z => negb (memb (fst e) roots)) (a_wake (getl s top))))
                                     (Some {| t_time := when; t_roots := roots; t_todo := todo; t_handed := [] |}))) (Z.max (a_hi s) when)).
  assert (Hhi : a_hi s <= a_hi s') by (unfold s'; cbn; lia).
  assert (Ht : forall l, l <> top -> getl s' l = getl s l) by (intros l Hl; unfold s'; gl; reflexivity).
  assert (Htk : forall p c, ticking s' p c = ticking s p c).
  { intros p c. apply ticking_congr. intros lv Hc. rewrite Ht; [reflexivity|]. intros ->. exact (Htop _ _ Hc). }
  assert (Hs : forall p c, Serve s' p c = Now \/ Serve s' p c = Serve s p c).
  { intros p c. destruct (Pos.eq_dec p top) as [->|Hp].
    - assert (E : Serve s' top c = if memb c roots || ticking s top c then Now else drained (getl s' top) top c).
      { unfold Serve, rootpending. rewrite Htk. unfold s' at 1. gl. cbn [with_tick a_tick t_roots t_handed]. change (memb c []) with false.
        cbn [negb]. rewrite andb_true_r. reflexivity. }
      rewrite E. destruct (memb c roots) eqn:Er; [left; reflexivity|]. right. cbn [orb]. unfold Serve, rootpending. rewrite Hn. cbn [orb].
      destruct (ticking s top c); [reflexivity|]. unfold s'. gl. apply drained_congr; cbn [with_tick with_wake a_ints a_wake a_q]; try reflexivity.
      apply lookup_filter_keep. intros v. cbn [fst]. rewrite Er. reflexivity.
    - right. apply Serve_same_level; [apply Ht; exact Hp | apply Htk]. }
  constructor.
  - intros p x lv Hch Hidle. assert (Hlv : lv <> top) by (intros ->; exact (Htop _ _ Hch)). rewrite (Ht lv Hlv) in Hidle.
    replace (Urg s' lv) with (Urg s lv) by (symmetry; apply Urg_congr; rewrite (Ht lv Hlv); reflexivity).
    destruct (Hs p x) as [E|E]; rewrite E; [apply sat_now | apply (sat_mono _ _ _ _ Hhi (al_link _ IH p x lv Hch Hidle))].
  - intros lv d Hi Hk. destruct (Hs lv d) as [E|E]; rewrite E; [apply sat_now | apply (sat_mono _ _ _ _ Hhi (al_owed _ IH lv d Hi Hk))].
Qed.

Section Hand.
Variables (s : astate) (lv : positive) (t : tickst) (c : comp) (ca : option Z) (owed : list (positive * comp)).
Hypothesis Ht : a_tick (getl s lv) = Some t.
Let s' := set_owed (setl s lv (q_push (with_tick (getl s lv) (Some (hand t c))) c (AOut ca))) owed.

Lemma hand_ticking p0 c0 : ticking s' p0 c0 = ticking s p0 c0.
Proof.
  unfold ticking. destruct (lookup c0 (l_order (level_of cfg p0))) as [[|l0]|]; try reflexivity.
  unfold s'. destruct (Pos.eq_dec l0 lv) as [->|Hl]; gl; [|reflexivity]. cbn [q_push with_q with_tick a_tick]. rewrite Ht. reflexivity.
Qed.

Lemma hand_serve_other p0 c0 : (p0, c0) <> (lv, c) -> Serve s' p0 c0 = Serve s p0 c0.
Proof.
  intros Hne. destruct (Pos.eq_dec p0 lv) as [->|Hp].
  - assert (Hc : c0 <> c) by (intros ->; apply Hne; reflexivity).
    unfold Serve. rewrite hand_ticking. unfold rootpending. unfold s' at 1. gl. cbn [q_push with_q with_tick a_tick]. rewrite Ht.
    cbn [hand t_roots t_handed]. replace (memb c0 (c :: t_handed t)) with (memb c0 (t_handed t)).
    2: { unfold memb. cbn [existsb]. destruct (Pos.eqb_spec c0 c); [contradiction | reflexivity]. }
    destruct (memb c0 (t_roots t) && negb (memb c0 (t_handed t)) || ticking s lv c0); [reflexivity|].
    unfold s'. gl. rewrite drained_push_other by (intros E; apply Hc; symmetry; exact E).
    apply drained_congr; reflexivity.
  - apply Serve_same_level; [unfold s'; gl; reflexivity | apply hand_ticking].
Qed.

Lemma hand_urg l : Urg s' l = Urg s l.
Proof. apply Urg_congr; unfold s'; (destruct (Pos.eq_dec l lv) as [->|Hl]; gl; reflexivity). Qed.

Lemma hand_tick_none l : a_tick (getl s' l) = None -> a_tick (getl s l) = None.
Proof.
  unfold s'. destruct (Pos.eq_dec l lv) as [->|Hl]; gl; [|exact (fun h => h)]. cbn [q_push with_q with_tick a_tick]. discriminate.
Qed.
End Hand.

Lemma AL_in_dev s lv t c ca : a_tick (getl s lv) = Some t -> is_sys cfg lv c = false -> AL s ->
  AL (set_owed (setl s lv (q_push (with_tick (getl s lv) (Some (hand t c))) c (AOut ca)))
               (filter (fun e : positive * comp => negb (Pos.eqb (fst e) lv && Pos.eqb (snd e) c)) (a_owed s))).
Proof.
  intros Ht Hsys IH. constructor.
  - intros p x l0 Hch Hidle. apply hand_tick_none in Hidle. rewrite hand_urg.
    rewrite hand_serve_other; [apply (al_link _ IH p x l0 Hch Hidle) | exact Ht|].
    intros E. inversion E; subst. apply child_sys in Hch. congruence.
  - intros l d Hi Hk. apply filter_In in Hi. destruct Hi as [Hi Hb]. cbn [fst snd] in Hb.
    rewrite hand_serve_other; [apply (al_owed _ IH l d Hi Hk) | exact Ht|].
    intros E. inversion E; subst. rewrite !Pos.eqb_refl in Hb. discriminate.
Qed.

Lemma AL_skip s lv t c : a_tick (getl s lv) = Some t -> ~ In c (t_roots t) -> AL s ->
  AL (setl s lv (q_push (with_tick (getl s lv) (Some (hand t c))) c (AOut None))).
Proof.
  intros Ht Hnr IH.
  change (setl s lv (q_push (with_tick (getl s lv) (Some (hand t c))) c (AOut None)))
    with (set_owed (setl s lv (q_push (with_tick (getl s lv) (Some (hand t c))) c (AOut None))) (a_owed s)).
  set (s' := set_owed (setl s lv (q_push (with_tick (getl s lv) (Some (hand t c))) c (AOut None))) (a_owed s)).
  assert (Hs : forall p0 c0, Serve s' p0 c0 = Serve s p0 c0).
  { intros p0 c0. destruct (Pos.eq_dec p0 lv) as [->|Hp]; [destruct (Pos.eq_dec c0 c) as [->|Hc]|].
    - unfold Serve. unfold s'. rewrite hand_ticking by exact Ht. unfold rootpending. gl. cbn [q_push with_q with_tick a_tick]. rewrite Ht.
      cbn [hand t_roots t_handed]. replace (memb c (t_roots t)) with false by (symmetry; apply memb_false; exact Hnr). cbn [andb orb].
      destruct (ticking s lv c); [reflexivity|]. rewrite drained_push_none. apply drained_congr; reflexivity.
    - apply hand_serve_other; [exact Ht | intros E; inversion E; congruence].
    - apply hand_serve_other; [exact Ht | intros E; inversion E; congruence]. }
  constructor.
  - intros p x l0 Hch Hidle. apply hand_tick_none in Hidle. unfold s'. rewrite hand_urg. fold s'. rewrite Hs.
    apply (al_link _ IH p x l0 Hch Hidle).
  - intros l d Hi Hk. rewrite Hs. apply (al_owed _ IH l d Hi Hk).
Qed.

Lemma lookup_filter_all {A} (f : positive * A -> bool) c (l : list (positive * A)) :
  (forall v, In (c, v) l -> f (c, v) = true) -> lookup c (filter f l) = lookup c l.
Proof.
  induction l as [|[k v] r IH]; intros H; [reflexivity|]. cbn [filter lookup]. destruct (Pos.eqb_spec c k) as [->|Hne].
  - rewrite (H v (or_introl eq_refl)). cbn [lookup]. rewrite Pos.eqb_refl. reflexivity.
  - assert (IH' := IH (fun v0 Hv => H v0 (or_intror Hv))).
    destruct (f (k, v)); [cbn [lookup]; destruct (Pos.eqb_spec c k); [contradiction | exact IH'] | exact IH'].
Qed.

Lemma AL_in_sys s p t x lv roots' todo' : a_tick (getl s p) = Some t -> child cfg p x lv -> lv <> top -> a_tick (getl s lv) = None ->
  incl (a_ints (getl s lv) ++ map fst (filter (due (t_time t)) (a_wake (getl s lv)))) roots' -> AL s ->
  let s1 := setl s p (with_tick (getl s p) (Some (hand t x))) in
  AL (setl s1 lv (with_tick (with_ints (with_wake (getl s lv) (filter (fun e => negb (due (t_time t) e)) (a_wake (getl s lv)))) [])
                            (Some {| t_time := t_time t; t_roots := roots'; t_todo := todo'; t_handed := [] |}))).
Proof.
  intros Ht Hch Hlt Hidle Hincl IH s1.
  set (L' := with_tick (with_ints (with_wake (getl s lv) (filter (fun e => negb (due (t_time t) e)) (a_wake (getl s lv)))) [])
                       (Some {| t_time := t_time t; t_roots := roots'; t_todo := todo'; t_handed := [] |})).
  set (s' := setl s1 lv L').
  assert (Hlp : lv <> p) by (intros ->; exact (Hself _ _ Hch)).
  assert (G : forall l, getl s' l = if Pos.eqb l lv then L' else if Pos.eqb l p then with_tick (getl s p) (Some (hand t x)) else getl s l).
  { intros l. unfold s'. destruct (Pos.eqb_spec l lv) as [->|Hl]; gl; [reflexivity|]. unfold s1. destruct (Pos.eqb_spec l p) as [->|Hl2]; gl; reflexivity. }
  assert (Gt : forall l, l <> lv -> match a_tick (getl s' l) with Some _ => true | None => false end = match a_tick (getl s l) with Some _ => true | None => false end).
  { intros l Hl. rewrite G. destruct (Pos.eqb_spec l lv) as [E|_]; [contradiction|]. destruct (Pos.eqb_spec l p) as [->|_]; [|reflexivity].
    cbn [with_tick a_tick]. rewrite Ht. reflexivity. }
  assert (Htk : forall p0 c0, (p0, c0) <> (p, x) -> ticking s' p0 c0 = ticking s p0 c0).
  { intros p0 c0 Hne. unfold ticking. destruct (lookup c0 (l_order (level_of cfg p0))) as [[|l0]|] eqn:E; try reflexivity.
    apply Gt. intros ->. destruct (Hown _ _ _ _ _ E Hch) as [-> ->]. apply Hne. reflexivity. }
  assert (Hs : forall p0 c0, Serve s' p0 c0 = Now \/ Serve s' p0 c0 = Serve s p0 c0).
  { intros p0 c0. destruct (Pos.eq_dec p0 lv) as [->|Hp0].
    - (* a component of the level whose tick starts *)
      assert (Hne : (lv, c0) <> (p, x)) by (intros E; inversion E; congruence).
      assert (E : Serve s' lv c0 = if memb c0 roots' || ticking s lv c0 then Now else drained L' lv c0).
      { unfold Serve, rootpending. rewrite (Htk lv c0 Hne), G, Pos.eqb_refl. unfold L' at 1. cbn [with_tick a_tick t_roots t_handed].
        change (memb c0 []) with false. cbn [negb]. rewrite andb_true_r. reflexivity. }
      rewrite E. destruct (memb c0 roots') eqn:Er; [left; reflexivity|]. right. cbn [orb]. unfold Serve, rootpending. rewrite Hidle. cbn [orb].
      destruct (ticking s lv c0); [reflexivity|].
      assert (Hni : ~ In c0 roots') by (apply memb_false; exact Er).
      unfold drained, base, L'. cbn [with_tick with_ints with_wake a_ints a_wake a_q]. destruct (Pos.eqb_spec lv top) as [E0|_]; [contradiction|].
      replace (memb c0 (a_ints (getl s lv))) with false.
      2: { symmetry. apply memb_false. intros Hi. apply Hni. apply Hincl. apply in_app_iff. left. exact Hi. }
      change (memb c0 []) with false. rewrite lookup_filter_all; [reflexivity|].
      intros v Hv. cbv beta. unfold due. cbn [snd]. destruct (Z.leb v (t_time t)) eqn:Ed; [|reflexivity]. exfalso. apply Hni. apply Hincl. apply in_app_iff. right.
      apply in_map_iff. exists (c0, v). split; [reflexivity|]. apply filter_In. split; [exact Hv | unfold due; cbn [snd]; exact Ed].
    - destruct (Pos.eq_dec p0 p) as [->|Hp0p].
      + destruct (Pos.eq_dec c0 x) as [->|Hc0].
        * left. unfold Serve. rewrite (ticking_child s' p x lv Hch), G, Pos.eqb_refl. unfold L'. cbn [with_tick a_tick]. rewrite orb_true_r. reflexivity.
        * right. assert (Hne : (p, c0) <> (p, x)) by (intros E; inversion E; congruence).
          unfold Serve, rootpending. rewrite (Htk p c0 Hne), !G. destruct (Pos.eqb_spec p lv) as [E|_]; [congruence|]. rewrite Pos.eqb_refl.
          cbn [with_tick a_tick]. rewrite Ht. cbn [hand t_roots t_handed].
          replace (memb c0 (x :: t_handed t)) with (memb c0 (t_handed t)) by (unfold memb; cbn [existsb]; destruct (Pos.eqb_spec c0 x); [contradiction | reflexivity]).
          destruct (memb c0 (t_roots t) && negb (memb c0 (t_handed t)) || ticking s p c0); [reflexivity|]. apply drained_congr; reflexivity.
      + right. assert (Hne : (p0, c0) <> (p, x)) by (intros E; inversion E; congruence).
        apply Serve_same_level; [|apply Htk; exact Hne]. rewrite G. destruct (Pos.eqb_spec p0 lv) as [E|_]; [contradiction|].
        destruct (Pos.eqb_spec p0 p) as [E|_]; [contradiction | reflexivity]. }
  assert (Hnone : forall l, a_tick (getl s' l) = None -> l <> lv /\ l <> p /\ a_tick (getl s l) = None).
  { intros l H. rewrite G in H. destruct (Pos.eqb_spec l lv) as [E|Hl]; [unfold L' in H; cbn [with_tick a_tick] in H; discriminate|].
    destruct (Pos.eqb_spec l p) as [E|Hl2]; [cbn [with_tick a_tick] in H; discriminate|]. split; [exact Hl|]. split; [exact Hl2 | exact H]. }
  constructor.
  - intros p0 x0 l0 Hc0 H0. destruct (Hnone l0 H0) as [Hl0 [Hl0p Hid]].
    replace (Urg s' l0) with (Urg s l0).
    2: { symmetry. apply Urg_congr; rewrite G; (destruct (Pos.eqb_spec l0 lv) as [E|_]; [contradiction|]); (destruct (Pos.eqb_spec l0 p) as [E|_]; [contradiction | reflexivity]). }
    destruct (Hs p0 x0) as [E|E]; rewrite E; [apply sat_now | apply (al_link _ IH p0 x0 l0 Hc0 Hid)].
  - intros l d Hi Hk. destruct (Hs l d) as [E|E]; rewrite E; [apply sat_now | apply (al_owed _ IH l d Hi Hk)].
Qed.

Lemma AL_out s lv t q1 q2 c ca : a_tick (getl s lv) = Some t -> a_q (getl s lv) = q1 ++ (c, AOut ca) :: q2 -> ~ In c (keys q1) -> AL s ->
  AL (setl s lv (with_q (with_wake (with_tick (getl s lv) (Some (untodo t c))) (out_wake ca c (a_wake (getl s lv)))) (q1 ++ q2))).
Proof.
  intros Ht Hq Hn IH.
  set (s' := setl s lv (with_q (with_wake (with_tick (getl s lv) (Some (untodo t c))) (out_wake ca c (a_wake (getl s lv)))) (q1 ++ q2))).
  assert (Htk : forall p0 c0, ticking s' p0 c0 = ticking s p0 c0).
  { intros p0 c0. unfold ticking. destruct (lookup c0 (l_order (level_of cfg p0))) as [[|l0]|]; try reflexivity.
    unfold s'. destruct (Pos.eq_dec l0 lv) as [->|Hl]; gl; [|reflexivity]. cbn [with_q with_wake with_tick a_tick]. rewrite Ht. reflexivity. }
  assert (Hs : forall p0 c0, Serve s' p0 c0 = Serve s p0 c0).
  { intros p0 c0. destruct (Pos.eq_dec p0 lv) as [->|Hp]; [|apply Serve_same_level; [unfold s'; gl; reflexivity | apply Htk]].
    unfold Serve. rewrite Htk. unfold rootpending. unfold s' at 1. gl. cbn [with_q with_wake with_tick a_tick]. rewrite Ht. cbn [untodo t_roots t_handed].
    destruct (memb c0 (t_roots t) && negb (memb c0 (t_handed t)) || ticking s lv c0); [reflexivity|].
    unfold s'. gl. unfold drained, base. cbn [with_q with_wake with_tick a_ints a_wake a_q]. rewrite Hq.
    destruct (Pos.eq_dec c0 c) as [->|Hc].
    - rewrite (msgs_of_first c (AOut ca) q1 q2 Hn).
      change (dr (negb (lv =? top)%positive) (AOut ca :: msgs_of c (q1 ++ q2)) ((if (lv =? top)%positive then false else memb c (a_ints (getl s lv))), lookup c (a_wake (getl s lv))))
        with (dr (negb (lv =? top)%positive) (msgs_of c (q1 ++ q2)) (dr1 (negb (lv =? top)%positive) ((if (lv =? top)%positive then false else memb c (a_ints (getl s lv))), lookup c (a_wake (getl s lv))) (AOut ca))).
      destruct ca as [v|]; cbn [dr1 out_wake fst snd]; [|reflexivity]. rewrite lookup_upd_same.
      destruct (lv =? top)%positive; reflexivity.
    - rewrite (msgs_of_other c c0 (AOut ca) q1 q2 Hc). destruct ca as [v|]; cbn [out_wake]; [rewrite lookup_upd_other by exact Hc|]; reflexivity. }
  constructor.
  - intros p0 x0 l0 Hc0 Hidle. assert (Hl0 : l0 <> lv).
    { intros ->. unfold s' in Hidle. gl_in Hidle. cbn [with_q with_wake with_tick a_tick] in Hidle. discriminate. }
    unfold s' in Hidle. gl_in Hidle. rewrite Hs. replace (Urg s' l0) with (Urg s l0) by (symmetry; apply Urg_congr; unfold s'; gl; reflexivity).
    apply (al_link _ IH p0 x0 l0 Hc0 Hidle).
  - intros l d Hi Hk. rewrite Hs. apply (al_owed _ IH l d Hi Hk).
Qed.

Lemma rootpending_done s lv t c0 : AS s -> a_tick (getl s lv) = Some t -> t_todo t = [] -> rootpending s lv c0 = false.
Proof.
  intros HS Ht Htodo. unfold rootpending. rewrite Ht. destruct (memb c0 (t_roots t)) eqn:Er; [|reflexivity].
  destruct (memb c0 (t_handed t)) eqn:Eh; [reflexivity|]. exfalso. apply memb_In in Er. apply memb_false in Eh.
  pose proof (as_roots _ HS lv t c0 Ht Er Eh) as Hi. rewrite Htodo in Hi. destruct Hi.
Qed.

Lemma AL_done s p x lv t : child cfg p x lv -> a_tick (getl s lv) = Some t -> t_todo t = [] -> AS s -> AL s ->
  let s1 := setl s lv (with_tick (getl s lv) None) in
  AL (setl s1 p (q_push (getl s1 p) x (AOut (done_ca (getl s lv) (t_time t))))).
Proof.
  intros Hch Ht Htodo HS IH s1. set (ca := done_ca (getl s lv) (t_time t)). set (s' := setl s1 p (q_push (getl s1 p) x (AOut ca))).
  assert (Hlp : lv <> p) by (intros ->; exact (Hself _ _ Hch)).
  assert (G : forall l, getl s' l = if Pos.eqb l p then q_push (getl s p) x (AOut ca) else if Pos.eqb l lv then with_tick (getl s lv) None else getl s l).
  { intros l. unfold s'. destruct (Pos.eqb_spec l p) as [->|Hl]; gl; [unfold s1; gl; reflexivity|].
    unfold s1. destruct (Pos.eqb_spec l lv) as [->|Hl2]; gl; reflexivity. }
  assert (Gt : forall l, l <> lv -> a_tick (getl s' l) = a_tick (getl s l)).
  { intros l Hl. rewrite G. destruct (Pos.eqb_spec l p) as [->|_]; [reflexivity|]. destruct (Pos.eqb_spec l lv) as [E|_]; [contradiction | reflexivity]. }
  assert (Htk : forall p0 c0, (p0, c0) <> (p, x) -> ticking s' p0 c0 = ticking s p0 c0).
  { intros p0 c0 Hne. apply ticking_congr. intros l0 Hc0. apply Gt. intros ->. destruct (Hown _ _ _ _ _ Hc0 Hch) as [-> ->]. apply Hne. reflexivity. }
  destruct (as_par _ HS p x lv t Hch Ht) as [tp [Atp [Bx [Cx Dx]]]].
  assert (Hs : forall p0 c0, (p0, c0) <> (p, x) -> Serve s' p0 c0 = Serve s p0 c0).
  { intros p0 c0 Hne. destruct (Pos.eq_dec p0 lv) as [->|Hp0].
    - unfold Serve. rewrite (Htk lv c0 Hne), (rootpending_done s lv t c0 HS Ht Htodo). unfold rootpending. rewrite G.
      destruct (Pos.eqb_spec lv p) as [E|_]; [contradiction|]. rewrite Pos.eqb_refl. cbn [with_tick a_tick orb].
      destruct (ticking s lv c0); [reflexivity|]. apply drained_congr; reflexivity.
    - destruct (Pos.eq_dec p0 p) as [->|Hp0p].
      + assert (Hc : c0 <> x) by (intros ->; apply Hne; reflexivity).
        unfold Serve. rewrite (Htk p c0 Hne). unfold rootpending. rewrite G, Pos.eqb_refl. cbn [q_push with_q a_tick].
        destruct ((match a_tick (getl s p) with Some t0 => memb c0 (t_roots t0) && negb (memb c0 (t_handed t0)) | None => false end) || ticking s p c0); [reflexivity|].
        apply drained_push_other. intros E. apply Hc. symmetry. exact E.
      + apply Serve_same_level; [|apply Htk; exact Hne]. rewrite G. destruct (Pos.eqb_spec p0 p) as [E|_]; [contradiction|].
        destruct (Pos.eqb_spec p0 lv) as [E|_]; [contradiction | reflexivity]. }
  assert (Hu : forall l, Urg s' l = Urg s l).
  { intros l. apply Urg_congr; rewrite G; (destruct (Pos.eqb_spec l p) as [->|_]; [reflexivity|]); (destruct (Pos.eqb_spec l lv) as [->|_]; reflexivity). }
  constructor.
  - intros p0 x0 l0 Hc0 Hidle. rewrite Hu. destruct (Pos.eq_dec l0 lv) as [->|Hl0].
    + destruct (Hown _ _ _ _ _ Hc0 Hch) as [-> ->].
      (* the system simulation whose tick has just ended: its answer is the last message in flight *)
      assert (Hrp : rootpending s' p x = false).
      { unfold rootpending. rewrite G, Pos.eqb_refl. cbn [q_push with_q a_tick]. rewrite Atp. replace (memb x (t_handed tp)) with true by (symmetry; apply memb_In; exact Bx).
        cbn [negb]. apply andb_false_r. }
      assert (Htx : ticking s' p x = false).
      { rewrite (ticking_child s' p x lv Hch), G. destruct (Pos.eqb_spec lv p) as [E|_]; [contradiction|]. rewrite Pos.eqb_refl. reflexivity. }
      unfold Serve. rewrite Hrp, Htx. cbn [orb]. rewrite G, Pos.eqb_refl.
      unfold drained, q_push. cbn [with_q a_q a_ints a_wake]. rewrite msgs_of_push, Pos.eqb_refl, dr_app.
      set (b := dr (negb (p =? top)%positive) (msgs_of x (a_q (getl s p))) (base (getl s p) p x)).
      change (base (with_q (getl s p) (a_q (getl s p) ++ [(x, AOut ca)])) p x) with (base (getl s p) p x). fold b.
      cbn [dr fold_left]. unfold Urg, ca, done_ca. destruct (a_ints (getl s lv)) as [|i0 ir] eqn:Ei.
      * destruct (min_wake (a_wake (getl s lv))) as [m|]; cbn [dr1 ez_of]; [|apply sat_never].
        left. unfold res. cbn [fst snd]. destruct (if negb (p =? top)%positive then fst b else false); [exact I | cbn; lia].
      * cbn [dr1]. right. pose proof (as_time _ HS lv t Ht) as Hti. unfold res. cbn [fst snd].
        destruct (if negb (p =? top)%positive then fst b else false); [exact I | cbn; exact Hti].
    + assert (Hid : a_tick (getl s l0) = None) by (rewrite <- (Gt l0 Hl0); exact Hidle).
      rewrite Hs; [apply (al_link _ IH p0 x0 l0 Hc0 Hid)|]. intros E. inversion E; subst. apply Hl0. apply (child_fun _ _ _ _ Hc0 Hch).
  - intros l d Hi Hk. rewrite Hs; [apply (al_owed _ IH l d Hi Hk)|]. intros E. inversion E; subst. unfold child in Hch. rewrite Hch in Hk. discriminate.
Qed.

Lemma AL_mdone s t : a_tick (getl s top) = Some t -> t_todo t = [] -> AS s -> AL s -> AL (setl s top (with_tick (getl s top) None)).
Proof.
  intros Ht Htodo HS IH. set (s' := setl s top (with_tick (getl s top) None)).
  assert (Gt : forall l, l <> top -> getl s' l = getl s l) by (intros l Hl; unfold s'; gl; reflexivity).
  assert (Htk : forall p0 c0, ticking s' p0 c0 = ticking s p0 c0).
  { intros p0 c0. apply ticking_congr. intros l0 Hc0. rewrite Gt; [reflexivity|]. intros ->. exact (Htop _ _ Hc0). }
  assert (Hs : forall p0 c0, Serve s' p0 c0 = Serve s p0 c0).
  { intros p0 c0. destruct (Pos.eq_dec p0 top) as [->|Hp]; [|apply Serve_same_level; [apply Gt; exact Hp | apply Htk]].
    unfold Serve. rewrite Htk, (rootpending_done s top t c0 HS Ht Htodo). unfold rootpending, s'. gl. cbn [with_tick a_tick orb].
    destruct (ticking s top c0); [reflexivity|]. apply drained_congr; reflexivity. }
  constructor.
  - intros p0 x0 l0 Hc0 Hidle. assert (Hl0 : l0 <> top) by (intros ->; exact (Htop _ _ Hc0)). rewrite (Gt l0 Hl0) in Hidle.
    rewrite Hs. replace (Urg s' l0) with (Urg s l0) by (symmetry; apply Urg_congr; rewrite (Gt l0 Hl0); reflexivity).
    apply (al_link _ IH p0 x0 l0 Hc0 Hidle).
  - intros l d Hi Hk. rewrite Hs. apply (al_owed _ IH l d Hi Hk).
Qed.

Theorem AL_step s s' : AS s -> AL s -> AStep cfg s s' -> AL s'.
Proof.
  intros HS IH H.
  destruct H as [s lv d Hd | s q1 q2 c w Hq Hn | s p x lv q1 q2 c Hch Hlp Hlt Hq Hn | s when roots todo Hn Hincl
                | s lv t c ca Ht Hc Hnh Hsys | s p t x lv roots' todo' Ht Hx Hnh Hch Hlp Hlt Hidle Hi1 Hi2
                | s lv t c Ht Hc Hnh Hnr | s lv t q1 q2 c ca Ht Hq Hn Hc | s p x lv t Hch Hlp Hlt Ht Htodo | s t Ht Htodo].
  - apply AL_raise; assumption.
  - apply AL_int_top; assumption.
  - apply AL_int_nested; assumption.
  - apply AL_mtick; assumption.
  - apply AL_in_dev; assumption.
  - apply AL_in_sys; assumption.
  - apply AL_skip; assumption.
  - apply AL_out; assumption.
  - apply AL_done; assumption.
  - eapply AL_mdone; eassumption.
Qed.

Theorem reach_inv s : AReach cfg s -> AS s /\ AL s.
Proof.
  induction 1 as [|s s' HR [HS HL] Hst]; [split; [apply AS_init | apply AL_init]|].
  split; [apply (AS_step s s' HS Hst) | apply (AL_step s s' HS HL Hst)].
Qed.

(* ---------- what the invariant says when nothing is running and nothing is in flight *)
(* component c of level p is queued in p's interrupts, or has a wakeup there no later than hi *)
Definition served_now (s : astate) (p : positive) (c : comp) : Prop :=
  (p <> top /\ In c (a_ints (getl s p))) \/ exists v, lookup c (a_wake (getl s p)) = Some v /\ v <= a_hi s.
(* level lv has an interrupt pending, or a wakeup no later than hi *)
Definition urgent (s : astate) (lv : positive) : Prop := sat (a_hi s) (Urg s lv) Now.

Lemma quiescent_serve s p c : quiescent s -> (forall lv, child cfg p c lv -> True) ->
  Serve s p c = res (base (getl s p) p c).
Proof.
  intros Hq _. destruct (Hq p) as [Ht Hqp]. unfold Serve, rootpending. rewrite Ht. cbn [orb].
  replace (ticking s p c) with false.
  2: { unfold ticking. destruct (lookup c (l_order (level_of cfg p))) as [[|lv]|]; try reflexivity. destruct (Hq lv) as [E _]. rewrite E. reflexivity. }
  unfold drained. rewrite Hqp. reflexivity.
Qed.

Lemma sat_now_served s p c : quiescent s -> sat (a_hi s) (Serve s p c) Now -> served_now s p c.
Proof.
  intros Hq H. rewrite (quiescent_serve s p c Hq (fun _ _ => I)) in H. unfold res, base in H. cbn [fst snd] in H.
  destruct (Pos.eqb_spec p top) as [->|Hp].
  - right. destruct (lookup c (a_wake (getl s top))) as [v|]; [|destruct H as [[]|[]]]. exists v. split; [reflexivity|].
    destruct H as [H|H]; cbn in H; [destruct H | exact H].
  - destruct (memb c (a_ints (getl s p))) eqn:Em; [left; split; [exact Hp | apply memb_In; exact Em]|].
    right. destruct (lookup c (a_wake (getl s p))) as [v|]; [|destruct H as [[]|[]]]. exists v. split; [reflexivity|].
    destruct H as [H|H]; cbn in H; [destruct H | exact H].
Qed.

Lemma served_urgent s p c : p <> top -> served_now s p c -> urgent s p.
Proof.
  intros Hp [[_ Hi]|[v [Hl Hv]]]; unfold urgent, Urg.
  - destruct (a_ints (getl s p)); [destruct Hi | apply sat_now].
  - destruct (a_ints (getl s p)); [|apply sat_now]. right.
    pose proof (min_wake_spec (a_wake (getl s p))) as Hm. destruct (min_wake (a_wake (getl s p))) as [m|].
    + destruct Hm as [_ Hall]. pose proof (Hall (c, v) (lookup_In _ _ _ Hl)) as Hle. cbn in *. lia.
    + rewrite Hm in Hl. discriminate.
Qed.

(* level lv is alerted all the way up: every system simulation around it is queued in the scheduler around it or has a
   wakeup there no later than hi -- at the master: a wakeup no later than hi *)
Inductive Chain (s : astate) : positive -> Prop :=
| Ch_top : Chain s top
| Ch_up p x lv : child cfg p x lv -> served_now s p x -> Chain s p -> Chain s lv.

(* lv hangs below the top level *)
Inductive Anc : positive -> Prop :=
| An_top : Anc top
| An_up p x lv : child cfg p x lv -> Anc p -> Anc lv.

Theorem alert_chain s : AL s -> quiescent s -> forall lv, Anc lv -> (lv <> top -> urgent s lv) -> Chain s lv.
Proof.
  intros HL Hq.
  induction 1 as [|p x lv Hch Hanc IH]; intros Hu; [constructor|].
  assert (Hlv : lv <> top) by (intros ->; exact (Htop _ _ Hch)).
  destruct (Hq lv) as [Hidle _].
  pose proof (al_link _ HL p x lv Hch Hidle) as HLk.
  pose proof (sat_now_served s p x Hq (sat_trans_now _ _ _ HLk (Hu Hlv))) as Hsv.
  apply (Ch_up s p x lv Hch Hsv). apply IH. intros Hp. apply (served_urgent s p x Hp Hsv).
Qed.

(* NO INTERRUPT IS LOST: in any reachable state in which nothing is running and nothing is in flight, a device that has
   raised an interrupt -- at whatever moment -- and has not been updated since is queued in its scheduler (at the top
   level: has a wakeup no later than hi), and so is every system simulation around it, up to a wakeup at the master no
   later than hi, the latest simulation time the master has used: the master does not sleep past it *)
Theorem alert_never_lost s : AL s -> quiescent s ->
  forall lv d, In (lv, d) (a_owed s) -> lookup d (l_order (level_of cfg lv)) = Some KDev -> Anc lv ->
  served_now s lv d /\ Chain s lv.
Proof.
  intros HL Hq lv d Hi Hk Hanc.
  pose proof (sat_now_served s lv d Hq (al_owed _ HL lv d Hi Hk)) as Hsv.
  split; [exact Hsv|]. apply (alert_chain s HL Hq lv Hanc). intros Hlv. apply (served_urgent s lv d Hlv Hsv).
Qed.

(* ... in particular the outermost system simulation around it (or the device itself, at the top level) has a wakeup at
   the master no later than hi *)
Lemma chain_master s lv : Chain s lv -> lv <> top -> exists z v, lookup z (a_wake (getl s top)) = Some v /\ v <= a_hi s.
Proof.
  induction 1 as [|p x lv Hch Hsv HC IH]; intros Hlv; [congruence|].
  destruct (Pos.eq_dec p top) as [->|Hp]; [|apply IH; exact Hp].
  destruct Hsv as [[Hn _]|[v [Hl Hv]]]; [congruence|]. exists x, v. split; assumption.
Qed.

Theorem alert_master_wakeup s : AL s -> quiescent s ->
  forall lv d, In (lv, d) (a_owed s) -> lookup d (l_order (level_of cfg lv)) = Some KDev -> Anc lv ->
  exists z v, lookup z (a_wake (getl s top)) = Some v /\ v <= a_hi s.
Proof.
  intros HL Hq lv d Hi Hk Hanc. destruct (alert_never_lost s HL Hq lv d Hi Hk Hanc) as [Hsv HC].
  destruct (Pos.eq_dec lv top) as [->|Hlv]; [|apply (chain_master s lv HC Hlv)].
  destruct Hsv as [[Hn _]|[v [Hl Hv]]]; [congruence|]. exists d, v. split; assumption.
Qed.

(* ---------- runs from a state that has the invariants: the master about to make its initial tick *)
Inductive AReachFrom (s0 : astate) : astate -> Prop :=
| ARF_refl : AReachFrom s0 s0
| ARF_step s s' : AReachFrom s0 s -> AStep cfg s s' -> AReachFrom s0 s'.

Theorem reach_inv_from s0 s : AS s0 -> AL s0 -> AReachFrom s0 s -> AS s /\ AL s.
Proof.
  intros H1 H2. induction 1 as [|s s' HR [HS HL] Hst]; [split; assumption|].
  split; [apply (AS_step s s' HS Hst) | apply (AL_step s s' HS HL Hst)].
Qed.

(* every top-level component due at the initial time, nothing else *)
Definition a_boot (tops : list comp) (initial : Z) : astate :=
  {| a_lv := [(top, with_wake l_empty (map (fun c : comp => (c, initial)) tops))]; a_hi := initial; a_owed := [] |}.

Lemma getl_boot tops initial l : l <> top -> getl (a_boot tops initial) l = l_empty.
Proof. intros H. unfold getl, a_boot. cbn [a_lv lookup]. destruct (Pos.eqb_spec l top); [contradiction | reflexivity]. Qed.

Lemma boot_inv tops initial : AS (a_boot tops initial) /\ AL (a_boot tops initial).
Proof.
  assert (Ht : forall l, a_tick (getl (a_boot tops initial) l) = None /\ a_q (getl (a_boot tops initial) l) = []).
  { intros l. destruct (Pos.eq_dec l top) as [->|Hl]; [split; reflexivity | rewrite getl_boot by exact Hl; split; reflexivity]. }
  split.
  - constructor.
    + intros p x lv t' _ H. rewrite (proj1 (Ht lv)) in H. discriminate.
    + intros p c ca Hi. rewrite (proj2 (Ht p)) in Hi. destruct Hi.
    + intros p. rewrite (proj2 (Ht p)). constructor.
    + intros p t c H. rewrite (proj1 (Ht p)) in H. discriminate.
    + intros p t H. rewrite (proj1 (Ht p)) in H. discriminate.
  - constructor.
    + intros p x lv Hch _. assert (Hlv : lv <> top) by (intros ->; exact (Htop _ _ Hch)).
      unfold Urg. rewrite getl_boot by exact Hlv. cbn. apply sat_never.
    + intros lv d [].
Qed.

Theorem alert_never_lost_from_boot tops initial s : AReachFrom (a_boot tops initial) s -> quiescent s ->
  forall lv d, In (lv, d) (a_owed s) -> lookup d (l_order (level_of cfg lv)) = Some KDev -> Anc lv ->
  served_now s lv d /\ Chain s lv /\ exists z v, lookup z (a_wake (getl s top)) = Some v /\ v <= a_hi s.
Proof.
  intros HR Hq lv d Hi Hk Hanc. destruct (boot_inv tops initial) as [B1 B2]. destruct (reach_inv_from _ s B1 B2 HR) as [_ HL].
  destruct (alert_never_lost s HL Hq lv d Hi Hk Hanc) as [A B]. split; [exact A|]. split; [exact B|].
  apply (alert_master_wakeup s HL Hq lv d Hi Hk Hanc).
Qed.
End AP.

(* ---------- the shape of the nesting, decided *)
Definition triples (cfg : config) : list (positive * comp * positive) :=
  flat_map (fun p => flat_map (fun xk : comp * ckind => match snd xk with KSys lv => [(p, fst xk, lv)] | KDev => [] end)
                              (l_order (level_of cfg p))) (keys cfg).
Fixpoint nodupb (l : list positive) : bool :=
  match l with [] => true | x :: r => negb (memb x r) && nodupb r end.
Definition tree_okb (cfg : config) : bool :=
  nodupb (map (fun t : positive * comp * positive => snd t) (triples cfg)) &&
  forallb (fun t : positive * comp * positive => negb (Pos.eqb (snd t) top) && negb (Pos.eqb (snd t) (fst (fst t)))) (triples cfg) &&
  nodupb (keys cfg) && forallb (fun p => nodupb (keys (l_order (level_of cfg p)))) (keys cfg).

Lemma nodupb_NoDup l : nodupb l = true -> NoDup l.
Proof.
  induction l as [|x r IH]; intros H; [constructor|]. cbn [nodupb] in H. apply andb_true_iff in H. destruct H as [A B].
  constructor; [apply memb_false; destruct (memb x r); [discriminate | reflexivity] | apply IH; exact B].
Qed.

Lemma child_triple cfg p x lv : child cfg p x lv -> In (p, x, lv) (triples cfg).
Proof.
  unfold child. intros H. assert (Hp : In p (keys cfg)).
  { unfold level_of in H. destruct (lookup p cfg) as [l|] eqn:E; [|discriminate]. apply lookup_In in E. unfold keys. apply in_map_iff. exists (p, l). split; [reflexivity | exact E]. }
  unfold triples. apply in_flat_map. exists p. split; [exact Hp|]. apply in_flat_map. exists (x, KSys lv). split; [apply lookup_In; exact H | left; reflexivity].
Qed.

Lemma NoDup_map_inj {A B} (f : A -> B) (l : list A) a b : NoDup (map f l) -> In a l -> In b l -> f a = f b -> a = b.
Proof.
  induction l as [|x r IH]; intros Hnd Ha Hb E; [destruct Ha|]. cbn [map] in Hnd. inversion Hnd as [|? ? Hn Hr]; subst.
  destruct Ha as [->|Ha], Hb as [->|Hb]; [reflexivity | | |apply IH; assumption].
  - exfalso. apply Hn. rewrite E. apply in_map. exact Hb.
  - exfalso. apply Hn. rewrite <- E. apply in_map. exact Ha.
Qed.

Theorem tree_okb_sound cfg : tree_okb cfg = true ->
  (forall p x lv p' x', child cfg p x lv -> child cfg p' x' lv -> p = p' /\ x = x') /\
  (forall p x, ~ child cfg p x p) /\ (forall p x, ~ child cfg p x top).
Proof.
  unfold tree_okb. intros H. apply andb_true_iff in H. destruct H as [H _]. apply andb_true_iff in H. destruct H as [H _].
  apply andb_true_iff in H. destruct H as [H1 H2]. apply nodupb_NoDup in H1. rewrite forallb_forall in H2.
  split; [|split].
  - intros p x lv p' x' A B. apply child_triple in A. apply child_triple in B.
    pose proof (NoDup_map_inj _ _ _ _ H1 A B eq_refl) as E. inversion E. split; reflexivity.
  - intros p x A. apply child_triple in A. apply H2 in A. cbn [fst snd] in A. apply andb_true_iff in A. destruct A as [_ A].
    rewrite Pos.eqb_refl in A. discriminate.
  - intros p x A. apply child_triple in A. apply H2 in A. cbn [fst snd] in A. apply andb_true_iff in A. destruct A as [A _].
    rewrite Pos.eqb_refl in A. discriminate.
Qed.
