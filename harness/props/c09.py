import sprops

PID = "C09"


def main(tier, seed):
    return sprops.main_pairs(PID, tier, seed, {71, 61, 62, 81}, "Props.C09",
                             ["Model/Sim.v", "Model/SimTime.v", "Model/Inline.v", "Oracle/SimCheck.v", "Oracle/SimOracle.v", "Proofs/SimP.v",
                              "Proofs/FlattenP.v", "Proofs/EqvP.v", "Proofs/WakeWfP.v", "Proofs/InlineP.v", "Proofs/InlineLoopP.v",
                              "Proofs/InlineScopeP.v", "Proofs/NonInterfLoopP.v", "Proofs/SimTimeP.v", "Model/NSim.v", "Proofs/InlineLatestP.v",
                              "Proofs/Confluence2P.v", "Proofs/ScheduleP.v", "Proofs/SimTraceP.v", "Proofs/ParDevP.v", "Proofs/EqvCongP.v", "Proofs/AgreeP.v", "Proofs/FrameP.v", "Proofs/FuelP.v", "Proofs/InlineAllP.v", "Oracle/ScopeCheck.v", "Props/C09.v"],
                             "transparency of system simulations", "flatten")


replay = sprops.replay_pair
