"""Shared driver of the whole-simulation (level S, internal bus, virtual time) checks."""
import itertools
import json
import random

import slevel
from common import VERIF, Check, run_shards

HEADER = ("From TV Require Import Base Model.Wiring Model.Ticker Model.Component Model.Sim "
          "Oracle.SimCheck Oracle.SimOracle.")
EXT, EXP = slevel.EXT, slevel.EXP

REASONS = {
    51: "device-observation-sequence-differs-from-model", 52: "model-updates-a-device-the-implementation-did-not",
    53: "tick-sequence-of-a-scheduler-differs-from-model", 54: "master-tick-real-times-differ-from-model",
    55: "simulation-time-abstraction-differs-from-master-model",
    61: "device-not-updated-exactly-once-in-initial-tick", 62: "later-tick-before-initial-tick-completed",
    81: "device-input-is-not-the-latest-upstream-value", 65: "callback-not-honoured", 66: "tick-time-invented",
    67: "device-updated-without-a-cause",
    96: "tick-started-earlier-than-pacing-allows", 46: "tick-times-of-a-scheduler-decrease",
    71: "nested-and-flattened-configuration-observe-differently", 73: "harness-flattening-differs-from-coq-flatten",
    74: "inlined-system-differs-from-coq-flatten",
    23: "schedule-explicit-model-differs-from-master-model",
    97: "simulation-time-is-not-initial-plus-speed-times-real-time",
    91: "disconnected-part-changes-observations",
    99: "simulation-stalled-or-raised",
}
CORR = {51, 52, 53, 54, 55, 73, 74, 23}


# ------------------------------------------------------------------ flattening (mirror of Oracle/SimOracle.v)
def parent_of(cfg, lv):
    for plv, l in cfg.items():
        for (c, k) in l["order"]:
            if k == lv:
                return plv, c
    return None


def conn_into(conns, c, q):
    for (u, p, ic, ip) in conns:
        if ic == c and ip == q:
            return (u, p)
    return None


def resolve(cfg, lv, u, p, fuel=40):
    if fuel == 0:
        return None
    if u == EXT:
        par = parent_of(cfg, lv)
        if par is None:
            return None
        plv, sc = par
        s = conn_into(cfg[plv]["conns"], sc, p)
        return resolve(cfg, plv, s[0], s[1], fuel - 1) if s else None
    kind = dict(cfg[lv]["order"]).get(u)
    if kind == "dev":
        return (u, p)
    if kind is None:
        return None
    s = conn_into(cfg[kind]["conns"], EXP, p)
    return resolve(cfg, kind, s[0], s[1], fuel - 1) if s else None


def flat_order(cfg, lv=1):
    out = []
    for (c, k) in cfg[lv]["order"]:
        out += [c] if k == "dev" else flat_order(cfg, k)
    return out


def flatten(cfg):
    conns = []
    for lv in sorted(cfg):
        l = cfg[lv]
        kinds = dict(l["order"])
        for (u, p, c, q) in l["conns"]:
            if kinds.get(c) == "dev":
                s = resolve(cfg, lv, u, p)
                if s:
                    conns.append((s[0], s[1], c, q))
    return {1: dict(order=[(c, "dev") for c in flat_order(cfg)], conns=conns)}


# ------------------------------------------------------------------ case generation
T_END = 2_950_000_003


def small_nestings():
    """exhaustive small scope for C05/C09: a top-level source device, one system with <= 2 inner devices,
    each inner device fed from external / from the other inner device / not at all, with or without an
    exposed port (from an inner device or straight from external), optionally a top-level sink; plus
    a system inside a system."""
    out = []
    for feed3 in ("ext", "none"):
        for feed4 in ("ext", "inner", "none", None):
            for expo in ("inner", "ext", "none"):
                for sink in (True, False):
                    inner_order = [(5, "dev")] + ([(6, "dev")] if feed4 is not None else [])
                    ic = []
                    if feed3 == "ext":
                        ic.append((EXT, 1, 5, 1))
                    if feed4 == "ext":
                        ic.append((EXT, 1, 6, 1))
                    elif feed4 == "inner":
                        ic.append((5, 1, 6, 1))
                    if expo == "inner":
                        ic.append((inner_order[-1][0], 1, EXP, 1))
                    elif expo == "ext":
                        ic.append((EXT, 1, EXP, 1))
                    top_order = [(3, "dev"), (4, 2)] + ([(7, "dev")] if sink else [])
                    tc = [(3, 1, 4, 1)]
                    if sink and expo != "none":
                        tc.append((4, 1, 7, 1))
                    out.append({1: dict(order=top_order, conns=tc), 2: dict(order=inner_order, conns=ic)})
    # system without any input, sibling systems, system in system
    out.append({1: dict(order=[(3, 2), (6, "dev")], conns=[(3, 1, 6, 1)]),
                2: dict(order=[(4, "dev"), (5, "dev")], conns=[(4, 1, 5, 1), (5, 2, EXP, 1)])})
    out.append({1: dict(order=[(3, "dev"), (4, 2), (7, 3), (10, "dev")], conns=[(3, 1, 4, 1), (3, 2, 7, 1), (4, 1, 10, 1), (7, 1, 10, 2)]),
                2: dict(order=[(5, "dev"), (6, "dev")], conns=[(EXT, 1, 5, 1), (6, 1, EXP, 1)]),
                3: dict(order=[(8, "dev"), (9, "dev")], conns=[(EXT, 1, 8, 1), (8, 1, 9, 1), (9, 2, EXP, 1)])})
    out.append({1: dict(order=[(3, "dev"), (4, 2), (9, "dev")], conns=[(3, 1, 4, 1), (4, 1, 9, 1)]),
                2: dict(order=[(5, "dev"), (6, 3)], conns=[(EXT, 1, 5, 1), (5, 1, 6, 1), (6, 1, EXP, 1)]),
                3: dict(order=[(7, "dev"), (8, "dev")], conns=[(EXT, 1, 7, 1), (8, 2, EXP, 1)])})
    out.append({1: dict(order=[(3, 2)], conns=[]),
                2: dict(order=[(4, 3)], conns=[(4, 1, EXP, 1)]),
                3: dict(order=[(5, 4)], conns=[(5, 1, EXP, 1)]),
                4: dict(order=[(6, "dev"), (7, "dev")], conns=[(6, 1, EXP, 1)])})
    return out


def gen_stim(rng, cfg, devs, kmax=3, allowed=None):
    dl = [d for d in slevel.devices_of(cfg) if allowed is None or devs[d][2] in allowed]
    if not dl:
        return []
    return sorted((rng.randrange(50, 2900) * 1_000_000 + 137 * (k + 1), rng.choice(dl)) for k in range(rng.randint(0, kmax)))


def run_case(cfg, devs, speed, initial, stim, t_end=T_END, naming=None):
    r = slevel.run_internal(cfg, devs, speed, initial, stim, t_end, naming=naming)
    term = slevel.render_sim_case(cfg, devs, speed, initial, stim, t_end, r)
    return r, term


def load_corpus():
    import glob
    out = []
    for f in sorted(glob.glob(str(VERIF / "corpus" / "*" / "*.json"))):
        rp = json.load(open(f))
        if rp.get("kind") != "single":
            continue
        cfg = {int(k): dict(order=[(c, (k2 if k2 == "dev" else int(k2))) for c, k2 in v["order"]],
                            conns=[tuple(x) for x in v["conns"]]) for k, v in rp["cfg"].items()}
        out.append(dict(cfg=cfg, devs={int(k): tuple(v) for k, v in rp["devs"].items()}, speed=tuple(rp["speed"]),
                        initial=rp["initial"], stim=[tuple(x) for x in rp["stim"]]))
    return out


def gen_single_cases(tier, rng, emphasis):
    """returns list of dict(cfg, devs, speed, initial, stim)"""
    cases = load_corpus()
    n_ex = 0
    if emphasis in ("initial", "nested"):
        for cfg in small_nestings():
            for pol in ((0,), (0, 1, 2)):
                devs = slevel.gen_devs(rng, cfg, pol)
                cases.append(dict(cfg=cfg, devs=devs, speed=(1, 1), initial=rng.choice([0, 0, 1_000_000, -5_000_000_000, -1]), stim=[]))
                n_ex += 1
    nrand = {"quick": 90, "thorough": 1500}[tier]
    for _ in range(nrand):
        depth = rng.choice([0, 1, 1, 2, 3]) if emphasis in ("initial", "nested") else rng.choice([0, 0, 1, 2])
        cfg = slevel.gen_config(rng, depth=depth)
        # callbacks: also devices that ask to be re-evaluated at once (a callback at the time of the update itself)
        devs = slevel.gen_devs(rng, cfg, (0, 0, 1, 2, 3, 4, 5)) if emphasis == "callbacks" else slevel.gen_devs(rng, cfg)
        speed = rng.choice([(1, 1), (1, 1), (2, 1), (1, 2)])
        stim = gen_stim(rng, cfg, devs)
        # callbacks: also negative initial times, so that callback chains pass through (and fall due at) simulation time 0
        initials = [0, 0, 2_000_000, -3_000_000_000, -700_000_000, -1_000_000_000] if emphasis == "callbacks" else [0, 0, 2_000_000, -2_000_000_000]
        cases.append(dict(cfg=cfg, devs=devs, speed=speed, initial=rng.choice(initials), stim=stim))
    return cases, n_ex


def describe(case):
    d = dict(cfg={str(k): v for k, v in case["cfg"].items()}, devs={str(k): v for k, v in case["devs"].items()},
             speed=case["speed"], initial=case["initial"], stim=case["stim"])
    if case.get("naming"):
        d["naming"] = case["naming"]
    return d


def nontrivial(case, run):
    return len(run["ticklog"]) >= 3 and len(slevel.devices_of(case["cfg"])) >= 2


def report_codes(ck, pid, what, bad, cases, runs, prop_codes, extra=None):
    done = set()
    for i in sorted(bad):
        for code in bad[i]:
            if code in prop_codes and code not in done:
                done.add(code)
                d = describe(cases[i])
                d.update(codes=bad[i], observed={str(k): v for k, v in runs[i]["per"].items()}, error=runs[i]["error"],
                         errors=runs[i]["errors"][:3], kind="single")
                if extra:
                    d.update(extra(i))
                ck.report(REASONS[code], f"{what}: {REASONS[code]}", d)
    if not done:
        corr = sorted({c for codes in bad.values() for c in codes if c not in prop_codes})
        if corr:
            i = min(bad)
            d = describe(cases[i])
            d.update(codes=bad[i], kind="single", broken=f"correspondence Model/Sim.v vs the schedulers/components; theorems of Props.{pid}")
            ck.report("correspondence-broken", f"simulation model and implementation disagree ({[REASONS.get(c, c) for c in corr]}) "
                      f"but no history violating {pid} was found in the explored families", d, no_input=True)


def main_S(pid, tier, seed, prop_codes, prop_mod, serving_files, what, emphasis, extra=None):
    ck = Check(pid, tier, seed, prop_mod, serving_files)
    ck.build_and_audit()
    rng = random.Random(seed)
    cases, n_ex = gen_single_cases(tier, rng, emphasis)
    runs, terms = [], []
    for i, c in enumerate(cases):
        if i % 5 == 4:
            c["naming"] = "short"      # component names of one to three letters, parts of one another and of "external" / "expose"
        r, term = run_case(c["cfg"], c["devs"], c["speed"], c["initial"], c["stim"], naming=c.get("naming"))
        runs.append(r)
        terms.append(term)
    bad = run_shards(pid, HEADER, "sim_case", "check_sim_all", terms, shard_size=12)
    for i, (c, r) in enumerate(zip(cases, runs)):
        ck.count(json.dumps(describe(c), sort_keys=True), nontrivial(c, r))
        if r["error"]:
            bad.setdefault(i, []).append(99)
    ck.rule = ("whole simulations on the real MasterScheduler/NestedScheduler/SystemComponent/DeviceComponent over the internal bus on a "
               "virtual-time event loop, table-driven devices (change/repeat/omit ports; callback policies none/periodic/one-shot/"
               "mixed/alternating), interrupts at random real instants between ticks, speeds 1/2, 1, 2: "
               f"{n_ex} enumerated small nestings (inner devices fed from external / each other / not at all, exposed from device / "
               "pass-through / none, sibling systems, system in system to depth 3) plus seeded random nested configurations; "
               "non-trivial = >= 2 devices and >= 3 ticks")
    ck.coverage.update(enumerated_nestings=n_ex, disagreements=len(bad),
                       depths={str(d): sum(1 for c in cases if slevel.depth_of(c["cfg"]) == d) for d in range(1, 6)},
                       with_interrupts=sum(1 for c in cases if c["stim"]),
                       simtime_abstraction_cases=sum(1 for c in cases if tuple(c["speed"]) == (1, 1) and not c["stim"]),
                       ticks_total=sum(len(r["ticklog"]) for r in runs))
    ck.sample(dict(case=describe(cases[-1]), ticklog=runs[-1]["ticklog"][:6]))
    report_codes(ck, pid, what, bad, cases, runs, prop_codes | {99})
    if extra is not None:
        extra(ck, tier, rng)
    return ck.finish()


def replay_S(rp):
    cfg = {int(k): dict(order=[(c, (k2 if k2 == "dev" else int(k2))) for c, k2 in v["order"]],
                        conns=[tuple(x) for x in v["conns"]]) for k, v in rp["cfg"].items()}
    devs = {int(k): tuple(v) for k, v in rp["devs"].items()}
    stim = [tuple(s) for s in rp["stim"]]
    r, term = run_case(cfg, devs, tuple(rp["speed"]), rp["initial"], stim, naming=rp.get("naming"))
    bad = run_shards("replay", HEADER, "sim_case", "check_sim_all", [term])
    print("config:", cfg)
    print("observed:", r["per"], r["error"], r["errors"][:2])
    print("codes:", bad.get(0, []), [REASONS.get(c) for c in bad.get(0, [])])
    return 1 if (bad or r["error"]) else 0


# ------------------------------------------------------------------ pairs (C09, C10)
def main_pairs(pid, tier, seed, prop_codes, prop_mod, serving_files, what, mode, extra_part=None):
    ck = Check(pid, tier, seed, prop_mod, serving_files)
    ck.build_and_audit()
    rng = random.Random(seed)
    pairs = []
    if mode == "flatten":
        base = [dict(cfg=c, devs=slevel.gen_devs(rng, c, (0, 1, 4)), speed=(1, 1), initial=0, stim=[]) for c in small_nestings()]
        base += [dict(cfg=c, devs=slevel.gen_devs(rng, c, (0, 5, 5, 1)), speed=(1, 1), initial=0, stim=[]) for c in small_nestings()[::3]]
        base += [c for c in load_corpus() if slevel.depth_of(c["cfg"]) > 1]
        for _ in range({"quick": 60, "thorough": 1000}[tier]):
            cfg = slevel.gen_config(rng, depth=rng.choice([1, 1, 2, 3]), p_sys=0.5)
            if slevel.depth_of(cfg) < 2:
                continue
            devs = slevel.gen_devs(rng, cfg, (0, 0, 1, 2, 3, 4, 5))
            base.append(dict(cfg=cfg, devs=devs, speed=rng.choice([(1, 1), (2, 1), (1, 2)]), initial=0,
                             stim=gen_stim(rng, cfg, devs, allowed=(0, 1, 4))))
        for b in base:
            f = dict(b)
            f["cfg"] = flatten(b["cfg"])
            pairs.append((b, f))
        check_fn = "check_flat_pair"
    else:
        for _ in range({"quick": 70, "thorough": 1000}[tier]):
            cfg = slevel.gen_config(rng, depth=rng.choice([0, 0, 1, 2]))
            devs = slevel.gen_devs(rng, cfg)
            stim = gen_stim(rng, cfg, devs)
            # integer speeds only: with a fractional ns conversion the whole-ns rounding of an interrupt stamp
            # depends on the real time of the previous tick, which an unrelated part legitimately moves
            # ... started at time 0, after a day, with the wall clock (ns since 1970) as the initial time, or before time 0 (callback
            # chains then fall due at simulation time 0 exactly)
            b = dict(cfg=cfg, devs=devs, speed=rng.choice([(1, 1), (2, 1)]), stim=stim,
                     initial=rng.choice([0, 0, 0, 86_400_000_000_000, 1_700_000_000_000_000_000, -600_000_000, -1_000_000_000, -2_100_000_000]))
            pairs.append((b, extend(rng, b)))
        check_fn = "check_ext_pair"
    runs, terms = [], []
    for (a, b) in pairs:
        ra, ta = run_case(a["cfg"], a["devs"], a["speed"], a["initial"], a["stim"])
        rb, tb = run_case(b["cfg"], b["devs"], b["speed"], b["initial"], b["stim"])
        runs.append((ra, rb))
        terms.append("(" + ta + ", " + tb + ")")
    bad = run_shards(pid, HEADER, "pair_case", check_fn, terms, shard_size=6)
    for i, ((a, b), (ra, rb)) in enumerate(zip(pairs, runs)):
        ck.count(json.dumps([describe(a), describe(b)], sort_keys=True), nontrivial(a, ra))
        if ra["error"] or rb["error"]:
            bad.setdefault(i, []).append(99)
    ck.evaluations *= 2
    ck.rule = ("pairs of whole simulations on the real schedulers/components (internal bus, virtual time, table-driven devices): "
               + ("each nested configuration (enumerated small nestings, corpus, seeded random to depth 3) and its mechanical flattening "
                  "(Coq [flatten], mirrored by the harness and compared), same devices, callbacks and interrupts (on devices that "
                  "re-request every update or never request)" if mode == "flatten" else
                  "each configuration and the same configuration extended by a disconnected part (devices with their own callbacks, "
                  "a sibling system simulation, a nested system), interrupts on both")
               + "; per-device (time, inputs) sequences compared inside Coq; non-trivial = >= 2 devices and >= 3 ticks")
    ck.coverage.update(pairs=len(pairs), disagreements=len(bad))
    if mode == "flatten":
        # how many of the nested configurations lie in the scope of the whole-run inlining theorem (decided in Coq)
        scope = run_shards(pid + "_scope", HEADER, "pair_case", "in_inline_scope", terms, shard_size=12)
        ck.coverage["pairs_in_scope_of_inline_theorem"] = len(scope)
        scope2 = run_shards(pid + "_scope2", HEADER + "\nFrom TV Require Import Oracle.ScopeCheck.", "pair_case", "in_inline_scope_general",
                            terms, shard_size=12)
        ck.coverage["pairs_in_scope_of_inline_theorem_with_sibling_systems"] = len(scope2)
        # the any-depth theorem (C09_flatten_any_depth): the whole nesting is flattened by inlining one top-level
        # system after the other; inside its scope the iterated inlining must be the flattening the flat run used (74)
        hdr2 = HEADER + "\nFrom TV Require Import Oracle.ScopeCheck."
        for key, fn in (("pairs_in_scope_of_flatten_any_depth_theorem", "in_flatten_all_scope"),
                        ("pairs_of_depth_2_or_more_in_that_scope", "in_flatten_all_scope_deep"),
                        ("pairs_with_interrupts_in_scope_of_its_script_form", "in_flatten_all_scope_stim")):
            ck.coverage[key] = len(run_shards(pid + "_" + fn, hdr2, "pair_case", fn, terms, shard_size=12))
        for i, codes in run_shards(pid + "_flat_all", hdr2, "pair_case", "check_inline_all_is_flatten", terms, shard_size=12).items():
            bad.setdefault(i, []).extend(codes)
    ck.sample(dict(first=describe(pairs[-1][0]), second=describe(pairs[-1][1])))
    cases = [p[0] for p in pairs]
    report_codes(ck, pid, what, bad, cases, [r[0] for r in runs], prop_codes | {99},
                 extra=lambda i: dict(kind="pair", mode=mode, second=describe(pairs[i][1]),
                                      observed_second={str(k): v for k, v in runs[i][1]["per"].items()},
                                      error_second=runs[i][1]["error"]))
    if extra_part:
        extra_part(ck, tier, rng)
    return ck.finish()


def extend(rng, b):
    """the same configuration plus a disconnected part at top level"""
    cfg = {k: dict(order=list(v["order"]), conns=list(v["conns"])) for k, v in b["cfg"].items()}
    devs = dict(b["devs"])
    kind = rng.choice(["devices", "devices", "system", "nested"])
    base_id = 100
    lv_id = max(cfg) + 1
    seed = next(iter(devs.values()))[0] if devs else 1
    if kind == "devices":
        n = rng.randint(1, 3)
        for i in range(n):
            c = base_id + i
            cfg[1]["order"].append((c, "dev"))
            if i > 0 and rng.random() < 0.7:
                cfg[1]["conns"].append((c - 1, 1, c, 1))
            devs[c] = (seed, rng.choice([200_000_000, 500_000_000]), rng.choice([0, 1, 1, 3]))
    else:
        inner = dict(order=[(base_id + 1, "dev"), (base_id + 2, "dev")], conns=[(base_id + 1, 1, base_id + 2, 1), (base_id + 2, 1, EXP, 1)])
        devs[base_id + 1] = (seed, 400_000_000, 1)
        devs[base_id + 2] = (seed, 500_000_000, rng.choice([0, 1]))
        if kind == "nested":
            inner2 = dict(order=[(base_id + 4, "dev")], conns=[(base_id + 4, 2, EXP, 1)])
            devs[base_id + 4] = (seed, 300_000_000, 1)
            cfg[lv_id + 1] = inner2
            inner["order"].append((base_id + 3, lv_id + 1))
        cfg[lv_id] = inner
        cfg[1]["order"].append((base_id, lv_id))
        cfg[1]["order"].append((base_id + 9, "dev"))
        cfg[1]["conns"].append((base_id, 1, base_id + 9, 1))
        devs[base_id + 9] = (seed, 300_000_000, 0)
    e = dict(b)
    e["cfg"], e["devs"] = cfg, devs
    extra_devs = [d for d in devs if d >= base_id]
    e["stim"] = sorted(list(b["stim"]) + [(rng.randrange(50, 2900) * 1_000_000 + 59 * (k + 1), rng.choice(extra_devs))
                                           for k in range(rng.randint(0, 2))])
    return e


def replay_pair(rp):
    def conv(d):
        cfg = {int(k): dict(order=[(c, (k2 if k2 == "dev" else int(k2))) for c, k2 in v["order"]],
                            conns=[tuple(x) for x in v["conns"]]) for k, v in d["cfg"].items()}
        return cfg, {int(k): tuple(v) for k, v in d["devs"].items()}, tuple(d["speed"]), d["initial"], [tuple(s) for s in d["stim"]]
    if rp.get("kind") != "pair":
        return replay_S(rp)
    a, b = conv(rp), conv(rp["second"])
    ra, ta = run_case(*a)
    rb, tb = run_case(*b)
    fn = "check_flat_pair" if rp["mode"] == "flatten" else "check_ext_pair"
    bad = run_shards("replay", HEADER, "pair_case", fn, ["(" + ta + ", " + tb + ")"])
    print("first:", a[0], "second:", b[0])
    print("observed first:", ra["per"], ra["error"])
    print("observed second:", rb["per"], rb["error"])
    print("codes:", bad.get(0, []), [REASONS.get(c) for c in bad.get(0, [])])
    return 1 if bad else 0
