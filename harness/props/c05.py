import sprops

PID = "C05"


def main(tier, seed):
    return sprops.main_S(PID, tier, seed, {61, 62}, "Props.C05",
                         ["Model/Sim.v", "Oracle/SimCheck.v", "Oracle/SimOracle.v", "Proofs/SimP.v", "Props/C05.v"],
                         "initial tick", "initial")


replay = sprops.replay_S
